"""Constants of pym/bob/pathspec.py that the C18 model and theorems depend on: the axis keywords of the
grammar and the axis names compared in LocationStep.evalForward/evalBackward, the alphabet of name tests
(so that `*` is the only fnmatch special character that can occur), the empty-mode names compared in
LocationPath.evalForward."""
import ast
from .astutil import *


def _keyword_args(fn, callee):
    out = []
    for n in ast.walk(fn):
        if isinstance(n, ast.Call) and isinstance(n.func, ast.Attribute) and n.func.attr == callee and n.args \
                and isinstance(n.args[0], ast.Constant) and isinstance(n.args[0].value, str):
            out.append(n.args[0].value)
    return out


def _compared_strings(fn, attr_suffix):
    """string constants compared (== / !=) with a name or attribute ending in attr_suffix"""
    out = []
    for n in ast.walk(fn):
        if isinstance(n, ast.Compare) and len(n.ops) == 1 and isinstance(n.ops[0], (ast.Eq, ast.NotEq)):
            l, r = n.left, n.comparators[0]
            nm = l.attr if isinstance(l, ast.Attribute) else l.id if isinstance(l, ast.Name) else None
            if nm and nm.endswith(attr_suffix) and isinstance(r, ast.Constant) and isinstance(r.value, str):
                if r.value not in out:
                    out.append(r.value)
    return out


def extract(repo):
    t = parse(repo, "pym/bob/pathspec.py")
    init = find(t, "PackageSet", "__init__")
    kws = _keyword_args(init, "Keyword")
    axes = [k for k in kws if k != "."]
    if "." not in kws or len(axes) != len(set(axes)) or not axes:
        raise ExtractError("axis keywords of the path grammar not found: %r" % kws)
    # nodeTest = pyparsing.Word(pyparsing.alphanums + "<extra>")
    extra = None
    for n in ast.walk(init):
        if isinstance(n, ast.Assign) and isinstance(n.targets[0], ast.Name) and n.targets[0].id == "nodeTest":
            c = [x for x in constants(n.value, str)]
            src = ast.dump(n.value)
            if len(c) == 1 and "alphanums" in src:
                extra = c[0]
    if extra is None:
        raise ExtractError("alphabet of nodeTest not found")
    step = find(t, "LocationStep")
    fwd = [a for a in _compared_strings(find(step, "evalForward"), "axis")]
    bwd = [a for a in _compared_strings(find(step, "evalBackward"), "axis")]
    if sorted(fwd) != sorted(axes) or sorted(bwd) != sorted(axes):
        raise ExtractError("axis names differ: grammar %r, evalForward %r, evalBackward %r" % (axes, fwd, bwd))
    modes_cmp = _compared_strings(find(t, "LocationPath", "evalForward"), "emptyMode")
    if sorted(modes_cmp) != ["nullfail", "nullset"]:
        raise ExtractError("empty modes compared in LocationPath.evalForward changed: %r" % modes_cmp)
    # the wildcard test of a step: `'*' in self.__test` and `self.__test == "*"`
    stars = [c for c in constants(find(step, "evalForward"), str) if "*" in c]
    if sorted(set(stars)) != ["*"]:
        raise ExtractError("wildcard constants of LocationStep.evalForward changed: %r" % stars)
    alnum = "abcdefghijklmnopqrstuvwxyzABCDEFGHIJKLMNOPQRSTUVWXYZ0123456789"
    out = [HEADER % "c18", "namespace Consts.C18",
           "def axes : List String := " + lean_str_list(sorted(axes)),
           "def nodeTestChars : List Char := " + lean_chars(alnum + extra),
           "def comparedModes : List String := " + lean_str_list(sorted(modes_cmp)),
           "end Consts.C18", ""]
    return "\n".join(out)
