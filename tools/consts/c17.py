"""Constants of pym/bob/stringparser.py that the C17 model and theorems depend on."""
import ast
from .astutil import *


def _list_assign(fn, name):
    for n in ast.walk(fn):
        if isinstance(n, ast.Assign) and isinstance(n.targets[0], ast.Name) and n.targets[0].id == name:
            return literal(n.value)
    raise ExtractError("no assignment to %s in %s" % (name, fn.name))


def _call_arg_lists(fn, callee):
    out = []
    for n in ast.walk(fn):
        if isinstance(n, ast.Call) and isinstance(n.func, ast.Attribute) and n.func.attr == callee and n.args:
            out.append(n.args[0])
    return out


def extract(repo):
    t = parse(repo, "pym/bob/stringparser.py")
    name_start = literal(module_const(t, "NAME_START"))
    name_chars = literal(module_const(t, "NAME_CHARS"), {"NAME_START": name_start})
    sp = find(t, "StringParser")
    # fast path trigger set: the string iterated in `parse`
    parse_fn = find(sp, "parse")
    trig = [c for c in constants(parse_fn, str) if c and len(c) <= 8 and all(not ch.isalnum() for ch in c)]
    if len(trig) != 1:
        raise ExtractError("fast path trigger set not found: %r" % trig)
    trigger = trig[0]
    nt = find(sp, "nextToken")
    base = _list_assign(nt, "delim")
    esc = None
    for n in ast.walk(nt):
        if isinstance(n, ast.Compare) and isinstance(n.ops[0], ast.Eq) and isinstance(n.comparators[0], ast.Constant) \
                and isinstance(n.comparators[0].value, str) and len(n.comparators[0].value) == 1:
            esc = n.comparators[0].value
    if esc is None:
        raise ExtractError("escape character comparison not found in nextToken")
    gv = find(sp, "getVariable")
    lists = [literal(a) for a in _call_arg_lists(gv, "getString")]
    if lists != [[':', '-', '+', '}'], ['}'], ['}']]:
        raise ExtractError("getVariable delimiter lists changed: %r" % lists)
    gc = find(sp, "getCommand")
    if _list_assign(gc, "delim") != [",", ")"]:
        raise ExtractError("getCommand delimiter list changed")
    gs = find(sp, "getString")
    defaults = [literal(d) for d in gs.args.defaults]
    if defaults != [[None], False, True]:
        raise ExtractError("getString defaults changed: %r" % defaults)
    funs = {}
    for nm in ("DEFAULT_STRING_FUNS", "EXTRA_STRING_FUNS"):
        d = module_const(t, nm)
        for k, v in zip(d.keys, d.values):
            funs[literal(k)] = v.id
    isfalse = find(t, "isFalse")
    falsy = [c for c in constants(isfalse, str)]
    out = [HEADER % "c17", "namespace Consts.C17",
           "def nameStart : List Char := " + lean_chars(name_start),
           "def nameChars : List Char := " + lean_chars(name_chars),
           "def trigger : List Char := " + lean_chars(trigger),
           "def baseDelims : List Char := " + lean_chars("".join(base)),
           "def escapeChar : Char := " + lean_char(esc),
           "def falsy : List String := " + lean_str_list(falsy),
           "def funNames : List String := " + lean_str_list(sorted(funs)),
           "end Consts.C17", ""]
    return "\n".join(out)


def anchors(repo):
    t = parse(repo, "pym/bob/stringparser.py")
    sp = find(t, "StringParser")
    return {"StringParser": anchor_hash(sp)}
