"""Constants of pym/bob/cmds/jenkins/jenkins.py that the C20 model and theorems depend on:
the character class kept by getJobInternalName, its replacement character, the lower-casing, the
separator of longestPrefix / numbering and the numbering offset."""
import ast
from .astutil import *


def _calls(node, attr):
    return [n for n in ast.walk(node) if isinstance(n, ast.Call) and isinstance(n.func, ast.Attribute) and n.func.attr == attr]


def extract(repo):
    t = parse(repo, "pym/bob/cmds/jenkins/jenkins.py")
    cls = find(t, "JobNameCalculator")
    init = find(cls, "__init__")
    pats = [c for c in _calls(init, "compile") if c.args and isinstance(c.args[0], ast.Constant) and isinstance(c.args[0].value, str)]
    if len(pats) != 1:
        raise ExtractError("regex of the job name not found in JobNameCalculator.__init__")
    pattern = pats[0].args[0].value
    try:
        import re._parser as sre
    except ImportError:  # pragma: no cover
        import sre_parse as sre
    parsed = list(sre.parse(pattern))
    if len(parsed) != 1 or str(parsed[0][0]) != "IN":
        raise ExtractError("job name regex is not a single character class: %r" % pattern)
    items = list(parsed[0][1])
    if not items or str(items[0][0]) != "NEGATE":
        raise ExtractError("job name regex is not a negated character class: %r" % pattern)
    ranges = []
    for op, arg in items[1:]:
        if str(op) == "RANGE":
            ranges.append((arg[0], arg[1]))
        elif str(op) == "LITERAL":
            ranges.append((arg, arg))
        else:
            raise ExtractError("unsupported item %s in job name regex %r" % (op, pattern))
    internal = find(cls, "getJobInternalName")
    subs = _calls(internal, "sub")
    if len(subs) != 1 or not isinstance(subs[0].args[0], ast.Constant) or len(subs[0].args[0].value) != 1:
        raise ExtractError("replacement character of getJobInternalName not found")
    repl = subs[0].args[0].value
    lower = bool(_calls(internal, "lower"))
    if _calls(internal, "upper") or _calls(internal, "casefold"):
        raise ExtractError("getJobInternalName changes case in an unmodelled way")
    san = find(cls, "sanitize")
    splits = [c.args[0].value for c in _calls(san, "split") if c.args and isinstance(c.args[0], ast.Constant)]
    joins = [c.func.value.value for c in _calls(san, "join") if isinstance(c.func.value, ast.Constant)]
    fmts = [c for c in _calls(san, "format") if isinstance(c.func.value, ast.Constant)]
    if len(splits) != 1 or len(joins) != 1 or splits[0] != joins[0] or len(splits[0]) != 1:
        raise ExtractError("separator of longestPrefix not found: split %r join %r" % (splits, joins))
    sep = splits[0]
    if len(fmts) != 1 or fmts[0].func.value.value != "{}" + sep + "{}" or len(fmts[0].args) != 2:
        raise ExtractError("numbering format of sanitize not found")
    num = fmts[0].args[1]
    if isinstance(num, ast.BinOp) and isinstance(num.op, ast.Add) and isinstance(num.right, ast.Constant) and isinstance(num.left, ast.Name):
        offset = num.right.value
    elif isinstance(num, ast.Name):
        offset = 0
    else:
        raise ExtractError("numbering expression of sanitize not understood: " + ast.dump(num))
    out = [HEADER % "c20", "namespace Consts.C20",
           "def keepRanges : List (Nat × Nat) := [" + ", ".join("(%d, %d)" % r for r in ranges) + "]",
           "def replChar : Char := " + lean_char(repl),
           "def lowerCase : Bool := " + ("true" if lower else "false"),
           "def sepChar : Char := " + lean_char(sep),
           "def numberOffset : Nat := %d" % offset,
           "end Consts.C20", ""]
    return "\n".join(out)


def anchors(repo):
    t = parse(repo, "pym/bob/cmds/jenkins/jenkins.py")
    return {"JobNameCalculator": anchor_hash(find(t, "JobNameCalculator")),
            "_genJenkinsJobs": anchor_hash(find(t, "_genJenkinsJobs")),
            "JenkinsJob.addStep": anchor_hash(find(find(t, "JenkinsJob"), "addStep")),
            "genJenkinsBuildOrder": anchor_hash(find(t, "genJenkinsBuildOrder"))}
