"""Constants and source shape of the package-graph caches (pym/bob/input.py, utils.py, pathspec.py) that the
C04 model and theorems depend on.

1. constants: struct formats of the cache key / YAML cache digest encoders, the `binStat` record length,
   the sandbox flag bytes, the cache file names;
2. shape of the key computations: the exact sequence of `h.update(...)` calls in `RecipeSet.generatePackages`
   and `YamlCache.close`, and the lookup key of `YamlCache.loadYaml`;
3. source-shape check of `Recipe.prepare`: every attribute access / escape of the tracked objects (the input
   environment, the input tools and everything derived from them) is classified tracked / untracked against an
   allow-list.  A new untracked read raises ExtractError (= broken tie).
"""
import ast
import struct
from .astutil import *

# ---------------------------------------------------------------------------------- Recipe.prepare shape

TRACKED_OBJECTS = {"inputEnv", "inputTools", "env", "tools", "depEnv", "depTools", "thisDepEnv", "thisDepTools"}

# methods of stringparser.Env that read through the tracked accessors, create a sharing copy, or only write
TRACKED_ATTRS = {"derive", "copy", "touchReset", "touch", "setFunArgs", "update", "substitute", "evaluate",
                 "substituteCondDict", "prune", "get"}

# untracked escapes that exist today, with the number of occurrences and why each is (or is not) harmless.
# ("inputTools", "inspect") - the names of all ambient tools for `inherit: False`, finding F-C04-1 - was removed by
# commit 4680878; its return is reported as a new untracked access.
ALLOWED_UNTRACKED = {
    ("inputEnv", "detach"): (1, "argument of PackageMatcher.matches (compares touched keys only)"),
    ("inputTools", "detach"): (1, "argument of PackageMatcher.matches (compares touched keys only)"),
    ("tools", "inspect"): (1, "toolsView: tool objects of names that are touched afterwards by tools.touch(toolDepPackage)"),
    ("tools", "detach"): (1, "all tools stored in the CorePackage; steps filter them by the touched toolDep set"),
}

# callables that receive a tracked object as an argument (the object escapes; reads inside are tracked because the
# callee can only use the Env interface)
ALLOWED_ESCAPES = {
    "m.touch", "s.onEnter", "s.onFinish", "pattern.resolve", "substituteAuditFiles",
    "p.createCoreCheckoutStep", "tool.prepare", "CoreSandbox", "PackageMatcher", "r.prepare",
}


def _callee_name(f):
    if isinstance(f, ast.Name):
        return f.id
    if isinstance(f, ast.Attribute):
        return _callee_name(f.value) + "." + f.attr
    return "?"


def prepare_shape(prep):
    """returns (untracked reads {(obj, attr): n}, escapes set); raises on an unknown attribute"""
    untracked = {}
    escapes = set()
    for n in ast.walk(prep):
        if isinstance(n, ast.Attribute) and isinstance(n.value, ast.Name) and n.value.id in TRACKED_OBJECTS:
            if n.attr in TRACKED_ATTRS:
                continue
            key = (n.value.id, n.attr)
            untracked[key] = untracked.get(key, 0) + 1
        if isinstance(n, ast.Call):
            args = list(n.args) + [k.value for k in n.keywords]
            for a in args:
                if isinstance(a, ast.Name) and a.id in TRACKED_OBJECTS:
                    name = _callee_name(n.func)
                    # methods of the tracked objects themselves are classified above
                    if isinstance(n.func, ast.Attribute) and isinstance(n.func.value, ast.Name) \
                            and n.func.value.id in TRACKED_OBJECTS:
                        continue
                    escapes.add(name)
    return untracked, escapes


def check_prepare(tree):
    prep = find(tree, "Recipe", "prepare")
    untracked, escapes = prepare_shape(prep)
    for key, n in sorted(untracked.items()):
        if key not in ALLOWED_UNTRACKED:
            raise ExtractError("Recipe.prepare: new untracked access %s.%s (not a tracked accessor of Env)" % key)
        if n > ALLOWED_UNTRACKED[key][0]:
            raise ExtractError("Recipe.prepare: %d untracked accesses %s.%s, only %d are accounted for"
                               % (n, key[0], key[1], ALLOWED_UNTRACKED[key][0]))
    new = escapes - ALLOWED_ESCAPES
    if new:
        raise ExtractError("Recipe.prepare: tracked object passed to unknown callee(s) %s" % sorted(new))
    # the memo lookup has to precede the first touchReset, and the hit has to touch the caller's environment
    src_order = []
    for n in ast.walk(prep):
        if isinstance(n, ast.Call):
            nm = _callee_name(n.func)
            if nm in ("m.matches", "m.touch", "inputEnv.touchReset", "inputTools.touchReset", "PackageMatcher",
                      "env.touch", "tools.touch"):
                src_order.append((n.lineno, n.col_offset, nm))
    names = [nm for _, _, nm in sorted(src_order)]
    want = ["m.matches", "m.touch", "inputTools.touchReset", "inputEnv.touchReset", "env.touch", "tools.touch",
            "PackageMatcher"]
    if names != want:
        raise ExtractError("Recipe.prepare: memo protocol changed: %r" % names)
    return untracked, escapes, prep


def check_matcher(tree):
    pm = find(tree, "PackageMatcher")
    slots = None
    for c in pm.body:
        if isinstance(c, ast.Assign) and c.targets[0].id == "__slots__":
            slots = literal(c.value)
    if slots is None:
        raise ExtractError("PackageMatcher.__slots__ not found")
    m = find(pm, "matches")
    compared = []
    for n in ast.walk(m):
        if isinstance(n, ast.Compare) and isinstance(n.ops[0], ast.NotEq):
            l = n.left
            if isinstance(l, ast.Attribute) and isinstance(l.value, ast.Name) and l.value.id == "self":
                compared.append(l.attr)
            elif isinstance(l, ast.Name):
                compared.append(l.id)
    rets = [literal(r.value) for r in ast.walk(m) if isinstance(r, ast.Return)]
    if sorted(compared) != sorted(["env", "tool", "sandbox", "states", "packageName"]) or rets.count(True) != 1 \
            or rets.count(False) != 5:
        raise ExtractError("PackageMatcher.matches no longer compares env, tools, sandbox, states, packageName: %r / %r"
                           % (compared, rets))
    return list(slots)


# ---------------------------------------------------------------------------------- key computations

def _updates(fn, hname="h"):
    """the arguments of hname.update(...) in source order, rendered as short tags"""
    calls = []
    for n in ast.walk(fn):
        if isinstance(n, ast.Call) and isinstance(n.func, ast.Attribute) and n.func.attr == "update" \
                and isinstance(n.func.value, ast.Name) and n.func.value.id == hname:
            calls.append((n.lineno, n.col_offset, n.args[0]))
    out = []
    for _, _, a in sorted(calls, key=lambda c: (c[0], c[1])):
        out.append(_tag(a))
    return out


def _tag(a):
    if isinstance(a, ast.Name):
        return "name:" + a.id
    if isinstance(a, ast.Call) and isinstance(a.func, ast.Attribute) and a.func.attr == "pack":
        return "pack:" + literal(a.args[0]) + ":" + ",".join(ast.unparse(x) for x in a.args[1:])
    if isinstance(a, ast.Call) and isinstance(a.func, ast.Attribute) and a.func.attr == "encode":
        return "utf8:" + ast.unparse(a.func.value)
    if isinstance(a, ast.Call):
        return "call:" + ast.unparse(a.func)
    if isinstance(a, ast.IfExp):
        return "if:%s:%s:%s" % (ast.unparse(a.test), literal(a.body).hex(), literal(a.orelse).hex())
    return "expr:" + ast.unparse(a)


WANT_KEY = ["name:BOB_INPUT_HASH", "call:self.__cache.getDigest", "pack:<I:len(self.__rootEnv)",
            "pack:<II:len(key),len(val)", "utf8:key + val", "if:sandboxEnabled:01:00"]
WANT_FILES = ["pack:<I:len(name)", "utf8:name", "name:data"]


def _for_iter(fn, var_names):
    for n in ast.walk(fn):
        if isinstance(n, ast.For) and ast.unparse(n.target).replace("(", "").replace(")", "").replace(" ", "") == var_names:
            return ast.unparse(n.iter)
    raise ExtractError("loop over %s not found in %s" % (var_names, fn.name))


def extract(repo):
    t = parse(repo, "pym/bob/input.py")
    untracked, escapes, prep = check_prepare(t)
    slots = check_matcher(t)

    rs = find(t, "RecipeSet")
    gp = find(rs, "generatePackages")
    key = _updates(gp)
    if key != WANT_KEY:
        raise ExtractError("package cache key composition changed: %r" % key)
    it = _for_iter(gp, "key,val")
    if it != "sorted(self.__rootEnv.inspect().items())":
        raise ExtractError("cache key: root environment is not iterated sorted and complete: " + it)
    gen = find(rs, "__generatePackages")
    names = [c for c in constants(gen, str) if c.startswith(".bob-packages")]
    if names != [".bob-packages-sb.pickle", ".bob-packages.pickle"]:
        raise ExtractError("package cache file names changed: %r" % names)
    cmp_ok = any(isinstance(n, ast.Compare) and ast.unparse(n) == "cacheKey == persistedCacheKey" for n in ast.walk(gen))
    if not cmp_ok:
        raise ExtractError("__generatePackages no longer compares the persisted cache key")

    yc = find(t, "YamlCache")
    files = _updates(find(yc, "close"))
    if files != WANT_FILES:
        raise ExtractError("YamlCache.close digest composition changed: %r" % files)
    it = _for_iter(find(yc, "close"), "name,data")
    if it != "sorted(self.__files.items())":
        raise ExtractError("YamlCache.close does not iterate sorted(self.__files.items()): " + it)
    ly = find(yc, "loadYaml")
    sql = [c for c in constants(ly, str) if c.upper().startswith("SELECT")]
    if len(sql) != 1 or "WHERE name=? AND stat=?" not in sql[0]:
        raise ExtractError("YamlCache.loadYaml lookup is not keyed by (name, stat): %r" % sql)
    bs = None
    for n in ast.walk(ly):
        if isinstance(n, ast.Assign) and isinstance(n.targets[0], ast.Name) and n.targets[0].id == "bs":
            bs = ast.unparse(n.value)
    if bs != "binStat(name) + yamlSchema[1]":
        raise ExtractError("YamlCache.loadYaml stat key changed: %r" % bs)
    cache_db = [c for c in constants(find(yc, "open"), str) if c.startswith(".bob-")]
    if cache_db != [".bob-cache.sqlite3"]:
        raise ExtractError("YAML cache file name changed: %r" % cache_db)
    # loadBinary must record the digest of the content under the file name
    lb = find(yc, "loadBinary")
    if "self.__files[name] = hashlib.sha1(result).digest()" not in ast.unparse(lb):
        raise ExtractError("YamlCache.loadBinary does not record the content digest")

    u = parse(repo, "pym/bob/utils.py")
    fmt = [c for c in constants(find(u, "binStat"), str)]
    if len(fmt) != 1:
        raise ExtractError("binStat format not found")
    stat_len = struct.calcsize(fmt[0])
    fields = [ast.unparse(a) for n in ast.walk(find(u, "binStat")) if isinstance(n, ast.Call)
              and isinstance(n.func, ast.Attribute) and n.func.attr == "pack" for a in n.args[1:]]
    for need in ("st.st_ctime_ns", "st.st_mtime_ns", "st.st_size", "st.st_mode"):
        if need not in fields:
            raise ExtractError("binStat no longer includes " + need)

    p = parse(repo, "pym/bob/pathspec.py")
    tree_db = [c for c in constants(find(p, "PackageSet"), str) if c.startswith(".bob-")]
    if tree_db != [".bob-tree.sqlite3"]:
        raise ExtractError("graph cache file name changed: %r" % tree_db)
    init = ast.unparse(find(p, "PkgGraphNode", "init"))
    if "vsn[0] != cacheKey" not in init:
        raise ExtractError("PkgGraphNode.init no longer compares the stored key with cacheKey")

    out = [HEADER % "c04", "namespace Consts.C04",
           "/-- bytes of one `struct.pack('<I', n)` length field -/",
           "def lenBytes : Nat := %d" % struct.calcsize("<I"),
           "/-- length of `binStat(path)` (format %s) -/" % fmt[0],
           "def statLen : Nat := %d" % stat_len,
           "def flagTrue : UInt8 := 1",
           "def flagFalse : UInt8 := 0",
           "def keyParts : List String := " + lean_str_list(key),
           "def filesParts : List String := " + lean_str_list(files),
           "def matcherSlots : List String := " + lean_str_list(slots),
           "def cacheFiles : List String := " + lean_str_list(cache_db + names + tree_db),
           "def untrackedReads : List String := " + lean_str_list(
               ["%s.%s x%d" % (k[0], k[1], n) for k, n in sorted(untracked.items())]),
           "def escapes : List String := " + lean_str_list(sorted(escapes)),
           "end Consts.C04", ""]
    return "\n".join(out)


def anchors(repo):
    t = parse(repo, "pym/bob/input.py")
    s = parse(repo, "pym/bob/stringparser.py")
    return {"Recipe.prepare": anchor_hash(find(t, "Recipe", "prepare")),
            "PackageMatcher": anchor_hash(find(t, "PackageMatcher")),
            "YamlCache": anchor_hash(find(t, "YamlCache")),
            "Env": anchor_hash(find(s, "Env"))}
