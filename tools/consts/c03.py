"""Constants of the Build-Id / Variant-Id encoder of pym/bob/intermediate.py (StepIR.getDigestCoro).
Props/C03.lean checks by `decide` that they agree with the constants of CoreStep.getDigest
(Generated/ConstsC02.lean), so that one model serves both encoders."""
import ast
from .astutil import *
from .c02 import digest_consts, slice_bounds


def extract(repo):
    t = parse(repo, "pym/bob/intermediate.py")
    fn = find(t, "StepIR", "getDigestCoro")
    fmts, pad, empty = digest_consts(fn, "StepIR.getDigestCoro")
    # defaults of the keyword parameters: fingerprint=None, platform=b'', relaxTools=False
    names = [a.arg for a in fn.args.args]
    defaults = dict(zip(names[len(names) - len(fn.args.defaults):], fn.args.defaults))
    for k in ("fingerprint", "platform", "relaxTools"):
        if k not in defaults:
            raise ExtractError("getDigestCoro lost its parameter " + k)
    platform = literal(defaults["platform"])
    relax = literal(defaults["relaxTools"])
    if not isinstance(platform, bytes) or not isinstance(relax, bool):
        raise ExtractError("unexpected defaults of getDigestCoro")
    # the constants of CoreStep.getDigest again (pym/bob/input.py), so that a C03 run notices when they
    # drift from what the shared model was built against (Generated/ConstsC02.lean)
    ti = parse(repo, "pym/bob/input.py")
    sfmts, spad, sempty = digest_consts(find(ti, "CoreStep", "getDigest"), "CoreStep.getDigest")
    _, shi = slice_bounds(find(ti, "DigestHasher", "sliceRecipes"))
    slo, _ = slice_bounds(find(ti, "DigestHasher", "sliceHost"))
    out = [HEADER % "c03", "namespace Consts.C03",
           "def stepFmts : List String := " + lean_str_list(sfmts),
           "def stepPad : List Nat := " + lean_nat_list(spad),
           "def stepEmptyScript : List Nat := " + lean_nat_list(sempty),
           "def sliceLen : Nat := %d" % shi,
           "def hostFrom : Nat := %d" % slo,
           "def fmts : List String := " + lean_str_list(fmts),
           "def pad : List Nat := " + lean_nat_list(pad),
           "def emptyScript : List Nat := " + lean_nat_list(empty),
           "def defaultPlatform : List Nat := " + lean_nat_list(platform),
           "def defaultRelax : Bool := " + ("true" if relax else "false"),
           "end Consts.C03", ""]
    return "\n".join(out)


def anchors(repo):
    t = parse(repo, "pym/bob/intermediate.py")
    return {"StepIR.getDigestCoro": anchor_hash(find(t, "StepIR", "getDigestCoro"))}
