"""Constants of pym/bob/scm/scm.py, pym/bob/scm/git.py and pym/bob/builder.py that the C12 model depends on:
the taint sets of ScmStatus.dirty / expendable, the property sets of GitScm.canSwitch, and the exact git
commands (flags) that move a branch or HEAD of an existing clone."""
import ast
from .astutil import *


def _taint_names(fn):
    """names X of all `ScmTaint.X` below fn, in source order"""
    out = []
    for n in ast.walk(fn):
        if isinstance(n, ast.Attribute) and isinstance(n.value, ast.Name) and n.value.id == "ScmTaint":
            out.append(n.attr)
    return out


def _str_sets(fn):
    out = []
    for n in ast.walk(fn):
        if isinstance(n, ast.Set) and all(isinstance(e, ast.Constant) and isinstance(e.value, str) for e in n.elts):
            out.append(sorted(e.value for e in n.elts))
    return out


def _cmd_lists(fn, word):
    """string constants of every list literal below fn that contains the constant `word`"""
    out = []
    for n in ast.walk(fn):
        if isinstance(n, ast.List):
            consts = []
            for e in n.elts:
                if isinstance(e, ast.Constant) and isinstance(e.value, str):
                    consts.append(e.value)
                elif isinstance(e, ast.BinOp) and isinstance(e.left, ast.Constant) and isinstance(e.left.value, str):
                    consts.append(e.left.value)
            if word in consts:
                out.append(consts)
    return out


def extract(repo):
    scm = parse(repo, "pym/bob/scm/scm.py")
    st = find(scm, "ScmStatus")
    dirty = _taint_names(find(st, "dirty"))
    exp = _taint_names(find(st, "expendable"))
    if not dirty or not exp:
        raise ExtractError("taint sets of ScmStatus.dirty/expendable not found")
    enum = find(scm, "ScmTaint")
    letters = {}
    for c in enum.body:
        if isinstance(c, ast.Assign) and isinstance(c.targets[0], ast.Name):
            letters[c.targets[0].id] = literal(c.value)
    git = parse(repo, "pym/bob/scm/git.py")
    g = find(git, "GitScm")
    cs = find(g, "canSwitch")
    sets = _str_sets(cs)
    if len(sets) != 2:
        raise ExtractError("GitScm.canSwitch: expected the filter set and the switchable set, got %r" % sets)
    ignored, switchable = (sets[0], sets[1]) if len(sets[0]) > len(sets[1]) else (sets[1], sets[0])
    tob = find(g, "__checkoutTagOnBranch")
    resets = _cmd_lists(tob, "reset")
    if len(resets) != 1:
        raise ExtractError("__checkoutTagOnBranch: expected one git reset, got %r" % resets)
    guard = any("would" in c and "lost" in c for c in constants(tob, str))
    fwd = find(g, "__forwardBranch")
    merges = _cmd_lists(fwd, "merge")
    if len(merges) != 1:
        raise ExtractError("__forwardBranch: expected one git merge, got %r" % merges)
    # every command of the class that can move HEAD / a branch / the work tree of an existing clone
    movers = []
    for fn in g.body:
        if isinstance(fn, (ast.FunctionDef, ast.AsyncFunctionDef)):
            for w in ("checkout", "reset", "merge", "rebase", "clean", "stash", "pull"):
                for l in _cmd_lists(fn, w):
                    if l and l[0] == "git":
                        movers.append([x for x in l if x.startswith("-") or x in (w,)])
    flags = sorted({x for l in movers for x in l})
    sw = find(g, "switch")
    sw_fail = sorted(c for c in constants(sw, str) if c.startswith("Cannot switch"))
    out = [HEADER % "c12", "namespace Consts.C12",
           "def dirtyTaints : List String := " + lean_str_list(sorted(set(dirty))),
           "def notExpendableTaints : List String := " + lean_str_list(sorted(set(exp))),
           "def taintLetters : List (String × String) := [" + ", ".join("(%s, %s)" % (lean_str(k), lean_str(v)) for k, v in sorted(letters.items())) + "]",
           "def gitSwitchable : List String := " + lean_str_list(switchable),
           "def gitIgnoredProps : List String := " + lean_str_list(ignored),
           "def resetCmd : List String := " + lean_str_list(resets[0]),
           "def forwardCmd : List String := " + lean_str_list(merges[0]),
           "def moverWords : List String := " + lean_str_list(flags),
           "def lostGuard : Bool := " + ("true" if guard else "false"),
           "def switchRefusals : List String := " + lean_str_list(sw_fail),
           "end Consts.C12", ""]
    return "\n".join(out)


def anchors(repo):
    git = parse(repo, "pym/bob/scm/git.py")
    g = find(git, "GitScm")
    b = parse(repo, "pym/bob/builder.py")
    return {"GitScm.switch": anchor_hash(find(g, "switch")), "GitScm.canSwitch": anchor_hash(find(g, "canSwitch")),
            "_cookCheckoutStep": anchor_hash(find(b, "LocalBuilder", "_cookCheckoutStep"))}
