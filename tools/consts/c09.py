"""Constants of pym/bob/archive.py that the C09 model (Model/ArchiveFS.lean) and theorems depend on:
the `overwrite` argument at every call site of `_openUploadFile`, which suffix each entry point
publishes under, the order of the file system calls in `LocalArchiveUploader.__exit__` and where the
temporary file is created."""
import ast
from .astutil import *


def _calls(node):
    """Call nodes below `node` in source order"""
    cs = [n for n in ast.walk(node) if isinstance(n, ast.Call)]
    cs.sort(key=lambda n: (n.lineno, n.col_offset))
    return cs


def _dotted(f):
    if isinstance(f, ast.Attribute):
        b = _dotted(f.value)
        return (b + "." if b else "") + f.attr
    if isinstance(f, ast.Name):
        return f.id
    return ""


def _open_upload_call(fn):
    cs = [c for c in _calls(fn) if isinstance(c.func, ast.Attribute) and c.func.attr == "_openUploadFile"]
    if len(cs) != 1:
        raise ExtractError("%s: expected exactly one _openUploadFile call, found %d" % (fn.name, len(cs)))
    c = cs[0]
    if len(c.args) != 3 or c.keywords:
        raise ExtractError("%s: _openUploadFile call shape changed" % fn.name)
    ow = c.args[2]
    if not (isinstance(ow, ast.Constant) and isinstance(ow.value, bool)):
        raise ExtractError("%s: overwrite argument is not a literal" % fn.name)
    sfx = c.args[1].id if isinstance(c.args[1], ast.Name) else None
    return ow.value, sfx


def _executor_suffix(fn, callee):
    """suffix constant name handed to BaseArchive.<callee> through run_in_executor"""
    for c in _calls(fn):
        if isinstance(c.func, ast.Attribute) and c.func.attr == "run_in_executor":
            names = [_dotted(a) for a in c.args]
            if "BaseArchive." + callee in names:
                sfx = [n for n in names if n.endswith("_SUFFIX") or n == "suffix"]
                if len(sfx) == 1:
                    return sfx[0]
    raise ExtractError("%s: no run_in_executor(BaseArchive.%s, ..suffix..) call" % (fn.name, callee))


def _lean_bool(b):
    return "true" if b else "false"


def extract(repo):
    t = parse(repo, "pym/bob/archive.py")
    sfx = {n: literal(module_const(t, n)) for n in ("ARTIFACT_SUFFIX", "BUILDID_SUFFIX", "FINGERPRINT_SUFFIX")}
    base = find(t, "BaseArchive")
    ow_pkg, s_pkg = _open_upload_call(find(base, "_uploadPackage"))
    ow_cache, s_cache = _open_upload_call(find(base, "cachePackage"))
    ow_meta, s_meta = _open_upload_call(find(base, "_uploadLocalFile"))
    if s_pkg != "suffix" or s_meta != "suffix":
        raise ExtractError("_uploadPackage/_uploadLocalFile no longer pass their `suffix` parameter through")
    # which suffix reaches _uploadPackage: `suffix = ARTIFACT_SUFFIX` in uploadPackage
    up = find(base, "uploadPackage")
    assigned = [n.value.id for n in ast.walk(up) if isinstance(n, ast.Assign) and isinstance(n.targets[0], ast.Name)
                and n.targets[0].id == "suffix" and isinstance(n.value, ast.Name)]
    if _executor_suffix(up, "_uploadPackage") != "suffix" or len(assigned) != 1:
        raise ExtractError("uploadPackage: suffix hand-over changed")
    pkg_is_art = assigned[0] == "ARTIFACT_SUFFIX"
    cache_is_art = s_cache == "ARTIFACT_SUFFIX"
    metas = [_executor_suffix(find(base, "uploadLocalLiveBuildId"), "_uploadLocalFile"),
             _executor_suffix(find(base, "uploadLocalFingerprint"), "_uploadLocalFile")]
    for m in metas:
        if m not in sfx:
            raise ExtractError("metadata upload with unknown suffix " + m)
    # order of the calls in LocalArchiveUploader.__exit__
    ex = find(t, "LocalArchiveUploader", "__exit__")
    ops = []
    for c in _calls(ex):
        d = _dotted(c.func)
        if d.startswith("self."):
            d = d[5:]
        if d == "isWindows":
            continue
        ops.append(d)
    # the temporary file: NamedTemporaryFile(dir=<destination directory>, delete=False)
    la = find(t, "LocalArchive", "_openUploadFile")
    ntf = [c for c in _calls(la) if _dotted(c.func) == "NamedTemporaryFile"]
    if len(ntf) != 1:
        raise ExtractError("LocalArchive._openUploadFile: NamedTemporaryFile call not found")
    kw = {k.arg: k.value for k in ntf[0].keywords}
    mk = [c for c in _calls(la) if _dotted(c.func) == "os.makedirs"]
    dirvar = mk[0].args[0].id if mk and mk[0].args and isinstance(mk[0].args[0], ast.Name) else None
    tmp_in_dest = (not ntf[0].args and isinstance(kw.get("dir"), ast.Name) and dirvar is not None
                   and kw["dir"].id == dirvar)
    tmp_keep = isinstance(kw.get("delete"), ast.Constant) and kw["delete"].value is False
    # the exists check: `if not overwrite and os.path.isfile(...)`: raise ArtifactExistsError
    checks = [_dotted(c.func) for c in _calls(la) if _dotted(c.func) in ("os.path.isfile", "os.path.exists")]
    # cache mirroring: after `self._extract(fo, ...)` inside `with Tee(...) as fo:` the rest of the
    # upstream file is drained (`while fo.read(..): pass`), so that the mirror receives the whole file
    dl = find(base, "_downloadPackage")
    drains = False
    for w in ast.walk(dl):
        if isinstance(w, ast.With) and any(isinstance(i.context_expr, ast.Call) and _dotted(i.context_expr.func) == "Tee"
                                           and isinstance(i.optional_vars, ast.Name) for i in w.items):
            var = [i.optional_vars.id for i in w.items if isinstance(i.optional_vars, ast.Name)][-1]
            seen_extract = False
            for st in w.body:
                if isinstance(st, ast.Expr) and isinstance(st.value, ast.Call) and _dotted(st.value.func) == "self._extract":
                    seen_extract = True
                elif seen_extract and isinstance(st, ast.While) and isinstance(st.test, ast.Call) \
                        and _dotted(st.test.func) == var + ".read" and not st.orelse \
                        and all(isinstance(b, ast.Pass) for b in st.body):
                    drains = True
    out = [HEADER % "c09", "namespace Consts.C09",
           "def artifactSuffix : String := " + lean_str(sfx["ARTIFACT_SUFFIX"]),
           "def buildidSuffix : String := " + lean_str(sfx["BUILDID_SUFFIX"]),
           "def fprntSuffix : String := " + lean_str(sfx["FINGERPRINT_SUFFIX"]),
           "def overwritePackage : Bool := " + _lean_bool(ow_pkg),
           "def overwriteCache : Bool := " + _lean_bool(ow_cache),
           "def overwriteMeta : Bool := " + _lean_bool(ow_meta),
           "def packageSuffixIsArtifact : Bool := " + _lean_bool(pkg_is_art),
           "def cacheSuffixIsArtifact : Bool := " + _lean_bool(cache_is_art),
           "def metaSuffixes : List String := " + lean_str_list([sfx[m] for m in metas]),
           "def exitOps : List String := " + lean_str_list(ops),
           "def openChecks : List String := " + lean_str_list(checks),
           "def tmpInDestDir : Bool := " + _lean_bool(tmp_in_dest),
           "def tmpKept : Bool := " + _lean_bool(tmp_keep),
           "def mirrorDrains : Bool := " + _lean_bool(drains),
           "end Consts.C09", ""]
    return "\n".join(out)


def anchors(repo):
    t = parse(repo, "pym/bob/archive.py")
    return {"LocalArchiveUploader": anchor_hash(find(t, "LocalArchiveUploader")),
            "LocalArchive._openUploadFile": anchor_hash(find(t, "LocalArchive", "_openUploadFile")),
            "Tee": anchor_hash(find(t, "Tee")), "MirrorWriter": anchor_hash(find(t, "MirrorWriter")),
            "MirrorLeecher": anchor_hash(find(t, "MirrorLeecher"))}
