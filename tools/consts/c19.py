"""Facts about ArchiveScanner (pym/bob/cmds/archive.py) that decide which scan function of the C19 model
is the model of the current source: does `scan` forget rows (and references) of artifacts it did not see,
does `__scan` drop the references of a row it re-reads."""
import ast
from .astutil import *


def _sql(fn):
    """normalised SQL texts passed to execute/executemany/executescript inside fn"""
    out = []
    for n in ast.walk(fn):
        if isinstance(n, ast.Call) and isinstance(n.func, ast.Attribute) and n.func.attr.startswith("execute") and n.args \
                and isinstance(n.args[0], ast.Constant) and isinstance(n.args[0].value, str):
            out.append(" ".join(n.args[0].value.split()).upper())
    return out


def detect(repo):
    t = parse(repo, "pym/bob/cmds/archive.py")
    sc = find(t, "ArchiveScanner")
    scan = find(sc, "scan")
    one = None
    for c in ast.iter_child_nodes(sc):
        if isinstance(c, ast.FunctionDef) and c.name.endswith("__scan"):
            one = c
    if one is None:
        raise ExtractError("ArchiveScanner.__scan not found")
    scan_sql, one_sql = _sql(scan), _sql(one)
    if not any(s.startswith("SELECT STAT FROM FILES") for s in one_sql) or not any(s.startswith("INSERT INTO FILES") for s in one_sql):
        raise ExtractError("ArchiveScanner.__scan does not look like the modelled function any more: %r" % one_sql)
    version = None
    for c in sc.body:
        if isinstance(c, ast.Assign) and isinstance(c.targets[0], ast.Name) and c.targets[0].id == "CUR_VERSION":
            version = literal(c.value)
    if version is None:
        raise ExtractError("CUR_VERSION not found")
    return {
        "dropsUnseenRows": any(s.startswith("DELETE FROM FILES") for s in scan_sql),
        "dropsOwnerlessRefs": any(s.startswith("DELETE FROM REFS") for s in scan_sql),
        "rereadDropsRefs": any(s.startswith("DELETE FROM REFS") for s in one_sql),
        "version": version,
    }


def scan_model(repo):
    d = detect(repo)
    return "repaired" if d["dropsUnseenRows"] and d["dropsOwnerlessRefs"] and d["rereadDropsRefs"] else "current"


def extract(repo):
    d = detect(repo)
    b = lambda x: "true" if x else "false"
    out = [HEADER % "c19", "namespace Consts.C19",
           "/-- `scan` deletes the rows of artifacts it did not see -/",
           "def scanDropsUnseenRows : Bool := " + b(d["dropsUnseenRows"]),
           "/-- `scan` deletes references whose owner has no row -/",
           "def scanDropsOwnerlessRefs : Bool := " + b(d["dropsOwnerlessRefs"]),
           "/-- `__scan` deletes the references of a row that it re-reads -/",
           "def rereadDropsRefs : Bool := " + b(d["rereadDropsRefs"]),
           "def indexVersion : Nat := %d" % d["version"],
           "end Consts.C19", ""]
    return "\n".join(out)


def anchors(repo):
    t = parse(repo, "pym/bob/cmds/archive.py")
    return {"ArchiveScanner": anchor_hash(find(t, "ArchiveScanner")), "RetainExpression": anchor_hash(find(t, "RetainExpression")),
            "query": anchor_hash(find(t, "query")), "doArchiveClean": anchor_hash(find(t, "doArchiveClean"))}
