"""Constants and structural facts of pym/bob/archive.py, utils.py and builder.py that the C08 model and its theorems
depend on: the name space strings of the member dispatch, the pax version, and WHICH confinement checks the current
source performs (each one becomes a Bool/Nat that selects the dispatch `Cfg.current` the theorems are stated for).
A check that disappears from the source therefore breaks `extract_confined` at build time."""
import ast
from .astutil import *


def _calls(node, attr):
    return [n for n in ast.walk(node) if isinstance(n, ast.Call) and isinstance(n.func, ast.Attribute) and n.func.attr == attr]


def _is_attr(node, base, attr):
    return isinstance(node, ast.Attribute) and node.attr == attr and isinstance(node.value, ast.Name) and node.value.id == base


def _raises_builderror(node):
    return any(isinstance(n, ast.Raise) and isinstance(n.exc, ast.Call) and getattr(n.exc.func, "id", None) == "BuildError"
               for n in ast.walk(node))


def extract(repo):
    t = parse(repo, "pym/bob/archive.py")
    th = find(t, "TarHelper")
    ep = find(th, "__extractPackage")

    # --- pax version test:  tar.pax_headers.get('bob-archive-vsn', "0") != "1"
    vsn = None
    for n in ast.walk(ep):
        if isinstance(n, ast.Compare) and isinstance(n.ops[0], ast.NotEq) and isinstance(n.left, ast.Call) \
                and isinstance(n.left.func, ast.Attribute) and n.left.func.attr == "get" and len(n.left.args) == 2:
            vsn = (literal(n.left.args[0]), literal(n.left.args[1]), literal(n.comparators[0]))
    if vsn is None or vsn[0] != "bob-archive-vsn":
        raise ExtractError("pax version test not found in __extractPackage")

    # --- member dispatch: the `while` body is one if/elif chain over f.name
    loop = [n for n in ep.body if isinstance(n, ast.While)]
    if len(loop) != 1 or not isinstance(loop[0].body[0], ast.If):
        raise ExtractError("member loop of __extractPackage not found")
    chain = loop[0].body[0]
    t0 = chain.test
    if not (isinstance(t0, ast.Call) and isinstance(t0.func, ast.Attribute) and t0.func.attr == "startswith" and _is_attr(t0.func.value, "f", "name")):
        raise ExtractError("first branch of the dispatch is not f.name.startswith(...)")
    prefix = literal(t0.args[0])
    content_branch = chain.body
    strips = [literal(n.slice.lower) for n in ast.walk(chain) if isinstance(n, ast.Subscript) and isinstance(n.slice, ast.Slice)
              and n.slice.lower is not None and n.slice.upper is None and _is_attr(n.value, "f", "name")]
    lstrips = [literal(n.slice.lower) for n in ast.walk(chain) if isinstance(n, ast.Subscript) and isinstance(n.slice, ast.Slice)
               and n.slice.lower is not None and n.slice.upper is None and _is_attr(n.value, "f", "linkname")]
    if strips != [len(prefix)] or lstrips != [len(prefix)]:
        raise ExtractError("prefix %r is not stripped by its length: %r %r" % (prefix, strips, lstrips))
    lnk_prefix = [literal(c.args[0]) for c in _calls(chain, "startswith") if _is_attr(c.func.value, "f", "linkname")]
    if lnk_prefix != [prefix]:
        raise ExtractError("hard link prefix test differs from the name prefix: %r" % lnk_prefix)
    # elif f.name == "meta/audit.json.gz" / elif f.name == "content" or f.name == "meta" / else raise
    def eq_names(test):
        if isinstance(test, ast.BoolOp) and isinstance(test.op, ast.Or):
            return [x for v in test.values for x in eq_names(v)]
        if isinstance(test, ast.Compare) and isinstance(test.ops[0], ast.Eq) and _is_attr(test.left, "f", "name"):
            return [literal(test.comparators[0])]
        raise ExtractError("unexpected dispatch test: " + ast.dump(test)[:120])
    if len(chain.orelse) != 1 or not isinstance(chain.orelse[0], ast.If):
        raise ExtractError("dispatch chain has no audit branch")
    b_audit = chain.orelse[0]
    audit_names = eq_names(b_audit.test)
    if len(audit_names) != 1 or not _calls(b_audit, "extractfile"):
        raise ExtractError("audit branch not recognised")
    if len(b_audit.orelse) != 1 or not isinstance(b_audit.orelse[0], ast.If):
        raise ExtractError("dispatch chain has no skip branch")
    b_skip = b_audit.orelse[0]
    skip_names = eq_names(b_skip.test)
    if not all(isinstance(x, ast.Pass) for x in b_skip.body):
        raise ExtractError("skip branch does something")
    unknown_rejected = _raises_builderror(ast.Module(body=b_skip.orelse, type_ignores=[])) if b_skip.orelse else False

    # --- __checkMember is called on the renamed member before tar.extract
    order = []
    for n in ast.walk(ast.Module(body=content_branch, type_ignores=[])):
        if isinstance(n, ast.Call) and isinstance(n.func, ast.Attribute):
            if n.func.attr.endswith("__checkMember"):
                order.append(("check", n.lineno))
            elif n.func.attr == "extract":
                order.append(("extract", n.lineno))
    order.sort(key=lambda x: x[1])
    check_called = [k for k, _ in order] == ["check", "extract"]
    canon = parent = False
    lnk = 0
    try:
        cm = find(th, "__checkMember")
    except ExtractError:
        cm = None
    if cm is not None and check_called:
        for n in ast.walk(cm):
            if isinstance(n, ast.If) and _raises_builderror(n):
                src = ast.dump(n.test)
                consts = set(c for c in constants(n.test, str))
                if {"", ".", ".."} <= consts:
                    canon = True
                elif "commonpath" in src and "islink" in src and "isfile" in src and "lexists" in src and "realpath" in src:
                    lnk = 2
                elif "commonpath" in src and "parent" in src:
                    parent = bool(_calls(cm, "dirname"))
        # the hard link block must be guarded by f.islnk() only
        if lnk == 2 and not any(isinstance(n, ast.If) and isinstance(n.test, ast.Call) and getattr(n.test.func, "attr", "") == "islnk"
                                for n in ast.walk(cm)):
            lnk = 0

    # --- the extraction filter and its installation
    u = parse(repo, "pym/bob/utils.py")
    flt = find(u, "_tarExtractFilter")
    filter_checks = bool(_calls(flt, "realpath")) and bool(_calls(flt, "commonpath")) and _raises_builderror(flt)
    to = find(u, "tarfileOpen")
    installed = any(isinstance(n, ast.Assign) and isinstance(n.targets[0], ast.Attribute) and n.targets[0].attr == "extraction_filter"
                    and getattr(n.value, "id", None) == "_tarExtractFilter" for n in ast.walk(to))
    opens = [c for c in ast.walk(find(th, "_extract")) if isinstance(c, ast.Call) and getattr(c.func, "id", None) == "tarfileOpen"]
    filter_on = filter_checks and installed and len(opens) == 1

    # --- _pack name space
    pk = find(th, "_pack")
    pack_consts = constants(pk, str)
    if "meta/" not in pack_consts or "content" not in pack_consts or "bob-archive-vsn" not in pack_consts:
        raise ExtractError("_pack name space changed: %r" % pack_consts)
    pack_vsn = None
    for n in ast.walk(pk):
        if isinstance(n, ast.Dict) and [literal(k) for k in n.keys] == ["bob-archive-vsn"]:
            pack_vsn = literal(n.values[0])
    if pack_vsn is None:
        raise ExtractError("_pack pax header not found")

    # --- acceptance logic of the builder
    b = parse(repo, "pym/bob/builder.py")
    dp = find(b, "LocalBuilder", "_downloadPackage")
    audit_check = hash_check = False
    for n in ast.walk(dp):
        if isinstance(n, ast.If) and _raises_builderror(n):
            d = ast.dump(n.test)
            if isinstance(n.test, ast.UnaryOp) and isinstance(n.test.op, ast.Not) and "exists" in d and "audit" in d:
                audit_check = True
            if isinstance(n.test, ast.Compare) and isinstance(n.test.ops[0], ast.NotEq) and "getResultHash" in d and "packageHash" in d:
                hash_check = True
    hashed_step = None
    for n in ast.walk(dp):
        if isinstance(n, ast.Assign) and getattr(n.targets[0], "id", None) == "packageHash" and isinstance(n.value, ast.Call) \
                and getattr(n.value.func, "id", None) == "hashWorkspace":
            hashed_step = getattr(n.value.args[0], "id", None)
    hash_check = hash_check and hashed_step == "packageStep"

    B = lambda x: "true" if x else "false"
    out = [HEADER % "c08", "namespace Consts.C08",
           "def contentPrefix : List Char := " + lean_chars(prefix),
           "def stripLen : Nat := %d" % strips[0],
           "def auditMember : List Char := " + lean_chars(audit_names[0]),
           "def skipNames : List (List Char) := [" + ", ".join(lean_chars(x) for x in skip_names) + "]",
           "def unknownRejected : Bool := " + B(unknown_rejected),
           "def vsnDefault : List Char := " + lean_chars(vsn[1]),
           "def vsnAccepted : List Char := " + lean_chars(vsn[2]),
           "def packVsn : List Char := " + lean_chars(pack_vsn),
           "def packMetaDir : List Char := " + lean_chars("meta/"),
           "def packContent : List Char := " + lean_chars("content"),
           "def filterInstalled : Bool := " + B(filter_on),
           "def canonNames : Bool := " + B(canon),
           "def parentCheck : Bool := " + B(parent),
           "def lnkCheck : Nat := %d" % lnk,
           "def auditPresenceChecked : Bool := " + B(audit_check),
           "def resultHashChecked : Bool := " + B(hash_check),
           "end Consts.C08", ""]
    return "\n".join(out)


def anchors(repo):
    t = parse(repo, "pym/bob/archive.py")
    u = parse(repo, "pym/bob/utils.py")
    return {"TarHelper": anchor_hash(find(t, "TarHelper")), "_tarExtractFilter": anchor_hash(find(u, "_tarExtractFilter"))}
