"""Which variant of pym/bob/share.py / builder.py the C15 model has to follow.

Four Booleans, detected structurally with `ast` in the current source:
  flushBeforeUnlock  OpenLocked.__exit__ calls <file>.flush() before unlockFile(...)
  gcMissingOk        LocalShare.gc returns early (before the attic directory is created) when repo.json is no file
  emptyOk            an empty repo.json is read as an empty repository in __addPackage.update AND gc, and
                     __addPackage no longer creates the file with mode "x" (the empty file is harmless now)
  lostRaceRecords    LocalBuilder._installSharedPackage calls useSharedPackage when the install returned (path, False)

Props/C15.lean proves the full strength theorems for `Cfg.fixed` and contains `consts_are_fixed`; reverting a fix
makes that theorem (a proof obligation) fail, and the oracle's directed interleavings produce the replay.
A source that is neither the old nor the new shape is an ExtractError (a broken tie), never a guess.
"""
import ast
from .astutil import *


def _calls(node):
    return [n for n in ast.walk(node) if isinstance(n, ast.Call)]


def _callee(c):
    f = c.func
    if isinstance(f, ast.Attribute):
        return f.attr
    if isinstance(f, ast.Name):
        return f.id
    return None


def _pos(n):
    return (n.lineno, n.col_offset)


def _reads_empty_as_dict(fn, var):
    """`json.loads(data) if data else {}` (IfExp with an empty dict) vs. a plain json.load(<var>) of the repo.json file"""
    tolerant = any(isinstance(n, ast.IfExp) and isinstance(n.orelse, ast.Dict) and not n.orelse.keys
                   and any(_callee(c) == "loads" for c in _calls(n.body)) for n in ast.walk(fn))
    plain = any(_callee(c) == "load" and isinstance(c.func, ast.Attribute) and isinstance(c.func.value, ast.Name)
                and c.func.value.id == "json" and c.args and isinstance(c.args[0], ast.Name) and c.args[0].id == var
                for c in _calls(fn))
    if tolerant and not plain:
        return True
    if plain and not tolerant:
        return False
    raise ExtractError("cannot tell how %s reads repo.json (json.load(%s) and the tolerant form %s)" %
                       (fn.name, var, "both present" if plain else "both missing"))


def _repo_file_var(fn):
    """name bound by `with OpenLocked(<...repo.json...>, ...) as NAME`"""
    for n in ast.walk(fn):
        if isinstance(n, ast.With):
            for it in n.items:
                if "repo.json" in constants(it.context_expr, str) and isinstance(it.optional_vars, ast.Name):
                    return it.optional_vars.id
    raise ExtractError("%s: no `with OpenLocked(... repo.json ...) as <name>`" % fn.name)


def extract(repo):
    t = parse(repo, "pym/bob/share.py")
    # ---- fix 2
    ex = find(t, "OpenLocked", "__exit__")
    unl = [c for c in _calls(ex) if _callee(c) == "unlockFile"]
    if len(unl) != 1:
        raise ExtractError("OpenLocked.__exit__: expected exactly one unlockFile call")
    fl = [c for c in _calls(ex) if _callee(c) == "flush"]
    close = [c for c in _calls(ex) if _callee(c) == "close"]
    if not close or any(_pos(c) < _pos(unl[0]) for c in close):
        raise ExtractError("OpenLocked.__exit__: close() is expected after unlockFile()")
    if fl and any(_pos(c) > _pos(unl[0]) for c in fl):
        raise ExtractError("OpenLocked.__exit__: flush() after unlockFile()")
    flush_first = bool(fl)
    # ---- fix 1
    gc = find(t, "LocalShare", "gc")
    attic = [n for n in ast.walk(gc) if isinstance(n, ast.With)
             and any(_callee(c) == "TemporaryDirectory" for c in _calls(n.items[0].context_expr))]
    if len(attic) != 1:
        raise ExtractError("LocalShare.gc: attic TemporaryDirectory not found")
    early = [n for n in gc.body if isinstance(n, ast.If) and _pos(n) < _pos(attic[0])
             and any(isinstance(b, ast.Return) for b in n.body)]
    mentions = [n for n in early if "repo.json" in constants(n.test, str)]
    if mentions and not any(_callee(c) in ("isfile", "exists") for n in mentions for c in _calls(n.test)):
        raise ExtractError("LocalShare.gc: early return mentions repo.json but does not test its existence")
    gc_missing_ok = bool(mentions)
    if not gc_missing_ok and not any(_callee(c) == "isdir" for n in early for c in _calls(n.test)):
        raise ExtractError("LocalShare.gc: neither the isdir(store) nor the isfile(repo.json) early return found")
    # ---- fix 3
    add = find(t, "LocalShare", "__addPackage")
    upd = find(add, "update")
    if not upd.args.args:
        raise ExtractError("__addPackage.update has no file parameter")
    e_upd, e_gc = _reads_empty_as_dict(upd, upd.args.args[0].arg), _reads_empty_as_dict(gc, _repo_file_var(gc))
    creates_x = any(_callee(c) == "OpenLocked" and len(c.args) >= 2 and isinstance(c.args[1], ast.Constant)
                    and c.args[1].value == "x" for c in _calls(add))
    creates_plain = any(_callee(c) == "open" and len(c.args) >= 2 and isinstance(c.args[1], ast.Constant)
                        and c.args[1].value == "a" for c in _calls(add))
    if e_upd and e_gc and creates_plain and not creates_x:
        empty_ok = True
    elif not e_upd and not e_gc and creates_x and not creates_plain:
        empty_ok = False
    else:
        raise ExtractError("repo.json creation / empty handling is neither the old nor the fixed shape: "
                           "update tolerant=%s gc tolerant=%s create-x=%s create-plain=%s" % (e_upd, e_gc, creates_x, creates_plain))
    # ---- fix 4
    b = parse(repo, "pym/bob/builder.py")
    inst = find(b, "LocalBuilder", "_installSharedPackage")
    if not any(_callee(c) == "installSharedPackage" for c in _calls(inst)):
        raise ExtractError("LocalBuilder._installSharedPackage does not call installSharedPackage")
    lost_race = any(_callee(c) == "useSharedPackage" for c in _calls(inst))
    gen = literal(module_const(t, "SHARED_GENERATION"))
    lean = lambda v: "true" if v else "false"
    return ("-- GENERATED by tools/consts/c15.py from the current source of /repo on every run. Do not edit.\n\n"
            "namespace Consts.C15\n"
            "def flushBeforeUnlock : Bool := %s\n"
            "def gcMissingOk : Bool := %s\n"
            "def emptyOk : Bool := %s\n"
            "def lostRaceRecords : Bool := %s\n"
            "def sharedGeneration : String := %s\n"
            "end Consts.C15\n") % (lean(flush_first), lean(gc_missing_ok), lean(empty_ok), lean(lost_race),
                                   '"' + gen.replace("\\", "\\\\").replace('"', '\\"') + '"')
