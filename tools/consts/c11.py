"""Constants of pym/bob/utils.py (DirHasher, FileIndex, binStat) that the C11 model and theorems depend on:
ignore lists, the index signature, all `struct` format strings, the path separator expression, the chunk
size of hashFile and the list of stat fields compared by FileIndex.__match / written by __writeEntry."""
import ast
import struct
from .astutil import *


def lean_bytes(b):
    return "[" + ", ".join(str(x) for x in b) + "]"


def lean_bytes_list(bs):
    return "[" + ", ".join(lean_bytes(b) for b in bs) + "]"


def _class_const(cls, name):
    for c in cls.body:
        if isinstance(c, ast.Assign) and len(c.targets) == 1 and isinstance(c.targets[0], ast.Name) \
                and c.targets[0].id == name:
            return c.value
    raise ExtractError("cannot find %s.%s" % (cls.name, name))


def _fsencode_set(node, what):
    """frozenset([os.fsencode("x"), ...]) -> sorted list of bytes"""
    if not (isinstance(node, ast.Call) and getattr(node.func, "id", None) == "frozenset" and len(node.args) == 1
            and isinstance(node.args[0], (ast.List, ast.Tuple, ast.Set))):
        raise ExtractError("%s is not frozenset([...])" % what)
    out = []
    for e in node.args[0].elts:
        if isinstance(e, ast.Call) and isinstance(e.func, ast.Attribute) and e.func.attr == "fsencode" \
                and len(e.args) == 1 and isinstance(e.args[0], ast.Constant) and isinstance(e.args[0].value, str):
            out.append(e.args[0].value.encode("utf-8", "surrogateescape"))
        elif isinstance(e, ast.Constant) and isinstance(e.value, bytes):
            out.append(e.value)
        else:
            raise ExtractError("unexpected element in %s: %s" % (what, ast.dump(e)[:100]))
    return sorted(out)


def _pack_formats(fn):
    """first arguments of struct.pack(...) / struct.unpack(...) calls with a literal format, in source order"""
    out = []
    for n in ast.walk(fn):
        if isinstance(n, ast.Call) and isinstance(n.func, ast.Attribute) and n.func.attr in ("pack", "unpack") \
                and isinstance(n.func.value, ast.Name) and n.func.value.id == "struct" and n.args \
                and isinstance(n.args[0], ast.Constant) and isinstance(n.args[0].value, str):
            out.append((n.lineno, n.col_offset, n.args[0].value, n))
    out.sort(key=lambda x: (x[0], x[1]))
    return [(f, n) for _, _, f, n in out]


def _single(xs, what):
    if len(xs) != 1:
        raise ExtractError("expected exactly one %s, found %d" % (what, len(xs)))
    return xs[0]


def _attr_chain(n):
    """st.st_mode -> 'st_mode', maskIno(st.st_ino) -> 'st_ino', len(name) -> 'len', digest -> 'digest'"""
    if isinstance(n, ast.Attribute):
        return n.attr
    if isinstance(n, ast.Call) and isinstance(n.func, ast.Name) and n.args:
        if n.func.id == "maskIno":
            return _attr_chain(n.args[0])
        return n.func.id
    if isinstance(n, ast.Name):
        return n.id
    raise ExtractError("unexpected argument " + ast.dump(n)[:100])


def extract(repo):
    t = parse(repo, "pym/bob/utils.py")
    dh = find(t, "DirHasher")
    fi = find(dh, "FileIndex")
    ignore_dirs = _fsencode_set(_class_const(dh, "IGNORE_DIRS"), "IGNORE_DIRS")
    ignore_files = _fsencode_set(_class_const(dh, "IGNORE_FILES"), "IGNORE_FILES")
    signature = literal(_class_const(fi, "SIGNATURE"))
    entry_fmt = literal(_class_const(fi, "CACHE_ENTRY_FMT"))
    if not isinstance(signature, bytes) or not isinstance(entry_fmt, str):
        raise ExtractError("SIGNATURE / CACHE_ENTRY_FMT have unexpected types")
    try:
        entry_size = struct.calcsize(entry_fmt)
    except struct.error as e:
        raise ExtractError("CACHE_ENTRY_FMT is not a struct format: %s" % e)

    # struct.pack("=L", s.st_mode) in __hashDir, struct.pack("<L", s.st_rdev) in __hashEntry
    hd = find(dh, "__hashDir")
    he = find(dh, "__hashEntry")
    mode_fmt, mode_call = _single(_pack_formats(hd), "struct.pack in __hashDir")
    if [_attr_chain(a) for a in mode_call.args[1:]] != ["st_mode"]:
        raise ExtractError("__hashDir does not pack st_mode")
    dev_fmt, dev_call = _single(_pack_formats(he), "struct.pack in __hashEntry")
    if [_attr_chain(a) for a in dev_call.args[1:]] != ["st_rdev"]:
        raise ExtractError("__hashEntry does not pack st_rdev")

    # directory suffix: f + os.fsencode(os.path.sep)
    seps = [n for n in ast.walk(hd) if isinstance(n, ast.Call) and isinstance(n.func, ast.Attribute)
            and n.func.attr == "fsencode" and n.args and isinstance(n.args[0], ast.Attribute) and n.args[0].attr == "sep"]
    _single(seps, "os.fsencode(os.path.sep) in __hashDir")
    sep = b"/"   # POSIX value of os.path.sep (Windows is outside the model)

    # fields written by __writeEntry (order of the pack arguments) and compared by __match
    we = find(fi, "__writeEntry")
    packs = [n for n in ast.walk(we) if isinstance(n, ast.Call) and isinstance(n.func, ast.Attribute) and n.func.attr == "pack"]
    wcall = _single(packs, "struct.pack in __writeEntry")
    written = [_attr_chain(a) for a in wcall.args[1:]]
    ma = find(fi, "__match")
    compared = []
    for n in ast.walk(ma):
        if isinstance(n, ast.Compare) and len(n.ops) == 1 and isinstance(n.ops[0], ast.Eq) \
                and isinstance(n.left, ast.Attribute) and isinstance(n.left.value, ast.Name) and n.left.value.id == "e":
            compared.append((n.lineno, n.col_offset, n.left.attr, _attr_chain(n.comparators[0])))
    compared = [(a, b) for _, _, a, b in sorted(compared)]
    lt = [n for n in ast.walk(ma) if isinstance(n, ast.Compare) and len(n.ops) == 1 and isinstance(n.ops[0], ast.Lt)]
    _single(lt, "`<` comparison in __match")

    # binStat
    bs = find(t, "binStat")
    bin_fmt, bin_call = _single(_pack_formats(bs), "struct.pack in binStat")
    bin_fields = [_attr_chain(a) for a in bin_call.args[1:]]

    # chunk size of hashFile
    hf = find(t, "hashFile")
    chunks = sorted(set(c for c in constants(hf, int) if not isinstance(c, bool) and c > 0))
    chunk = _single(chunks, "positive integer constant (chunk size) in hashFile")

    out = [HEADER % "c11", "namespace Consts.C11",
           "def ignoreDirs : List (List UInt8) := " + lean_bytes_list(ignore_dirs),
           "def ignoreFiles : List (List UInt8) := " + lean_bytes_list(ignore_files),
           "def signature : List UInt8 := " + lean_bytes(signature),
           "def cacheEntryFmt : List Char := " + lean_chars(entry_fmt),
           "def cacheEntrySize : Nat := %d" % entry_size,
           "def dirModeFmt : List Char := " + lean_chars(mode_fmt),
           "def devFmt : List Char := " + lean_chars(dev_fmt),
           "def binStatFmt : List Char := " + lean_chars(bin_fmt),
           "def pathSep : List UInt8 := " + lean_bytes(sep),
           "def hashFileChunk : Nat := %d" % chunk,
           "def writtenFields : List String := " + lean_str_list(written),
           "def matchedFields : List String := " + lean_str_list(["%s=%s" % ab for ab in compared]),
           "def binStatFields : List String := " + lean_str_list(bin_fields),
           "end Consts.C11", ""]
    return "\n".join(out)


def anchors(repo):
    t = parse(repo, "pym/bob/utils.py")
    return {"DirHasher": anchor_hash(find(t, "DirHasher")), "hashFile": anchor_hash(find(t, "hashFile")),
            "binStat": anchor_hash(find(t, "binStat"))}
