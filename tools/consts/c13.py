"""Constants of pym/bob/languages.py, invoker.py, intermediate.py, utils.py that the C13 model
(Model/ShellEnv.lean) and its theorems depend on.

* the quoting function really is `shlex.quote` (import checked with `ast`), its safe-character set and its
  three output shapes are taken from the running interpreter's shlex (the same one Bob will use);
* the fixed variable names of the prolog (PATH, LD_LIBRARY_PATH, BOB_CWD, `$PATH`), the array names and the
  literal lines of `BashLanguage.__formatProlog` / `mangleFingerprints`;
* the placeholder for invalid dependencies, the POSIX default whitelist, the helper options used by
  `Invoker.executeStep` / `__getSlimSandboxCmds` / `__getFatSandboxCmds`.
"""
import ast
import re
import shlex
from .astutil import *


def _class_fn(cls, suffix):
    """private methods are name-mangled only at run time; the source has the plain name"""
    for c in ast.iter_child_nodes(cls):
        if isinstance(c, (ast.FunctionDef, ast.AsyncFunctionDef)) and c.name == suffix:
            return c
    raise ExtractError("cannot find %s.%s" % (cls.name, suffix))


def _imports(tree, module):
    out = {}
    for n in tree.body:
        if isinstance(n, ast.ImportFrom) and n.module == module:
            for a in n.names:
                out[a.asname or a.name] = a.name
    return out


def _quote_calls(node):
    return sum(1 for n in ast.walk(node) if isinstance(n, ast.Call) and isinstance(n.func, ast.Name) and n.func.id == "quote")


def _shlex_facts():
    safe = "".join(chr(c) for c in range(0x110000) if not (0xd800 <= c < 0xe000) and shlex.quote(chr(c)) == chr(c))
    if shlex.quote("") != "''":
        raise ExtractError("shlex.quote('') is not ''")
    if shlex.quote("a b") != "'a b'" or shlex.quote("a'b") != "'a'\"'\"'b'" or shlex.quote("$") != "'$'":
        raise ExtractError("shlex.quote no longer wraps in single quotes with '\"'\"' for embedded quotes")
    # a string is returned unchanged iff every character is safe (not only single characters)
    if shlex.quote(safe) != safe:
        raise ExtractError("shlex.quote: safe characters are not closed under concatenation")
    return safe


def extract(repo):
    lang = parse(repo, "pym/bob/languages.py")
    if _imports(lang, "shlex").get("quote") != "quote":
        raise ExtractError("languages.py no longer imports quote from shlex")
    inv = parse(repo, "pym/bob/invoker.py")
    safe = _shlex_facts()

    bash = find(lang, "BashLanguage")
    prolog = _class_fn(bash, "__formatProlog")
    # env.update({...}) keys in source order
    upd = None
    for n in ast.walk(prolog):
        if isinstance(n, ast.Call) and isinstance(n.func, ast.Attribute) and n.func.attr == "update" and n.args \
                and isinstance(n.args[0], ast.Dict):
            upd = n.args[0]
    if upd is None:
        raise ExtractError("env.update({...}) not found in __formatProlog")
    bob_vars = [literal(k) for k in upd.keys]
    if bob_vars != ["PATH", "LD_LIBRARY_PATH", "BOB_CWD"]:
        raise ExtractError("fixed prolog variables changed: %r" % bob_vars)
    strs = constants(prolog, str)
    if "$PATH" not in strs or ":" not in strs:
        raise ExtractError("PATH composition literals not found")
    arrays = []
    for s in strs:
        m = re.fullmatch(r"declare -A (\w+)=\( \{\} \)", s)
        if m:
            arrays.append(m.group(1))
    if len(arrays) != 3:
        raise ExtractError("associative array lines changed: %r" % arrays)
    if "[{}]={}" not in strs or "export {}={}" not in strs:
        raise ExtractError("array element / export format changed")
    header = []
    for n in ast.walk(prolog):
        if isinstance(n, ast.Assign) and isinstance(n.targets[0], ast.Name) and n.targets[0].id == "ret":
            header = literal(n.value)
    if len(header) != 3 or not all(h == "" or h.startswith("#") for h in header):
        raise ExtractError("prolog header changed: %r" % header)
    keep = [s for s in strs if "bashrc" in s]
    if len(keep) != 1:
        raise ExtractError("keepEnv block not found")
    import textwrap
    keep_env = textwrap.dedent(keep[0])
    mid = [s for s in strs if s.startswith("# Special") or s.startswith("# Environment")]
    if len(mid) != 2:
        raise ExtractError("prolog section comments changed: %r" % mid)
    n_quote_prolog = _quote_calls(prolog)

    mf = find(bash, "mangleFingerprints")
    fp_strs = constants(mf, str)
    set_o = [s for s in fp_strs if s.startswith("set -o ")]
    if len(set_o) != 3 or "export {}={}" not in fp_strs or _quote_calls(mf) != 1:
        raise ExtractError("mangleFingerprints preamble changed: %r" % fp_strs)

    sf = find(bash, "setupFingerprint")
    fp_head = None
    for n in ast.walk(sf):
        if isinstance(n, ast.Assign) and isinstance(n.targets[0], ast.Name) and n.targets[0].id == "args" and isinstance(n.value, ast.List):
            fp_head = [literal(e) for e in n.value.elts[1:]]
    sf_strs = [s for s in constants(sf, str) if s.startswith("-")]
    if fp_head is None or [s for s in sf_strs if s not in fp_head] != ["-x", "-c"]:
        raise ExtractError("setupFingerprint argv literals changed: %r %r" % (fp_head, sf_strs))

    setup_exec = _class_fn(bash, "__setupExec")
    exec_strs = constants(setup_exec, str)
    if [s for s in exec_strs if s.startswith("-")] != ["-x", "--"]:
        raise ExtractError("__setupExec argv literals changed: %r" % exec_strs)

    inter = parse(repo, "pym/bob/intermediate.py")
    gep = find(inter, "StepIR", "getExecPath")
    invalid = [s for s in constants(gep, str) if s.startswith("/invalid")]
    if len(invalid) != 1 or not invalid[0].endswith("{}"):
        raise ExtractError("invalid exec path placeholder changed: %r" % invalid)

    utils = parse(repo, "pym/bob/utils.py")
    wl_fn = find(utils, "getPlatformEnvWhiteList")
    posix_wl = None
    for n in ast.walk(wl_fn):
        if isinstance(n, ast.If) and n.orelse and isinstance(n.test, ast.Compare):
            for m in ast.walk(n.orelse[0]):
                if isinstance(m, ast.List):
                    posix_wl = literal(m)
            break
    if not posix_wl:
        raise ExtractError("POSIX default whitelist not found")

    invoker = find(inv, "Invoker")
    opts = {}
    for fn_name in ("executeStep", "__getSlimSandboxCmds", "__getFatSandboxCmds", "executeFingerprint"):
        fn = _class_fn(invoker, fn_name)
        opts[fn_name] = sorted(set(s for s in constants(fn, str) if re.fullmatch(r"-[A-Za-z]|--", s)))
    # only the *set* of helper options per function is pinned here (a new option means the mount model is
    # incomplete); which option is used for which mount is compared case by case with the captured argv
    want = {"executeStep": ["--", "-M", "-W", "-m", "-n", "-w"],
            "__getSlimSandboxCmds": ["-M", "-S", "-d", "-i", "-m", "-w"],
            "__getFatSandboxCmds": ["-H", "-M", "-S", "-d", "-i", "-m", "-r", "-w"],
            "executeFingerprint": ["--", "-W", "-d", "-n"]}
    if opts != want:
        raise ExtractError("sandbox helper options changed: %r" % opts)
    init = _class_fn(invoker, "__init__")
    uses_wl = any(isinstance(n, ast.Attribute) and n.attr == "envWhiteList" for n in ast.walk(init))
    uses_environ = sum(1 for n in ast.walk(init) if isinstance(n, ast.Attribute) and n.attr == "environ")
    if not uses_wl or uses_environ != 2:
        raise ExtractError("Invoker.__init__ host environment filter changed")

    def cl(xs):
        return "[" + ", ".join(lean_chars(x) for x in xs) + "]"

    # strings are emitted as `List Char` (the model's string type) so that theorems can compute with them
    out = [HEADER % "c13", "namespace Consts.C13",
           "def safeChars : List Char := " + lean_chars(safe),
           "def varPath : List Char := " + lean_chars(bob_vars[0]),
           "def varLdLibraryPath : List Char := " + lean_chars(bob_vars[1]),
           "def varBobCwd : List Char := " + lean_chars(bob_vars[2]),
           "def arrayAll : List Char := " + lean_chars(arrays[0]),
           "def arrayDep : List Char := " + lean_chars(arrays[1]),
           "def arrayTool : List Char := " + lean_chars(arrays[2]),
           "def prologHeader : List (List Char) := " + cl(header),
           "def prologKeepEnv : List Char := " + lean_chars(keep_env),
           "def prologArraysComment : List Char := " + lean_chars(mid[0]),
           "def prologEnvComment : List Char := " + lean_chars(mid[1]),
           "def fingerprintSetO : List (List Char) := " + cl(set_o),
           "def fingerprintBashOpts : List (List Char) := " + cl(fp_head),
           "def invalidExecPrefix : List Char := " + lean_chars(invalid[0][:-2]),
           "def posixWhiteList : List (List Char) := " + cl(sorted(posix_wl)),
           "def quoteCallsInProlog : Nat := %d" % n_quote_prolog,
           "end Consts.C13", ""]
    return "\n".join(out)


def anchors(repo):
    lang = parse(repo, "pym/bob/languages.py")
    inv = parse(repo, "pym/bob/invoker.py")
    return {"BashLanguage": anchor_hash(find(lang, "BashLanguage")),
            "StepSpec.fromStep": anchor_hash(find(lang, "StepSpec", "fromStep")),
            "Invoker": anchor_hash(find(inv, "Invoker"))}
