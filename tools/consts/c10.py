"""Constants of pym/bob/state.py that the C10 model and theorems depend on: the four file names,
the version window and upgrade thresholds, the layout of the checksum trailer, the lock open flags,
the keys of the persisted dictionary."""
import ast
import struct
from .astutil import *


def _attr_assign(fn, attr):
    """value node of `self.<attr> = ...` (name-mangled private attributes are written `__x` in the source)"""
    for n in ast.walk(fn):
        if isinstance(n, ast.Assign) and len(n.targets) == 1 and isinstance(n.targets[0], ast.Attribute) \
                and n.targets[0].attr == attr:
            return n.value
    raise ExtractError("no assignment to self.%s in %s" % (attr, fn.name))


def _name_assign(fn, name):
    for n in ast.walk(fn):
        if isinstance(n, ast.Assign) and len(n.targets) == 1 and isinstance(n.targets[0], ast.Name) \
                and n.targets[0].id == name:
            return n.value
    raise ExtractError("no assignment to %s in %s" % (name, fn.name))


def _path_expr(node, env):
    """evaluate "lit" | self.__x | a + b"""
    if isinstance(node, ast.Constant) and isinstance(node.value, str):
        return node.value
    if isinstance(node, ast.Attribute) and node.attr in env:
        return env[node.attr]
    if isinstance(node, ast.BinOp) and isinstance(node.op, ast.Add):
        return _path_expr(node.left, env) + _path_expr(node.right, env)
    raise ExtractError("path expression not understood: " + ast.dump(node)[:200])


def _class_const(cls, name):
    for c in cls.body:
        if isinstance(c, ast.Assign) and len(c.targets) == 1 and isinstance(c.targets[0], ast.Name) and c.targets[0].id == name:
            return literal(c.value)
    raise ExtractError("no class constant " + name)


def _is_version_subscript(n):
    return isinstance(n, ast.Subscript) and isinstance(n.slice, ast.Constant) and n.slice.value == "version"


def _pack_formats(fn):
    out = []
    for n in ast.walk(fn):
        if isinstance(n, ast.Call) and isinstance(n.func, ast.Attribute) and n.func.attr == "pack" and n.args \
                and isinstance(n.args[0], ast.Constant) and isinstance(n.args[0].value, str):
            out.append(n.args[0].value)
    return out


def _neg_slices(fn):
    """the k of every data[:-k] / data[-k:] in fn"""
    out = []
    for n in ast.walk(fn):
        if isinstance(n, ast.Slice):
            for b in (n.lower, n.upper):
                if isinstance(b, ast.UnaryOp) and isinstance(b.op, ast.USub) and isinstance(b.operand, ast.Constant):
                    out.append(b.operand.value)
    return out


def _handler_action(h):
    """what an except clause does, as far as the fault model cares"""
    body = [n for n in h.body if not (isinstance(n, ast.Expr) and isinstance(n.value, ast.Call)
                                      and isinstance(n.value.func, ast.Name) and n.value.func.id == "print")]
    if not body:
        return "warn"
    if len(body) == 1 and isinstance(body[0], ast.Pass):
        return "pass"
    if len(body) == 1 and isinstance(body[0], ast.Raise) and isinstance(body[0].exc, ast.Call) \
            and isinstance(body[0].exc.func, ast.Name):
        return "raise " + body[0].exc.func.id
    return "other"


def _handlers(t):
    out = []
    for h in t.handlers:
        ty = h.type
        names = [e.id for e in ty.elts] if isinstance(ty, ast.Tuple) else [ty.id if isinstance(ty, ast.Name) else "*"]
        out.append(("|".join(names), _handler_action(h)))
    return out


def _top_tries(fn):
    """try statements of a function body that are not nested in another try"""
    out = []

    def walk(nodes):
        for n in nodes:
            if isinstance(n, ast.Try):
                out.append(n)
            else:
                for f in ("body", "orelse"):
                    if hasattr(n, f) and isinstance(getattr(n, f), list):
                        walk(getattr(n, f))
    walk(fn.body)
    return out


def _nested_tries(t):
    return sum(1 for n in ast.walk(t) if isinstance(n, ast.Try)) - 1


def _fault_handling(cls):
    save, commit, fin = find(cls, "__save"), find(cls, "__commit"), find(cls, "finalize")
    st, ct = _top_tries(save), _top_tries(commit)
    if len(st) != 1 or len(ct) != 2:
        raise ExtractError("__save/__commit: unexpected try structure")
    # the rename of __save is the last call of the try body (not in a finally); the only statement allowed after it
    # is `self.__uncommittedTrusted = True`
    def is_rename(n):
        return isinstance(n, ast.Expr) and isinstance(n.value, ast.Call) and getattr(n.value.func, "id", "") == "replacePath"

    def trusted_assign(n, val):
        return isinstance(n, ast.Assign) and len(n.targets) == 1 and isinstance(n.targets[0], ast.Attribute) \
            and n.targets[0].attr == "__uncommittedTrusted" and isinstance(n.value, ast.Constant) and n.value.value is val
    body = st[0].body
    set_after_rename = len(body) >= 2 and is_rename(body[-2]) and trusted_assign(body[-1], True)
    rename_in_try = (is_rename(body[-1]) or set_after_rename) and not st[0].finalbody
    fin_commit = [n for n in ast.walk(fin) if isinstance(n, ast.Call) and isinstance(n.func, ast.Attribute)
                  and n.func.attr.endswith("__commit")]
    if len(fin_commit) != 1 or len(fin_commit[0].args) != 1:
        raise ExtractError("finalize: __commit call not found")
    arg = fin_commit[0].args[0]
    arg_not_trusted = isinstance(arg, ast.UnaryOp) and isinstance(arg.op, ast.Not) and isinstance(arg.operand, ast.Attribute) \
        and arg.operand.attr == "__uncommittedTrusted"
    # every assignment of the flag in the class: False in __init__, True right after the rename of __save, nothing else
    assigns = [(fn.name, n) for fn in cls.body if isinstance(fn, ast.FunctionDef) for n in ast.walk(fn)
               if isinstance(n, ast.Assign) and any(isinstance(t, ast.Attribute) and t.attr == "__uncommittedTrusted" for t in n.targets)]
    flag_ok = sorted(f for f, _ in assigns) == ["__init__", "__save"] and \
        all(trusted_assign(n, f == "__save") for f, n in assigns) and set_after_rename
    # the flag is initialised before the first __commit of __init__
    init = find(cls, "__init__")
    init_pos = [n.lineno for f, n in assigns if f == "__init__"]
    commit_pos = [n.lineno for n in ast.walk(init) if isinstance(n, ast.Call) and isinstance(n.func, ast.Attribute)
                  and n.func.attr.endswith("__commit")]
    flag_ok = flag_ok and bool(init_pos) and bool(commit_pos) and max(init_pos) < min(commit_pos)
    return [
        "/-- exception handling the fault model transliterates: (caught types, action) -/",
        "def saveHandlers : List (String × String) := " + _pairs(_handlers(st[0])),
        "def saveRenameLastInTry : Bool := " + ("true" if rename_in_try else "false"),
        "def saveNestedTries : Nat := %d" % _nested_tries(st[0]),
        "def commitHandlers : List (String × String) := " + _pairs(_handlers(ct[0])),
        "def commitNestedTries : Nat := %d" % _nested_tries(ct[0]),
        "def discardHandlers : List (String × String) := " + _pairs(_handlers(ct[1])),
        "def finalizeCommitArg : String := " + lean_str(ast.unparse(arg)),
        "/-- finalize passes `not self.__uncommittedTrusted`; the flag is False from __init__ (before its __commit) and set",
        "True only right after the replacePath of __save -/",
        "def finalizeVerifiesUntrusted : Bool := " + ("true" if (arg_not_trusted and flag_ok) else "false"),
    ]


def _pairs(ps):
    return "[" + ", ".join("(%s, %s)" % (lean_str(a), lean_str(b)) for a, b in ps) + "]"


def extract(repo):
    t = parse(repo, "pym/bob/state.py")
    cls = find(t, "_BobState")
    init = find(cls, "__init__")
    save = find(cls, "__save")
    commit = find(cls, "__commit")
    env = {}
    env["__path"] = _path_expr(_attr_assign(init, "__path"), env)
    env["__uncommittedPath"] = _path_expr(_attr_assign(init, "__uncommittedPath"), env)
    dirty = _path_expr(_name_assign(save, "dirtyPath"), env)
    lock = _path_expr(_name_assign(init, "lockFile"), env)
    # lock open flags
    flags = None
    for n in ast.walk(init):
        if isinstance(n, ast.Call) and isinstance(n.func, ast.Attribute) and n.func.attr == "open" \
                and isinstance(n.func.value, ast.Name) and n.func.value.id == "os" and len(n.args) >= 2:
            flags = sorted(a.attr for a in ast.walk(n.args[1]) if isinstance(a, ast.Attribute) and a.attr.startswith("O_"))
    if flags is None:
        raise ExtractError("os.open of the lock file not found")
    minv, curv = _class_const(cls, "MIN_VERSION"), _class_const(cls, "CUR_VERSION")
    attic = _class_const(cls, "VERSION_SINCE_ATTIC_TRACKED")
    # version comparisons in __init__: window checks against MIN/CUR, upgrades against literals
    window, upgrades = [], []
    for n in ast.walk(init):
        if isinstance(n, ast.Compare) and _is_version_subscript(n.left) and len(n.ops) == 1:
            rhs, op = n.comparators[0], type(n.ops[0]).__name__
            if isinstance(rhs, ast.Attribute) and rhs.attr in ("MIN_VERSION", "CUR_VERSION"):
                window.append((op, rhs.attr))
            elif isinstance(rhs, ast.Constant) and isinstance(rhs.value, int) and op in ("Eq", "LtE"):
                upgrades.append((op == "Eq", rhs.value))
            else:
                raise ExtractError("version comparison not understood: " + ast.dump(n)[:200])
    if sorted(window) != [("Gt", "CUR_VERSION"), ("Lt", "MIN_VERSION")]:
        raise ExtractError("version window checks changed: %r" % window)
    # trailer layout: DigestAdder.__exit__ and __commit must agree
    fm = set(_pack_formats(find(t, "DigestAdder", "__exit__")) + _pack_formats(commit))
    if len(fm) != 1:
        raise ExtractError("checksum trailer formats differ or are missing: %r" % sorted(fm))
    fmt = fm.pop()
    if fmt not in ("=L", "<L", ">L", "!L", "=I", "<I", ">I", "!I"):
        raise ExtractError("checksum trailer format not understood: %r" % fmt)
    slices = sorted(set(_neg_slices(commit)))
    if len(slices) != 1:
        raise ExtractError("checksum slices in __commit not understood: %r" % slices)
    # keys of the persisted dictionary and the version it is stamped with
    state = None
    for n in ast.walk(save):
        if isinstance(n, ast.Assign) and isinstance(n.targets[0], ast.Name) and n.targets[0].id == "state" \
                and isinstance(n.value, ast.Dict):
            state = n.value
    if state is None:
        raise ExtractError("state dictionary of __save not found")
    keys = [literal(k) for k in state.keys]
    vnode = state.values[keys.index("version")]
    if not (isinstance(vnode, ast.Attribute) and vnode.attr == "CUR_VERSION"):
        raise ExtractError("__save does not stamp CUR_VERSION")
    out = [HEADER % "c10", "namespace Consts.C10",
           "def pathPickle : String := " + lean_str(env["__path"]),
           "def pathNew : String := " + lean_str(env["__uncommittedPath"]),
           "def pathDirty : String := " + lean_str(dirty),
           "def pathLock : String := " + lean_str(lock),
           "def lockFlags : List String := " + lean_str_list(flags),
           "def minVersion : Nat := %d" % minv,
           "def curVersion : Nat := %d" % curv,
           "def versionSinceAtticTracked : Nat := %d" % attic,
           "/-- version upgrades applied at load, in source order: (isEq, n) stands for `version == n` resp. `version <= n` -/",
           "def upgrades : List (Bool × Nat) := [" + ", ".join("(%s, %d)" % ("true" if e else "false", v) for e, v in upgrades) + "]",
           "def trailerFormat : String := " + lean_str(fmt),
           "def trailerLen : Nat := %d" % struct.calcsize(fmt),
           "def trailerBigEndian : Bool := " + ("true" if fmt[0] in ">!" else "false"),
           "def verifySlice : Nat := %d" % slices[0],
           "def stateKeys : List String := " + lean_str_list(keys)] + _fault_handling(cls) + [
           "end Consts.C10", ""]
    return "\n".join(out)


def anchors(repo):
    t = parse(repo, "pym/bob/state.py")
    cls = find(t, "_BobState")
    return {n: anchor_hash(find(cls, n)) for n in ("__init__", "__save", "__commit", "finalize", "setAsynchronous", "setSynchronous")}
