"""Constants of pym/bob/builder.py that the builder model (C01, C05) and its theorems depend on:
the source order of the state updates / workspace operations in the three cook functions, and whether a
prune invalidates the stored state before it empties the workspace."""
import ast
from .astutil import *

CALLS = {"resetWorkspaceState", "setDirectoryState", "delInputHashes", "setResultHash", "setInputHashes",
         "setVariantId", "emptyDirectory", "_runShell", "_constructDir", "setAtticDirectoryState", "rename",
         "hashWorkspace", "_generateAudit", "unlink"}


def call_name(n):
    f = n.func
    if isinstance(f, ast.Attribute):
        return f.attr
    if isinstance(f, ast.Name):
        return f.id
    return None


def call_order(fn):
    """names of the interesting calls of a function in source order (nested defs excluded)"""
    out = []
    for n in ast.walk(fn):
        if isinstance(n, ast.Call) and call_name(n) in CALLS:
            out.append((n.lineno, n.col_offset, call_name(n), n))
    out.sort(key=lambda x: (x[0], x[1]))
    return out


def invalidates_before_empty(fn):
    """is there a `resetWorkspaceState(path, None)` before the first `emptyDirectory(path)`?"""
    calls = call_order(fn)
    for i, (_, _, name, node) in enumerate(calls):
        if name == "emptyDirectory":
            for (_, _, n2, node2) in calls[:i]:
                if n2 == "resetWorkspaceState" and len(node2.args) == 2 and isinstance(node2.args[1], ast.Constant) \
                        and node2.args[1].value is None:
                    return True
            return False
    raise ExtractError("no emptyDirectory call in " + fn.name)


def scm_invalidates_first(fn):
    """does `_cookCheckoutStep` persist `oldCheckoutState[scmDir] = (False, scmSpec)` before it switches / moves a
    changed SCM directory?  (one such assignment belongs to --clean-checkout, the second one is the invalidation)"""
    n = 0
    for node in ast.walk(fn):
        if isinstance(node, ast.Assign) and len(node.targets) == 1 and isinstance(node.targets[0], ast.Subscript) \
                and isinstance(node.targets[0].value, ast.Name) and node.targets[0].value.id == "oldCheckoutState" \
                and isinstance(node.value, ast.Tuple) and node.value.elts \
                and isinstance(node.value.elts[0], ast.Constant) and node.value.elts[0].value is False:
            n += 1
    return n >= 2


def body_text(repo):
    t = parse(repo, "pym/bob/builder.py")
    lb = find(t, "LocalBuilder")
    co = find(lb, "_cookCheckoutStep")
    bu = find(lb, "_cookBuildStep")
    pp = find(lb, "_preparePackageStep")
    pk = find(lb, "_cookPackageStep")
    names = lambda fn: [c[2] for c in call_order(fn)]
    lines = [
        "def checkoutCalls : List String := " + lean_str_list(names(co)),
        "def buildCalls : List String := " + lean_str_list(names(bu)),
        "def prepareCalls : List String := " + lean_str_list(names(pp)),
        "def packageCalls : List String := " + lean_str_list(names(pk)),
        "/-- `_cookBuildStep` invalidates the stored state before it empties a workspace it prunes -/",
        "def buildPruneInvalidatesFirst : Bool := " + ("true" if invalidates_before_empty(bu) else "false"),
        "/-- `_preparePackageStep` invalidates the stored state before it empties a workspace it prunes -/",
        "def packagePruneInvalidatesFirst : Bool := " + ("true" if invalidates_before_empty(pp) else "false"),
        "/-- `_cookCheckoutStep` marks a changed SCM directory as invalid in the stored state before it is switched or moved -/",
        "def scmInvalidatesFirst : Bool := " + ("true" if scm_invalidates_first(co) else "false"),
    ]
    return lines


def extract(repo, ns="C01"):
    return "\n".join([HEADER % ns.lower(), "namespace Consts." + ns] + body_text(repo) + ["end Consts." + ns, ""])
