"""Constants of the Variant-Id encoder (pym/bob/input.py: DigestHasher, CoreStep.getDigest, mergeScripts)
that the C02/C03 digest model and its theorems depend on: struct formats (in source order), the 20-byte
pad, the empty-script marker, the slice boundaries of the recipe/host halves and the script glue."""
import ast
import struct
from .astutil import *


def bytes_literal(node):
    """evaluate b'..' and b'..' * n"""
    if isinstance(node, ast.BinOp) and isinstance(node.op, ast.Mult):
        l, r = node.left, node.right
        if isinstance(l, ast.Constant) and isinstance(l.value, bytes) and isinstance(r, ast.Constant) and isinstance(r.value, int):
            return l.value * r.value
        if isinstance(r, ast.Constant) and isinstance(r.value, bytes) and isinstance(l, ast.Constant) and isinstance(l.value, int):
            return r.value * l.value
    if isinstance(node, ast.Constant) and isinstance(node.value, bytes):
        return node.value
    return None


def pack_formats(fn):
    """format strings of all struct.pack calls in source order"""
    calls = []
    for n in ast.walk(fn):
        if isinstance(n, ast.Call) and isinstance(n.func, ast.Attribute) and n.func.attr == "pack" \
                and isinstance(n.func.value, ast.Name) and n.func.value.id == "struct":
            if not n.args or not isinstance(n.args[0], ast.Constant) or not isinstance(n.args[0].value, str):
                raise ExtractError("struct.pack with a non literal format in " + fn.name)
            calls.append((n.lineno, n.col_offset, n.args[0].value))
    return [f for _, _, f in sorted(calls)]


def update_bytes(fn, method="update"):
    """byte literals passed directly to h.update(...) in source order"""
    out = []
    for n in ast.walk(fn):
        if isinstance(n, ast.Call) and isinstance(n.func, ast.Attribute) and n.func.attr == method and n.args:
            b = bytes_literal(n.args[0])
            if b is not None:
                out.append((n.lineno, n.col_offset, b))
    return [b for _, _, b in sorted(out)]


def slice_bounds(fn):
    """(lower, upper) of the single subscript slice returned by a DigestHasher.slice* helper"""
    for n in ast.walk(fn):
        if isinstance(n, ast.Subscript) and isinstance(n.slice, ast.Slice):
            lo = literal(n.slice.lower) if n.slice.lower is not None else None
            hi = literal(n.slice.upper) if n.slice.upper is not None else None
            return lo, hi
    raise ExtractError("no slice in " + fn.name)


def digest_consts(fn, where):
    fmts = pack_formats(fn)
    for f in fmts:
        if f not in ("<I", "<II"):
            raise ExtractError("%s: unexpected struct format %r (the model knows little-endian 32 bit counts only)" % (where, f))
    lits = update_bytes(fn)
    pads = [b for b in lits if len(b) > 4]
    empties = [b for b in lits if len(b) == 4]
    if len(pads) != 1 or len(empties) != 1:
        raise ExtractError("%s: expected one pad and one empty-script literal, found %r" % (where, lits))
    return fmts, pads[0], empties[0]


def extract(repo):
    t = parse(repo, "pym/bob/input.py")
    dh = find(t, "DigestHasher")
    lo, hi = slice_bounds(find(dh, "sliceRecipes"))
    if lo is not None or not isinstance(hi, int):
        raise ExtractError("sliceRecipes is not digest[:n]")
    lo2, hi2 = slice_bounds(find(dh, "sliceHost"))
    if hi2 is not None or not isinstance(lo2, int):
        raise ExtractError("sliceHost is not digest[n:]")
    fmts, pad, empty = digest_consts(find(t, "CoreStep", "getDigest"), "CoreStep.getDigest")
    lang = parse(repo, "pym/bob/languages.py")
    glue = None
    for n in ast.iter_child_nodes(find(lang, "BashLanguage")):
        if isinstance(n, ast.Assign) and isinstance(n.targets[0], ast.Name) and n.targets[0].id == "glue":
            glue = literal(n.value)
    if not isinstance(glue, str):
        raise ExtractError("BashLanguage.glue not found")
    out = [HEADER % "c02", "namespace Consts.C02",
           "def fmts : List String := " + lean_str_list(fmts),
           "def intWidth : Nat := %d" % struct.calcsize("<I"),
           "def pad : List Nat := " + lean_nat_list(pad),
           "def emptyScript : List Nat := " + lean_nat_list(empty),
           "def sliceLen : Nat := %d" % hi,
           "def hostFrom : Nat := %d" % lo2,
           "def glueBash : String := " + lean_str(glue),
           "end Consts.C02", ""]
    return "\n".join(out)


def anchors(repo):
    t = parse(repo, "pym/bob/input.py")
    return {"CoreStep.getDigest": anchor_hash(find(t, "CoreStep", "getDigest")),
            "DigestHasher": anchor_hash(find(t, "DigestHasher")),
            "mergeScripts": anchor_hash(find(t, "mergeScripts"))}
