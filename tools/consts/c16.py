"""Constants of the directory assignment (pym/bob/builder.py, pym/bob/cmds/build/state.py,
pym/bob/state.py, pym/bob/cmds/build/clean.py) that the C16 model depends on."""
import ast
from .astutil import *


def _join_consts(fn):
    """string constants that are direct arguments of os.path.join(...) calls in fn"""
    out = []
    for n in ast.walk(fn):
        if isinstance(n, ast.Call) and isinstance(n.func, ast.Attribute) and n.func.attr == "join":
            for a in n.args:
                if isinstance(a, ast.Constant) and isinstance(a.value, str):
                    out.append(a.value)
    return out


def _one(xs, what):
    if len(xs) != 1:
        raise ExtractError("%s: expected exactly one constant, found %r" % (what, xs))
    return xs[0]


def _replace_args(fn):
    for n in ast.walk(fn):
        if isinstance(n, ast.Call) and isinstance(n.func, ast.Attribute) and n.func.attr == "replace":
            return [literal(a) if isinstance(a, ast.Constant) else ast.unparse(a) for a in n.args]
    raise ExtractError("no .replace() in " + fn.name)


def extract(repo):
    b = parse(repo, "pym/bob/builder.py")
    lb = find(b, "LocalBuilder")
    workspace = _one(_join_consts(find(lb, "makeRunnable")), "makeRunnable")
    dev = _one(_join_consts(find(lb, "developNameFormatter")), "developNameFormatter")
    work = _one(_join_consts(find(lb, "releaseNameFormatter")), "releaseNameFormatter")
    for f in ("developNameFormatter", "releaseNameFormatter"):
        if _replace_args(find(lb, f)) != ["::", "os.sep"]:
            raise ExtractError(f + ": the '::' -> os.sep replacement changed")
    out = [HEADER % "c16", "namespace Consts.C16",
           "def workspaceName : List Char := " + lean_chars(workspace),
           "def devPrefix : List Char := " + lean_chars(dev),
           "def workPrefix : List Char := " + lean_chars(work),
           "end Consts.C16", ""]
    return "\n".join(out)


def anchors(repo):
    st = parse(repo, "pym/bob/cmds/build/state.py")
    cl = parse(repo, "pym/bob/cmds/build/clean.py")
    s = parse(repo, "pym/bob/state.py")
    return {"DevelopDirOracle": anchor_hash(find(st, "DevelopDirOracle")),
            "collectPaths": anchor_hash(find(cl, "collectPaths")),
            "doClean": anchor_hash(find(cl, "doClean")),
            "getByNameDirectory": anchor_hash(find(s, "_BobState", "getByNameDirectory"))}
