"""Constants behind the download decision of pym/bob/builder.py and the platform tag of the Build-Id:

  * `utils.getPlatformTag`: every byte string the tag is composed of (Props/C07.lean: none contains NUL, so the
    tag can be split off the 20 zero bytes that follow it in the digest);
  * `LocalBuilder.__init__`: the initial download / upload depths;
  * `LocalBuilder.__setDownloadMode`: the (download depth, forced depth) it sets for every documented mode and both
    answers of `archive.canDownload()` - obtained by compiling the function's AST *alone* and calling it on a
    stub object (nothing else of Bob is imported or run).
"""
import ast
from .astutil import *

MODES = ["no", "yes", "deps", "forced", "forced-deps", "forced-fallback", "packages=x"]


def _init_consts(fn):
    out = {}
    for n in ast.walk(fn):
        if isinstance(n, ast.Assign) and len(n.targets) == 1 and isinstance(n.targets[0], ast.Attribute) \
                and isinstance(n.targets[0].value, ast.Name) and n.targets[0].value.id == "self":
            name = n.targets[0].attr
            if name in ("__downloadDepth", "__downloadDepthForce", "__uploadDepth"):
                out[name] = literal(n.value)
    for k in ("__downloadDepth", "__downloadDepthForce", "__uploadDepth"):
        if not isinstance(out.get(k), int):
            raise ExtractError("LocalBuilder.__init__ does not initialise self." + k)
    return out


def _mode_table(fn, init):
    mod = ast.Module(body=[fn], type_ignores=[])
    ast.fix_missing_locations(mod)
    ns = {"re": __import__("re"), "BuildError": Exception}
    try:
        exec(compile(mod, "<__setDownloadMode>", "exec"), ns)
    except Exception as e:
        raise ExtractError("cannot compile __setDownloadMode: %s" % e) from e
    f = ns[fn.name]
    rows = []
    for mode in MODES:
        for can in (False, True):
            class Arch:
                def canDownload(self):
                    return can

            class Self:
                pass
            s = Self()
            setattr(s, "__archive", Arch())
            setattr(s, "__downloadDepth", init["__downloadDepth"])
            setattr(s, "__downloadDepthForce", init["__downloadDepthForce"])
            setattr(s, "__downloadPackages", None)
            try:
                f(s, mode)
            except Exception as e:
                raise ExtractError("__setDownloadMode(%r) raised %r" % (mode, e)) from e
            d, df = getattr(s, "__downloadDepth"), getattr(s, "__downloadDepthForce")
            if not isinstance(d, int) or not isinstance(df, int):
                raise ExtractError("__setDownloadMode(%r) left non-integer depths" % mode)
            rows.append((mode.split("=")[0], can, d, df, getattr(s, "__downloadPackages") is not None))
    return rows


def extract(repo):
    tu = parse(repo, "pym/bob/utils.py")
    tags = constants(find(tu, "getPlatformTag"), bytes)
    if not tags:
        raise ExtractError("getPlatformTag has no byte string constants")
    tb = parse(repo, "pym/bob/builder.py")
    init = _init_consts(find(tb, "LocalBuilder", "__init__"))
    rows = _mode_table(find(tb, "LocalBuilder", "__setDownloadMode"), init)
    out = [HEADER % "c07", "namespace Consts.C07",
           "def platformTagParts : List (List Nat) := [" + ", ".join(lean_nat_list(t) for t in tags) + "]",
           "def downloadDepthInit : Nat := %d" % init["__downloadDepth"],
           "def downloadDepthForceInit : Nat := %d" % init["__downloadDepthForce"],
           "def uploadDepthInit : Nat := %d" % init["__uploadDepth"],
           "/-- (mode, archive.canDownload(), download depth, forced depth, package regex set) -/",
           "def modeTable : List (String × Bool × Nat × Nat × Bool) := [" +
           ", ".join("(%s, %s, %d, %d, %s)" % (lean_str(m), "true" if c else "false", d, df, "true" if p else "false")
                     for m, c, d, df, p in rows) + "]",
           "end Consts.C07", ""]
    return "\n".join(out)


def anchors(repo):
    tb = parse(repo, "pym/bob/builder.py")
    return {"LocalBuilder._downloadPackage": anchor_hash(find(tb, "LocalBuilder", "_downloadPackage")),
            "LocalBuilder.__setDownloadMode": anchor_hash(find(tb, "LocalBuilder", "__setDownloadMode")),
            "dissectPackageInputState": anchor_hash(find(tb, "dissectPackageInputState"))}
