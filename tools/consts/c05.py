"""C05 shares the builder model with C01: the model imports Generated/ConstsC01.lean, so this extractor
refreshes that file too (a check of C05 alone must not run against stale constants) and emits the same
constants in the namespace Consts.C05."""
import os
from . import c01
from .astutil import *


def extract(repo):
    src01 = c01.extract(repo, "C01")
    out = os.path.join(os.path.dirname(os.path.abspath(__file__)), "..", "..", "lean", "BobModel", "Generated", "ConstsC01.lean")
    if not os.path.exists(out) or open(out).read() != src01:
        with open(out, "w") as f:
            f.write(src01)
    return c01.extract(repo, "C05")
