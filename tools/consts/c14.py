"""Constants of pym/bob/audit.py that the C14 model and theorems depend on: tags and struct formats of
digestMap / digestString / digestData, the order of the isinstance tests (int is tested before bool, which
makes the bool branch dead: True/False are digested as the integers 1/0), the required keys of a record and
the step label at which getReferencedBuildIds stops."""
import ast
from .astutil import *


def _pack_calls(fn):
    """all struct.pack(fmt, tag, ...) calls below fn in source order -> [(fmt, tag)]"""
    out = []
    for n in ast.walk(fn):
        if isinstance(n, ast.Call) and isinstance(n.func, ast.Attribute) and n.func.attr == "pack" \
                and isinstance(n.func.value, ast.Name) and n.func.value.id == "struct" and len(n.args) >= 2:
            out.append((literal(n.args[0]), literal(n.args[1]), n))
    return out


def _branches(fn):
    """the if/elif chain of digestData -> [(kind, body)] in test order"""
    top = [s for s in fn.body if isinstance(s, ast.If)]
    if len(top) != 1:
        raise ExtractError("digestData: expected one if/elif chain")
    node, out = top[0], []
    while True:
        t = node.test
        if isinstance(t, ast.Call) and isinstance(t.func, ast.Name) and t.func.id == "isinstance" \
                and isinstance(t.args[1], ast.Name):
            kind = t.args[1].id
        elif isinstance(t, ast.Compare) and isinstance(t.ops[0], ast.Is) and isinstance(t.comparators[0], ast.Constant) \
                and t.comparators[0].value is None:
            kind = "None"
        else:
            raise ExtractError("digestData: unexpected test " + ast.dump(t)[:120])
        out.append((kind, node.body))
        if len(node.orelse) == 1 and isinstance(node.orelse[0], ast.If):
            node = node.orelse[0]
        else:
            break
    return out


def _one_pack(body, what):
    m = ast.Module(body=body, type_ignores=[])
    p = _pack_calls(m)
    if len(p) != 1:
        raise ExtractError("%s: expected exactly one struct.pack" % what)
    return p[0]


def _calls(node, name):
    return [n for n in ast.walk(node) if isinstance(n, ast.Call) and
            ((isinstance(n.func, ast.Name) and n.func.id == name) or
             (isinstance(n.func, ast.Attribute) and n.func.attr == name))]


def extract(repo):
    t = parse(repo, "pym/bob/audit.py")
    dm, ds, dd = find(t, "digestMap"), find(t, "digestString"), find(t, "digestData")
    fmt, tag_map, call = _one_pack(dm.body, "digestMap")
    if fmt != "<BI" or not (isinstance(call.args[2], ast.Call) and call.args[2].func.id == "len"):
        raise ExtractError("digestMap header is not struct.pack('<BI', tag, len(m)): %r" % fmt)
    srt = _calls(dm, "sorted")
    if len(srt) != 1 or not (isinstance(srt[0].args[0], ast.Call) and srt[0].args[0].func.attr == "items") or srt[0].keywords:
        raise ExtractError("digestMap does not iterate sorted(m.items())")
    if [c.func.id for c in ast.walk(dm) if isinstance(c, ast.Call) and isinstance(c.func, ast.Name)
            and c.func.id in ("digestString", "digestData")] != ["digestString", "digestData"]:
        raise ExtractError("digestMap body is not digestString(k); digestData(v)")
    fmt, tag_str, call = _one_pack(ds.body, "digestString")
    if fmt != "<BI" or not (isinstance(call.args[2], ast.Call) and call.args[2].func.id == "len"
                           and isinstance(call.args[2].args[0], ast.Name)):
        raise ExtractError("digestString header is not struct.pack('<BI', tag, len(s))")
    enc = _calls(ds, "encode")
    if len(enc) != 1 or literal(enc[0].args[0]).lower().replace("-", "") != "utf8":
        raise ExtractError("digestString does not encode as utf8")
    br = _branches(dd)
    kinds = [k for k, _ in br]
    if sorted(kinds) != sorted(["str", "dict", "list", "int", "bool", "bytes", "None"]):
        raise ExtractError("digestData handles %r" % kinds)
    body = dict(br)
    if [c.func.id for c in _calls(ast.Module(body=body["str"], type_ignores=[]), "digestString")] != ["digestString"]:
        raise ExtractError("digestData(str) does not delegate to digestString")
    if [c.func.id for c in _calls(ast.Module(body=body["dict"], type_ignores=[]), "digestMap")] != ["digestMap"]:
        raise ExtractError("digestData(dict) does not delegate to digestMap")
    fmt, tag_list, _ = _one_pack(body["list"], "list")
    if fmt != "<BI":
        raise ExtractError("list header format %r" % fmt)
    fmt, tag_int, _ = _one_pack(body["int"], "int")
    if fmt != "<Bq":
        raise ExtractError("int format %r" % fmt)
    fmt, tag_bool, _ = _one_pack(body["bool"], "bool")
    if fmt != "<B?":
        raise ExtractError("bool format %r" % fmt)
    fmt, tag_bytes, _ = _one_pack(body["bytes"], "bytes")
    if fmt != "<BI":
        raise ExtractError("bytes header format %r" % fmt)
    nn = [n for n in ast.walk(ast.Module(body=body["None"], type_ignores=[])) if isinstance(n, ast.Call)
          and isinstance(n.func, ast.Attribute) and n.func.attr == "pack"]
    if len(nn) != 1 or literal(nn[0].args[0]) != "<B":
        raise ExtractError("None format")
    tag_none = literal(nn[0].args[1])
    art = find(t, "Artifact")
    req = None
    for c in art.body:
        if isinstance(c, ast.Assign) and c.targets[0].id == "REQUIRED_KEYS":
            req = sorted(literal(c.value.args[0]))
    if req is None:
        raise ExtractError("Artifact.REQUIRED_KEYS not found")
    rbi = find(t, "Audit", "getReferencedBuildIds")
    labels = [c for c in constants(rbi, str) if c != "step"]
    if "step" not in constants(rbi, str) or len(labels) != 1:
        raise ExtractError("getReferencedBuildIds: stop label not found")
    out = [HEADER % "c14", "namespace Consts.C14",
           "def tagMap : Nat := %d" % tag_map,
           "def tagStr : Nat := %d" % tag_str,
           "def tagList : Nat := %d" % tag_list,
           "def tagInt : Nat := %d" % tag_int,
           "def tagBool : Nat := %d" % tag_bool,
           "def tagBytes : Nat := %d" % tag_bytes,
           "def tagNone : Nat := %d" % tag_none,
           "/-- `isinstance(d, int)` is tested before `isinstance(d, bool)`: booleans take the int branch -/",
           "def intBeforeBool : Bool := %s" % ("true" if kinds.index("int") < kinds.index("bool") else "false"),
           "def requiredKeys : List String := " + lean_str_list(req),
           "def stopLabel : String := " + lean_str(labels[0]),
           "end Consts.C14", ""]
    return "\n".join(out)


def anchors(repo):
    t = parse(repo, "pym/bob/audit.py")
    return {"digestData": anchor_hash(find(t, "digestData")), "Audit": anchor_hash(find(t, "Audit")),
            "Artifact": anchor_hash(find(t, "Artifact"))}
