#!/usr/bin/env python3
"""keep a confirmed seeded change under /verif/seeded/<PROP>-<i>/ (patch.diff, demo.py, meta.json)
usage: keep_seed.py PROP/i caught_by note   (caught_by: concrete | no-failing-input-found | missed)"""
import json, os, shutil, sys
s, caught, note = sys.argv[1], sys.argv[2], sys.argv[3] if len(sys.argv) > 3 else ""
prop, i = s.split("/")
src = "/tmp/seed-out/%s" % s
dst = "/verif/seeded/%s-%s" % (prop, i)
os.makedirs(dst, exist_ok=True)
for f in ("patch.diff", "demo.py"):
    shutil.copy(os.path.join(src, f), dst)
m = json.load(open(os.path.join(src, "meta.json")))
def load(p):
    try:
        txt = "".join(l for l in open(p) if "conda" not in l)
        return json.loads(txt[txt.index("{"):txt.rindex("}") + 1])
    except Exception:
        return {}
vt = load("/tmp/vt-%s-%s.json" % (prop, i))
vs = {}
for cand in ("/tmp/vs-%s-%s.json" % (prop, i), "/tmp/vs-%s-%sb.json" % (prop.lower(), i), "/tmp/vs-%s-%s.json" % (prop.lower(), i)):
    if os.path.exists(cand) and load(cand):
        vs = load(cand); break
out = {
    "property": prop,
    "summary": m.get("summary"), "breaks": m.get("breaks"), "needs": m.get("needs"),
    "written_by": "independent sub-agent that was given only the property text and its own worktree of /repo",
    "confirmed_by_me": {
        "how": "tools/verify_seed.py in a scratch git worktree of /repo (demo on the unmodified tree, git apply, demo with the change, imports, full pytest run compared with the stable baseline of /root/.vp/BASELINE.json)",
        "demo_exit_without_change": vt.get("demo_without", vs.get("demo_without")),
        "demo_exit_with_change": vt.get("demo_with", vs.get("demo_with")),
        "tests_still_pass": vt.get("tests_ok", "pending (run queued)"),
        "baseline_tests_broken": vt.get("baseline_broken", None),
    },
    "check_result": {"caught": caught, "note": note, "check_exit": vs.get("check_rc"), "check_tail": (vs.get("check_tail") or "")[-300:]},
}
json.dump(out, open(os.path.join(dst, "meta.json"), "w"), indent=1)
print("kept", dst, caught)
