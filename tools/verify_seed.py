#!/usr/bin/env python3
"""Confirm a seeded change (patch.diff + demo.py) independently, in a scratch worktree of /repo:
   1. demo passes on the unmodified tree, 2. patch applies, 3. demo fails with the patch,
   4. every test of the stable baseline still passes with the patch (unless --no-tests).
Optionally (--check CXX) run the registered quick check against the patched worktree via BOB_VERIF_REPO.
usage: verify_seed.py <seed dir> [--no-tests] [--check CXX] [--keep]"""
import json
import os
import shutil
import subprocess
import sys
import tempfile
import xml.etree.ElementTree as ET


def sh(cmd, **kw):
    p = subprocess.run(cmd, shell=isinstance(cmd, str), stdout=subprocess.PIPE, stderr=subprocess.STDOUT, **kw)
    return p.returncode, p.stdout.decode("utf-8", "replace")


def run_demo(seed, root):
    env = dict(os.environ, BOB_ROOT=root, PYTHONPATH=os.path.join(root, "pym"), PYTHONDONTWRITEBYTECODE="1")
    return sh(["/venv/bin/python", os.path.join(seed, "demo.py")], env=env, timeout=900)


def main():
    args = sys.argv[1:]
    seed = os.path.abspath(args[0])
    no_tests = "--no-tests" in args
    check = args[args.index("--check") + 1] if "--check" in args else None
    wt = tempfile.mkdtemp(prefix="vseed-")
    os.rmdir(wt)
    rc, out = sh(["git", "-C", "/repo", "worktree", "add", "--detach", wt, "HEAD"])
    assert rc == 0, out
    res = {"seed": seed}
    try:
        rc, out = run_demo(seed, wt)
        res["demo_without"] = rc
        rc, out = sh(["git", "-C", wt, "apply", os.path.join(seed, "patch.diff")])
        res["applies"] = rc == 0
        if rc != 0:
            res["apply_error"] = out[-500:]
            return res
        rc, out = run_demo(seed, wt)
        res["demo_with"] = rc
        res["demo_tail"] = out[-600:]
        rc, out = sh(["/venv/bin/python", "-c", "import sys; sys.path.insert(0,'pym'); import bob; assert bob.__file__.startswith(sys.argv[1]), bob.__file__; import bob.builder, bob.input, bob.cmds.build.build, bob.cmds.archive, bob.cmds.jenkins.jenkins, bob.share, bob.archive", wt], cwd=wt)
        res["imports"] = rc == 0
        if not no_tests:
            xml = os.path.join(wt, "junit.xml")
            # pytest exits non-zero anyway (offline svn/cvs/jenkins tests fail on the baseline too): fall back to a
            # serial run only if the parallel run produced no report
            sh("/venv/bin/python -m pytest -q -p no:cacheprovider --timeout=900 --continue-on-collection-errors --junitxml=%s -n %s 2>/dev/null; test -s %s || /venv/bin/python -m pytest -q -p no:cacheprovider --timeout=900 --continue-on-collection-errors --junitxml=%s" % (xml, os.environ.get("VSEED_N", "6"), xml, xml),
               cwd=wt, timeout=7200, env=dict(os.environ, PYTHONPATH=os.path.join(wt, "pym")))
            passed = set()
            for tc in ET.parse(xml).getroot().iter("testcase"):
                if not list(tc):
                    passed.add(tc.get("classname") + "::" + tc.get("name"))
            base = set(json.load(open("/root/.vp/BASELINE.json"))["stable_pass"])
            res["baseline_broken"] = sorted(base - passed)
            res["tests_ok"] = not res["baseline_broken"]
        if check:
            env = dict(os.environ, BOB_VERIF_REPO=wt)
            rc, out = sh(["/verif/check", check], env=env, timeout=3600)
            res["check_rc"] = rc
            res["check_tail"] = "\n".join(l for l in out.splitlines() if "conda" not in l)[-800:]
            # restore generated constants for the real repo
            sh(["/venv/bin/python", "/verif/tools/regen_consts.py"])
        return res
    finally:
        if "--keep" not in args:
            sh(["git", "-C", "/repo", "worktree", "remove", "--force", wt])
            shutil.rmtree(wt, ignore_errors=True)
        print(json.dumps(res, indent=1))


if __name__ == "__main__":
    main()
