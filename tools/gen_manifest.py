"""(re)generate MANIFEST.json from harness/props/cXX.py (`MANIFEST` dict of each module) and validate it"""
import importlib
import json
import os
import sys

HERE = os.path.dirname(os.path.abspath(__file__))
VERIF = os.path.dirname(HERE)
sys.path.insert(0, os.path.join(VERIF, "harness"))
props = [json.loads(l) for l in open(os.path.join(VERIF, "properties.jsonl"))]
claimed = set(open(os.path.join(HERE, "claimed.txt")).read().split())
checks, na = [], []
for p in props:
    pid = p["id"]
    path = os.path.join(VERIF, "harness", "props", pid.lower() + ".py")
    if pid not in claimed or not os.path.exists(path):
        na.append({"property_id": pid, "reason": "check not built yet (construction in progress, see DESIGN.md section 4 for the plan); nothing is claimed for this property"})
        continue
    mod = importlib.import_module("props." + pid.lower())
    m = getattr(mod, "MANIFEST", {})
    checks.append({
        "property_id": pid,
        "quick_cmd": "./check %s --tier quick" % pid,
        "thorough_cmd": "./check %s --tier thorough" % pid,
        "evidence_file": "evidence/%s.json" % pid,
        "replay_cmd_template": "./check %s --replay {path}" % pid,
        "engine": "lean4+correspondence",
        "level_claimed": {"category": "proof", "text": m.get("text", ""), "design_ref": m.get("design_ref", "DESIGN.md section 4, " + pid)},
        "level_note": m.get("note", ""),
        "technique": m.get("technique", "Lean 4 theorems about a hand-written executable model + differential correspondence run against /repo + property oracle as failing-input search"),
    })
man = {
    "version": 1,
    "setup_cmd": "./setup.sh",
    "hooks": {"guard": "BOB_VERIF", "enable": "no source hooks: the harness wraps callables from outside and uses strace; BOB_VERIF is reserved",
              "baseline_off_cmd": "cd /repo && /venv/bin/python -m pytest -ra -q -p no:cacheprovider --timeout=900 --continue-on-collection-errors",
              "source_commits": [], "add_only": True},
    "engines": [{"name": "lean4+correspondence", "path": "lean/ harness/ tools/",
                 "serves_properties": [c["property_id"] for c in checks],
                 "kind_free_text": "Lean 4 models and theorems (lean/BobModel), compiled model drivers (lean/Driver), Python differential harness importing /repo/pym, constant extractor regenerating lean/BobModel/Generated from the current source"}],
    "checks": checks,
    "not_applicable": na,
    "notes": "fix: commits in /repo and known findings are listed in known-findings.json; see DESIGN.md",
}
json.dump(man, open(os.path.join(VERIF, "MANIFEST.json"), "w"), indent=1)
try:
    import jsonschema
    jsonschema.validate(man, json.load(open("/root/.vp/MANIFEST.schema.json")))
    print("MANIFEST.json valid:", len(checks), "checks,", len(na), "not applicable")
except ImportError:
    print("MANIFEST.json written (jsonschema not available for validation)")
