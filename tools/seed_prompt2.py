"""prompt for a further independent seeding agent: one change, numbered <idx>, mechanisms of earlier seeds excluded
usage: seed_prompt2.py CXX idx"""
import json, sys, glob, os, subprocess
pid, idx = sys.argv[1], sys.argv[2]
base = subprocess.run([sys.executable, os.path.join(os.path.dirname(__file__), "seed_prompt.py"), pid, "1"], stdout=subprocess.PIPE, text=True).stdout
wt = "/tmp/seed-%s-%s" % (pid.lower(), idx)
base = base.replace("/tmp/seed-%s" % pid.lower(), wt)
base = base.replace("For change number i (1..1) write these files: /tmp/seed-out/%s/<i>/patch.diff" % pid, "Write these files: /tmp/seed-out/%s/%s/patch.diff" % (pid, idx))
base = base.replace("/tmp/seed-out/%s/<i>/" % pid, "/tmp/seed-out/%s/%s/" % (pid, idx))
prev = []
for d in sorted(glob.glob("/verif/seeded/%s-*" % pid)):
    try:
        prev.append("- " + json.load(open(d + "/meta.json"))["summary"])
    except Exception:
        pass
if prev:
    base += "\n\nEarlier regressions already written for this property (choose a DIFFERENT mechanism, a different function and preferably a different clause of the property):\n" + "\n".join(prev)
base += "\n\nBe economical: one full unit-test run on the unmodified worktree is NOT needed (the baseline is known: the passing set is listed in /root/.vp/BASELINE.json under stable_pass); run the unit tests once with your change (use -n 4) and make sure that no test of that stable set fails. Aim to finish within 30 minutes."
print(base)
