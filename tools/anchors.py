#!/usr/bin/env python3
"""Anchor hashes: normalised-AST hash (no positions, no docstrings) of every source file a property is anchored in
(properties.jsonl `anchors.files`).  `tools/anchors.json` holds the hashes of the source the hand-written models
were last validated against.  A changed hash is NOT an alarm: it only tells the check that the model has not been
validated against this version of the modelled code yet, so the correspondence and oracle streams run with a larger
budget (see harness/core.py).  usage: anchors.py [--write]  (rewrites tools/anchors.json from /repo)"""
import ast, hashlib, json, os, sys

VERIF = os.path.dirname(os.path.dirname(os.path.abspath(__file__)))
BASE = os.path.join(VERIF, "tools", "anchors.json")


def file_hash(path):
    try:
        if os.path.isdir(path):
            h = hashlib.sha1()
            for root, dirs, files in sorted(os.walk(path)):
                dirs.sort()
                for f in sorted(files):
                    h.update(f.encode() + b"\0" + open(os.path.join(root, f), "rb").read())
            return h.hexdigest()[:16]
        src = open(path, "rb").read()
        if not path.endswith(".py"):
            return hashlib.sha1(src).hexdigest()[:16]
        tree = ast.parse(src)
        for node in ast.walk(tree):  # drop docstrings
            if isinstance(node, (ast.FunctionDef, ast.AsyncFunctionDef, ast.ClassDef, ast.Module)) and node.body and \
                    isinstance(node.body[0], ast.Expr) and isinstance(getattr(node.body[0], "value", None), ast.Constant) and \
                    isinstance(node.body[0].value.value, str):
                node.body[0].value.value = ""
        return hashlib.sha1(ast.dump(tree, include_attributes=False).encode()).hexdigest()[:16]
    except (OSError, SyntaxError) as e:
        return "unreadable:" + type(e).__name__


def anchors_of(prop):
    for l in open(os.path.join(VERIF, "properties.jsonl")):
        p = json.loads(l)
        if p["id"] == prop:
            return list(p["anchors"].get("files", []))
    return []


def current(prop, repo):
    return {f: file_hash(os.path.join(repo, f)) for f in anchors_of(prop)}


def changed(prop, repo):
    """(current hashes, files whose hash differs from the validated baseline)"""
    cur = current(prop, repo)
    try:
        base = json.load(open(BASE)).get(prop, {})
    except (OSError, ValueError):
        base = {}
    return cur, sorted(f for f, h in cur.items() if base.get(f) != h)


if __name__ == "__main__":
    props = [json.loads(l)["id"] for l in open(os.path.join(VERIF, "properties.jsonl"))]
    if "--write" in sys.argv:
        json.dump({p: current(p, "/repo") for p in props}, open(BASE, "w"), indent=1, sort_keys=True)
    for p in props:
        print(p, changed(p, os.environ.get("BOB_VERIF_REPO", "/repo"))[1])
