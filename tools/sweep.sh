#!/bin/sh
# development tool: run every claimed check for several seeds on the unchanged tree; results in sweep.log
# usage: tools/sweep.sh "0 1 2 3" [parallelism] [props...]
cd "$(dirname "$0")/.."
SEEDS="${1:-0 1 2}"; PAR="${2:-3}"; shift; shift
PROPS="${*:-$(cat tools/claimed.txt)}"
: > sweep.log
for s in $SEEDS; do for p in $PROPS; do echo "$p $s"; done; done | \
xargs -P "$PAR" -L 1 sh -c 'p=$0; s=$1; t0=$(date +%s); out=$(VERIF_SEED=$s ./check $p 2>&1 | grep -v conda); rc=$?; last=$(echo "$out" | tail -1); viol=$(echo "$out" | grep -c "^VIOLATION"); echo "$p seed=$s rc_line=[$last] violations=$viol wall=$(( $(date +%s) - t0 ))s" >> sweep.log'
sort sweep.log
