"""print the prompt for an independent mutation-seeding agent for one property (only the property text is given)"""
import json, sys
pid = sys.argv[1]
n = sys.argv[2] if len(sys.argv) > 2 else "2"
for l in open("/verif/properties.jsonl"):
    p = json.loads(l)
    if p["id"] == pid:
        break
text = json.dumps({k: p[k] for k in ("id", "title", "statement", "quantifier", "why_tests_cant", "anchors")}, indent=1)
print(f"""You are helping to evaluate how well a semantic property of the open-source build tool Bob (BobBuildTool/bob, Python, checked out at /repo) is guarded. Your job is to write {n} DIFFERENT realistic regressions: small code changes to Bob that BREAK the property below while the code still imports and the existing test suite still passes.

Work ONLY in your own scratch git worktree: run `git -C /repo worktree add --detach /tmp/seed-{pid.lower()} HEAD` and edit files only under /tmp/seed-{pid.lower()}. Never modify /repo itself. Do NOT read, list or use anything under /verif (it must stay unknown to you so that your changes are independent). Python with Bob's dependencies is /venv/bin/python; run Bob from your worktree with PYTHONPATH=/tmp/seed-{pid.lower()}/pym (every shell command prints a harmless conda warning line first). There is no network.

The property (JSON):
{text}

Requirements for each change:
* It must look like a plausible maintenance edit or optimisation gone wrong (not sabotage that ordinary use would expose at once). It should need something SPECIFIC to manifest: a particular interleaving, a crash or fault at a particular point, a multi-step sequence of operations, an unusual input, or two cooperating sites that each look fine alone.
* The code must still import/compile and the existing tests must still pass: run `cd /tmp/seed-{pid.lower()} && PYTHONPATH=/tmp/seed-{pid.lower()}/pym /venv/bin/python -m pytest -n 4 -q -p no:cacheprovider --timeout=900 --continue-on-collection-errors test/unit 2>&1 | tail -5` (the PYTHONPATH is essential: without it pytest imports Bob from /repo, not from your worktree) once on the unmodified worktree to learn the baseline (about 491 pass; ~113 fail already offline for svn/cvs/jenkins/urlscm-extraction/pathspec reasons — those known failures do not count) and again with each change: no test that passed before may fail.
* Provide a demonstration: a self-contained Python program `demo.py` (run as `PYTHONPATH=<bobroot>/pym /venv/bin/python demo.py`, where it takes the Bob root from the environment variable BOB_ROOT, default /repo) that exits 0 on the unmodified code and exits non-zero (printing what went wrong) with your change applied. It must exercise Bob's real code, create any scratch data under a fresh tempfile.mkdtemp() and clean up after itself.
* The {n} changes must differ in mechanism (different functions / different clauses of the property).

For change number i (1..{n}) write these files: /tmp/seed-out/{pid}/<i>/patch.diff (output of `git -C /tmp/seed-{pid.lower()} diff` for that change alone, applicable with `git apply` to a clean checkout), /tmp/seed-out/{pid}/<i>/demo.py, /tmp/seed-out/{pid}/<i>/meta.json with keys: property, summary (what was changed), breaks (which clause of the property and why), needs (what specific circumstances are needed to manifest), tests_run (the commands you ran and their result lines), demo_result_without (exit code), demo_result_with (exit code). Reset the worktree (`git -C /tmp/seed-{pid.lower()} checkout -- .`) between changes. When done remove your worktree: `git -C /repo worktree remove --force /tmp/seed-{pid.lower()}`. Final message: a short list of the changes.""")
