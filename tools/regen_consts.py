"""regenerate every lean/BobModel/Generated/Consts<Prop>.lean from /repo's current source"""
import glob
import importlib
import os
import sys
import traceback

HERE = os.path.dirname(os.path.abspath(__file__))
sys.path.insert(0, HERE)
REPO = os.environ.get("BOB_VERIF_REPO", "/repo")
rc = 0
for f in sorted(glob.glob(os.path.join(HERE, "consts", "c[0-9][0-9].py"))):
    name = os.path.basename(f)[:-3]
    out = os.path.join(HERE, "..", "lean", "BobModel", "Generated", "Consts%s.lean" % name.upper())
    try:
        src = importlib.import_module("consts." + name).extract(REPO)
    except Exception:
        traceback.print_exc()
        rc = 1
        continue
    if not os.path.exists(out) or open(out).read() != src:
        open(out, "w").write(src)
        print("regenerated", os.path.basename(out))
sys.exit(rc)
