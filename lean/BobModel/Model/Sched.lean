import BobModel.Model.JobSem
/-
Model of the cooperative scheduler of `LocalBuilder.cook` (pym/bob/builder.py).

asyncio is modelled as cooperative scheduling: a configuration holds a list of tasks (append only, the
index is the task id).  A task is the continuation of its coroutine: a list of operations `Op`, each of
which is what happens between two possible suspension points of `_cookTask`, `_cook`, `_cookStep`,
`__yieldJobWhile`, `__getBuildIdList`, `__getBuildIdTask`, `__getBuildIdSingle`, `__taskWrapper`
(with its fence), `asyncio.Lock`, the job slot semaphore and the script run.  `try/finally` and
`async with` are represented by clean-up operations (`release`, `reacq`, `unlock`, `wrapEnd`) that are
pushed when the protected block is entered and that are the only ones that survive a pending exception.

A *schedule* is a list of `Choice`s: which enabled task executes its next operation, which running
script finishes (successfully or not), when the event loop runs the reader callback of the job server
pipe, when a child `make` takes/returns a token.  Every interleaving of operations is allowed, which is a
superset of what asyncio does (a task runs until it really suspends).

Shared data as in the implementation: `cookTasks`/`buildIdTasks` keyed by (workspace path, sandbox
variant-id, checkoutOnly), `wasRun`/`wasSkipped`, the download-tried table, workspace locks, the
`running` flag, the list of build errors (its length), keep-going, the build-id caches and the job slot
semaphore.  `disk` holds the (abstract) content of every workspace, `trace` is the history of events.

Not modelled (see ASSUMPTIONS of harness/props/c06.py): cancellation (SIGINT), `--no-deps`, `--resume`,
live-build-id prediction with its restart round, downloads/uploads, shared packages, fingerprint scripts.
-/
namespace Sched
open JobSem

inductive Kind | checkout | build | package
  deriving DecidableEq, Repr

structure StepInfo where
  kind : Kind
  path : Nat
  vid : Nat
  sandbox : Option Nat
  valid : Bool
  deps : List Nat        -- getAllDepSteps()
  bidDeps : List Nat     -- valid arguments ++ tool steps (what getDigestCoro asks the build-ids of)
  deriving Repr

instance : Inhabited StepInfo := ⟨⟨.package, 0, 0, none, false, [], []⟩⟩

structure Project where
  steps : List StepInfo
  run : Nat → List Nat → Nat      -- result of a step's script as a function of its inputs' contents
  junk : Nat → Nat                 -- what a failing script leaves behind

def Project.info (P : Project) (s : Nat) : StepInfo := P.steps.getD s default

structure Cfg where
  par : Bool            -- jobs > 1
  keepGoing : Bool
  co0 : Bool            -- checkoutOnly of the invocation
  targets : List Nat
  deriving Repr

inductive Err | cancel | build | internal
  deriving DecidableEq, Repr

inductive Trk | cook | bid
  deriving DecidableEq, Repr

inductive TKind
  | dispatcher
  | top (s : Nat)
  | cook (s : Nat) (co : Bool)
  | bid (s : Nat)
  deriving DecidableEq, Repr

inductive Op
  | fence (k : Nat)
  | start | startWait
  | release
  | checkRunning
  | cook (steps : List Nat) (co : Bool)
  | spawn (trk : Trk) (steps : List Nat) (co : Bool)
  | spawnSeq (trk : Trk) (todo : List Nat) (co : Bool) (made : List Nat)
  | yieldRel (ks : List Nat) (raise : Bool)
  | gather (ks : List Nat)
  | waitOnly (ks : List Nat)
  | results (ks : List Nat)
  | reacq | reacqWait
  | cookBody (s : Nat) (co : Bool)
  | lock (s : Nat) (co : Bool) (dl : Bool)
  | lockWait (s : Nat) (co : Bool) (dl : Bool)
  | underLock (s : Nat) (co : Bool)
  | download (s : Nat)
  | unlock (p : Nat)
  | bidSingle (s : Nat)
  | cacheSrc (s : Nat) | cacheDist (s : Nat)
  | run (s : Nat)
  | runWait (s : Nat) (res : Option Bool)
  | setRun (s : Nat) (skipped : Bool)
  | spawnTop (targets : List Nat)
  | spawnTopSeq (todo : List Nat) (made : List Nat)
  | wrapEnd
  deriving DecidableEq, Repr

/-- operations of `finally` blocks / `__aexit__` / the epilogue of `__taskWrapper`: executed also while
an exception propagates -/
def Op.isFin : Op → Bool
  | .release | .reacq | .reacqWait | .unlock _ | .wrapEnd => true
  | _ => false

structure Task where
  kind : TKind
  ops : List Op
  err : Option Err
  deriving DecidableEq, Repr

instance : Inhabited Task := ⟨⟨.dispatcher, [], none⟩⟩

inductive Ev
  | spawn (id : Nat) (kind : TKind)
  | acq (t : Nat) | got (t : Nat)
  | rel (t : Nat) (ok : Bool)
  | start (t : Nat) (s : Nat)
  | fin (t : Nat) (s : Nat) (ok : Bool)
  | setRun (t : Nat) (s : Nat) (skipped : Bool)
  | pass (t : Nat)                 -- the task found `running` set
  | failRec (t : Nat)              -- `__taskWrapper` recorded a BuildError
  | done (t : Nat) (ok : Bool)
  deriving DecidableEq, Repr

abbrev Key := Nat × Option Nat × Bool

structure St where
  tasks : List Task
  runners : Runners
  running : Bool
  errors : Nat
  wasRun : List (Nat × Nat × Bool)          -- path ↦ (variant id, skipped)
  dlTried : List Nat
  locks : List (Nat × ALock)
  cookT : List (Key × Nat)
  bidT : List (Key × Nat)
  srcBid : List (Nat × Nat)
  distBid : List Nat
  disk : List (Nat × Nat)
  trace : List Ev
  deriving Repr

/-! ### small helpers -/

def lookup {β : Type} (k : Nat) : List (Nat × β) → Option β
  | [] => none
  | (k', v) :: r => if k' = k then some v else lookup k r

def insert {β : Type} (k : Nat) (v : β) : List (Nat × β) → List (Nat × β)
  | [] => [(k, v)]
  | (k', v') :: r => if k' = k then (k, v) :: r else (k', v') :: insert k v r

def remove {β : Type} (k : Nat) : List (Nat × β) → List (Nat × β)
  | [] => []
  | (k', v') :: r => if k' = k then r else (k', v') :: remove k r

def klookup (k : Key) : List (Key × Nat) → Option Nat
  | [] => none
  | (k', v) :: r => if k' = k then some v else klookup k r

def kremove (k : Key) : List (Key × Nat) → List (Key × Nat)
  | [] => []
  | (k', v) :: r => if k' = k then r else (k', v) :: kremove k r

def St.task (st : St) (t : Nat) : Task := st.tasks.getD t default

def St.setTask (st : St) (t : Nat) (x : Task) : St := { st with tasks := st.tasks.set t x }

def St.emit (st : St) (e : Ev) : St := { st with trace := st.trace ++ [e] }

def Task.done (x : Task) : Bool := x.ops.isEmpty

def Task.failed (x : Task) : Bool := x.ops.isEmpty && x.err.isSome

def St.allDone (st : St) (ks : List Nat) : Bool := ks.all fun k => (st.task k).done

def St.anyFailed (st : St) (ks : List Nat) : Bool := ks.any fun k => (st.task k).failed

def St.lockOf (st : St) (p : Nat) : ALock := (lookup p st.locks).getD ALock.init

def St.diskAt (st : St) (p : Nat) : Nat := (lookup p st.disk).getD 0

/-- `_wasAlreadyRun(step, skippedOk)`: the answer and the (possibly pruned) table -/
def wasAlreadyRun (P : Project) (wr : List (Nat × Nat × Bool)) (s : Nat) (skippedOk : Bool) :
    Bool × List (Nat × Nat × Bool) :=
  let i := P.info s
  match lookup i.path wr with
  | none => (false, wr)
  | some (vid, skipped) =>
    if vid ≠ i.vid then (false, remove i.path wr)
    else if !skippedOk && skipped then (false, wr)
    else (true, wr)

/-- the list comprehension at the top of `_cook` -/
def filterTodo (P : Project) (co : Bool) : List Nat → List (Nat × Nat × Bool) → List Nat × List (Nat × Nat × Bool)
  | [], wr => ([], wr)
  | s :: r, wr =>
    if (P.info s).valid then
      let (ran, wr1) := wasAlreadyRun P wr s co
      let (todo, wr2) := filterTodo P co r wr1
      (if ran then todo else s :: todo, wr2)
    else filterTodo P co r wr

def keyOf (P : Project) (s : Nat) (co : Bool) : Key := ((P.info s).path, (P.info s).sandbox, co)

def St.tracker (st : St) : Trk → List (Key × Nat)
  | .cook => st.cookT
  | .bid => st.bidT

def St.setTracker (st : St) (trk : Trk) (m : List (Key × Nat)) : St :=
  match trk with
  | .cook => { st with cookT := m }
  | .bid => { st with bidT := m }

def mkKind (trk : Trk) (s : Nat) (co : Bool) : TKind :=
  match trk with
  | .cook => .cook s co
  | .bid => .bid s

/-- `__createCookTask`: the existing task of the key, or a new one (with a fence when the task of the
other `checkoutOnly` value exists) -/
def createTask (P : Project) (st : St) (trk : Trk) (s : Nat) (co : Bool) : St × Nat :=
  let key := keyOf P s co
  match klookup key (st.tracker trk) with
  | some k => (st, k)
  | none =>
    let alt := klookup ((P.info s).path, (P.info s).sandbox, !co) (st.tracker trk)
    let id := st.tasks.length
    let ops := (match alt with | some a => [Op.fence a] | none => []) ++ [Op.start, Op.wrapEnd]
    let kind := mkKind trk s co
    let st1 := { st with tasks := st.tasks ++ [({ kind, ops, err := none } : Task)] }
    let st2 := st1.setTracker trk (st1.tracker trk ++ [(key, id)])
    (st2.emit (.spawn id kind), id)

def createTasks (P : Project) (trk : Trk) (co : Bool) : List Nat → St → St × List Nat
  | [], st => (st, [])
  | s :: r, st =>
    let (st1, k) := createTask P st trk s co
    let (st2, ks) := createTasks P trk co r st1
    (st2, k :: ks)

/-- `__createGenericTask` for `_cookTask` -/
def createTop (st : St) (s : Nat) : St × Nat :=
  let id := st.tasks.length
  let st1 := { st with tasks := st.tasks ++ [({ kind := .top s, ops := [Op.start, Op.wrapEnd], err := none } : Task)] }
  (st1.emit (.spawn id (.top s)), id)

def createTops : List Nat → St → St × List Nat
  | [], st => (st, [])
  | s :: r, st =>
    let (st1, k) := createTop st s
    let (st2, ks) := createTops r st1
    (st2, k :: ks)

/-- what a task does while it holds its job slot -/
def prog (cfg : Cfg) : TKind → List Op
  | .dispatcher => []
  | .top s => [.checkRunning, .cook [s] cfg.co0]
  | .cook s co => [.cookBody s co]
  | .bid s => [.bidSingle s]

/-- an exception starts to propagate: only the clean-up operations remain -/
def raise (x : Task) (e : Err) (rest : List Op) : Task :=
  { x with err := some e, ops := rest.filter Op.isFin }

/-- what a script reads: the workspaces of its valid arguments and of its tools (`bidDeps`); the sandbox
is an execution environment, not an input -/
def inputs (P : Project) (st : St) (s : Nat) : List Nat :=
  (P.info s).bidDeps.map fun d => st.diskAt (P.info d).path

/-- the token was obtained (directly or after waiting): enter the body of the task -/
def afterStart (cfg : Cfg) (x : Task) (rest : List Op) : Task :=
  { x with ops := prog cfg x.kind ++ [.release] ++ rest }

def afterLock (P : Project) (x : Task) (s : Nat) (co dl : Bool) (rest : List Op) : Task :=
  { x with ops := (if dl then Op.download s else Op.underLock s co) :: .unlock (P.info s).path :: rest }

/-- one operation of task `t`; `none` when the task is finished or cannot continue yet -/
def stepTask (P : Project) (cfg : Cfg) (st : St) (t : Nat) : Option St :=
  let x := st.task t
  match x.ops with
  | [] => none
  | op :: rest =>
    let cont (st' : St) : Option St := some (st'.setTask t { x with ops := rest })
    let fail (st' : St) (e : Err) : Option St := some (st'.setTask t (raise x e rest))
    match op with
    | .fence k =>
      if (st.task k).done then
        if (st.task k).failed then fail st .cancel else cont st
      else none
    | .start =>
      match st.runners.acquire t with
      | (r, .got) => some (({ st with runners := r }.emit (.acq t)).emit (.got t) |>.setTask t (afterStart cfg x rest))
      | (r, .blocked) => some ({ st with runners := r }.emit (.acq t) |>.setTask t { x with ops := .startWait :: rest })
    | .startWait =>
      if st.runners.woken t then
        some ({ st with runners := st.runners.resume t }.emit (.got t) |>.setTask t (afterStart cfg x rest))
      else none
    | .release =>
      match st.runners.release with
      | .ok r => cont ({ st with runners := r }.emit (.rel t true))
      | .error _ => fail (st.emit (.rel t false)) .internal
    | .checkRunning =>
      if st.running then cont (st.emit (.pass t)) else fail st .cancel
    | .cook steps co =>
      let (todo, wr) := filterTodo P co steps st.wasRun
      let st1 := { st with wasRun := wr }
      if todo.isEmpty then cont st1
      else some (st1.setTask t { x with ops := .spawn .cook todo co :: rest })
    | .spawn trk steps co =>
      if cfg.par then
        let (st1, ks) := createTasks P trk co steps st
        some (st1.setTask t { x with ops := .yieldRel ks true :: rest })
      else some (st.setTask t { x with ops := .spawnSeq trk steps co [] :: rest })
    | .spawnSeq trk todo co made =>
      match todo with
      | [] => some (st.setTask t { x with ops := .results made :: rest })
      | s :: todo' =>
        let (st1, k) := createTask P st trk s co
        some (st1.setTask t { x with ops := .yieldRel [k] false :: .spawnSeq trk todo' co (made ++ [k]) :: rest })
    | .yieldRel ks rs =>
      match st.runners.release with
      | .ok r =>
        some ({ st with runners := r }.emit (.rel t true) |>.setTask t
          { x with ops := (if rs then Op.gather ks else Op.waitOnly ks) :: .reacq :: .checkRunning :: rest })
      | .error _ => fail (st.emit (.rel t false)) .internal
    | .gather ks =>
      if st.allDone ks then
        if st.anyFailed ks then fail st .cancel else cont st
      else none
    | .waitOnly ks => if st.allDone ks then cont st else none
    | .results ks => if st.anyFailed ks then fail st .cancel else cont st
    | .reacq =>
      match st.runners.acquire t with
      | (r, .got) => cont (({ st with runners := r }.emit (.acq t)).emit (.got t))
      | (r, .blocked) => some ({ st with runners := r }.emit (.acq t) |>.setTask t { x with ops := .reacqWait :: rest })
    | .reacqWait =>
      if st.runners.woken t then cont ({ st with runners := st.runners.resume t }.emit (.got t)) else none
    | .cookBody s co =>
      let i := P.info s
      if !st.running then fail st .cancel
      else if !i.valid then cont (st.emit (.pass t))
      else
        let (ran, wr) := wasAlreadyRun P st.wasRun s co
        let st1 := { st with wasRun := wr }.emit (.pass t)
        if ran then cont st1
        else
          let body : List Op :=
            match i.kind with
            | .checkout => [.cook i.deps false, .lock s co false]
            | .build => [.cook i.deps co, .lock s co false]
            | .package =>
              (if co then [] else [Op.spawn .bid [s] false, .lock s co true]) ++ [.cook i.deps co, .lock s co false]
          some (st1.setTask t { x with ops := body ++ rest })
    | .lock s co dl =>
      let p := (P.info s).path
      match (st.lockOf p).acquire t with
      | (l, .got) => some ({ st with locks := insert p l st.locks }.setTask t (afterLock P x s co dl rest))
      | (l, .blocked) => some ({ st with locks := insert p l st.locks }.setTask t { x with ops := .lockWait s co dl :: rest })
    | .lockWait s co dl =>
      let p := (P.info s).path
      if (st.lockOf p).woken t then
        some ({ st with locks := insert p ((st.lockOf p).resume t) st.locks }.setTask t (afterLock P x s co dl rest))
      else none
    | .underLock s co =>
      let i := P.info s
      let (ran, wr) := wasAlreadyRun P st.wasRun s co
      let st1 := { st with wasRun := wr }
      if ran then cont st1
      else
        let body : List Op :=
          match i.kind with
          | .checkout => [.run s, .setRun s false]
          | .build => if co then [.setRun s true] else [.spawn .bid [s] false, .run s, .setRun s false]
          | .package => if co then [.setRun s true] else [.run s, .setRun s false]
        some (st1.setTask t { x with ops := body ++ rest })
    | .download s =>
      let p := (P.info s).path
      cont (if st.dlTried.contains p then st else { st with dlTried := p :: st.dlTried })
    | .unlock p =>
      match (st.lockOf p).release with
      | .ok l => cont { st with locks := insert p l st.locks }
      | .error _ => fail st .internal
    | .bidSingle s =>
      let i := P.info s
      match i.kind with
      | .checkout =>
        if st.srcBid.contains (i.path, i.vid) then cont st
        else some (st.setTask t { x with ops := .cook [s] false :: .cacheSrc s :: rest })
      | _ =>
        if st.distBid.contains i.path then cont st
        else some (st.setTask t { x with ops := .spawn .bid i.bidDeps false :: .cacheDist s :: rest })
    | .cacheSrc s => cont { st with srcBid := ((P.info s).path, (P.info s).vid) :: st.srcBid }
    | .cacheDist s => cont { st with distBid := (P.info s).path :: st.distBid }
    | .run s => some (st.emit (.start t s) |>.setTask t { x with ops := .runWait s none :: rest })
    | .runWait s res =>
      match res with
      | none => none
      | some true =>
        cont ({ st with disk := insert (P.info s).path (P.run s (inputs P st s)) st.disk }.emit (.fin t s true))
      | some false =>
        fail ({ st with disk := insert (P.info s).path (P.junk s) st.disk }.emit (.fin t s false)) .build
    | .setRun s skipped =>
      cont ({ st with wasRun := insert (P.info s).path ((P.info s).vid, skipped) st.wasRun }.emit (.setRun t s skipped))
    | .spawnTop targets =>
      if cfg.par then
        let (st1, ks) := createTops targets st
        some (st1.setTask t { x with ops := .gather ks :: rest })
      else some (st.setTask t { x with ops := .spawnTopSeq targets [] :: rest })
    | .spawnTopSeq todo made =>
      match todo with
      | [] => some (st.setTask t { x with ops := .results made :: rest })
      | s :: todo' =>
        let (st1, k) := createTop st s
        some (st1.setTask t { x with ops := .waitOnly [k] :: .spawnTopSeq todo' (made ++ [k]) :: rest })
    | .wrapEnd =>
      match x.err with
      | none =>
        let st1 : St :=
          match x.kind with
          | .cook s co => { st with cookT := kremove (keyOf P s co) st.cookT }
          | .bid s => { st with bidT := kremove (keyOf P s false) st.bidT }
          | _ => st
        some (st1.emit (.done t true) |>.setTask t { x with ops := [] })
      | some .build =>
        let st1 := { st with running := if cfg.keepGoing then st.running else false, errors := st.errors + 1 }
        some ((st1.emit (.failRec t)).emit (.done t false) |>.setTask t { x with ops := [], err := some .cancel })
      | some .internal =>
        some ({ st with errors := st.errors + 1 }.emit (.done t false) |>.setTask t { x with ops := [], err := some .cancel })
      | some .cancel =>
        some (st.emit (.done t false) |>.setTask t { x with ops := [] })

inductive Choice
  | task (t : Nat)
  | finish (t : Nat) (ok : Bool)
  | callback
  | envTake | envReturn
  deriving DecidableEq, Repr

/-- the script of task `t` ends (the task notices it when it runs next) -/
def finishScript (st : St) (t : Nat) (ok : Bool) : Option St :=
  let x := st.task t
  match x.ops with
  | .runWait s none :: rest => some (st.setTask t { x with ops := .runWait s (some ok) :: rest })
  | _ => none

def step (P : Project) (cfg : Cfg) (st : St) : Choice → Option St
  | .task t => stepTask P cfg st t
  | .finish t ok => finishScript st t ok
  | .callback =>
    match st.runners with
    | .job s => if s.reader then some { st with runners := .job s.callback } else none
    | _ => none
  | .envTake =>
    match st.runners with
    | .job s => s.envTake.map fun s' => { st with runners := .job s' }
    | _ => none
  | .envReturn =>
    match st.runners with
    | .job s => s.envReturn.map fun s' => { st with runners := .job s' }
    | _ => none

def init (cfg : Cfg) (runners : Runners) : St :=
  { tasks := [{ kind := .dispatcher, ops := [.spawnTop cfg.targets, .wrapEnd], err := none }],
    runners, running := true, errors := 0, wasRun := [], dlTried := [], locks := [], cookT := [], bidT := [],
    srcBid := [], distBid := [], disk := [], trace := [] }

/-- configurations reachable by some schedule -/
inductive Reach (P : Project) (cfg : Cfg) (r0 : Runners) : St → Prop
  | init : Reach P cfg r0 (init cfg r0)
  | step {st st' : St} (c : Choice) : Reach P cfg r0 st → step P cfg st c = some st' → Reach P cfg r0 st'

/-- run a schedule; choices that are not enabled are skipped -/
def exec (P : Project) (cfg : Cfg) : List Choice → St → St
  | [], st => st
  | c :: r, st => exec P cfg r ((step P cfg st c).getD st)

/-! ### what asyncio does with a task that was woken: it runs until it really suspends.
`asyncio.wait` always suspends once (its waiter future is completed by done-callbacks), so a `gather` /
`waitOnly` of a non-empty list ends the run.  Used by the correspondence driver only. -/

def Op.forcedYield : Op → Bool
  | .gather ks => !ks.isEmpty
  | .waitOnly ks => !ks.isEmpty
  | _ => false

def runTask (P : Project) (cfg : Cfg) : Nat → Bool → St → Nat → St × Nat
  | 0, _, st, _ => (st, 0)
  | fuel + 1, first, st, t =>
    match (st.task t).ops with
    | [] => (st, 0)
    | op :: _ =>
      if !first && op.forcedYield then (st, 0)
      else
        match stepTask P cfg st t with
        | none => (st, 0)
        | some st' => let (s2, n) := runTask P cfg fuel false st' t; (s2, n + 1)

end Sched
