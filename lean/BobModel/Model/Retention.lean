/-
Model of the retention logic of pym/bob/cmds/archive.py:

* `VarReference.evalString`, `StringLiteral`, `ComparePredicate`, `NotPredicate`, `AndPredicate`,
  `OrPredicate`  (`evalRef`, `evalString`, `evalBool`; the error cases are explicit),
* `RetainExpression.evaluate` with the insertion queue (`cmpItem`, `insertQ`, `trim`),
* `query` (outer loop over the index rows in index order, inner loop over the expressions),
* the transitive closure loop of `doArchiveClean` (`closure`, work list with fuel; `Props/C19.lean`
  proves that the fuel never runs out),
* the delete list (`victims`) and the output of `find` (`findOut`).

Strings are `List Char` (one Python code point = one `Char`); Python's `str` comparison is the
lexicographic order by code point (`strLe`).  A build id is its lower-case hex string, whose
string order is the byte order of the id (the order in which SQLite's covering index
`(bid, arch)` enumerates `SELECT bid FROM files`).
The text -> AST step (pyparsing) is outside the model.
-/
namespace Retention

abbrev Str := List Char
abbrev Bid := Str

/-- what `pickle.loads(vars)` can contain: a string, a dict, or anything else (number, list, null) -/
inductive Val where
  | str (s : Str)
  | map (kvs : List (Str × Val))
  | other

def lookupKV : List (Str × Val) → Str → Option Val
  | [], _ => none
  | (k, v) :: rest, key => if k = key then some v else lookupKV rest key

/-- `data[i]` inside the `try` of `VarReference.evalString`; every exception is `none` -/
def Val.get (v : Val) (k : Str) : Option Val :=
  match v with
  | .map kvs => lookupKV kvs k
  | _ => none

def walk : List Str → Val → Option Val
  | [], v => some v
  | k :: rest, v =>
    match v.get k with
    | none => none
    | some v' => walk rest v'

inductive QErr where
  | opInStringCtx | strInBoolCtx | refInBoolCtx | cmpUnsupported | invalidFieldRef
  deriving DecidableEq, Repr

/-- `VarReference.evalString`: a missing field is `none`; a field that is not a string is an error -/
def evalRef (path : List Str) (data : Val) : Except QErr (Option Str) :=
  match walk path data with
  | none => .ok none
  | some (.str s) => .ok (some s)
  | some _ => .error .invalidFieldRef

/-- Python `a <= b` on `str` -/
def strLe : Str → Str → Bool
  | [], _ => true
  | _ :: _, [] => false
  | a :: as, b :: bs => if a.toNat < b.toNat then true else if a = b then strLe as bs else false

def strLt (a b : Str) : Bool := !strLe b a

inductive CmpOp where
  | lt | le | gt | ge | eq | ne
  deriving DecidableEq, Repr

inductive Pred where
  | not (a : Pred)
  | and (l r : Pred)
  | or (l r : Pred)
  | cmp (op : CmpOp) (l r : Pred)
  | lit (s : Str)
  | ref (path : List Str)

def evalString (p : Pred) (data : Val) : Except QErr (Option Str) :=
  match p with
  | .lit s => .ok (some s)
  | .ref path => evalRef path data
  | _ => .error .opInStringCtx

/-- `self.op(l, r)`; ordering comparisons with the undefined value raise `TypeError` -/
def applyCmp (op : CmpOp) (a b : Option Str) : Except QErr Bool :=
  match op with
  | .eq => .ok (decide (a = b))
  | .ne => .ok (decide (a ≠ b))
  | .lt => match a, b with
    | some x, some y => .ok (strLt x y)
    | _, _ => .error .cmpUnsupported
  | .le => match a, b with
    | some x, some y => .ok (strLe x y)
    | _, _ => .error .cmpUnsupported
  | .gt => match a, b with
    | some x, some y => .ok (strLt y x)
    | _, _ => .error .cmpUnsupported
  | .ge => match a, b with
    | some x, some y => .ok (strLe y x)
    | _, _ => .error .cmpUnsupported

def evalBool (p : Pred) (data : Val) : Except QErr Bool :=
  match p with
  | .not a =>
    match evalBool a data with
    | .ok b => .ok (!b)
    | .error e => .error e
  | .and l r =>
    match evalBool l data with
    | .ok true => evalBool r data
    | .ok false => .ok false
    | .error e => .error e
  | .or l r =>
    match evalBool l data with
    | .ok true => .ok true
    | .ok false => evalBool r data
    | .error e => .error e
  | .cmp op l r =>
    -- the bare `except:` of ComparePredicate.evalBool turns every failure into one error
    match evalString l data, evalString r data with
    | .ok a, .ok b => applyCmp op a b
    | _, _ => .error .cmpUnsupported
  | .lit _ => .error .strInBoolCtx
  | .ref _ => .error .refInBoolCtx

/-- a parsed `RetainExpression`; `limit` is `none` or `some n` with `n ≥ 1` (the constructor
rejects `n ≤ 0`), `sortBy` defaults to `build.date`, `asc = false` is `DESC` (the default). -/
structure Expr where
  pred : Pred
  limit : Option Nat
  sortBy : List Str
  asc : Bool

structure EState where
  retained : List Bid
  queue : List (Bid × Option Str)

def EState.empty : EState := ⟨[], []⟩

/-- `cmpItem(existing, new)` of `RetainExpression.__init__` -/
def cmpItem (asc : Bool) (existing new : Option Str) : Bool :=
  match new with
  | none => false
  | some n =>
    match existing with
    | none => true
    | some e => if asc then strLe n e else strLe e n

/-- the `while i < len(queue)` scan and `queue.insert(i, item)` -/
def insertQ (asc : Bool) : List (Bid × Option Str) → Bid × Option Str → List (Bid × Option Str)
  | [], item => [item]
  | e :: rest, item =>
    if cmpItem asc e.2 item.2 then item :: e :: rest else e :: insertQ asc rest item

/-- one `victim,_ = self.queue.pop(); self.retained.remove(victim)` -/
def popOne (st : EState) : EState :=
  match st.queue.getLast? with
  | none => st
  | some v => { retained := st.retained.filter (fun b => b != v.1), queue := st.queue.dropLast }

def popN : Nat → EState → EState
  | 0, st => st
  | n + 1, st => popN n (popOne st)

/-- `while len(self.queue) > self.limit: pop` -/
def trim (limit : Nat) (st : EState) : EState := popN (st.queue.length - limit) st

/-- `RetainExpression.evaluate(bid, data)` -/
def evaluate (e : Expr) (st : EState) (bid : Bid) (data : Val) : Except QErr EState :=
  if st.retained.contains bid then .ok st else
  match evalBool e.pred data with
  | .error x => .error x
  | .ok false => .ok st
  | .ok true =>
    let st1 : EState := { st with retained := bid :: st.retained }
    match e.limit with
    | none => .ok st1
    | some lim =>
      match evalRef e.sortBy data with
      | .error x => .error x
      | .ok new => .ok (trim lim { st1 with queue := insertQ e.asc st1.queue (bid, new) })

/-- inner loop of `query`: every expression sees the artifact -/
def evalAll : List (Expr × EState) → Bid → Val → Except QErr (List (Expr × EState))
  | [], _, _ => .ok []
  | (e, st) :: rest, bid, data =>
    match evaluate e st bid data with
    | .error x => .error x
    | .ok st' =>
      match evalAll rest bid data with
      | .error x => .error x
      | .ok rest' => .ok ((e, st') :: rest')

/-- outer loop of `query` over `scanner.getBuildIds()` / `scanner.getVars(bid)` -/
def queryLoop : List (Expr × EState) → List (Bid × Val) → Except QErr (List (Expr × EState))
  | sts, [] => .ok sts
  | sts, (bid, data) :: rest =>
    match evalAll sts bid data with
    | .error x => .error x
    | .ok sts' => queryLoop sts' rest

/-- `query(scanner, expressions)`: the union of the retained sets (as a list, duplicates possible) -/
def query (es : List Expr) (rows : List (Bid × Val)) : Except QErr (List Bid) :=
  match queryLoop (es.map fun e => (e, EState.empty)) rows with
  | .error x => .error x
  | .ok sts => .ok (sts.flatMap fun p => p.2.retained)

/-- `scanner.getReferencedBuildIds(bid)` on the `refs` table -/
def refsOf (refs : List (Bid × Bid)) (b : Bid) : List Bid :=
  (refs.filter fun p => p.1 == b).map fun p => p.2

/-- the `while todo:` loop of `doArchiveClean` (the element taken from `todo` is its head) -/
def closureAux (refs : List (Bid × Bid)) : Nat → List Bid → List Bid → List Bid
  | 0, ret, _ => ret
  | _ + 1, ret, [] => ret
  | n + 1, ret, t :: todo =>
    if ret.contains t then closureAux refs n ret todo
    else closureAux refs n (t :: ret) (refsOf refs t ++ todo)

def closure (refs : List (Bid × Bid)) (retained : List Bid) : List Bid :=
  let todo := retained.flatMap (refsOf refs)
  closureAux refs (todo.length + refs.length + 1) retained todo

/-- third pass: everything of the index that is not retained, in index order -/
def victims (bids : List Bid) (kept : List Bid) : List Bid :=
  bids.filter fun b => !kept.contains b

/-- sorted insertion without duplicates (`sorted(set)`) -/
def insertUniq (b : Bid) : List Bid → List Bid
  | [] => [b]
  | x :: rest =>
    if b = x then x :: rest
    else if strLe b x then b :: x :: rest
    else x :: insertUniq b rest

/-- `sorted(retained)` of `doArchiveFind` -/
def findOut (retained : List Bid) : List Bid :=
  retained.foldr insertUniq []

end Retention
