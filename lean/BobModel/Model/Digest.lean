import BobModel.Util.Bytes
import BobModel.Generated.ConstsC02
/-
Model of the digest encodings behind the Variant-Id and the Build-Id of a step:

  * `pym/bob/input.py`        `DigestHasher` (two byte strings: recipe part, host part),
                              `CoreStep.getDigest(calculate)`                      → `variantId`
  * `pym/bob/intermediate.py` `StepIR.getDigestCoro(calculate, fingerprint, platform, relaxTools)`
                                                                                   → `variantId` / `buildId`

`encRecipeG`/`encHost` are the *exact* byte strings that are fed to the two SHA-1 states.  The hash is a
parameter `H`; `calculate` (the digests of the referenced steps) is already applied in a `StepDesc`:
a tool carries the digest of its provider, `args` are the digests of the *valid* arguments in order and
`hostPrefix` is what is fed to the host part before the arguments (the Variant-Id of the sandbox step when
the step is fingerprinted and runs in a sandbox, the fingerprint for a Build-Id, empty otherwise).

Strings are `List Char` (one Python code point per `Char`, lone surrogates excluded: Python would raise
on `.encode("utf8")`).  The model has no path, time, locale or configuration parameter.

The pad, the slice length and the width of the counters come from `Generated/ConstsC02.lean`
(regenerated from the current source on every run).
-/
namespace Digest

abbrev Str := List Char

/-- `str.encode("utf8")` -/
def utf8 (s : Str) : Bytes := s.flatMap String.utf8EncodeChar

/-- `struct.pack("<I", n)` (callers keep `n < 2^32`; Python raises `struct.error` otherwise) -/
def le4 (n : Nat) : Bytes := Bytes.le Consts.C02.intWidth n

/-- `b'\x00' * 20`, "historically the sandbox digest" -/
def pad : Bytes := Consts.C02.pad.map UInt8.ofNat

def sliceLen : Nat := Consts.C02.sliceLen

/-- `DigestHasher.sliceRecipes` -/
def sliceRecipes (d : Bytes) : Bytes := d.take Consts.C02.sliceLen

/-- `DigestHasher.sliceHost` -/
def sliceHost (d : Bytes) : Bytes := d.drop Consts.C02.hostFrom

structure Tool where
  name : Str
  /-- `calculate(tool.coreStep)`: digest of the providing step -/
  prov : Bytes
  path : Str
  libs : List Str
  /-- name is in `toolDepWeak` (only looked at when `relaxTools`) -/
  weak : Bool
  deriving DecidableEq, Repr

structure StepDesc where
  /-- `getDigestScript()`; `None` and `""` are both falsy -/
  script : Option Str
  /-- `getTools()` as association list (dict: names are distinct) -/
  tools : List Tool
  /-- `digestEnv` as association list (dict: keys are distinct) -/
  env : List (Str × Str)
  /-- `calculate(arg)` of every valid argument, in argument order -/
  args : List Bytes
  hostPrefix : Bytes
  deriving DecidableEq, Repr

/-- Python `str` comparison `a <= b`: lexicographic by code point -/
def strLe : Str → Str → Bool
  | [], _ => true
  | _ :: _, [] => false
  | a :: as, b :: bs =>
    if a.toNat < b.toNat then true
    else if b.toNat < a.toNat then false
    else strLe as bs

def insertBy {α : Type} (le : α → α → Bool) (x : α) : List α → List α
  | [] => [x]
  | y :: ys => if le x y then x :: y :: ys else y :: insertBy le x ys

/-- `sorted(...)` (insertion sort; the keys are distinct so stability does not matter) -/
def sortBy {α : Type} (le : α → α → Bool) (l : List α) : List α :=
  l.foldr (insertBy le) []

def toolLe (a b : Tool) : Bool := strLe a.name b.name
def kvLe (a b : Str × Str) : Bool := strLe a.1 b.1

/-- counted string: `struct.pack("<I", len(s))` + `s.encode("utf8")` — the count is the number of
code points, not of bytes -/
def encStr (s : Str) : Bytes := le4 s.length ++ utf8 s

/-- `if script: len+utf8 else: b'\0\0\0\0'` -/
def encScript (s : Option Str) : Bytes :=
  match s with
  | none => Consts.C02.emptyScript.map UInt8.ofNat
  | some [] => Consts.C02.emptyScript.map UInt8.ofNat
  | some (c :: cs) => encStr (c :: cs)

/-- body of the tool loop -/
def encTool (relax : Bool) (t : Tool) : Bytes :=
  if relax && t.weak then utf8 t.name
  else sliceRecipes t.prov ++ le4 t.path.length ++ le4 t.libs.length ++ utf8 t.path
       ++ t.libs.flatMap encStr

/-- body of the environment loop: `struct.pack("<II", len(key), len(val))` + `(key+val).encode('utf8')` -/
def encKV (kv : Str × Str) : Bytes :=
  le4 kv.1.length ++ le4 kv.2.length ++ utf8 (kv.1 ++ kv.2)

/-- everything that goes through `h.update(...)`: the recipe-internal part -/
def encRecipeG (platform : Bytes) (relax : Bool) (d : StepDesc) : Bytes :=
  platform ++ pad ++ encScript d.script
    ++ le4 d.tools.length ++ (sortBy toolLe d.tools).flatMap (encTool relax)
    ++ le4 d.env.length ++ (sortBy kvLe d.env).flatMap encKV
    ++ le4 d.args.length ++ d.args.flatMap sliceRecipes

/-- everything that goes through `h.fingerprint(...)`: the host part -/
def encHost (d : StepDesc) : Bytes :=
  d.hostPrefix ++ d.args.flatMap sliceHost

/-- `DigestHasher.digest()` -/
def digest (H : Bytes → Bytes) (recipes host : Bytes) : Bytes :=
  if host = [] then H recipes else H recipes ++ H host

/-- `CoreStep.getDigest` -/
def encRecipe (d : StepDesc) : Bytes := encRecipeG [] false d

def variantId (H : Bytes → Bytes) (d : StepDesc) : Bytes :=
  digest H (encRecipe d) (encHost d)

/-- `StepIR.getDigestCoro(…, fingerprint=fp, platform=tag, relaxTools=True)` with `hostPrefix = fp` -/
def buildId (H : Bytes → Bytes) (platform : Bytes) (d : StepDesc) : Bytes :=
  digest H (encRecipeG platform true d) (encHost d)

/-! ### What a step executes and consumes, as far as the digest is concerned -/

structure SemTool where
  prov : Bytes
  path : Str
  libs : List Str
  deriving DecidableEq, Repr

/-- the meaning the property assigns to a step: executed script (by its digest script), strong
variables sorted by key, tool values in name order, the recipe halves of the valid arguments in order -/
structure SemRecipe where
  script : Str
  tools : List SemTool
  env : List (Str × Str)
  args : List Bytes
  deriving DecidableEq, Repr

/-- host contributions: what precedes the arguments, and the host half of every valid argument -/
structure SemHost where
  hostPrefix : Bytes
  args : List Bytes
  deriving DecidableEq, Repr

def semRecipe (d : StepDesc) : SemRecipe :=
  { script := d.script.getD [],
    tools := (sortBy toolLe d.tools).map fun t => ⟨sliceRecipes t.prov, t.path, t.libs⟩,
    env := sortBy kvLe d.env,
    args := d.args.map sliceRecipes }

def semHost (d : StepDesc) : SemHost :=
  { hostPrefix := d.hostPrefix, args := d.args.map sliceHost }

/-- string lengths and counts fit the 32-bit counters, referenced digests have at least the recipe half -/
def lenOk (s : Str) : Prop := s.length < 2 ^ 32

structure WF (d : StepDesc) : Prop where
  script : lenOk (d.script.getD [])
  ntools : d.tools.length < 2 ^ 32
  tools : ∀ t ∈ d.tools, lenOk t.path ∧ t.libs.length < 2 ^ 32 ∧ (∀ l ∈ t.libs, lenOk l) ∧ t.prov.length ≥ 20
  nenv : d.env.length < 2 ^ 32
  env : ∀ kv ∈ d.env, lenOk kv.1 ∧ lenOk kv.2
  nargs : d.args.length < 2 ^ 32
  args : ∀ a ∈ d.args, a.length ≥ 20

/-- the positions and sizes of the host contributions agree (candidate F-C02-1: the host part is an
*undelimited* concatenation of 0/20/40 byte slices) -/
def HostFramed (d₁ d₂ : StepDesc) : Prop :=
  d₁.hostPrefix.length = d₂.hostPrefix.length ∧
  d₁.args.map (fun a => (sliceHost a).length) = d₂.args.map (fun a => (sliceHost a).length)

/-- `if self.isFingerprinted() and self.getSandbox(): h.fingerprint(calculate(sandbox.coreStep))`:
the only place where the sandbox enters a Variant-Id (`sb` = Variant-Id of the sandbox step, `enabled` =
the package has a sandbox and sandboxes are enabled) -/
def withSandbox (fingerprinted enabled : Bool) (sb : Bytes) (d : StepDesc) : StepDesc :=
  { d with hostPrefix := if fingerprinted && enabled then sb else [] }

/-! ### The step graph: `calculate` of the real code

`CoreStep.__init__` computes `variantId = getDigest(lambda coreStep: coreStep.variantId)`: the digests of
the referenced steps are looked up, not recomputed.  A graph is a function from step numbers to nodes whose
references are step numbers; `ids` plays the role of the stored `variantId` attributes. -/

structure NTool where
  name : Str
  ref : Nat
  path : Str
  libs : List Str
  deriving DecidableEq, Repr

structure Node where
  script : Option Str
  tools : List NTool
  env : List (Str × Str)
  /-- the valid arguments -/
  args : List Nat
  /-- the sandbox step; present iff the step is fingerprinted and runs in a sandbox -/
  sandbox : Option Nat
  deriving DecidableEq, Repr

def Node.desc (ids : Nat → Bytes) (n : Node) : StepDesc :=
  { script := n.script,
    tools := n.tools.map fun t => ⟨t.name, ids t.ref, t.path, t.libs, false⟩,
    env := n.env,
    args := n.args.map ids,
    hostPrefix := match n.sandbox with
      | some r => ids r
      | none => [] }

/-- everything a node refers to -/
def Node.refs (n : Node) : List Nat :=
  n.args ++ n.tools.map (·.ref) ++ n.sandbox.toList

/-- every stored id is the digest of its node under the stored ids of the referenced nodes -/
def Consistent (H : Bytes → Bytes) (g : Nat → Node) (ids : Nat → Bytes) : Prop :=
  ∀ i, ids i = variantId H ((g i).desc ids)

/-- `j` is a valid argument or a tool provider of the node -/
def DependsOn (n : Node) (j : Nat) : Prop :=
  j ∈ n.args ∨ ∃ t ∈ n.tools, t.ref = j

/-- `i` depends (transitively, through arguments and tools) on `j` -/
inductive Reach (g : Nat → Node) (j : Nat) : Nat → Prop
  | refl : Reach g j j
  | step {k i : Nat} : Reach g j k → DependsOn (g i) k → Reach g j i

end Digest
