import BobModel.Generated.ConstsC12
/-
Model of the git side of C12: an abstract git repository and the part of
pym/bob/scm/git.py that decides what happens to an existing clone
(`GitScm.canSwitch`, `GitScm.switch`, `GitScm.invoke` with
`__checkoutBranch` / `__checkoutTag` / `__checkoutTagOnBranch`, `GitScm.status`) plus
`ScmStatus.dirty/expendable` of pym/bob/scm/scm.py.

git itself is external.  The commands Bob issues are the fields of `GitOps`; what Bob's
logic relies on is the hypothesis structure `GitContract`.  All theorems are stated for an
arbitrary `ops` satisfying the contract.  `modelOps` is an executable instance (used by the
driver and compared with git 2.39 on generated repositories by the harness);
`Props/C12.lean` proves that it satisfies the contract.

Not modelled: submodules, shallow clones, `rebase: true`, generic `rev: refs/...`
checkouts, additional remotes, the stash.
-/
namespace GitSwitch

abbrev Commit := Nat
abbrev Name := String
abbrev Path := String
abbrev Blob := Nat

def assoc {α β : Type} [BEq α] : List (α × β) → α → Option β
  | [], _ => none
  | (k, v) :: rest, a => if k == a then some v else assoc rest a

/-- dict update keeping the position of an existing key -/
def setAssoc {α β : Type} [BEq α] : List (α × β) → α → β → List (α × β)
  | [], a, b => [(a, b)]
  | (k, v) :: rest, a, b => if k == a then (k, b) :: rest else (k, v) :: setAssoc rest a b

/-- the commit graph of the universe (upstream and local objects): parents and tree of a commit -/
structure Dag where
  parents : List (Commit × List Commit)
  trees : List (Commit × List (Path × Blob))

def Dag.par (D : Dag) (c : Commit) : List Commit := (assoc D.parents c).getD []
def Dag.blobAt (D : Dag) (c : Commit) (p : Path) : Option Blob := assoc ((assoc D.trees c).getD []) p

/-- `Reach D a c`: `c` is `a` or an ancestor of `a` -/
inductive Reach (D : Dag) : Commit → Commit → Prop
  | refl (c : Commit) : Reach D c c
  | step {a b c : Commit} : b ∈ D.par a → Reach D b c → Reach D a c

/-- executable ancestor search (`git merge-base --is-ancestor c a`), fuel = number of commits -/
def reachB (D : Dag) : Nat → Commit → Commit → Bool
  | 0, a, c => a == c
  | fuel + 1, a, c => a == c || (D.par a).any (fun b => reachB D fuel b c)

def Dag.fuel (D : Dag) : Nat := D.parents.length + 1

inductive Head
  | branch (n : Name)       -- symbolic ref; unborn when the branch does not exist
  | detached (c : Commit)
  deriving DecidableEq, Repr

structure Repo where
  objs : List Commit                -- commit objects present in the object store
  heads : List (Name × Commit)      -- refs/heads/*
  remotes : List (Name × Commit)    -- refs/remotes/origin/*
  tags : List (Name × Commit)       -- refs/tags/* (peeled)
  head : Head
  dirty : List (Path × Blob)        -- tracked paths (or index entries) that differ from HEAD, with their content
  untracked : List (Path × Blob)
  url : Option String               -- remote.origin.url
  deriving Repr

/-- `git init`: HEAD is the unborn branch master -/
def Repo.init : Repo :=
  { objs := [], heads := [], remotes := [], tags := [], head := .branch "master",
    dirty := [], untracked := [], url := none }

/-- `git rev-parse --verify -q HEAD` -/
def Repo.headCommit (r : Repo) : Option Commit :=
  match r.head with
  | .detached c => some c
  | .branch n => assoc r.heads n

/-- what a remote offers to `git fetch` -/
structure Upstream where
  branches : List (Name × Commit)
  tags : List (Name × Commit)
  deriving Repr

/-- the git commands that Bob issues and that change or inspect the clone -/
structure GitOps where
  /-- `git fetch -p origin +refs/heads/*:refs/remotes/origin/* [refs/tags/T:refs/tags/T]` -/
  fetch : Option Name → Repo → Except Unit Repo
  /-- `git checkout -q --no-recurse-submodules <commit>` -/
  checkoutDetach : Commit → Repo → Except Unit Repo
  /-- `git checkout --no-recurse-submodules <existing local branch>` -/
  checkoutBranch : Name → Repo → Except Unit Repo
  /-- `git checkout --no-recurse-submodules -b <branch> <commit>` -/
  checkoutNew : Name → Commit → Repo → Except Unit Repo
  /-- `git merge --ff-only refs/remotes/origin/<branch>` -/
  mergeFF : Name → Repo → Except Unit Repo
  /-- `git reset --keep <commit>` -/
  resetKeep : Commit → Repo → Except Unit Repo
  /-- `git branch -a --format=%(refname:lstrip=2) --contains HEAD` -/
  contains : Repo → List String
  /-- `git merge-base --is-ancestor c a` -/
  isAncestor : Commit → Commit → Bool

/-- `c` is held by a local ref: reachable from a local branch or from a detached HEAD -/
def LocalHeld (D : Dag) (r : Repo) (c : Commit) : Prop :=
  (∃ n t, assoc r.heads n = some t ∧ Reach D t c) ∨ (∃ d, r.head = .detached d ∧ Reach D d c)

/-- invariant: remote-tracking refs and tags only name upstream commits -/
def RefsUpstream (U : Commit → Prop) (r : Repo) : Prop :=
  (∀ n c, (n, c) ∈ r.remotes → ¬ U c) ∧ (∀ n c, (n, c) ∈ r.tags → ¬ U c)

/-- the worktree part of the user's work is untouched -/
def SameTree (r r' : Repo) : Prop := r'.dirty = r.dirty ∧ r'.untracked = r.untracked

/-- What Bob's logic relies on.  `U c` = "`c` was created by the user (exists nowhere upstream)".
Every command either fails without changing anything (`Except.error`, the model keeps `r`) or
has exactly the described effect on refs and never touches dirty/untracked paths. -/
structure GitContract (D : Dag) (U : Commit → Prop) (ops : GitOps) : Prop where
  fetch_local : ∀ t r r', ops.fetch t r = .ok r' →
    r'.heads = r.heads ∧ r'.head = r.head ∧ SameTree r r' ∧ r'.url = r.url
  fetch_upstream : ∀ t r r', ops.fetch t r = .ok r' → RefsUpstream U r → RefsUpstream U r'
  detach : ∀ c r r', ops.checkoutDetach c r = .ok r' →
    r'.heads = r.heads ∧ r'.head = .detached c ∧ SameTree r r' ∧ r'.remotes = r.remotes ∧ r'.tags = r.tags
  branch : ∀ n r r', ops.checkoutBranch n r = .ok r' →
    r'.heads = r.heads ∧ r'.head = .branch n ∧ SameTree r r' ∧ r'.remotes = r.remotes ∧ r'.tags = r.tags
  new : ∀ n c r r', ops.checkoutNew n c r = .ok r' →
    assoc r.heads n = none ∧ (∀ m, m ≠ n → assoc r'.heads m = assoc r.heads m) ∧ assoc r'.heads n = some c ∧
    r'.head = .branch n ∧ SameTree r r' ∧ r'.remotes = r.remotes ∧ r'.tags = r.tags
  /-- fast forward: the current branch moves to a descendant (or stays) -/
  mergeFF : ∀ n r r', ops.mergeFF n r = .ok r' →
    r'.head = r.head ∧ SameTree r r' ∧ r'.remotes = r.remotes ∧ r'.tags = r.tags ∧
    ((r'.heads = r.heads) ∨
     (∃ b t t', r.head = .branch b ∧ assoc r.heads b = some t ∧ Reach D t' t ∧ assoc r'.heads b = some t' ∧
        ∀ m, m ≠ b → assoc r'.heads m = assoc r.heads m))
  /-- `reset --keep` moves the current branch (or the detached HEAD) and nothing else -/
  reset : ∀ c r r', ops.resetKeep c r = .ok r' →
    SameTree r r' ∧ r'.remotes = r.remotes ∧ r'.tags = r.tags ∧
    ((∃ b, r.head = .branch b ∧ r'.head = .branch b ∧ assoc r'.heads b = some c ∧
        ∀ m, m ≠ b → assoc r'.heads m = assoc r.heads m) ∨
     (∃ d, r.head = .detached d ∧ r'.head = .detached c ∧ r'.heads = r.heads))
  /-- every name listed by `branch -a --contains HEAD` is a local branch or a remote-tracking
  branch (printed as `origin/<n>`) whose tip reaches the HEAD commit -/
  contains_sound : ∀ r x h, x ∈ ops.contains r → r.headCommit = some h →
    (∃ t, assoc r.heads x = some t ∧ Reach D t h) ∨ (∃ n t, assoc r.remotes n = some t ∧ Reach D t h)
  ancestor_sound : ∀ a c, ops.isAncestor c a = true → Reach D a c

/-! ## Bob's logic on top of the commands -/

structure GitSpec where
  url : String
  branch : Option Name
  tag : Option Name
  commit : Option Commit
  useBranchAndCommit : Bool
  submodules : Bool := false
  dir : String := "."
  deriving Repr

/-- an action on the clone: new state and whether it succeeded.  A failing action stops the
sequence; the state reached so far stays (the directory is then moved to the attic as it is). -/
abbrev Act := Repo → Repo × Bool

def lift (f : Repo → Except Unit Repo) : Act := fun r =>
  match f r with
  | .ok r' => (r', true)
  | .error _ => (r, false)

def Act.andThen (a b : Act) : Act := fun r =>
  match a r with
  | (r', true) => b r'
  | (r', false) => (r', false)

def Act.ok : Act := fun r => (r, true)
def Act.fail : Act := fun r => (r, false)

/-- resolve `remotes/origin/<b>`; a missing ref makes the git command fail -/
def withRemote (b : Name) (k : Commit → Act) : Act := fun r =>
  match assoc r.remotes b with
  | some c => k c r
  | none => (r, false)

def fetchAct (ops : GitOps) (s : GitSpec) : Act := lift (ops.fetch s.tag)

/-- `__forwardBranch` without rebase -/
def forwardBranch (ops : GitOps) (b : Name) : Act := lift (ops.mergeFF b)

/-- `__checkoutBranch` (rebase: false) -/
def checkoutBranchAct (ops : GitOps) (s : GitSpec) (b : Name) (switch : Bool) : Act :=
  (fetchAct ops s).andThen fun r =>
    if r.headCommit.isNone then
      withRemote b (fun c => lift (ops.checkoutNew b c)) r
    else if switch then
      if (assoc r.heads b).isNone then
        withRemote b (fun c => lift (ops.checkoutNew b c)) r
      else
        ((lift (ops.checkoutBranch b)).andThen (forwardBranch ops b)) r
    else if r.head = .branch b then
      forwardBranch ops b r
    else
      (r, true)   -- "Not updating ... because branch was changed manually"

/-- the object named by `<commit>` resp. `tags/<tag>` in the clone -/
def resolveTarget (s : GitSpec) (r : Repo) : Option Commit :=
  match s.commit with
  | some c => if r.objs.contains c then some c else none
  | none => match s.tag with
    | some t => assoc r.tags t
    | none => none

/-- `__checkoutTag` -/
def checkoutTagAct (ops : GitOps) (s : GitSpec) (switch : Bool) : Act := fun r =>
  if r.headCommit.isNone || switch then
    ((fetchAct ops s).andThen fun r1 =>
      match resolveTarget s r1 with
      | some c => lift (ops.checkoutDetach c) r1
      | none => (r1, false)) r
  else (r, true)

/-- the "Current state would be lost" guard of `__checkoutTagOnBranch`: some listed name differs
from the current branch -/
def guardOk (ops : GitOps) (b : Name) (r : Repo) : Bool :=
  (ops.contains r).any (fun x => x != b)

/-- `__checkoutTagOnBranch`: is the workspace already on the requested commit / tag (or is
nothing to do because this is no switch)? -/
def alreadyAt (s : GitSpec) (switch : Bool) (r : Repo) : Bool :=
  r.headCommit.isSome && (!switch ||
    (match s.commit with
     | some c => r.headCommit == some c
     | none => match s.tag with
       | some t => (assoc r.tags t).isSome && assoc r.tags t == r.headCommit
       | none => false))

/-- `__checkoutTagOnBranch` after the fetch -/
def tagOnBranchCont (ops : GitOps) (s : GitSpec) (b : Name) (headValid : Bool) : Act := fun r1 =>
  match resolveTarget s r1 with
  | none => (r1, false)                      -- "could not be fetched from the server"
  | some c =>
    match assoc r1.remotes b with
    | none => (r1, false)                    -- merge-base fails: "Branch does not contain"
    | some ob =>
      if !ops.isAncestor c ob then (r1, false)
      else if !headValid || !(headValid && (assoc r1.heads b).isSome) then
        lift (ops.checkoutNew b c) r1
      else
        ((lift (ops.checkoutBranch b)).andThen fun r2 =>
          if guardOk ops b r2 then lift (ops.resetKeep c) r2 else (r2, false)) r1

/-- `__checkoutTagOnBranch` -/
def checkoutTagOnBranchAct (ops : GitOps) (s : GitSpec) (b : Name) (switch : Bool) : Act := fun r =>
  if alreadyAt s switch r then (r, true)
  else ((fetchAct ops s).andThen (tagOnBranchCont ops s b r.headCommit.isSome)) r

/-- `GitScm.invoke` on an existing `.git` (after `git init` for a new one): set the remote url,
then dispatch -/
def invokeAct (ops : GitOps) (s : GitSpec) (switch : Bool) : Act := fun r =>
  let r := { r with url := some s.url }
  if s.tag.isSome || s.commit.isSome then
    match s.branch with
    | some b => if s.useBranchAndCommit then checkoutTagOnBranchAct ops s b switch r
                else checkoutTagAct ops s switch r
    | none => checkoutTagAct ops s switch r
  else
    checkoutBranchAct ops s (s.branch.getD "master") switch r

/-- the detached-HEAD rule of `GitScm.switch`: `none` = allowed to proceed -/
def switchDetachedOk (old new : GitSpec) (r : Repo) : Bool :=
  match r.head with
  | .branch _ => true
  | .detached d =>
    let oldCommit : Option (Option Commit) :=      -- none = the command/`fail` aborts the switch
      match old.commit with
      | some c => some (some c)
      | none => match old.tag with
        | some t => (assoc r.tags t).map some
        | none => none                             -- old spec was a branch: "detached HEAD state"
    match oldCommit with
    | none => false
    | some oc => !(some d != oc && some d != new.commit)

/-- `GitScm.switch` -/
def switchAct (ops : GitOps) (old new : GitSpec) : Act := fun r =>
  if switchDetachedOk old new r then invokeAct ops new true r else (r, false)

/-! ## spec level: `canSwitch` -/

/-- `GitScm.canSwitch` for the properties that the model carries (all others equal).  The set of
properties an inline switch may change and the set of ignored properties come from the current
source (`Generated/ConstsC12.lean`). -/
def canSwitch (old new : GitSpec) : Bool :=
  let diff : List String :=
    (if old.url != new.url then ["url"] else []) ++
    (if old.branch != new.branch then ["branch"] else []) ++
    (if old.tag != new.tag then ["tag"] else []) ++
    (if old.commit != new.commit then ["commit"] else []) ++
    (if old.dir != new.dir then ["dir"] else []) ++
    (if old.useBranchAndCommit != new.useBranchAndCommit then ["useBranchAndCommit"] else []) ++
    -- enabling submodules is ok
    (if old.submodules != new.submodules && !(!old.submodules && new.submodules) then ["submodules"] else [])
  let diff := diff.filter (fun p => !Consts.C12.gitIgnoredProps.contains p)
  if diff.isEmpty then true
  else if !diff.all (fun p => Consts.C12.gitSwitchable.contains p) then false
  else !new.submodules

/-! ## `GitScm.status` and `ScmStatus` -/

structure Taints where
  modified : Bool := false
  error : Bool := false
  switched : Bool := false
  unpushedMain : Bool := false
  unpushedLocal : Bool := false
  unknown : Bool := false
  deriving DecidableEq, Repr

/-- is the taint with the given `ScmTaint` name set -/
def Taints.has (t : Taints) : String → Bool
  | "modified" => t.modified
  | "error" => t.error
  | "switched" => t.switched
  | "unpushed_main" => t.unpushedMain
  | "unpushed_local" => t.unpushedLocal
  | "unknown" => t.unknown
  | _ => false

/-- `ScmStatus.dirty` / `ScmStatus.expendable`; the taint sets come from the current source -/
def Taints.dirty (t : Taints) : Bool := Consts.C12.dirtyTaints.any t.has
def Taints.expendable (t : Taints) : Bool := !t.dirty && !Consts.C12.notExpendableTaints.any t.has

/-- is `c` reachable from one of the tips -/
def covered (D : Dag) (tips : List Commit) (c : Commit) : Bool :=
  tips.any (fun t => reachB D D.fuel t c)

/-- the ref related part of `GitScm.status` for HEAD commit `h` -/
structure RefSt where
  switched : Bool
  unpushedMain : Bool
  onBranch : Bool      -- `onCorrectBranch`
  err : Bool           -- a git command failed (BuildError)
  deriving Repr

def refState (D : Dag) (s : GitSpec) (r : Repo) (h : Commit) : RefSt :=
  match s.commit with
  | some c => ⟨h != c, false, false, false⟩
  | none => match s.tag with
    | some t => ⟨assoc r.tags t != some h, false, false, false⟩
    | none =>
      if r.head != .branch (s.branch.getD "master") then ⟨true, false, false, false⟩
      else match assoc r.remotes (s.branch.getD "master") with
        | none => ⟨false, false, false, true⟩      -- `git log origin/b..HEAD` fails
        | some ob => ⟨false, !reachB D D.fuel ob h, true, false⟩

/-- the tips excluded by `git log --all --not --remotes --tags [HEAD]` -/
def exclTips (r : Repo) (onBranch : Bool) (h : Commit) : List Commit :=
  r.remotes.map (·.2) ++ r.tags.map (·.2) ++ (if onBranch then [h] else [])

/-- `GitScm.status`; `extra` = `git status --porcelain` shows something that is not in
`dirty`/`untracked` (e.g. a nested checkout that the repository does not ignore) -/
def status (D : Dag) (s : GitSpec) (extra : Bool) (r : Repo) : Taints :=
  match r.headCommit with
  | none => { error := true }          -- `git rev-parse HEAD` fails
  | some h =>
    if (refState D s r h).err then { error := true, switched := r.url != some s.url } else
    { modified := !r.dirty.isEmpty || !r.untracked.isEmpty || extra,
      switched := r.url != some s.url || (refState D s r h).switched,
      unpushedMain := (refState D s r h).unpushedMain,
      unpushedLocal := (r.heads.map (·.2) ++ [h]).any
        (fun t => !covered D (exclTips r (refState D s r h).onBranch h) t) }

/-! ## executable instance of the commands -/

/-- would moving the worktree from commit `a` to commit `b` overwrite local changes?
(`a = none`: unborn HEAD) -/
def safeMove (D : Dag) (a : Option Commit) (b : Commit) (r : Repo) : Bool :=
  let at_ (c : Option Commit) (p : Path) : Option Blob := match c with | some c => D.blobAt c p | none => none
  r.dirty.all (fun (p, _) => at_ a p == D.blobAt b p) &&
  r.untracked.all (fun (p, _) => (D.blobAt b p).isNone)

/-- all commits reachable from the tips (fuel bounded DFS, used for the object store) -/
def closure (D : Dag) : Nat → List Commit → List Commit → List Commit
  | 0, _, acc => acc
  | _ + 1, [], acc => acc
  | fuel + 1, c :: todo, acc =>
    if acc.contains c then closure D fuel todo acc
    else closure D fuel (D.par c ++ todo) (c :: acc)

def mFetch (D : Dag) (univ : List (String × Upstream)) (tag : Option Name) (r : Repo) : Except Unit Repo :=
  match r.url with
  | none => .error ()
  | some u =>
    match assoc univ u with
    | none => .error ()
    | some up =>
      let objs := closure D (D.fuel * D.fuel + up.branches.length + 1) (up.branches.map (·.2)) r.objs
      -- auto-followed tags: point into the fetched history and do not exist locally
      let follow := up.tags.filter (fun (t, c) => (assoc r.tags t).isNone && objs.contains c)
      let r1 := { r with objs := objs, remotes := up.branches, tags := r.tags ++ follow }
      match tag with
      | none => .ok r1
      | some t =>
        match assoc up.tags t with
        | none => .error ()                       -- couldn't find remote ref
        | some c =>
          match assoc r.tags t with
          | some c' => if c' == c then .ok r1 else .error ()    -- would clobber existing tag
          | none =>
            let objs2 := closure D (D.fuel * D.fuel + 1) [c] r1.objs
            .ok { r1 with objs := objs2, tags := if (assoc r1.tags t).isSome then r1.tags else r1.tags ++ [(t, c)] }

def mCheckoutDetach (D : Dag) (c : Commit) (r : Repo) : Except Unit Repo :=
  if r.objs.contains c && safeMove D r.headCommit c r then .ok { r with head := .detached c } else .error ()

def mCheckoutBranch (D : Dag) (n : Name) (r : Repo) : Except Unit Repo :=
  match assoc r.heads n with
  | none => .error ()
  | some c => if safeMove D r.headCommit c r then .ok { r with head := .branch n } else .error ()

def mCheckoutNew (D : Dag) (n : Name) (c : Commit) (r : Repo) : Except Unit Repo :=
  if (assoc r.heads n).isNone && r.objs.contains c && safeMove D r.headCommit c r then
    .ok { r with heads := r.heads ++ [(n, c)], head := .branch n }
  else .error ()

def mMergeFF (D : Dag) (n : Name) (r : Repo) : Except Unit Repo :=
  match assoc r.remotes n, r.headCommit with
  | some t', some h =>
    if reachB D D.fuel h t' then .ok r                    -- already up to date
    else if reachB D D.fuel t' h && safeMove D (some h) t' r then
      match r.head with
      | .branch b => .ok { r with heads := setAssoc r.heads b t' }
      | .detached _ => .error ()       -- never issued by Bob in this state
    else .error ()
  | _, _ => .error ()

def mResetKeep (D : Dag) (c : Commit) (r : Repo) : Except Unit Repo :=
  if r.objs.contains c && safeMove D r.headCommit c r then
    match r.head with
    | .branch b => if (assoc r.heads b).isSome then .ok { r with heads := setAssoc r.heads b c } else .error ()
    | .detached _ => .ok { r with head := .detached c }
  else .error ()

def mContains (D : Dag) (r : Repo) : List String :=
  match r.headCommit with
  | none => []
  | some h =>
    (r.heads.filter (fun (n, t) => assoc r.heads n == some t && reachB D D.fuel t h)).map (·.1) ++
    (r.remotes.filter (fun (n, t) => assoc r.remotes n == some t && reachB D D.fuel t h)).map (fun (n, _) => "origin/" ++ n)

def modelOps (D : Dag) (univ : List (String × Upstream)) : GitOps :=
  { fetch := mFetch D univ,
    checkoutDetach := mCheckoutDetach D,
    checkoutBranch := mCheckoutBranch D,
    checkoutNew := mCheckoutNew D,
    mergeFF := mMergeFF D,
    resetKeep := mResetKeep D,
    contains := mContains D,
    isAncestor := fun c a => reachB D D.fuel a c }

end GitSwitch
