import BobModel.Model.Retention
/-
Model of `ArchiveScanner` (pym/bob/cmds/archive.py) and of the three sub-commands
`scan`, `find`, `clean` on a *world* = (artifact files of the archive, scan index).

An artifact file is abstracted to its build id (= its path), its `binStat` value and what
`getAudit` + `Audit.getArtifact()/getReferencedBuildIds()` return for it (`none`: no audit could
be read, the file is skipped).  Reading the tar/gzip/json is outside the model.

The `files` table is a set of rows keyed by the build id (`PRIMARY KEY(bid, arch)`, one archive);
`getBuildIds` enumerates it in key order (`sortedRows`).  The `refs` table is a list of pairs.

`scanCurrent` is the code as it is: rows of artifacts that are no longer in the archive stay in the
index and the old references of a re-read artifact are kept (`INSERT OR IGNORE` adds to them).
`scanRepaired` is the proposed repair: references of a re-read artifact are dropped first, and rows
(and their references) that were not seen during the scan are deleted.
-/
namespace ArchiveIndex
open Retention

abbrev Stat := Str

structure Row where
  bid : Bid
  stat : Stat
  vars : Val

structure Index where
  rows : List Row
  refs : List (Bid × Bid)

def Index.empty : Index := ⟨[], []⟩

structure AuditInfo where
  vars : Val
  refs : List Bid

structure FileEnt where
  bid : Bid
  stat : Stat
  audit : Option AuditInfo
  /-- `false`: `deleteFile` raises (e.g. the path is a directory / not removable) -/
  deletable : Bool := true

structure World where
  files : List FileEnt
  idx : Index

def findRow (rows : List Row) (b : Bid) : Option Row := rows.find? fun r => r.bid == b

def dropRow (rows : List Row) (b : Bid) : List Row := rows.filter fun r => r.bid != b

/-- `INSERT OR IGNORE INTO refs` for every referenced build id -/
def addRefs (refs : List (Bid × Bid)) (b : Bid) : List Bid → List (Bid × Bid)
  | [] => refs
  | r :: rest => addRefs (if refs.contains (b, r) then refs else refs ++ [(b, r)]) b rest

def dropRefs (refs : List (Bid × Bid)) (b : Bid) : List (Bid × Bid) := refs.filter fun p => p.1 != b

/-- the part of `__scan` after the cache validation: read the audit trail, insert row and refs -/
def reread (idx : Index) (f : FileEnt) : Index :=
  match f.audit with
  | none => idx
  | some a => { rows := ⟨f.bid, f.stat, a.vars⟩ :: idx.rows, refs := addRefs idx.refs f.bid a.refs }

/-- `ArchiveScanner.__scan(fileName)` as it is -/
def scanOne (idx : Index) (f : FileEnt) : Index :=
  match findRow idx.rows f.bid with
  | some r =>
    if r.stat = f.stat then idx
    else reread { idx with rows := dropRow idx.rows f.bid } f
  | none => reread idx f

/-- `ArchiveScanner.scan` as it is: only the files that are present are looked at -/
def scanCurrent (idx : Index) (files : List FileEnt) : Index := files.foldl scanOne idx

/-- repaired `__scan`: a row that is re-read loses its old references as well -/
def scanOneR (idx : Index) (f : FileEnt) : Index :=
  match findRow idx.rows f.bid with
  | some r =>
    if r.stat = f.stat then idx
    else reread { rows := dropRow idx.rows f.bid, refs := dropRefs idx.refs f.bid } f
  | none => reread { idx with refs := dropRefs idx.refs f.bid } f

/-- repaired `scan`: afterwards rows that were not seen, and references of build ids without a
row, are deleted -/
def scanRepaired (idx : Index) (files : List FileEnt) : Index :=
  let i1 := files.foldl scanOneR idx
  let seen := files.map fun f => f.bid
  let rows := i1.rows.filter fun r => seen.contains r.bid
  { rows := rows, refs := i1.refs.filter fun p => rows.any fun r => r.bid == p.1 }

def scanWith (repaired : Bool) (idx : Index) (files : List FileEnt) : Index :=
  if repaired then scanRepaired idx files else scanCurrent idx files

/-- insertion sort of the rows by build id: the order of `SELECT bid FROM files` -/
def insertRow (r : Row) : List Row → List Row
  | [] => [r]
  | x :: rest => if strLe r.bid x.bid then r :: x :: rest else x :: insertRow r rest

def sortedRows (rows : List Row) : List Row := rows.foldr insertRow []

/-- `getBuildIds()` paired with `getVars(bid)` -/
def Index.table (idx : Index) : List (Bid × Val) := (sortedRows idx.rows).map fun r => (r.bid, r.vars)

def Index.bids (idx : Index) : List Bid := (sortedRows idx.rows).map fun r => r.bid

/-- `ArchiveScanner.remove(bid)` -/
def removeRow (idx : Index) (b : Bid) : Index := { idx with rows := dropRow idx.rows b }

/-- `__exit__` with `__cleanup` set: prune references whose owner has no row any more -/
def pruneRefs (idx : Index) : Index :=
  { idx with refs := idx.refs.filter fun p => idx.rows.any fun r => r.bid == p.1 }

/-- the third pass of `doArchiveClean` without `--dry-run`: `deleteFile` then `remove`, in index
order; a failing `deleteFile` aborts the command.  Returns the world, whether `remove` was called
at least once, and the build id whose file could not be deleted. -/
def deleteLoop (w : World) (removed : Bool) : List Bid → World × Bool × Option Bid
  | [] => (w, removed, none)
  | b :: rest =>
    match w.files.find? fun f => f.bid == b with
    | some f =>
      if f.deletable then
        deleteLoop { files := w.files.filter (fun g => g.bid != b), idx := removeRow w.idx b } true rest
      else (w, removed, some b)
    | none => deleteLoop { w with idx := removeRow w.idx b } true rest

inductive Outcome where
  | ok (printed : List Bid)
  | queryError (e : QErr)
  | deleteError (b : Bid)

/-- `bob archive scan` -/
def scanCmd (repaired : Bool) (w : World) : World :=
  { w with idx := scanWith repaired w.idx w.files }

/-- `bob archive find [-n] expressions` -/
def findCmd (repaired noscan : Bool) (es : List Expr) (w : World) : World × Outcome :=
  let w1 := if noscan then w else scanCmd repaired w
  match query es w1.idx.table with
  | .error x => (w1, .queryError x)
  | .ok retained => (w1, .ok (findOut retained))

/-- `bob archive clean [--dry-run] [-n] expressions` -/
def cleanCmd (repaired noscan dryRun : Bool) (es : List Expr) (w : World) : World × Outcome :=
  let w1 := if noscan then w else scanCmd repaired w
  match query es w1.idx.table with
  | .error x => (w1, .queryError x)
  | .ok retained =>
    let kept := closure w1.idx.refs retained
    let vs := victims w1.idx.bids kept
    if dryRun then (w1, .ok vs)
    else
      match deleteLoop w1 false vs with
      | (w2, removed, failed) =>
        let w3 := if removed then { w2 with idx := pruneRefs w2.idx } else w2
        match failed with
        | none => (w3, .ok [])
        | some b => (w3, .deleteError b)

end ArchiveIndex
