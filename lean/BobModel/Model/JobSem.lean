/-
Model of the job slot semaphores of pym/bob/builder.py:

* `ASem`   – `asyncio.Semaphore` / `asyncio.BoundedSemaphore` of CPython 3.12 (`_value`, FIFO `_waiters`;
             a waiter is `(task, future done)`), without cancellation;
* `ALock`  – `asyncio.Lock` (workspace locks of the builder);
* `St`     – `JobServerSemaphore`: `__sem`, `__waitersCnt`, `__tokens` (only their number matters),
             `__acquired` (slots owned, including slots handed over to a waiter that has not continued yet),
             `__recursive`, the job server pipe/FIFO as a counter with a non-blocking read,
             whether `jobavailableCallback` is registered as reader of the pipe, and the tokens currently
             held by child `make` processes (the environment may take tokens and has to return them).

All functions are line-by-line transliterations; error branches (`ValueError` on releasing too often,
`IndexError` of `self.__tokens.pop()` on an empty list) are explicit.  A task that has to wait is
appended to the waiter FIFO and continues with `resume` once its future is done.
-/
namespace JobSem

inductive Acq | got | blocked
  deriving DecidableEq, Repr

inductive RelErr | valueError | indexError | runtimeError
  deriving DecidableEq, Repr

/-! ### asyncio.Semaphore -/

structure ASem where
  value : Nat
  waiters : List (Nat × Bool)
  deriving DecidableEq, Repr

/-- `Semaphore.locked()` (no cancelled waiters) -/
def ASem.locked (s : ASem) : Bool := s.value == 0 || !s.waiters.isEmpty

/-- mark the first waiter whose future is not done -/
def wakeFirst : List (Nat × Bool) → Option (List (Nat × Bool))
  | [] => none
  | (t, false) :: r => some ((t, true) :: r)
  | (t, true) :: r => (wakeFirst r).map ((t, true) :: ·)

/-- `_wake_up_next` -/
def ASem.wakeNext (s : ASem) : ASem × Bool :=
  match wakeFirst s.waiters with
  | some w => ({ value := s.value - 1, waiters := w }, true)
  | none => (s, false)

/-- `Semaphore.acquire` up to its first suspension -/
def ASem.acquire (s : ASem) (t : Nat) : ASem × Acq :=
  if s.locked then ({ s with waiters := s.waiters ++ [(t, false)] }, .blocked)
  else ({ s with value := s.value - 1 }, .got)

def ASem.release (s : ASem) : ASem :=
  ({ s with value := s.value + 1 } : ASem).wakeNext.1

/-- `while self._value > 0: if not self._wake_up_next(): break` -/
def ASem.wakeLoop : Nat → ASem → ASem
  | 0, s => s
  | fuel + 1, s =>
    if s.value > 0 then
      match s.wakeNext with
      | (s', true) => ASem.wakeLoop fuel s'
      | (_, false) => s
    else s

def ASem.woken (s : ASem) (t : Nat) : Bool := s.waiters.contains (t, true)

/-- the rest of `Semaphore.acquire` after the waiter's future was completed -/
def ASem.resume (s : ASem) (t : Nat) : ASem :=
  let s1 : ASem := { s with waiters := s.waiters.erase (t, true) }
  ASem.wakeLoop s1.value s1

/-- `BoundedSemaphore.release` -/
def ASem.releaseBounded (s : ASem) (bound : Nat) : Except RelErr ASem :=
  if s.value ≥ bound then .error .valueError else .ok s.release

/-! ### asyncio.Lock -/

structure ALock where
  locked : Bool
  waiters : List (Nat × Bool)
  deriving DecidableEq, Repr

def ALock.init : ALock := { locked := false, waiters := [] }

def ALock.acquire (l : ALock) (t : Nat) : ALock × Acq :=
  if !l.locked && l.waiters.isEmpty then ({ l with locked := true }, .got)
  else ({ l with waiters := l.waiters ++ [(t, false)] }, .blocked)

def ALock.woken (l : ALock) (t : Nat) : Bool := l.waiters.contains (t, true)

def ALock.resume (l : ALock) (t : Nat) : ALock :=
  { locked := true, waiters := l.waiters.erase (t, true) }

/-- `_wake_up_first`: only the first waiter is looked at -/
def wakeHead : List (Nat × Bool) → List (Nat × Bool)
  | (t, false) :: r => (t, true) :: r
  | w => w

def ALock.release (l : ALock) : Except RelErr ALock :=
  if l.locked then .ok { locked := false, waiters := wakeHead l.waiters }
  else .error .runtimeError

/-! ### JobServerSemaphore -/

structure St where
  recursive : Bool
  sem : ASem
  waitersCnt : Nat
  tokens : Nat
  acquired : Nat
  pipe : Nat
  reader : Bool
  envHeld : Nat
  deriving DecidableEq, Repr

/-- `InternalJobServer(jobs)` writes `jobs` tokens; an external server hands over the content of its pipe -/
def St.init (recursive : Bool) (pipe : Nat) : St :=
  { recursive, sem := { value := 0, waiters := [] }, waitersCnt := 0, tokens := 0, acquired := 0,
    pipe, reader := false, envHeld := 0 }

/-- `JobServerSemaphore.acquire` up to its first suspension.  A task that has to wait is counted in
`__acquired` by whoever hands a slot over to it (`release` or `jobavailableCallback`). -/
def St.acquire (s : St) (t : Nat) : St × Acq :=
  if s.recursive && s.acquired == 0 then ({ s with acquired := 1 }, .got)
  else if s.pipe > 0 then
    ({ s with pipe := s.pipe - 1, tokens := s.tokens + 1, acquired := s.acquired + 1 }, .got)
  else
    let rd := if s.waitersCnt == 0 then true else s.reader
    let (sem', a) := s.sem.acquire t
    ({ s with reader := rd, waitersCnt := s.waitersCnt + 1, sem := sem' }, a)

def St.woken (s : St) (t : Nat) : Bool := s.sem.woken t

/-- continuation of `acquire` after `await self.__sem.acquire()` (returns at once) -/
def St.resume (s : St) (t : Nat) : St :=
  { s with sem := s.sem.resume t }

/-- the `while self.__waitersCnt:` loop of `jobavailableCallback` -/
def cbLoop : Nat → St → St
  | 0, s => s
  | fuel + 1, s =>
    if s.waitersCnt == 0 then s
    else if s.pipe == 0 then s
    else cbLoop fuel { s with pipe := s.pipe - 1, tokens := s.tokens + 1, waitersCnt := s.waitersCnt - 1,
                              acquired := s.acquired + 1, sem := s.sem.release }

/-- `jobavailableCallback` (run by the event loop when the pipe is readable and the reader is registered) -/
def St.callback (s : St) : St :=
  let s1 := cbLoop s.waitersCnt s
  if s1.waitersCnt == 0 then { s1 with reader := false } else s1

/-- `JobServerSemaphore.release`: with waiters the slot is handed over (and stays counted) -/
def St.release (s : St) : Except RelErr St :=
  if s.acquired == 0 then .error .valueError
  else if s.waitersCnt != 0 then
    let w := s.waitersCnt - 1
    .ok { s with waitersCnt := w, sem := s.sem.release, reader := if w == 0 then false else s.reader }
  else if !s.recursive || s.acquired > 1 then
    if s.tokens == 0 then .error .indexError
    else .ok { s with tokens := s.tokens - 1, pipe := s.pipe + 1, acquired := s.acquired - 1 }
  else .ok { s with acquired := s.acquired - 1 }

/-- a child `make` takes a token from the pipe -/
def St.envTake (s : St) : Option St :=
  if s.pipe > 0 then some { s with pipe := s.pipe - 1, envHeld := s.envHeld + 1 } else none

/-- a child `make` gives a token back -/
def St.envReturn (s : St) : Option St :=
  if s.envHeld > 0 then some { s with pipe := s.pipe + 1, envHeld := s.envHeld - 1 } else none

/-- number of waiters whose future is completed but who have not continued yet -/
def inflight (w : List (Nat × Bool)) : Nat := (w.filter (·.2)).length

def notDone (w : List (Nat × Bool)) : Nat := (w.filter (fun x => !x.2)).length

/-! ### the job slot semaphore of one invocation: job server semaphore, or `BoundedSemaphore(1)` for -j1 -/

inductive Runners
  | job (s : St)
  | bounded (s : ASem) (bound : Nat)
  deriving DecidableEq, Repr

def Runners.acquire : Runners → Nat → Runners × Acq
  | .job s, t => let (s', a) := s.acquire t; (.job s', a)
  | .bounded s b, t => let (s', a) := s.acquire t; (.bounded s' b, a)

def Runners.woken : Runners → Nat → Bool
  | .job s, t => s.woken t
  | .bounded s _, t => s.woken t

def Runners.resume : Runners → Nat → Runners
  | .job s, t => .job (s.resume t)
  | .bounded s b, t => .bounded (s.resume t) b

def Runners.release : Runners → Except RelErr Runners
  | .job s => s.release.map .job
  | .bounded s b => (s.releaseBounded b).map (.bounded · b)

end JobSem
