/-
Model of the script merging of `pym/bob/input.py` / `pym/bob/utils.py`:

  * `joinScripts(scripts, glue)`       (utils.py)
  * `mergeScripts(fragments, glue)`    (input.py): (setupScript, mainScript, digestScript)
  * `Step.getScript()`                 setup and main script glued together: what is executed
  * `CoreCheckoutStep.getDigestScript` "\n".join(scm lines + [recipe digest script] + assert lines)

A fragment is what `IncludeHelper.resolve` returned for one of the keys `{x}Setup`, `{x}Script`,
`{x}Finalize` of one class / the recipe: `(text, digest)`, both `None` when the key is absent.
The list of fragments is in class resolution order with the recipe last.
-/
namespace Scripts

abbrev Str := List Char

/-- `[ s for s in scripts if s is not None and s != "" ]` -/
def present : List (Option Str) → List Str
  | [] => []
  | none :: r => present r
  | some [] :: r => present r
  | some (c :: cs) :: r => (c :: cs) :: present r

/-- `glue.join(l)` -/
def join (glue : Str) : List Str → Str
  | [] => []
  | [s] => s
  | s :: t :: r => s ++ glue ++ join glue (t :: r)

/-- `joinScripts` -/
def joinScripts (scripts : List (Option Str)) (glue : Str) : Option Str :=
  match present scripts with
  | [] => none
  | s :: r => some (join glue (s :: r))

structure Part where
  text : Option Str
  dig : Option Str
  deriving DecidableEq, Repr

structure Frag where
  setup : Part
  script : Part
  final : Part
  deriving DecidableEq, Repr

def nl : Str := ['\n']

/-- `mergeScripts`: (setupScript, mainScript, digestScript) -/
def mergeScripts (fr : List Frag) (glue : Str) : Option Str × Option Str × Option Str :=
  ( joinScripts (fr.map (·.setup.text)) glue,
    joinScripts (fr.map (·.script.text) ++ fr.reverse.map (·.final.text)) glue,
    joinScripts [ joinScripts (fr.map (·.setup.dig)) nl,
                  joinScripts (fr.map (·.script.dig)) nl,
                  joinScripts (fr.map (·.final.dig)) nl ] nl )

/-- `Step.getScript()`: `joinScripts([setup or "", main or ""], glue) or ""` -/
def stepScript (setup main : Option Str) (glue : Str) : Str :=
  (joinScripts [setup, main] glue).getD []

/-- the fragment texts in the order in which they are executed: all Setup fragments, all Script
fragments (class order), all Finalize fragments in reverse class order -/
def execSeq (fr : List Frag) : List Str :=
  present (fr.map (·.setup.text) ++ fr.map (·.script.text) ++ fr.reverse.map (·.final.text))

/-- the fragment digests in the order in which they enter the digest script -/
def digestSeq (fr : List Frag) : List Str :=
  present (fr.map (·.setup.dig) ++ fr.map (·.script.dig) ++ fr.map (·.final.dig))

/-- `"\n".join([s.asDigestScript() for s in scmList] + [recipe.checkoutDigestScript] + [a.asDigestScript() …])`
(`checkoutDigestScript` is `digest or ""`) -/
def checkoutDigestScript (scms : List Str) (dig : Option Str) (asserts : List Str) : Str :=
  join nl (scms ++ [dig.getD []] ++ asserts)

end Scripts
