/-
Model of binary artifact reuse in the local builder: pym/bob/builder.py

  * `dissectPackageInputState`, `packageInputBuilt/Downloaded/Shared`            → `PkgInputs`, `dissect`
  * `LocalBuilder.__setDownloadMode`, the `tryDownload` expression of `_downloadPackage` → `setDownloadMode`, `tryDownload`
  * `_preparePackageStep`, `_downloadPackage`, `_cookPackageStep`                 → `prepOps`, `dlOps`, `pkgOps`
  * `BaseArchive.downloadPackage/_downloadPackage`, `uploadPackage` (pym/bob/archive.py) → `fetch`, `Op.upload`
  * the package branch of `_cookStep` with `_wasAlreadyRun/_setAlreadyRun`, `_wasDownloadTried`,
    `_getBuildId/__getBuildIdSingle` (cache `__buildDistBuildIds`), live-build-id predictions
    (`__getCheckoutStepBuildId`), `__handleChangedBuildId` and the restart loop of `cook`  → `cookPkg`, `cook`

Every function that updates Bob's persistent state is a *list of micro-operations in source order*
(`prepOps`, `dlOps`, `pkgOps`), computed from what the function reads on entry; `applyOp` is the effect of one
micro-operation on (persistent state, workspace contents, archive).  The log of an invocation is the
concatenation of these lists.

Abstractions (see ASSUMPTIONS in harness/props/c07.py):
  * a package is one node: its checkout and build step are folded into `semB` (what the build step leaves,
    from the package's sources `src` and the dist contents of the dependencies) followed by the package
    script `semP`.  That the checkout/build stage is redone exactly when needed is C01; here it is recomputed.
  * Build-Ids are `E.B rsig src depBids` (Model/Digest.lean `buildId` gives the bytes; C07.bid_injective).
  * the archive is a function `BuildId → Option Artifact`; an artifact is an extractable tarball (content and
    the result hash its audit trail claims, if it has one) or something that fails while being extracted.
  * a live-build-id prediction is `pred : Option Src` per package (`none`: no prediction, the checkout is done to
    get the id); it may differ from the real sources `src`.
  * shared packages, Jenkins mode, `--build-only`, `--no-deps`, `--resume`, `-j > 1`, audit trails switched off
    are not modelled.
-/
namespace Download

abbrev Path := String
abbrev Content := String
abbrev Hash := String
abbrev BuildId := String
abbrev Vid := String
abbrev RSig := String
abbrev Src := String

/-- content of an empty directory -/
def emptyC : Content := ""

/-- a stored result "hash": the directory hash or a forged `datetime.datetime.now()` -/
inductive RH
  | hash (h : Hash)
  | forged (t : Nat)
  deriving DecidableEq, Repr, Inhabited

/-- what `setInputHashes` stores for a package step: `packageInputBuilt` (list), `packageInputDownloaded`
(bytes), `packageInputShared` (tuple); `legacy` is an empty list ("created by old Bob version") -/
inductive PkgInputs
  | built (bid : BuildId) (ins : List (Option RH))
  | downloaded (bid : BuildId)
  | shared (bid : BuildId) (loc : String)
  | legacy
  deriving DecidableEq, Repr, Inhabited

/-- `oldInputBuildId`: `None`, a build-id, or something that equals no build-id -/
inductive OldBid
  | none
  | bid (b : BuildId)
  | other
  deriving DecidableEq, Repr, Inhabited

structure Dissected where
  wasDownloaded : Bool
  wasShared : Bool
  /-- `oldInputHashes` as far as it can equal a list of hashes -/
  oldInput : Option (List (Option RH))
  oldBid : OldBid
  deriving DecidableEq, Repr, Inhabited

/-- `dissectPackageInputState` -/
def dissect : Option PkgInputs → Dissected
  | none => ⟨false, false, none, .none⟩
  | some (.built b ins) => ⟨false, false, some ins, .bid b⟩
  | some (.downloaded b) => ⟨true, false, none, .bid b⟩
  | some (.shared b _) => ⟨false, true, none, .bid b⟩
  | some .legacy => ⟨false, false, some [], .other⟩

/-! ## download modes -/

inductive Mode | no | yes | deps | forced | forcedDeps | forcedFallback | packages
  deriving DecidableEq, Repr, Inhabited

inductive LayerMode | no | yes | forced
  deriving DecidableEq, Repr, Inhabited

structure DlCfg where
  depth : Nat := 0xffff
  depthForce : Nat := 0xffff
  deriving DecidableEq, Repr, Inhabited

/-- `LocalBuilder.__setDownloadMode` on a fresh builder (`canDownload` = `archive.canDownload()`) -/
def setDownloadMode (mode : Mode) (canDownload : Bool) : DlCfg :=
  match mode with
  | .yes => if canDownload then { depth := 0 } else {}
  | .forced => { depth := 0, depthForce := 0 }
  | .deps => if canDownload then { depth := 1 } else {}
  | .forcedDeps => { depth := 1, depthForce := 1 }
  | .forcedFallback => { depth := 0, depthForce := 1 }
  | .packages => {}
  | .no => {}

/-- the argument of `--download` (`packages=<regex>` is reduced to its prefix) -/
def Mode.ofString : String → Option Mode
  | "no" => some .no
  | "yes" => some .yes
  | "deps" => some .deps
  | "forced" => some .forced
  | "forced-deps" => some .forcedDeps
  | "forced-fallback" => some .forcedFallback
  | "packages" => some .packages
  | _ => none

/-! ## project, state, archive -/

structure PInfo where
  path : Path
  /-- `packageStep.getVariantId()` -/
  vid : Vid
  /-- what the Variant-Id covers: scripts, consumed variables, tools -/
  rsig : RSig
  /-- what only the Build-Id covers: the checked out sources, the host fingerprint -/
  src : Src
  /-- live-build-id prediction of `src` in this invocation -/
  pred : Option Src
  /-- a `packages=` regex is set and matches the package name -/
  pkgMatch : Bool
  /-- the last `--download-layer` mode whose regex matches the layer of the recipe -/
  layerMode : Option LayerMode
  deriving DecidableEq, Repr, Inhabited

inductive Pkg
  | mk (i : PInfo) (deps : List Pkg)
  deriving Repr, Inhabited

def Pkg.info : Pkg → PInfo | .mk i _ => i
def Pkg.deps : Pkg → List Pkg | .mk _ d => d
def Pkg.path (t : Pkg) : Path := t.info.path

/-- persistent state of `_BobState` for package workspaces, the workspace contents and the audit trail file
next to the workspace (the result hash it records) -/
structure St where
  results : Path → Option RH
  inputs : Path → Option PkgInputs
  dirStates : Path → Option Vid
  variantIds : Path → Option Vid
  disk : Path → Option Content
  audit : Path → Option Hash

def St.init : St :=
  { results := fun _ => none, inputs := fun _ => none, dirStates := fun _ => none,
    variantIds := fun _ => none, disk := fun _ => none, audit := fun _ => none }

def upd {β : Type} (f : Path → β) (p : Path) (v : β) : Path → β :=
  fun q => if q = p then v else f q

/-- `resetWorkspaceState(path, dirState)` -/
def St.reset (s : St) (p : Path) (d : Option Vid) : St :=
  { s with results := upd s.results p none, inputs := upd s.inputs p none,
           dirStates := upd s.dirStates p d, variantIds := upd s.variantIds p none }

/-- the state of one package workspace: everything the functions below read and write for a path -/
structure Loc where
  res : Option RH
  inp : Option PkgInputs
  dir : Option Vid
  vidv : Option Vid
  disk : Option Content
  audit : Option Hash
  deriving DecidableEq, Repr, Inhabited

def St.loc (s : St) (p : Path) : Loc :=
  ⟨s.results p, s.inputs p, s.dirStates p, s.variantIds p, s.disk p, s.audit p⟩

inductive Artifact
  /-- extractable: workspace content and the result hash recorded in `meta/audit.json.gz` (if present) -/
  | good (c : Content) (audit : Option Hash)
  /-- opening works, extraction raises (truncated, not a tarball, unsupported version, …) -/
  | broken
  deriving DecidableEq, Repr, Inhabited

abbrev Archive := BuildId → Option Artifact

/-- external world -/
structure Env where
  /-- `hashWorkspace` -/
  H : Content → Hash
  /-- checkout + build step of a package: recipe part, sources, dist contents of the dependencies -/
  semB : RSig → Src → List Content → Content
  /-- package script: recipe part, content of the build workspace -/
  semP : RSig → Content → Content
  /-- `getDigestCoro(…, fingerprint, platform, relaxTools=True)` -/
  B : RSig → Src → List BuildId → BuildId
  /-- workspace content left by an extraction that failed half way -/
  junk : Content

structure Cfg where
  dl : DlCfg := {}
  /-- `archive.canDownload()` -/
  canDownload : Bool := true
  force : Bool := false
  /-- `archive.canUpload()` -/
  upload : Bool := false
  uploadDepth : Nat := 0xffff
  deriving Repr, Inhabited

/-- the expression `tryDownload` of `_downloadPackage` -/
def tryDownload (dl : DlCfg) (depth : Nat) (i : PInfo) : Bool :=
  i.layerMode != some .no && (decide (depth ≥ dl.depth) || i.pkgMatch || i.layerMode.isSome)

/-! ## micro-operations -/

/-- what `archive.downloadPackage` did -/
inductive Fetch
  /-- `canDownload()` is false or the artifact is not there: returned `False` -/
  | notFound
  /-- extracted: audit file and workspace replaced -/
  | extracted (c : Content) (audit : Option Hash)
  /-- `BuildError` while extracting; partial content stays -/
  | failed
  deriving DecidableEq, Repr, Inhabited

inductive Op
  | mkDir (p : Path)
  | reset (p : Path) (v : Option Vid)
  | emptyDir (p : Path)
  | rmAudit (p : Path)
  | download (p : Path) (b : BuildId) (r : Fetch)
  | hashWs (p : Path)
  | auditRead (p : Path)
  | delInputs (p : Path)
  | setResult (p : Path) (r : RH)
  | setVid (p : Path) (v : Vid)
  | setInputs (p : Path) (i : PkgInputs)
  /-- checkout/build stage and package script of the package ran; `c` is the new dist content; the audit
  trail written by `_generateAudit` records its hash -/
  | runPackage (p : Path) (c : Content)
  | upload (p : Path) (b : BuildId)
  | mispredict (p : Path)
  deriving DecidableEq, Repr, Inhabited

def Op.path : Op → Path
  | .mkDir p => p | .reset p _ => p | .emptyDir p => p | .rmAudit p => p | .download p _ _ => p | .hashWs p => p
  | .auditRead p => p | .delInputs p => p | .setResult p _ => p | .setVid p _ => p | .setInputs p _ => p
  | .runPackage p _ => p | .upload p _ => p | .mispredict p => p

/-- effect of one micro-operation on the persistent state / workspaces and on the archive -/
def applyOp (E : Env) (sa : St × Archive) (op : Op) : St × Archive :=
  let s := sa.1
  let a := sa.2
  match op with
  | .mkDir p => ({ s with disk := upd s.disk p (some emptyC) }, a)
  | .reset p v => (s.reset p v, a)
  | .emptyDir p => ({ s with disk := upd s.disk p (some emptyC) }, a)
  | .rmAudit p => ({ s with audit := upd s.audit p none }, a)
  | .download _ _ .notFound => (s, a)
  | .download p _ (.extracted c au) => ({ s with disk := upd s.disk p (some c), audit := upd s.audit p au }, a)
  | .download p _ .failed => ({ s with disk := upd s.disk p (some E.junk), audit := upd s.audit p none }, a)
  | .hashWs _ => (s, a)
  | .auditRead _ => (s, a)
  | .delInputs p => ({ s with inputs := upd s.inputs p none }, a)
  | .setResult p r => ({ s with results := upd s.results p (some r) }, a)
  | .setVid p v => ({ s with variantIds := upd s.variantIds p (some v) }, a)
  | .setInputs p i => ({ s with inputs := upd s.inputs p (some i) }, a)
  | .runPackage p c => ({ s with disk := upd s.disk p (some c), audit := upd s.audit p (some (E.H c)) }, a)
  | .upload p b =>
    -- `uploadPackage`: "skipped (no audit trail)"; `_openUploadFile(…, overwrite=False)`: existing artifacts stay
    match s.audit p, a b with
    | some au, none => (s, upd a b (some (.good ((s.disk p).getD emptyC) (some au))))
    | _, _ => (s, a)
  | .mispredict _ => (s, a)

def applyOps (E : Env) (sa : St × Archive) (ops : List Op) : St × Archive :=
  ops.foldl (applyOp E) sa

/-! ## `_preparePackageStep` -/

def prepOps (i : PInfo) (l : Loc) : List Op :=
  let p := i.path
  let there := l.disk.isSome
  if there && decide (l.dir ≠ some i.vid) then
    -- prune if something else was there before; invalidate first
    [.reset p none, .emptyDir p, .reset p (some i.vid)]
  else if !there then [.reset p (some i.vid)]
  else []

/-! ## `_downloadPackage` -/

inductive DlOutcome
  /-- `return False, …` -/
  | no
  /-- `return True, audit` -/
  | downloaded
  /-- `raise BuildError` -/
  | error
  deriving DecidableEq, Repr, Inhabited

/-- `archive.downloadPackage(step, buildId, audit, content)`; `x` = what the archive holds under the build-id -/
def fetch (cfg : Cfg) (x : Option Artifact) : Fetch :=
  if !cfg.canDownload then .notFound
  else match x with
    | none => .notFound
    | some (.good c au) => .extracted c au
    | some .broken => .failed

/-- the branch `if BobState().getResultHash(prettyPackagePath) is None:` of `_downloadPackage` -/
def dlFetchOps (E : Env) (cfg : Cfg) (depth : Nat) (i : PInfo) (b : BuildId) (f : Fetch) : List Op × DlOutcome :=
  let p := i.path
  match f with
  | .notFound =>
    ([.download p b .notFound],
     if i.layerMode = some .forced then .error          -- "Downloading artifact of layer … failed"
     else if depth ≥ cfg.dl.depthForce then .error      -- "Downloading artifact failed"
     else .no)
  | .failed => ([.download p b .failed], .error)
  | .extracted c none => ([.download p b (.extracted c none)], .error)    -- "… misses its audit trail!"
  | .extracted c (some h) =>
    if h ≠ E.H c then ([.download p b (.extracted c (some h)), .hashWs p, .auditRead p], .error)   -- "Corrupt downloaded artifact!"
    else ([.download p b (.extracted c (some h)), .hashWs p, .auditRead p, .setInputs p (.downloaded b),
           .setResult p (.hash (E.H c)), .setVid p i.vid, .setInputs p (.downloaded b)], .downloaded)

/-- `oldInputBuildId is not None and oldInputBuildId != packageBuildId`, or `--force` -/
def dlPrune (cfg : Cfg) (b : BuildId) (old : Dissected) : Bool :=
  (match old.oldBid with
    | .none => false
    | .bid b' => decide (b' ≠ b)
    | .other => true) || cfg.force

/-- `_downloadPackage(packageStep, depth, packageBuildId)`: the micro-operations in source order and the
outcome, from what the function reads on entry (`l` = state of the workspace, `x` = archive entry of `b`) -/
def dlOps (E : Env) (cfg : Cfg) (depth : Nat) (i : PInfo) (b : BuildId) (l : Loc) (x : Option Artifact) : List Op × DlOutcome :=
  let p := i.path
  if !tryDownload cfg.dl depth i then ([], .no)
  else
    let mk : List Op := if l.disk.isNone then [.mkDir p] else []
    let old := dissect l.inp
    -- prune directory if we previously downloaded/built something different
    let pr : List Op := if dlPrune cfg b old then [.reset p none, .emptyDir p, .rmAudit p, .reset p (some i.vid)] else []
    if dlPrune cfg b old || l.res.isNone then
      let t := dlFetchOps E cfg depth i b (fetch cfg x)
      (mk ++ pr ++ t.1, t.2)
    else if old.wasDownloaded then (mk ++ pr, .downloaded)    -- "skipped (already downloaded …)"
    else (mk ++ pr, .no)

/-! ## `_cookPackageStep` -/

/-- `(ops, built)`; `depC` = dist contents of the dependencies as they are on disk, `tok` = the forged
`datetime.now()` -/
def pkgOps (E : Env) (cfg : Cfg) (i : PInfo) (b : BuildId) (depC : List Content) (tok : Nat) (l : Loc) : List Op × Bool :=
  let p := i.path
  let mk : List Op := if l.disk.isNone then [.mkDir p] else []
  let old := dissect l.inp
  let inp := E.semB i.rsig i.src depC
  let inH : List (Option RH) := [some (.hash (E.H inp))]
  if !cfg.force && decide (old.oldInput = some inH) then (mk, false)    -- "skipped (unchanged input …)"
  else
    let c := E.semP i.rsig inp
    (mk ++ [.delInputs p, .setResult p (.forged tok), .runPackage p c, .hashWs p, .setResult p (.hash (E.H c)),
            .setVid p i.vid, .setInputs p (.built b inH)], true)

/-! ## one invocation -/

/-- in-memory bookkeeping of one invocation -/
structure Mem where
  /-- `__wasRun` (package steps) -/
  wasRun : Path → Option Vid
  /-- `__wasDownloadTried` -/
  tried : Path → Bool
  /-- `__srcBuildIds[key] = (hash, False)`: the real id of the package's sources is known -/
  fixed : Path → Bool
  /-- `__buildDistBuildIds` -/
  bids : Path → Option BuildId

def Mem.init : Mem :=
  { wasRun := fun _ => none, tried := fun _ => false, fixed := fun _ => false, bids := fun _ => none }

structure Run where
  st : St
  arch : Archive
  mem : Mem
  log : List Op

def Run.exec (E : Env) (r : Run) (ops : List Op) : Run :=
  let sa := applyOps E (r.st, r.arch) ops
  { r with st := sa.1, arch := sa.2, log := r.log ++ ops }

inductive Res
  | ok (r : Run)
  /-- `BuildError` -/
  | abort (r : Run)
  /-- `RestartBuildException` -/
  | restart (r : Run)

def Res.run : Res → Run
  | .ok r => r
  | .abort r => r
  | .restart r => r

def Res.isOk : Res → Bool
  | .ok _ => true
  | _ => false

/-- `_wasAlreadyRun(step, False)` -/
def wasAlreadyRun (i : PInfo) (r : Run) : Bool × Run :=
  match r.mem.wasRun i.path with
  | none => (false, r)
  | some v =>
    if v ≠ i.vid then (false, { r with mem := { r.mem with wasRun := upd r.mem.wasRun i.path none } })
    else (true, r)

/-- `_setAlreadyRun(step, False)` -/
def setAlreadyRun (i : PInfo) (r : Run) : Run :=
  { r with mem := { r.mem with wasRun := upd r.mem.wasRun i.path (some i.vid) } }

/-- `_setDownloadTried(step)` -/
def setTried (i : PInfo) (r : Run) : Run :=
  { r with mem := { r.mem with tried := upd r.mem.tried i.path true } }

/-- the source id the builder currently believes in -/
def srcNow (m : Mem) (i : PInfo) : Src :=
  if m.fixed i.path then i.src else i.pred.getD i.src

mutual
/-- `_getBuildId` / `__getBuildIdSingle` of a package step with the cache `__buildDistBuildIds` -/
def getBuildId (E : Env) : Pkg → Mem → BuildId × Mem
  | .mk i deps, m =>
    match m.bids i.path with
    | some b => (b, m)
    | none =>
      let (bs, m1) := getBuildIds E deps m
      let b := E.B i.rsig (srcNow m1 i) bs
      (b, { m1 with bids := upd m1.bids i.path (some b) })
def getBuildIds (E : Env) : List Pkg → Mem → List BuildId × Mem
  | [], m => ([], m)
  | d :: ds, m =>
    let (b, m1) := getBuildId E d m
    let (bs, m2) := getBuildIds E ds m1
    (b :: bs, m2)
end

/-- `_clearDownloadTried`: assigns a dictionary nobody reads; `__wasDownloadTried` stays as it is -/
def clearDownloadTried (m : Mem) : Mem := m

/-- `__handleChangedBuildId`: remember the real source id, drop the derived build-ids, forget the executed
build and package steps -/
def handleChangedBuildId (i : PInfo) (m : Mem) : Mem :=
  clearDownloadTried
    { m with fixed := upd m.fixed i.path true, bids := fun _ => none, wasRun := fun _ => none }

/-- the checkout of the package's own sources (first dependency of its build step): a prediction that turns
out wrong restarts the build -/
def checkSrc (i : PInfo) (r : Run) : Option Run :=
  if decide (srcNow r.mem i ≠ i.src) then
    some { r with mem := handleChangedBuildId i r.mem, log := r.log ++ [.mispredict i.path] }
  else none

def contentsOf (s : St) (ds : List Pkg) : List Content := ds.map fun d => (s.disk d.path).getD emptyC

/-- "Try to download if needed and possible. Will only be tried once per invocation!" -/
def dlPhase (E : Env) (cfg : Cfg) (depth : Nat) (i : PInfo) (b : BuildId) (r : Run) : DlOutcome × Run :=
  if r.mem.tried i.path then (.no, r)
  else
    let d := dlOps E cfg depth i b (r.st.loc i.path) (r.arch b)
    match d.2 with
    | .error => (.error, r.exec E d.1)
    | o => (o, setTried i (r.exec E d.1))

/-- the end of the package branch once the dependencies are cooked: `_cookPackageStep`, `_setAlreadyRun`,
upload if it was built -/
def finishPkg (E : Env) (cfg : Cfg) (depth : Nat) (i : PInfo) (deps : List Pkg) (b : BuildId) (r : Run) : Res :=
  let w := wasAlreadyRun i r
  if w.1 then .ok w.2 else
  let pk := pkgOps E cfg i b (contentsOf w.2.st deps) w.2.log.length (w.2.st.loc i.path)
  let r1 := setAlreadyRun i (w.2.exec E pk.1)
  if pk.2 && cfg.upload && decide (depth ≤ cfg.uploadDepth) then .ok (r1.exec E [.upload i.path b])
  else .ok r1

mutual
/-- the package branch of `_cookStep(step, False, depth)` -/
def cookPkg (E : Env) (cfg : Cfg) (depth : Nat) : Pkg → Run → Res
  | .mk i deps, r =>
    let w := wasAlreadyRun i r
    if w.1 then .ok w.2 else
    let r1 := w.2.exec E (prepOps i (w.2.st.loc i.path))
    -- build-id of the expected artifact
    let bm := getBuildId E (.mk i deps) r1.mem
    let d := dlPhase E cfg depth i bm.1 { r1 with mem := bm.2 }
    match d.1 with
    | .error => .abort d.2
    | .downloaded => .ok (setAlreadyRun i d.2)
    | .no =>
      -- recurse and build: the package's own checkout comes first
      match checkSrc i d.2 with
      | some r5 => .restart r5
      | none =>
        match cookList E cfg (depth + 2) deps d.2 with
        | .ok r5 => finishPkg E cfg depth i deps bm.1 r5
        | x => x
/-- `_cook(steps, …, depth)` -/
def cookList (E : Env) (cfg : Cfg) (depth : Nat) : List Pkg → Run → Res
  | [], r => .ok r
  | d :: ds, r =>
    match cookPkg E cfg depth d r with
    | .ok r1 => cookList E cfg depth ds r1
    | x => x
end

/-- the loop `while self.__restart` of `cook`; every restart fixes one more source id (`fuel` = number of
packages + 1 suffices) -/
def cookRounds (E : Env) (cfg : Cfg) (t : Pkg) : Nat → Run → Res
  | 0, r => .restart r
  | n + 1, r =>
    match cookPkg E cfg 0 t r with
    | .restart r1 => cookRounds E cfg t n r1
    | x => x

mutual
def size : Pkg → Nat
  | .mk _ ds => 1 + sizeL ds
def sizeL : List Pkg → Nat
  | [] => 0
  | d :: ds => size d + sizeL ds
end

/-- `LocalBuilder.cook([target], False)` of one invocation of `bob dev` / `bob build` -/
def cook (E : Env) (cfg : Cfg) (t : Pkg) (s : St) (a : Archive) : Res :=
  cookRounds E cfg t (size t + 1) { st := s, arch := a, mem := Mem.init, log := [] }

/-! ## what a purely local build yields -/

mutual
/-- dist content of a from-scratch local build -/
def value (E : Env) : Pkg → Content
  | .mk i ds => E.semP i.rsig (E.semB i.rsig i.src (values E ds))
def values (E : Env) : List Pkg → List Content
  | [] => []
  | d :: ds => value E d :: values E ds
end

mutual
/-- the Build-Id of the project state as it is (all source ids real) -/
def tb (E : Env) : Pkg → BuildId
  | .mk i ds => E.B i.rsig i.src (tbs E ds)
def tbs (E : Env) : List Pkg → List BuildId
  | [] => []
  | d :: ds => tb E d :: tbs E ds
end

mutual
/-- the project state the builder believes in: predicted sources where the real ones are not known -/
def eff (fixed : Path → Bool) : Pkg → Pkg
  | .mk i ds => .mk { i with src := if fixed i.path then i.src else i.pred.getD i.src } (effs fixed ds)
def effs (fixed : Path → Bool) : List Pkg → List Pkg
  | [] => []
  | d :: ds => eff fixed d :: effs fixed ds
end

mutual
/-- every package of the tree, root first -/
def nodes : Pkg → List Pkg
  | .mk i ds => .mk i ds :: nodesL ds
def nodesL : List Pkg → List Pkg
  | [] => []
  | d :: ds => nodes d ++ nodesL ds
end

end Download
