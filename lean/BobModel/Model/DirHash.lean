import BobModel.Util.Bytes
import BobModel.Generated.ConstsC11
/-
Model of the directory hasher of pym/bob/utils.py: `DirHasher.__hashEntry`, `__hashLink`,
`__hashDir`, `hashDirectory`, `hashPath`, `hashFile` (chunking is invisible: the digest of the
whole content), `NullIndex`.

* A file system tree is a `Tree` / `Forest` (a directory listing in `scandir` order).  Only what
  the hash is *supposed* to depend on is part of a `Tree`: names, file types, permission bits,
  contents, link targets (and `st_rdev` of device nodes).  Time stamps, owners, inode numbers
  live in a separate `statOf : path → Stat` function that only the hash cache reads.
* `Forest.canon` is what `os.scandir` + the two ignore lists + `sorted(key = name or name + b"/")`
  do in `__hashDir`, applied on every level (stable insertion sort = Python's stable `sorted`).
  The implementation sorts a directory just before descending into it; since listing a directory
  is a pure read, canonicalising all levels first and then walking is the same computation.
* `Forest.walk` is `__hashDir` / `__hashEntry` on the canonical tree, parametrised by the index
  object exactly like `DirHasher` is (`NullIndex.check` or `FileIndex.check`, see FileIndex.lean).
* The hash function is a parameter `H` (SHA-1 in the driver).
* `struct` format strings, ignore lists and the separator come from `Generated/ConstsC11.lean`.
-/
namespace DirHash

/-! ### `struct` formats (little endian / standard sizes only, which is all the hasher uses) -/

inductive Field where
  | int (width : Nat) (signed : Bool)
  | bytes (n : Nat)
  deriving DecidableEq, Repr

def fieldOfCode (c : Char) : Option Field :=
  if c = 'q' then some (.int 8 true) else if c = 'Q' then some (.int 8 false)
  else if c = 'l' ∨ c = 'i' then some (.int 4 true) else if c = 'L' ∨ c = 'I' then some (.int 4 false)
  else if c = 'h' then some (.int 2 true) else if c = 'H' then some (.int 2 false)
  else if c = 'b' then some (.int 1 true) else if c = 'B' then some (.int 1 false)
  else none

/-- body of a format string: optional repeat count, then a code (`20s` is one field of 20 bytes) -/
def parseFmtBody : List Char → Option Nat → List Field
  | [], _ => []
  | c :: rest, cnt =>
    if '0' ≤ c ∧ c ≤ '9' then parseFmtBody rest (some (cnt.getD 0 * 10 + (c.toNat - 48)))
    else if c = 's' then .bytes (cnt.getD 1) :: parseFmtBody rest none
    else match fieldOfCode c with
      | some f => List.replicate (cnt.getD 1) f ++ parseFmtBody rest none
      | none => parseFmtBody rest none

/-- `=` and `<` both mean little endian without padding on the platforms Bob runs on -/
def parseFmt : List Char → List Field
  | c :: rest => if c = '=' ∨ c = '<' then parseFmtBody rest none else []
  | [] => []

inductive Val where
  | int (v : Int)
  | bytes (b : Bytes)

def padTo (n : Nat) (b : Bytes) : Bytes := (b ++ List.replicate n 0).take n

def packInt (w : Nat) (v : Int) : Bytes := Bytes.le w (v % (2 ^ (8 * w) : Nat)).toNat

def packFields : List Field → List Val → Bytes
  | .int w _ :: fs, .int v :: vs => packInt w v ++ packFields fs vs
  | .bytes n :: fs, .bytes b :: vs => padTo n b ++ packFields fs vs
  | _, _ => []

def pack (fmt : List Char) (vs : List Val) : Bytes := packFields (parseFmt fmt) vs

/-- `struct.pack("=L", st_mode)` -/
def packMode (m : Nat) : Bytes := pack Consts.C11.dirModeFmt [.int m]
/-- `struct.pack("<L", st_rdev)` -/
def packRdev (r : Nat) : Bytes := pack Consts.C11.devFmt [.int r]

/-! ### trees -/

mutual
inductive Tree where
  | file (perm : Nat) (content : Bytes)
  | link (perm : Nat) (target : Bytes)
  | dir (perm : Nat) (entries : Forest)
  | dev (chr : Bool) (perm : Nat) (rdev : Nat)
  | fifo (perm : Nat)
  /-- anything else (`S_IFSOCK`, unknown format bits `fmt`): hashed as mode + name only -/
  | other (fmt : Nat) (perm : Nat)
inductive Forest where
  | nil
  | cons (name : Bytes) (t : Tree) (rest : Forest)
end

instance : Inhabited Tree := ⟨.fifo 0⟩
instance : Inhabited Forest := ⟨.nil⟩

/-- `st_mode`: format bits (`stat.S_IFxxx`) plus the 12 permission bits -/
def Tree.mode : Tree → Nat
  | .file p _ => 0o100000 + p
  | .link p _ => 0o120000 + p
  | .dir p _ => 0o040000 + p
  | .dev c p _ => (if c then 0o020000 else 0o060000) + p
  | .fifo p => 0o010000 + p
  | .other f p => f * 4096 + p

def Tree.isDir : Tree → Bool
  | .dir _ _ => true
  | _ => false

/-- the `if stat.S_ISREG … elif S_ISDIR … elif S_ISLNK … elif S_ISBLK or S_ISCHR … elif S_ISFIFO … else`
chain of `__hashEntry`, used to build a `Tree` node from raw `lstat` data -/
def Tree.ofRaw (mode : Nat) (data : Bytes) (rdev : Nat) (entries : Forest) : Tree :=
  let fmt := mode / 4096 % 16
  let perm := mode % 4096
  if fmt = 8 then .file perm data
  else if fmt = 4 then .dir perm entries
  else if fmt = 10 then .link perm data
  else if fmt = 6 then .dev false perm rdev
  else if fmt = 2 then .dev true perm rdev
  else if fmt = 1 then .fifo perm
  else .other fmt perm

def Forest.toList : Forest → List (Bytes × Tree)
  | .nil => []
  | .cons n t rest => (n, t) :: rest.toList

def Forest.ofList : List (Bytes × Tree) → Forest
  | [] => .nil
  | (n, t) :: rest => .cons n t (Forest.ofList rest)

/-! ### listing a directory: ignore lists and sort order -/

/-- Python's `<` on `bytes`: lexicographic on unsigned bytes, a proper prefix is smaller -/
def bytesLt : Bytes → Bytes → Bool
  | [], [] => false
  | [], _ :: _ => true
  | _ :: _, [] => false
  | a :: as, b :: bs => if a.toNat < b.toNat then true else if b.toNat < a.toNat then false else bytesLt as bs

/-- `f + os.fsencode(os.path.sep)` for directories, `f` otherwise -/
def sortName (n : Bytes) (t : Tree) : Bytes :=
  if t.isDir then n ++ Consts.C11.pathSep else n

/-- `if f in self.__ignoreDirs: continue` (directories only) / `if f in IGNORE_FILES: continue` (others) -/
def ignored (n : Bytes) (t : Tree) : Bool :=
  if t.isDir then Consts.C11.ignoreDirs.contains n else Consts.C11.ignoreFiles.contains n

/-- stable insertion: the new (earlier) entry goes before the first entry whose key is not smaller -/
def Forest.insert (n : Bytes) (t : Tree) : Forest → Forest
  | .nil => .cons n t .nil
  | .cons m u rest =>
    if bytesLt (sortName m u) (sortName n t) then .cons m u (Forest.insert n t rest)
    else .cons n t (.cons m u rest)

mutual
def Tree.canon : Tree → Tree
  | .dir p es => .dir p es.canon
  | .file p c => .file p c
  | .link p t => .link p t
  | .dev c p r => .dev c p r
  | .fifo p => .fifo p
  | .other f p => .other f p
def Forest.canon : Forest → Forest
  | .nil => .nil
  | .cons n t rest => if ignored n t then rest.canon else Forest.insert n t.canon rest.canon
end

/-! ### hashing -/

/-- `os.path.join(path, f)` of posixpath -/
def joinPath (a b : Bytes) : Bytes :=
  if b.head? = some 47 then b
  else if a = [] ∨ a.getLast? = some 47 then a ++ b
  else a ++ 47 :: b

section
variable (H : Bytes → Bytes)

mutual
/-- the `digest` of `__hashEntry` without index (`NullIndex`) on a canonical tree -/
def Tree.digest : Tree → Bytes
  | .file _ c => H c
  | .link _ t => H t
  | .dir _ es => H es.blob
  | .dev _ _ r => packRdev r
  | .fifo _ => []
  | .other _ _ => []
/-- `dirBlob` of `__hashDir`: concatenation of `mode ‖ digest ‖ sortName` -/
def Forest.blob : Forest → Bytes
  | .nil => []
  | .cons n t rest => packMode t.mode ++ t.digest ++ sortName n t ++ rest.blob
end

/-- `hashDirectory(path)` (no index) of a directory whose listing is `es` -/
def hashDir (es : Forest) : Bytes := H (es.canon.blob H)

/-- `hashPath(path)` (no index) of an existing path whose `lstat`/content is `t` -/
def hashPath (t : Tree) : Bytes := t.canon.digest H

/-- the stat fields the index compares (`FileIndex.Stat` without name and digest) -/
structure Stat where
  ctime : Int
  mtime : Int
  dev : Nat
  ino : Nat
  mode : Nat
  size : Nat
  deriving DecidableEq, Repr

/-- `maskIno` -/
def maskIno (ino : Nat) : Nat := (ino ^^^ (ino >>> 64)) % 2 ^ 64

/-- the values `check`/`__writeEntry` use from `lstat(path)`; the mode is the node's own -/
def statFor (statOf : Bytes → Stat) (path : Bytes) (t : Tree) : Stat :=
  let s := statOf path
  { s with ino := maskIno s.ino, mode := t.mode }

variable {σ : Type} (chk : Bytes → Stat → Bytes → σ → Bytes × σ) (statOf : Bytes → Stat)

mutual
/-- `__hashEntry(prefix, entry = path, s)` with an index object whose `check` is `chk`
(`chk name st digestIfProcessed state`); `process` is pure, so its result is passed directly -/
def Tree.walk (path : Bytes) : Tree → σ → Bytes × σ
  | .file p c, s => chk path (statFor statOf path (.file p c)) (H c) s
  | .link p t, s => chk path (statFor statOf path (.link p t)) (H t) s
  | .dir _ es, s => let r := es.walk path s; (H r.1, r.2)
  | .dev _ _ r, s => (packRdev r, s)
  | .fifo _, s => ([], s)
  | .other _ _, s => ([], s)
/-- the list comprehension of `__hashDir` over the sorted entries of directory `dirPath` -/
def Forest.walk (dirPath : Bytes) : Forest → σ → Bytes × σ
  | .nil, s => ([], s)
  | .cons n t rest, s =>
    let r1 := t.walk (joinPath dirPath n) s
    let r2 := rest.walk dirPath r1.2
    (packMode t.mode ++ r1.1 ++ sortName n t ++ r2.1, r2.2)
end

end

/-- `NullIndex.check` -/
def nullCheck (_ : Bytes) (_ : Stat) (d : Bytes) (s : Unit) : Bytes × Unit := (d, s)

mutual
/-- the regular files and symlinks below a node in visit order with their index names:
exactly the calls of `index.check` -/
def Tree.leaves (path : Bytes) : Tree → List (Bytes × Tree)
  | .file p c => [(path, .file p c)]
  | .link p t => [(path, .link p t)]
  | .dir _ es => es.leaves path
  | .dev _ _ _ => []
  | .fifo _ => []
  | .other _ _ => []
def Forest.leaves (dirPath : Bytes) : Forest → List (Bytes × Tree)
  | .nil => []
  | .cons n t rest => t.leaves (joinPath dirPath n) ++ rest.leaves dirPath
end

/-- the index checks performed by `hashDirectory` on a directory with listing `es` -/
def visited (es : Forest) : List (Bytes × Tree) := es.canon.leaves []

mutual
/-- every byte string that is fed to the hash function while hashing a canonical tree -/
def Tree.inputs (H : Bytes → Bytes) : Tree → List Bytes
  | .file _ c => [c]
  | .link _ t => [t]
  | .dir _ es => es.blob H :: es.inputs H
  | .dev _ _ _ => []
  | .fifo _ => []
  | .other _ _ => []
def Forest.inputs (H : Bytes → Bytes) : Forest → List Bytes
  | .nil => []
  | .cons _ t rest => t.inputs H ++ rest.inputs H
end

/-- all hash inputs of `hashDirectory` on listing `es` -/
def hashInputs (H : Bytes → Bytes) (es : Forest) : List Bytes := es.canon.blob H :: es.canon.inputs H

end DirHash
