import BobModel.Generated.ConstsC01
/-
Model of the local builder: pym/bob/builder.py `LocalBuilder` (`cook`, `_cook`, `_cookStep`,
`_cookCheckoutStep`, `_cookBuildStep`, `_preparePackageStep`, `_cookPackageStep`, `_getBuildId`,
`__getIncrementalVariantId`, `_wasAlreadyRun/_setAlreadyRun`) together with the accessors of
pym/bob/state.py `_BobState` they use (`results`, `inputs`, `dirStates`, `variantIds`) and the
workspace contents on disk.

* A project state is a finite tree of `Step`s (the DAG of `getAllDepSteps` unfolded; sharing is by
  workspace path, exactly as the implementation shares by `_wasAlreadyRun(path)`).
* Variant ids are the un-hashed Merkle trees `Vid.mk sig deps` (C02 proves that the real digest is an
  injective function of exactly this data).  The *incremental* variant id takes the stored
  variant ids of the dependencies (`__getIncrementalVariantId`).
* Every cook function is a program in the monad `M`: a sequence of *micro-operations* in SOURCE
  ORDER.  Each micro-operation consumes one unit of `fuel`; when the fuel is used up the run is
  aborted (Bob killed between two updates).  A script is two micro-operations: `scriptBegin`
  leaves arbitrary junk in the workspace, `scriptEnd` installs the script's result (or its partial
  output when it fails, which aborts the run).
* External functions are parameters (`Env`): the directory hash `H`, the script semantics `sem`,
  the junk content, the effect of moving an SCM directory to the attic.

Not modelled (see ASSUMPTIONS of harness/props/c01.py): download / upload / shared packages
(no archive, no share configured: `_downloadPackage` returns at `tryDownload == False`,
`_useSharedPackage` only calls `setStoragePath(p, p)`), live build-ids, fingerprint scripts,
sandbox, `--build-only`, `--resume`, `--clean-checkout`, SCM in-place switch and nested SCM
directories, the audit trail, `-j > 1` (C06).
-/
namespace Builder

abbrev Path := String
abbrev Content := String
abbrev Hash := String
abbrev World := String
abbrev Dir := String
abbrev Digest := String

/-- content of an empty directory -/
def emptyC : Content := ""

inductive Kind | checkout | build | package
  deriving DecidableEq, Repr, Inhabited

/-- everything a step's variant id digests about the step itself (script, consumed environment,
tool paths ...), i.e. all of `getDigestCoro` except the ids of the dependencies -/
structure Sig where
  kind : Kind
  tag : String
  deriving DecidableEq, Repr, Inhabited

/-- variant id as un-hashed Merkle tree -/
inductive Vid
  | mk (sig : Sig) (deps : List Vid)
  deriving Repr, Inhabited

def Vid.sig : Vid → Sig | .mk s _ => s
def Vid.deps : Vid → List Vid | .mk _ d => d

mutual
def Vid.decEq : (a b : Vid) → Decidable (a = b)
  | .mk s1 d1, .mk s2 d2 =>
    if hs : s1 = s2 then
      match Vid.decEqList d1 d2 with
      | isTrue hd => isTrue (by rw [hs, hd])
      | isFalse hd => isFalse (by intro h; cases h; exact hd rfl)
    else isFalse (by intro h; cases h; exact hs rfl)
def Vid.decEqList : (a b : List Vid) → Decidable (a = b)
  | [], [] => isTrue rfl
  | [], _ :: _ => isFalse (by simp)
  | _ :: _, [] => isFalse (by simp)
  | a :: as, b :: bs =>
    match Vid.decEq a b, Vid.decEqList as bs with
    | isTrue h1, isTrue h2 => isTrue (by rw [h1, h2])
    | isFalse h1, _ => isFalse (by intro h; cases h; exact h1 rfl)
    | _, isFalse h2 => isFalse (by intro h; cases h; exact h2 rfl)
end
instance : DecidableEq Vid := Vid.decEq

/-- a stored result "hash": the directory hash, a forged `datetime.datetime.now()` (equal to no
hash), or the relocation fingerprint that non-relocatable package steps append to their inputs -/
inductive RH
  | hash (h : Hash)
  | forged (t : Nat)
  | fp (p : Path)
  deriving DecidableEq, Repr, Inhabited

/-- list stored by `setInputHashes` (`getResultHash` of a never built dependency is `None`).  For
package steps the implementation prepends the build-id; it is only read when an archive is
configured and is dropped here. -/
abbrev Inputs := List (Option RH)

/-- the `CHECKOUT_STATE_BUILD_ONLY` entry -/
structure BoState where
  loc : String
  upd : Digest
  ins : Inputs
  deriving DecidableEq, Repr, Inhabited

/-- `getDirectoryState`: dict for checkouts, list for build steps, bytes for package steps -/
inductive DirState
  | co (scms : List (Dir × Digest)) (vid : Option Vid) (bo : Option BoState)
  | build (ivid : Vid) (paths : List Path)
  | pkg (vid : Vid)
  deriving DecidableEq, Repr, Inhabited

/-- persistent state of `_BobState` plus workspace contents -/
structure St where
  results : Path → Option RH
  inputs : Path → Option Inputs
  dirStates : Path → Option DirState
  variantIds : Path → Option Vid
  disk : Path → Option Content
  attic : List (Path × Dir)
  clock : Nat

def St.init : St :=
  { results := fun _ => none, inputs := fun _ => none, dirStates := fun _ => none,
    variantIds := fun _ => none, disk := fun _ => none, attic := [], clock := 0 }

def upd {β : Type} (f : Path → β) (p : Path) (v : β) : Path → β :=
  fun q => if q = p then v else f q

def St.setResult (s : St) (p : Path) (r : RH) : St := { s with results := upd s.results p (some r) }
def St.forge (s : St) (p : Path) : St :=
  { s with results := upd s.results p (some (.forged s.clock)), clock := s.clock + 1 }
def St.setInputs (s : St) (p : Path) (i : Inputs) : St := { s with inputs := upd s.inputs p (some i) }
def St.delInputs (s : St) (p : Path) : St := { s with inputs := upd s.inputs p none }
def St.setDir (s : St) (p : Path) (d : DirState) : St := { s with dirStates := upd s.dirStates p (some d) }
def St.setVid (s : St) (p : Path) (v : Vid) : St := { s with variantIds := upd s.variantIds p (some v) }
def St.setDisk (s : St) (p : Path) (c : Content) : St := { s with disk := upd s.disk p (some c) }
/-- `resetWorkspaceState(path, dirState)` (`None` deletes the directory state) -/
def St.reset (s : St) (p : Path) (d : Option DirState) : St :=
  { s with results := upd s.results p none, inputs := upd s.inputs p none,
           dirStates := upd s.dirStates p d, variantIds := upd s.variantIds p none }

inductive Outcome
  | ok (c : Content)
  | fail (c : Content)
  deriving DecidableEq, Repr

/-- external world -/
structure Env where
  /-- `hashWorkspace` -/
  H : Content → Hash
  /-- what a step's script (SCMs + script + asserts) leaves in the workspace: a function of the
  step's own digest data, the external world (sources of indeterministic checkouts), the previous
  workspace content and the contents of the input workspaces -/
  sem : Sig → World → Content → List Content → Outcome
  /-- workspace content when Bob is killed while the script runs -/
  junk : Content
  /-- `os.rename(scmPath, atticPath)` -/
  rmDir : Dir → Content → Content
  /-- `os.path.exists(scmPath)` -/
  hasDir : Content → Dir → Bool

structure Cfg where
  force : Bool := false
  /-- `--clean` (default of `bob build`) vs `--incremental` (default of `bob dev`) -/
  cleanBuild : Bool := false
  checkoutOnly : Bool := false
  noDeps : Bool := false
  attic : Bool := true
  deriving Repr, Inhabited

structure Info where
  sig : Sig
  path : Path
  /-- `getExecPath()` (equals `path` outside a sandbox) -/
  execPath : Path
  /-- package name, only for `--no-deps` -/
  pkg : String
  /-- `isDeterministic()` -/
  det : Bool
  /-- checkout: `getMainScript() or getPostRunCmds()` -/
  hasScript : Bool
  /-- checkout: `getScmDirectories()` as (dir, digest), sorted like `checkoutsFromState` -/
  scms : List (Dir × Digest)
  boLoc : String
  boUpd : Digest
  /-- external input (e.g. the source tree an import SCM copies) -/
  world : World
  /-- package step that is not relocatable: `_getFingerprint` is appended to the inputs -/
  fp : Bool
  deriving Repr, Inhabited

/-- a (valid) step with its valid dependencies `getAllDepSteps()` in order.  `pre` are inputs
that are read but not cooked by this step (package step: the checkout step of its package, see
`_cookPackageStep`); they precede the dependencies in the input list. -/
inductive Step
  | mk (i : Info) (pre : List Step) (deps : List Step)
  deriving Inhabited

def Step.info : Step → Info | .mk i _ _ => i
def Step.pre : Step → List Step | .mk _ p _ => p
def Step.deps : Step → List Step | .mk _ _ d => d
/-- all inputs of the step's script, in the order of the input hash list -/
def Step.ins (t : Step) : List Step := t.pre ++ t.deps
def Step.path (t : Step) : Path := t.info.path
def Step.kind (t : Step) : Kind := t.info.sig.kind

mutual
/-- `getVariantId()`: own digest data and the ids of arguments and tools -/
def vid : Step → Vid
  | .mk i _ ds => .mk i.sig (vids ds)
def vids : List Step → List Vid
  | [] => []
  | d :: ds => vid d :: vids ds
end

mutual
/-- every step of the tree, root first -/
def subtrees : Step → List Step
  | .mk i pre ds => .mk i pre ds :: (subtreesL pre ++ subtreesL ds)
def subtreesL : List Step → List Step
  | [] => []
  | d :: ds => subtrees d ++ subtreesL ds
end

def outC : Outcome → Content
  | .ok c => c
  | .fail c => c

mutual
/-- what a from-scratch build leaves in the workspace of a step: the unique solution of the
data-flow equations `value s = sem s (value <$> deps s)` -/
def value (E : Env) : Step → Content
  | .mk i pre ds => outC (E.sem i.sig i.world emptyC (values E pre ++ values E ds))
def values (E : Env) : List Step → List Content
  | [] => []
  | d :: ds => value E d :: values E ds
end

/-! ## micro-operations and the run monad -/

inductive Op
  | mkDir (p : Path)
  | reset (p : Path) (d : Option DirState)
  | setDir (p : Path) (d : DirState)
  | delInputs (p : Path)
  | setResult (p : Path) (r : RH)
  | setInputs (p : Path) (i : Inputs)
  | setVid (p : Path) (v : Vid)
  | emptyDir (p : Path)
  | scriptBegin (p : Path)
  | scriptEnd (p : Path) (ok : Bool)
  | atticMove (p : Path) (d : Dir)
  | setAttic (p : Path) (d : Dir)
  deriving DecidableEq, Repr

/-- in-memory bookkeeping of one invocation: `__wasRun`, `__wasSkipped` -/
structure Mem where
  wasRun : Path → Option (Vid × Bool)
  wasSkipped : Path → Bool

def Mem.init : Mem := { wasRun := fun _ => none, wasSkipped := fun _ => false }

structure Run where
  st : St
  mem : Mem
  /-- micro-operations left before Bob is killed -/
  fuel : Nat
  log : List Op

inductive Res (α : Type)
  | ok (a : α) (r : Run)
  | abort (r : Run)

def M (α : Type) := Run → Res α

instance : Monad M where
  pure a := fun r => .ok a r
  bind m f := fun r => match m r with
    | .ok a r' => f a r'
    | .abort r' => .abort r'

def getSt : M St := fun r => .ok r.st r
def getMem : M Mem := fun r => .ok r.mem r
def setMem (m : Mem) : M Unit := fun r => .ok () { r with mem := m }
/-- `raise BuildError`: nothing else is written -/
def abort {α : Type} : M α := fun r => .abort r

/-- one micro-operation -/
def prim (op : Op) (f : St → St) : M Unit := fun r =>
  match r.fuel with
  | 0 => .abort r
  | k + 1 => .ok () { r with st := f r.st, fuel := k, log := r.log ++ [op] }

def whenM (b : Bool) (m : M Unit) : M Unit := if b then m else pure ()

/-- `hashWorkspace` of the current content -/
def hashOf (E : Env) (st : St) (p : Path) : RH := .hash (E.H ((st.disk p).getD emptyC))

def contentsOf (st : St) (ds : List Step) : List Content := ds.map fun d => (st.disk d.path).getD emptyC

def resultsOf (st : St) (ds : List Step) : Inputs := ds.map fun d => st.results d.path

/-- input hash list: results of the inputs, plus the relocation fingerprint -/
def inputHashes (st : St) (i : Info) (ds : List Step) : Inputs :=
  resultsOf st ds ++ (if i.fp then [some (.fp i.execPath)] else [])

/-- `__getIncrementalVariantId` -/
def ivid (st : St) (i : Info) (ds : List Step) : Vid :=
  .mk i.sig (ds.map fun d => (st.variantIds d.path).getD (vid d))

/-- `_runShell` (CALL mode): `clean` = workspace emptied by the invoker before the script -/
def runScript (E : Env) (i : Info) (clean : Bool) (ins : List Content) : M Unit := do
  let st ← getSt
  let old := if clean then emptyC else (st.disk i.path).getD emptyC
  prim (.scriptBegin i.path) (fun s => s.setDisk i.path E.junk)
  match E.sem i.sig i.world old ins with
  | .ok c => prim (.scriptEnd i.path true) (fun s => s.setDisk i.path c)
  | .fail c => do
    prim (.scriptEnd i.path false) (fun s => s.setDisk i.path c)
    abort

/-- `_constructDir`: returns `created` -/
def constructDir (p : Path) : M Bool := do
  let st ← getSt
  if (st.disk p).isNone then do
    prim (.mkDir p) (fun s => s.setDisk p emptyC)
    pure true
  else pure false

/-- `_wasAlreadyRun(step, skippedOk)` -/
def wasAlreadyRun (t : Step) (skippedOk : Bool) : M Bool := do
  let m ← getMem
  match m.wasRun t.path with
  | none => pure false
  | some (v, _) =>
    if v ≠ vid t then do
      setMem { m with wasRun := upd m.wasRun t.path none }
      pure false
    else if !skippedOk && m.wasSkipped t.path then pure false
    else pure true

/-- `_setAlreadyRun(step, isCheckoutStep, skipped)` -/
def setAlreadyRun (t : Step) (isCheckout : Bool) (skipped : Bool) : M Unit := do
  let m ← getMem
  setMem { wasRun := upd m.wasRun t.path (some (vid t, isCheckout)),
           wasSkipped := upd m.wasSkipped t.path skipped }

/-! ## `_cookCheckoutStep` (normal mode) -/

/-- the digest `False` that marks a recorded SCM directory as not trustworthy -/
def invalidDigest : Digest := "!invalid"

def lookupScm (l : List (Dir × Digest)) (d : Dir) : Option Digest :=
  match l with
  | [] => none
  | (d', g) :: rest => if d' = d then some g else lookupScm rest d

def coParts : Option DirState → List (Dir × Digest) × Option Vid × Option BoState
  | some (.co s v b) => (s, v, b)
  | _ => ([], none, none)

/-- the loop "Switch or move away old or changed source directories" (no in-place switch, no
nesting): returns the remaining old SCM directories -/
def atticLoop (E : Env) (cfg : Cfg) (p : Path) (new : List (Dir × Digest)) (oldVid : Option Vid)
    (oldBo : Option BoState) : List (Dir × Digest) → List (Dir × Digest) → M (List (Dir × Digest))
  | [], keep => pure keep
  | (d, g) :: rest, keep => do
    if some g ≠ lookupScm new d then do
      -- invalidate first: a kill while switching / moving must not leave a trusted directory
      whenM (Consts.C01.scmInvalidatesFirst && g ≠ invalidDigest)
        (prim (.setDir p (.co (keep.map fun x => if x.1 = d then (d, invalidDigest) else x) oldVid oldBo))
          (fun s => s.setDir p (.co (keep.map fun x => if x.1 = d then (d, invalidDigest) else x) oldVid oldBo)))
      let st ← getSt
      -- `os.path.exists(scmPath)`; the SCM directory "." is the workspace itself
      if (if d = "." then (st.disk p).isSome else E.hasDir ((st.disk p).getD emptyC) d) then do
        if !cfg.attic then abort
        prim (.atticMove p d) (fun s =>
          if d = "." then { s with disk := upd s.disk p none } else s.setDisk p (E.rmDir d ((s.disk p).getD emptyC)))
        prim (.setAttic p d) (fun s => { s with attic := s.attic ++ [(p, d)] })
      let keep' := keep.filter (fun x => x.1 ≠ d)
      prim (.setDir p (.co keep' oldVid oldBo)) (fun s => s.setDir p (.co keep' oldVid oldBo))
      atticLoop E cfg p new oldVid oldBo rest keep'
    else atticLoop E cfg p new oldVid oldBo rest keep

def collides (E : Env) (c : Content) (new old : List (Dir × Digest)) : Bool :=
  new.any fun x => x.1 ≠ "." && (lookupScm old x.1).isNone && E.hasDir c x.1

/-- old SCM directories, old variant-id key, old build-only entry -/
abbrev OldCo := List (Dir × Digest) × Option Vid × Option BoState

/-- `checkoutReason` is set: created / forced / indeterministic / recipe changed
(`compareDirectoryState`) / dependency changed / workspace changed -/
def checkoutReason (E : Env) (cfg : Cfg) (i : Info) (ds : List Step) (created : Bool) (old : OldCo)
    (st : St) (inH : Inputs) : Bool :=
  created || cfg.force || !i.det
  || !(decide (old.1 = i.scms) && decide (old.2.1 = some (Vid.mk i.sig (vids ds))))
  || decide (st.inputs i.path ≠ some inH)
  || (i.hasScript && decide (st.results i.path ≠ some (hashOf E st i.path)))

/-- the branch `if checkoutReason:` of `_cookCheckoutStep`; returns `oldCheckoutHash` -/
def checkoutRun (E : Env) (cfg : Cfg) (i : Info) (ds : List Step) (old : OldCo) (oldHash : Option RH)
    (inH : Inputs) : M (Option RH) := do
  let p := i.path
  let newVid := Vid.mk i.sig (vids ds)
  let newBo : BoState := { loc := i.boLoc, upd := i.boUpd, ins := inH }
  let keep ← atticLoop E cfg p i.scms old.2.1 old.2.2 old.1 old.1
  let st1 ← getSt
  if collides E ((st1.disk p).getD emptyC) i.scms keep then abort
  -- store new SCM checkout state, without the variant-id key
  prim (.setDir p (.co i.scms none (some newBo))) (fun s => s.setDir p (.co i.scms none (some newBo)))
  -- forge checkout result before we run the step again
  let st2 ← getSt
  let oh ← (if (st2.results p).isSome then do
      prim (.setResult p (.forged st2.clock)) (fun s => s.forge p)
      pure (some (RH.forged st2.clock))
    else pure oldHash)
  runScript E i false (contentsOf st2 ds)
  prim (.setDir p (.co i.scms (some newVid) (some newBo)))
    (fun s => s.setDir p (.co i.scms (some newVid) (some newBo)))
  prim (.setInputs p inH) (fun s => s.setInputs p inH)
  let st3 ← getSt
  prim (.setVid p (ivid st3 i ds)) (fun s => s.setVid p (ivid st3 i ds))
  pure oh

def cookCheckout (E : Env) (cfg : Cfg) (i : Info) (ds : List Step) : M Unit := do
  let p := i.path
  -- get directory into shape
  let created ← constructDir p
  let st0 ← getSt
  let old : OldCo := if created then ([], none, none) else coParts (st0.dirStates p)
  whenM created (prim (.reset p (some (.co [] none none))) (fun s => s.reset p (some (.co [] none none))))
  let st ← getSt
  let oldHash := st.results p
  let inH := resultsOf st ds
  let oldHash' ← (if checkoutReason E cfg i ds created old st inH then checkoutRun E cfg i ds old oldHash inH
    else pure oldHash)
  -- we always have to rehash the directory
  let st4 ← getSt
  let h := hashOf E st4 p
  whenM (decide (some h ≠ oldHash') || cfg.force) (prim (.setResult p h) (fun s => s.setResult p h))

/-- the common tail of `_cookBuildStep` and `_cookPackageStep` in source order: squash the state
("if the execution fails we have nothing reliable left"), run the script, then record result hash,
variant id (build: computed before, package: after the script) and finally the input hashes.
`st` is the state the input hashes `inH` were read in. -/
def runRecord (E : Env) (i : Info) (clean : Bool) (st : St) (ins : List Step) (inH : Inputs)
    (iv : St → Vid) : M Unit := do
  let p := i.path
  prim (.delInputs p) (fun s => s.delInputs p)
  prim (.setResult p (.forged st.clock)) (fun s => s.forge p)
  runScript E i clean (contentsOf st ins)
  let st2 ← getSt
  let h := hashOf E st2 p
  let v := iv st2
  prim (.setResult p h) (fun s => s.setResult p h)
  prim (.setVid p v) (fun s => s.setVid p v)
  prim (.setInputs p inH) (fun s => s.setInputs p inH)

/-! ## `_cookBuildStep` -/

def cookBuild (E : Env) (cfg : Cfg) (i : Info) (ds : List Step) : M Unit := do
  let p := i.path
  let st0 ← getSt
  let iv := ivid st0 i ds
  let digest := DirState.build iv (i.execPath :: ds.map fun d => d.info.execPath)
  let created ← constructDir p
  let st1 ← getSt
  let _ ← (if created || decide (st1.dirStates p ≠ some digest) then do
      -- not created but exists -> something different -> prune workspace
      let c ← (if !created then do
          -- invalidate first: a kill while pruning must not leave a trusted, emptied workspace
          whenM Consts.C01.buildPruneInvalidatesFirst (prim (.reset p none) (fun s => s.reset p none))
          prim (.emptyDir p) (fun s => s.setDisk p emptyC)
          pure true
        else pure created)
      prim (.reset p (some digest)) (fun s => s.reset p (some digest))
      pure c
    else pure created)
  let st ← getSt
  let inH := inputHashes st i ds
  if !cfg.force && decide (st.inputs p = some inH) then
    -- skipped; develop mode always rehashes
    whenM (!cfg.cleanBuild) (prim (.setResult p (hashOf E st p)) (fun s => s.setResult p (hashOf E st p)))
  else runRecord E i cfg.cleanBuild st ds inH (fun _ => iv)

/-! ## `_preparePackageStep`, `_cookPackageStep` -/

def preparePackage (i : Info) (ds : List Step) : M Unit := do
  let p := i.path
  let d := DirState.pkg (.mk i.sig (vids ds))
  let st ← getSt
  let there := (st.disk p).isSome
  -- prune if something else was there before
  let there' ← (if there && decide (st.dirStates p ≠ some d) then do
      whenM Consts.C01.packagePruneInvalidatesFirst (prim (.reset p none) (fun s => s.reset p none))
      prim (.emptyDir p) (fun s => s.setDisk p emptyC)
      pure false
    else pure there)
  -- reset state if we start from scratch
  whenM (!there') (prim (.reset p (some d)) (fun s => s.reset p (some d)))

def cookPackage (E : Env) (cfg : Cfg) (i : Info) (pre ds : List Step) : M Unit := do
  let p := i.path
  let _ ← constructDir p
  let st ← getSt
  let inH := inputHashes st i (pre ++ ds)
  if !cfg.force && decide (st.inputs p = some inH) then pure ()
  else runRecord E i true st (pre ++ ds) inH (fun st2 => ivid st2 i ds)

/-! ## `_cook`, `_cookStep`, `_getBuildId` (depth-first driver, `-j 1`) -/

mutual
/-- `_cookStep(step, checkoutOnly)`, entered through `_cook` (which filters `_wasAlreadyRun`) -/
def cookStep (E : Env) (cfg : Cfg) (co : Bool) : Step → M Unit
  | .mk i pre ds => do
    if ← wasAlreadyRun (.mk i pre ds) co then pure ()
    else match i.sig.kind with
    | .checkout => do
      cookList E cfg false i.pkg ds
      if ← wasAlreadyRun (.mk i pre ds) co then pure ()
      else do
        cookCheckout E cfg i ds
        setAlreadyRun (.mk i pre ds) true false
    | .build => do
      cookList E cfg co i.pkg ds
      if ← wasAlreadyRun (.mk i pre ds) co then pure ()
      else do
        if !co then do
          bidDeps E cfg ds
          cookBuild E cfg i ds
        setAlreadyRun (.mk i pre ds) false co
    | .package => do
      preparePackage i ds
      if !co then bidDeps E cfg ds
      cookList E cfg co i.pkg ds
      if ← wasAlreadyRun (.mk i pre ds) co then pure ()
      else do
        if !co then cookPackage E cfg i pre ds
        setAlreadyRun (.mk i pre ds) false co
/-- `_cook(steps, parentPackage, checkoutOnly)` -/
def cookList (E : Env) (cfg : Cfg) (co : Bool) (parent : String) : List Step → M Unit
  | [] => pure ()
  | d :: ds => do
    if cfg.noDeps && d.info.pkg ≠ parent then pure () else cookStep E cfg co d
    cookList E cfg co parent ds
/-- `_getBuildId` of the dependencies: the build-id of a checkout step is its result hash, so
the step is cooked first; every other build-id recurses into arguments and tools -/
def bidDeps (E : Env) (cfg : Cfg) : List Step → M Unit
  | [] => pure ()
  | d :: ds => do
    match d with
    | .mk i pre dd =>
      if i.sig.kind = .checkout then cookStep E cfg false (.mk i pre dd)
      else bidDeps E cfg dd
    bidDeps E cfg ds
end

/-- `LocalBuilder.cook([target], checkoutOnly)` of one invocation -/
def cook (E : Env) (cfg : Cfg) (t : Step) : M Unit :=
  cookStep E cfg cfg.checkoutOnly t

/-- one invocation of `bob dev` / `bob build` with at most `fuel` micro-operations -/
def invoke (E : Env) (cfg : Cfg) (t : Step) (fuel : Nat) (st : St) : Res Unit :=
  cook E cfg t { st := st, mem := Mem.init, fuel := fuel, log := [] }

def Res.st {α : Type} : Res α → St
  | .ok _ r => r.st
  | .abort r => r.st

def Res.log {α : Type} : Res α → List Op
  | .ok _ r => r.log
  | .abort r => r.log

def Res.isOk {α : Type} : Res α → Bool
  | .ok _ _ => true
  | .abort _ => false

/-! ## the source order the model was transcribed from

State updates / workspace operations of the cook functions in source order, as extracted from the
current source into `Generated/ConstsC01.lean` (`Props/C01.lean` proves they are equal, so a
reordering in the source is a broken proof obligation, not only a correspondence difference). -/

def expectedBuildCalls : List String :=
  ["_constructDir", "resetWorkspaceState", "emptyDirectory", "resetWorkspaceState", "setResultHash", "hashWorkspace",
   "delInputHashes", "setResultHash", "_runShell", "hashWorkspace", "_generateAudit", "setResultHash",
   "setVariantId", "setInputHashes"]

def expectedPrepareCalls : List String := ["resetWorkspaceState", "unlink", "emptyDirectory", "resetWorkspaceState"]

def expectedPackageCalls : List String :=
  ["_constructDir", "delInputHashes", "setResultHash", "_runShell", "hashWorkspace", "_generateAudit", "setResultHash",
   "setVariantId", "setInputHashes"]

/-- `_cookCheckoutStep`: the first `_runShell` / `setDirectoryState` / `hashWorkspace` belong to the
`--build-only` branch (not modelled), then the attic loop, then the run branch -/
def expectedCheckoutCalls : List String :=
  ["_constructDir", "resetWorkspaceState", "_runShell", "setDirectoryState", "hashWorkspace",
   "setAtticDirectoryState", "setDirectoryState"] ++
  (if Consts.C01.scmInvalidatesFirst then ["setDirectoryState"] else []) ++
  ["setDirectoryState", "rename", "setAtticDirectoryState",
   "setDirectoryState", "setDirectoryState", "setResultHash", "_runShell", "setDirectoryState", "setInputHashes",
   "setVariantId", "hashWorkspace", "_generateAudit", "setResultHash"]

end Builder
