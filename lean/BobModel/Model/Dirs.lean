import BobModel.Generated.ConstsC16
/-
Model of the directory assignment of Bob (property C16).

* develop mode: `pym/bob/cmds/build/state.py` `DevelopDirOracle`.  The sqlite table
  `dirs(key PRIMARY KEY, dir)` is an association list `Table`.  `fmtCollect` is one call of
  `__fmt` while the oracle is not yet "ready" (collection mode), `writeBack` is `__writeBack`,
  `refresh` is the `__touch` + `__writeBack` part of `__openAndRefresh` where the traversal
  `__touch` is given as the list of `(key, baseDir)` formatter calls it produces.
  The key is `recipeName.encode() + variantId` (`mkKey`).
* release mode: `pym/bob/state.py` `getByNameDirectory` / `getExistingByNameDirectory` /
  `getAllNameDirectores` on the single dictionary `__byNameDirs` that holds the per base
  directory counters *and* the digest entries.

Strings are `List Char`; byte strings (keys, digests) are handled by the driver as their hex
text, which commutes with concatenation.  `os.path.join` is `pjoin` (posixpath semantics),
`str(num)` is `Nat.toDigits 10`.  The literals "workspace", "dev", "work" come from
`Generated/ConstsC16.lean` (regenerated from the current source on every run).
-/
namespace BobDirs

abbrev Str := List Char
abbrev Key := Str
/-- the sqlite table `dirs`: key ↦ dir (without the trailing "workspace") -/
abbrev Table := List (Key × Str)

/-- `key = step.getPackage().getRecipe().getName().encode("utf8") + step.getVariantId()` -/
def mkKey (recipe vid : List α) : List α := recipe ++ vid

/-- `posixpath.join(a, b)` -/
def pjoin (a b : Str) : Str :=
  if b.head? = some '/' then b
  else if a = [] ∨ a.getLast? = some '/' then a ++ b
  else a ++ '/' :: b

/-- `str(num)` for a non-negative int -/
def natStr (n : Nat) : Str := Nat.toDigits 10 n

/-- `os.path.join(baseDir, str(num))` -/
def numDir (base : Str) (n : Nat) : Str := pjoin base (natStr n)

def lookup (t : List (Str × β)) (k : Str) : Option β :=
  match t with
  | [] => none
  | (k', v) :: rest => if k' = k then some v else lookup rest k

/-! ### develop mode -/

/-- the three intermediate variables of the oracle: `__visited`, `__known`, `__dirs`
(dictionaries in insertion order) -/
structure Coll where
  visited : List Key
  known : List (Key × Str)
  dirs : List (Str × List Key)
  deriving Repr

def Coll.empty : Coll := ⟨[], [], []⟩

/-- `self.__dirs.setdefault(baseDir, []).append(key)` -/
def addDir : List (Str × List Key) → Str → Key → List (Str × List Key)
  | [], b, k => [(b, [k])]
  | (b', ks) :: rest, b, k =>
    if b' = b then (b', ks ++ [k]) :: rest else (b', ks) :: addDir rest b k

/-- one call of `__fmt` while `__ready` is false and no external persister is configured.
`old` is the table as it is in the database at that time (it is only rewritten by `__writeBack`). -/
def fmtCollect (old : Table) (c : Coll) (key : Key) (base : Str) : Coll :=
  if c.visited.contains key then c
  else
    let vis := key :: c.visited
    match lookup old key with
    | some path =>
      if base.isPrefixOf path then { c with visited := vis, known := c.known ++ [(key, path)] }
      else { c with visited := vis, dirs := addDir c.dirs base key }
    | none => { c with visited := vis, dirs := addDir c.dirs base key }

/-- all formatter calls of `__touch` in order -/
def collect (old : Table) (visits : List (Key × Str)) : Coll :=
  visits.foldl (fun c v => fmtCollect old c v.1 v.2) Coll.empty

/-- the `while True` loop of `__writeBack`: the first number `≥ num` whose path is not a kept
one.  Fuel is `knownDirs.length + 1`; `nextFree_isSome` proves that this always suffices. -/
def nextFree (knownDirs : List Str) (base : Str) : Nat → Nat → Option Nat
  | 0, _ => none
  | fuel + 1, num =>
    if knownDirs.contains (numDir base num) then nextFree knownDirs base fuel (num + 1)
    else some num

/-- `for key in keys:` of one base directory, `num` is carried from key to key -/
def numberKeys (knownDirs : List Str) (base : Str) : List Key → Nat → Option (List (Key × Str))
  | [], _ => some []
  | k :: ks, num =>
    match nextFree knownDirs base (knownDirs.length + 1) num with
    | none => none
    | some n =>
      match numberKeys knownDirs base ks (n + 1) with
      | none => none
      | some r => some ((k, numDir base n) :: r)

/-- `for baseDir, keys in self.__dirs.items():` -/
def numberAll (knownDirs : List Str) : List (Str × List Key) → Option (List (Key × Str))
  | [] => some []
  | (b, ks) :: rest =>
    match numberKeys knownDirs b ks 1 with
    | none => none
    | some r =>
      match numberAll knownDirs rest with
      | none => none
      | some r' => some (r ++ r')

/-- `__writeBack`: `DELETE FROM dirs`, insert the kept entries, number the new ones.
`none` only if the fuel of `nextFree` ran out (unreachable). -/
def writeBack (c : Coll) : Option Table :=
  match numberAll (c.known.map (·.2)) c.dirs with
  | none => none
  | some r => some (c.known ++ r)

/-- the refresh of `__openAndRefresh` when the cache key changed -/
def refresh (old : Table) (visits : List (Key × Str)) : Option Table :=
  writeBack (collect old visits)

/-- a whole history of refreshes (recipe edits), starting from table `t` -/
def run (t : Table) : List (List (Key × Str)) → Option Table
  | [] => some t
  | v :: rest =>
    match refresh t v with
    | none => none
    | some t' => run t' rest

/-- `__fmt` once the oracle is ready: plain interrogation of the table (`none` is the
`assert path is not None`) -/
def fmtReady (t : Table) (key : Key) : Option Str := lookup t key

/-- `LocalBuilder.makeRunnable` -/
def runnable (p : Option Str) : Option Str := p.map (pjoin · Consts.C16.workspaceName)

/-- `.replace('::', os.sep)` -/
def replaceColons : Str → Str
  | ':' :: ':' :: rest => '/' :: replaceColons rest
  | c :: rest => c :: replaceColons rest
  | [] => []

/-- `LocalBuilder.developNameFormatter`: `os.path.join("dev", step.getLabel(), name.replace('::', os.sep))` -/
def developBase (label name : Str) : Str :=
  pjoin (pjoin Consts.C16.devPrefix label) (replaceColons name)

/-- `LocalBuilder.releaseNameFormatter`: `os.path.join("work", name.replace('::', os.sep), step.getLabel())` -/
def releaseBase (label name : Str) : Str :=
  pjoin (pjoin Consts.C16.workPrefix (replaceColons name)) label

/-! ### release mode -/

/-- values of `__byNameDirs`: an `int` counter under a base directory key, a tuple
`(directory, isSourceDir)` under a digest key -/
inductive BVal
  | num (n : Nat)
  | dir (path : Str) (isSrc : Bool)
  deriving DecidableEq, Repr

abbrev ByName := List (Str × BVal)

/-- `d[k] = v` on a dictionary in insertion order -/
def dset : ByName → Str → BVal → ByName
  | [], k, v => [(k, v)]
  | (k', v') :: rest, k, v => if k' = k then (k', v) :: rest else (k', v') :: dset rest k v

inductive BErr
  | typeError
  deriving DecidableEq, Repr

/-- `_BobState.getByNameDirectory(baseDir, digest, isSourceDir)` (without the `__save`).
`typeError` is what Python raises when an `int` is subscripted / a tuple is incremented, i.e.
when a digest string equals a base directory string. -/
def getByName (s : ByName) (base digest : Str) (isSrc : Bool) : Except BErr (ByName × Str) :=
  match lookup s digest with
  | some (.dir p _) => .ok (s, p)
  | some (.num _) => .error .typeError
  | none =>
    -- num = self.__byNameDirs.setdefault(baseDir, 0) + 1
    match lookup s base with
    | some (.dir _ _) => .error .typeError
    | some (.num n) =>
      let res := numDir base (n + 1)
      .ok (dset (dset s base (.num (n + 1))) digest (.dir res isSrc), res)
    | none =>
      -- setdefault stores 0, `self.__byNameDirs[baseDir] = num` overwrites it with 1 in place
      let res := numDir base 1
      .ok (dset (dset s base (.num 1)) digest (.dir res isSrc), res)

/-- `getExistingByNameDirectory(digest)` -/
def getExisting (s : ByName) (digest : Str) : Except BErr (Option Str) :=
  match lookup s digest with
  | some (.dir p _) => .ok (some p)
  | some (.num _) => .error .typeError
  | none => .ok none

/-- `getAllNameDirectores()` -/
def allNameDirs (s : ByName) : List (Str × Bool) :=
  s.filterMap fun kv => match kv.2 with
    | .dir p b => some (p, b)
    | .num _ => none

structure Call where
  base : Str
  digest : Str
  isSrc : Bool
  deriving Repr

/-- a sequence of `getByNameDirectory` calls -/
def runCalls (s : ByName) : List Call → Except BErr (ByName × List Str)
  | [] => .ok (s, [])
  | c :: rest =>
    match getByName s c.base c.digest c.isSrc with
    | .error e => .error e
    | .ok (s', p) =>
      match runCalls s' rest with
      | .error e => .error e
      | .ok (s'', ps) => .ok (s'', p :: ps)

end BobDirs
