import BobModel.Generated.ConstsC17
/-
Model of pym/bob/stringparser.py: `StringParser` (recursive descent substitution), the
built-in string functions, `isFalse`, `Env.substitute`, `Env.evaluate` and the evaluation
of parsed `IfExpression` trees.

Strings are `List Char` (one Python code point = one `Char`).  The parser state
`(text, index)` of the implementation is the remaining suffix here.  Recursion uses fuel
(`Props/C17.lean` proves that `2 * length + 4` is always enough, i.e. the real parser
terminates and `outOfFuel` is unreachable).

The delimiter sets, name alphabets and the fast-path trigger set come from
`Generated/ConstsC17.lean`, which is regenerated from the current source on every run.
-/
namespace StringParser

abbrev Str := List Char

inductive PErr
  | unexpectedEnd | endAfterEscape | missingSQuote | invalidDollar | unsetVar
  | unterminatedVar | unknownFun | funArity | funError | unsupported | outOfFuel
  deriving DecidableEq, Repr

structure Cfg where
  env : List (Str × Str)
  nounset : Bool
  sandbox : Bool
  tools : List (Str × List (Str × Str))

def lookup (env : List (Str × Str)) (k : Str) : Option Str :=
  match env with
  | [] => none
  | (k', v) :: rest => if k' = k then some v else lookup rest k

/-- tokens of `nextToken`: end of string, a delimiter hit directly, or scanned literal text
(escapes already removed).  A literal is never confused with a delimiter. -/
inductive Tok
  | eos
  | delim (c : Char)
  | lit (s : Str)
  deriving DecidableEq, Repr

def isDelim (extra : List Char) (c : Char) : Bool :=
  Consts.C17.baseDelims.contains c || extra.contains c

/-- the `while i < self.end` scan loop of `nextToken` (accumulator reversed) -/
def scan (extra : List Char) : Str → Str → Except PErr (Str × Str)
  | [], acc => .ok (acc.reverse, [])
  | c :: rest, acc =>
    if isDelim extra c then .ok (acc.reverse, c :: rest)
    else if c = Consts.C17.escapeChar then
      match rest with
      | [] => .error .endAfterEscape
      | d :: rest' => scan extra rest' (d :: acc)
    else scan extra rest (c :: acc)

def nextToken (extra : List Char) (inp : Str) : Except PErr (Tok × Str) :=
  match inp with
  | [] => .ok (.eos, [])
  | c :: rest =>
    if isDelim extra c then .ok (.delim c, rest)
    else match scan extra (c :: rest) [] with
      | .ok (s, r) => .ok (.lit s, r)
      | .error e => .error e

def nextChar (inp : Str) : Except PErr (Char × Str) :=
  match inp with
  | [] => .error .unexpectedEnd
  | c :: rest => .ok (c, rest)

def getRestOfName : Str → Str × Str
  | [] => ([], [])
  | c :: rest =>
    if Consts.C17.nameChars.contains c then
      let (n, r) := getRestOfName rest
      (c :: n, r)
    else ([], c :: rest)

def getSingleQuoted : Str → Except PErr (Str × Str)
  | [] => .error .missingSQuote
  | c :: rest =>
    if c = '\'' then .ok ([], rest)
    else match getSingleQuoted rest with
      | .ok (s, r) => .ok (c :: s, r)
      | .error e => .error e

/-! ### string functions -/

def pyWhitespace (c : Char) : Bool :=
  let n := c.toNat
  (9 ≤ n && n ≤ 13) || (28 ≤ n && n ≤ 32) || n = 0x85 || n = 0xa0 || n = 0x1680 ||
  (0x2000 ≤ n && n ≤ 0x200a) || n = 0x2028 || n = 0x2029 || n = 0x202f || n = 0x205f || n = 0x3000

def stripLeft : Str → Str
  | [] => []
  | c :: rest => if pyWhitespace c then stripLeft rest else c :: rest

def strip (s : Str) : Str := (stripLeft (stripLeft s).reverse).reverse

def asciiLower (c : Char) : Char :=
  if 'A' ≤ c ∧ c ≤ 'Z' then Char.ofNat (c.toNat + 32) else c

/-- `val.strip().lower() in ["", "0", "false"]`.  Only ASCII letters lower-case to the
letters of "false", so ASCII lowering is exact for this comparison (validated by the
correspondence run over the whole code-point range). -/
def isFalse (v : Str) : Bool :=
  let s := (strip v).map asciiLower
  s = [] || s = ['0'] || s = ['f', 'a', 'l', 's', 'e']

def isTrue (v : Str) : Bool := !isFalse v

def boolStr (b : Bool) : Str := if b then "true".toList else "false".toList

def isPrefix : Str → Str → Bool
  | [], _ => true
  | _ :: _, [] => false
  | a :: as, b :: bs => a == b && isPrefix as bs

/-- Python `s.replace(old, new)` for non-empty `old` (fuel = length of `s`) -/
def replaceNE (old new : Str) : Nat → Str → Str
  | 0, s => s
  | _, [] => []
  | n + 1, c :: rest =>
    if isPrefix old (c :: rest) then new ++ replaceNE old new n ((c :: rest).drop old.length)
    else c :: replaceNE old new n rest

def pyReplace (old new s : Str) : Str :=
  if old = [] then new ++ s.flatMap (fun c => c :: new)
  else replaceNE old new s.length s

def callFun (cfg : Cfg) (name : Str) (args : List Str) : Except PErr Str :=
  match String.ofList name, args with
  | "eq", [a, b] => .ok (boolStr (a = b))
  | "eq", _ => .error .funArity
  | "ne", [a, b] => .ok (boolStr (a ≠ b))
  | "ne", _ => .error .funArity
  | "not", [a] => .ok (boolStr (isFalse a))
  | "not", _ => .error .funArity
  | "or", as => .ok (boolStr (as.any isTrue))
  | "and", as => .ok (boolStr (as.all isTrue))
  | "if-then-else", [c, t, e] => .ok (if isFalse c then e else t)
  | "if-then-else", _ => .error .funArity
  | "subst", [o, n, s] => .ok (pyReplace o n s)
  | "subst", _ => .error .funArity
  | "strip", [a] => .ok (strip a)
  | "strip", _ => .error .funArity
  | "is-sandbox-enabled", [] => .ok (boolStr cfg.sandbox)
  | "is-sandbox-enabled", _ => .error .funArity
  | "is-tool-defined", [t] => .ok (boolStr ((cfg.tools.find? (·.1 = t)).isSome))
  | "is-tool-defined", _ => .error .funArity
  | "get-tool-env", [t, v] =>
    match cfg.tools.find? (·.1 = t) with
    | none => .error .funError
    | some (_, e) => match lookup e v with
      | some x => .ok x
      | none => .error .funError
  | "get-tool-env", [t, v, d] =>
    match cfg.tools.find? (·.1 = t) with
    | none => .error .funError
    | some (_, e) => .ok ((lookup e v).getD d)
  | "get-tool-env", _ => .error .funArity
  | "match", _ => .error .unsupported
  | "matchScm", _ => .error .unsupported
  | "resubst", _ => .error .unsupported
  | _, _ => .error .unknownFun

/-! ### the recursive descent parser -/

mutual

/-- `getString(delim, keep, subst)`; `eosOk` = `None in delim` -/
def getString (cfg : Cfg) : Nat → List Char → Bool → Bool → Bool → Str → Except PErr (Str × Str)
  | 0, _, _, _, _, _ => .error .outOfFuel
  | n + 1, extra, eosOk, keep, subst, inp =>
    match nextToken extra inp with
    | .error e => .error e
    | .ok (.eos, rest) => if eosOk then .ok ([], rest) else .error .unexpectedEnd
    | .ok (.lit s, rest) =>
      match getString cfg n extra eosOk keep subst rest with
      | .error e => .error e
      | .ok (r, rest') => .ok (s ++ r, rest')
    | .ok (.delim c, rest) =>
      if extra.contains c then .ok ([], if keep then c :: rest else rest)
      else if c = '"' then
        match getString cfg n ['"'] false false subst rest with
        | .error e => .error e
        | .ok (s, r1) =>
          match getString cfg n extra eosOk keep subst r1 with
          | .error e => .error e
          | .ok (r, r2) => .ok (s ++ r, r2)
      else if c = '\'' then
        match getSingleQuoted rest with
        | .error e => .error e
        | .ok (s, r1) =>
          match getString cfg n extra eosOk keep subst r1 with
          | .error e => .error e
          | .ok (r, r2) => .ok (s ++ r, r2)
      else -- '$'
        match nextChar rest with
        | .error e => .error e
        | .ok (d, r0) =>
          let sub : Except PErr (Str × Str) :=
            if d = '{' then getVariable cfg n subst r0
            else if d = '(' then getCommand cfg n subst r0 []
            else if Consts.C17.nameStart.contains d then
              let (nm, r1) := getRestOfName r0
              match lookup cfg.env (d :: nm) with
              | some v => .ok (v, r1)
              | none => if subst && cfg.nounset then .error .unsetVar else .ok ([], r1)
            else .error .invalidDollar
          match sub with
          | .error e => .error e
          | .ok (s, r1) =>
            match getString cfg n extra eosOk keep subst r1 with
            | .error e => .error e
            | .ok (r, r2) => .ok (s ++ r, r2)

/-- `getVariable(subst)` after `${` -/
def getVariable (cfg : Cfg) : Nat → Bool → Str → Except PErr (Str × Str)
  | 0, _, _ => .error .outOfFuel
  | n + 1, subst, inp =>
    match getString cfg n [':', '-', '+', '}'] false true subst inp with
    | .error e => .error e
    | .ok (varName, r1) =>
      match nextChar r1 with
      | .error e => .error e
      | .ok (op0, r2) =>
        let val := lookup cfg.env varName
        let unset0 := val.isNone
        let step : Except PErr (Bool × Char × Str) :=
          if op0 = ':' then
            match nextChar r2 with
            | .error e => .error e
            | .ok (op1, r3) => .ok (unset0 || val = some [], op1, r3)
          else .ok (unset0, op0, r2)
        match step with
        | .error e => .error e
        | .ok (unset, op, r3) =>
          if op = '-' then
            match getString cfg n ['}'] false false (subst && unset) r3 with
            | .error e => .error e
            | .ok (dflt, r4) => .ok (if unset then dflt else val.getD [], r4)
          else if op = '+' then
            match getString cfg n ['}'] false false (subst && !unset) r3 with
            | .error e => .error e
            | .ok (alt, r4) => .ok (if unset then [] else alt, r4)
          else if op = '}' then
            match val with
            | none => if subst && cfg.nounset then .error .unsetVar else .ok ([], r3)
            | some v => .ok (v, r3)
          else .error .unterminatedVar

/-- `getCommand(subst)` after `$(`; `words` accumulates in reverse -/
def getCommand (cfg : Cfg) : Nat → Bool → Str → List Str → Except PErr (Str × Str)
  | 0, _, _, _ => .error .outOfFuel
  | n + 1, subst, inp, words =>
    match getString cfg n [',', ')'] false true subst inp with
    | .error e => .error e
    | .ok (word, r1) =>
      match nextChar r1 with
      | .error e => .error e
      | .ok (endc, r2) =>
        if endc = ')' then
          if !subst then .ok ([], r2)
          else match (word :: words).reverse with
            | [] => .error .funError
            | cmd :: args =>
              match callFun cfg cmd args with
              | .error e => .error e
              | .ok v => .ok (v, r2)
        else getCommand cfg n subst r2 (word :: words)

end

def fuelFor (text : Str) : Nat := 2 * text.length + 4

def hasMeta (text : Str) : Bool := text.any Consts.C17.trigger.contains

/-- `StringParser.parse` -/
def parse (cfg : Cfg) (text : Str) : Except PErr Str :=
  if !hasMeta text then .ok text
  else match getString cfg (fuelFor text) [] true false true text with
    | .error e => .error e
    | .ok (s, _) => .ok s

/-- `Env.substitute(value, prop, nounset)` -/
def substitute (cfg : Cfg) (text : Str) : Except PErr Str := parse cfg text

/-- `Env.evaluate(condition)` for string conditions (always `nounset=True`) -/
def evaluateStr (cfg : Cfg) (cond : Str) : Except PErr Bool :=
  match parse { cfg with nounset := true } cond with
  | .error e => .error e
  | .ok s => .ok (!isFalse s)

/-! ### parsed `IfExpression` trees -/

inductive IfExpr
  | lit (s : Str) (subst : Bool)
  | call (f : Str) (args : List IfExpr)
  | not (e : IfExpr)
  | strOp (op : String) (l r : IfExpr)
  | boolOp (op : String) (l r : IfExpr)

def strLt : Str → Str → Bool
  | [], [] => false
  | [], _ :: _ => true
  | _ :: _, [] => false
  | a :: as, b :: bs => if a.toNat < b.toNat then true else if a.toNat > b.toNat then false else strLt as bs

def strCmp (op : String) (l r : Str) : Bool :=
  match op with
  | "<" => strLt l r
  | ">" => strLt r l
  | "<=" => !strLt r l
  | ">=" => !strLt l r
  | "==" => l = r
  | "!=" => l ≠ r
  | _ => false

mutual
/-- `evalExpressionToString`; `StringLiteral` substitutes with `nounset=False` -/
def IfExpr.evalStr (cfg : Cfg) : IfExpr → Except PErr Str
  | .lit s sb => if sb && hasMeta s then parse { cfg with nounset := false } s else .ok s
  | .call f args =>
    match evalArgs cfg args with
    | .error e => .error e
    | .ok as => callFun cfg f as
  | _ => .error .funError   -- operators have no string value (pyparsing never builds such a tree)

def evalArgs (cfg : Cfg) : List IfExpr → Except PErr (List Str)
  | [] => .ok []
  | a :: rest =>
    match a.evalStr cfg with
    | .error e => .error e
    | .ok s => match evalArgs cfg rest with
      | .error e => .error e
      | .ok ss => .ok (s :: ss)
end

/-- `evalExpression` -/
def IfExpr.eval (cfg : Cfg) : IfExpr → Except PErr Bool
  | .lit s sb => match (IfExpr.lit s sb).evalStr cfg with
    | .error e => .error e
    | .ok v => .ok (isTrue v)
  | .call f args => match (IfExpr.call f args).evalStr cfg with
    | .error e => .error e
    | .ok v => .ok (isTrue v)
  | .not e => match e.eval cfg with
    | .error x => .error x
    | .ok b => .ok (!b)
  | .strOp op l r =>
    match l.evalStr cfg with
    | .error e => .error e
    | .ok a => match r.evalStr cfg with
      | .error e => .error e
      | .ok b => .ok (strCmp op a b)
  | .boolOp op l r =>
    match l.eval cfg with
    | .error e => .error e
    | .ok a => match r.eval cfg with
      | .error e => .error e
      | .ok b => .ok (if op = "&&" then a && b else a || b)

end StringParser
