import BobModel.Model.DirHash
/-
Model of `DirHasher.FileIndex` (pym/bob/utils.py): the persistent hash cache `cache.bin`.

The old index file is a signature followed by records `(stat, digest, nameLen, name)`.  The
implementation walks the old file and the (sorted) directory tree in parallel:

* `__current` is the record read last (`cur`, `none` = the all-zero `Stat()` of `open`),
  `__inPosOld` is the file offset where `__current` starts: `before` are the records in front of it,
  `rest` the records not yet read;
* `__match` skips forward while `current.name < name`, then compares name and the six stat fields;
* on the first mismatch the new file is started with a copy of the old bytes up to `__inPosOld`
  (= `before`), from then on every visited file is appended (`__mismatch` is sticky);
* `close` replaces `cache.bin` iff something was written (`out = some _`).

`check`'s `process` callback (hashFile / __hashLink) is pure, its result is passed as `d`.
-/
namespace DirHash

structure Rec where
  name : Bytes
  st : Stat
  digest : Bytes
  deriving DecidableEq, Repr

/-- `FileIndex.Stat()` as created by `open` -/
def initRec : Rec := ⟨[], ⟨0, 0, 0, 0, 0, 0⟩, []⟩

structure IxState where
  before : List Rec
  cur : Option Rec
  rest : List Rec
  mismatch : Bool
  out : Option (List Rec)

/-- `open()`: `none` = no cache file or wrong signature; `some recs` = the parsed records.
The first record is prefetched. -/
def openIndex : Option (List Rec) → IxState
  | none => ⟨[], none, [], true, none⟩
  | some [] => ⟨[], none, [], false, none⟩
  | some (r :: rs) => ⟨[], some r, rs, false, none⟩

/-- `while self.__current.name < name: if not self.__readEntry(): break` -/
def advance (name : Bytes) : List Rec → Option Rec → List Rec → List Rec × Option Rec × List Rec
  | before, cur, [] => (before, cur, [])
  | before, cur, r :: rs =>
    if bytesLt (cur.getD initRec).name name then advance name (before ++ cur.toList) (some r) rs
    else (before, cur, r :: rs)

/-- `check(prefix, name, st, process)` including `__match` and `__writeEntry` -/
def check (name : Bytes) (st : Stat) (d : Bytes) (s : IxState) : Bytes × IxState :=
  let a := advance name s.before s.cur s.rest
  let e := a.2.1.getD initRec
  let hit : Bool := decide (e.name = name ∧ e.st = st)
  let digest := if hit then e.digest else d
  let mm := s.mismatch || !hit
  let out := if mm then some (s.out.getD a.1 ++ [⟨name, st, digest⟩]) else s.out
  (digest, ⟨a.1, a.2.1, a.2.2, mm, out⟩)

/-- `hashDirectory(path, index)`: digest and `some newRecords` iff `cache.bin` is replaced -/
def hashDirCached (H : Bytes → Bytes) (statOf : Bytes → Stat) (old : Option (List Rec)) (es : Forest) :
    Bytes × Option (List Rec) :=
  let r := es.canon.walk H check statOf [] (openIndex old)
  (H r.1, r.2.out)

/-- `hashPath(path, index)` of an existing path -/
def hashPathCached (H : Bytes → Bytes) (statOf : Bytes → Stat) (old : Option (List Rec)) (t : Tree) :
    Bytes × Option (List Rec) :=
  let r := t.canon.walk H check statOf [] (openIndex old)
  (r.1, r.2.out)

/-- content of the index after the run -/
def newIndex (old : Option (List Rec)) (out : Option (List Rec)) : Option (List Rec) :=
  match out with
  | some l => some l
  | none => old

/-! ### the bytes of `cache.bin` -/

def unpackInt (w : Nat) (signed : Bool) (b : Bytes) : Int :=
  let n : Nat := (b.take w).foldr (fun x acc => x.toNat + 256 * acc) 0
  if signed ∧ n ≥ 2 ^ (8 * w - 1) then (n : Int) - ((2 ^ (8 * w) : Nat) : Int) else (n : Int)

def unpackFields : List Field → Bytes → List Val
  | [], _ => []
  | .int w sg :: fs, b => .int (unpackInt w sg b) :: unpackFields fs (b.drop w)
  | .bytes n :: fs, b => .bytes (b.take n) :: unpackFields fs (b.drop n)

def encodeRec (r : Rec) : Bytes :=
  pack Consts.C11.cacheEntryFmt
    [.int r.st.ctime, .int r.st.mtime, .int r.st.dev, .int r.st.ino, .int r.st.mode, .int r.st.size,
     .bytes r.digest, .int r.name.length] ++ r.name

def encodeIndex (rs : List Rec) : Bytes := Consts.C11.signature ++ rs.flatMap encodeRec

/-- the sequence of successful `__readEntry` calls on the bytes after the signature: a short header
ends the file, a short name is taken as it is (and is necessarily the last record) -/
def parseRecs : Nat → Bytes → List Rec
  | 0, _ => []
  | fuel + 1, raw =>
    if raw.length < Consts.C11.cacheEntrySize then []
    else match unpackFields (parseFmt Consts.C11.cacheEntryFmt) raw with
      | [.int ct, .int mt, .int dev, .int ino, .int mode, .int size, .bytes dg, .int nl] =>
        let body := raw.drop Consts.C11.cacheEntrySize
        ⟨body.take nl.toNat, ⟨ct, mt, dev.toNat, ino.toNat, mode.toNat, size.toNat⟩, dg⟩ ::
          parseRecs fuel (body.drop nl.toNat)
      | _ => []

/-- `open()` on the file content (`none` = file does not exist) -/
def parseIndex : Option Bytes → Option (List Rec)
  | none => none
  | some raw =>
    if raw.take 4 = Consts.C11.signature then some (parseRecs raw.length (raw.drop 4)) else none

/-- `binStat` -/
def binStat (s : Stat) : Bytes :=
  pack Consts.C11.binStatFmt
    [.int s.ctime, .int s.mtime, .int s.dev, .int (maskIno s.ino), .int s.mode, .int s.size]

end DirHash
