/-
Model of the weak/strong split of variables and tools:

  * `Recipe.__init__`       (input.py 2233-2251)  per file: build ⊇ checkout, package ⊇ build
  * `Recipe.resolveClasses` (input.py 2406-2420)  union with every inherited class
  * tail of `Recipe.prepare` (input.py 2733-2762, 2851-2899)
        tools:  weak -= strong; strong |= weak         (per stage, after accumulation)
        `digestEnv = env.prune(strong)`,
        `env       = env.prune(strong | weak) if weak else digestEnv`
  * `Recipe.{checkout,build,package}VarsWeak` properties: weak - strong

Python sets are lists here; only membership matters (`∈`), the digests sort anyway.
The conditions of tool lists (`if`) and `dependTools` of tools are evaluated before / outside this model:
the lists given here are the names whose condition was true.
-/
namespace PrepareTail

abbrev Str := List Char
abbrev Env := List (Str × Str)

/-- the six lists of one YAML file (recipe or class), for variables or for tools -/
structure Decl where
  coS : List Str
  coW : List Str
  buS : List Str
  buW : List Str
  paS : List Str
  paW : List Str
  deriving DecidableEq, Repr

/-- `Recipe.__init__`: `buildVars |= checkoutVars`, `packageVars |= buildVars`, same for weak -/
def initDecl (r : Decl) : Decl :=
  let buS := r.buS ++ r.coS
  let buW := r.buW ++ r.coW
  { coS := r.coS, coW := r.coW, buS := buS, buW := buW, paS := r.paS ++ buS, paW := r.paW ++ buW }

/-- one round of the `for cls in reversed(inherit)` loop of `resolveClasses` -/
def inheritDecl (self cls : Decl) : Decl :=
  { coS := self.coS ++ cls.coS, coW := self.coW ++ cls.coW,
    buS := self.buS ++ cls.buS, buW := self.buW ++ cls.buW,
    paS := self.paS ++ cls.paS, paW := self.paW ++ cls.paW }

/-- recipe `self` with its classes `inherit` (resolution order): the accumulated declarations -/
def resolveDecl (self : Decl) (inherit : List Decl) : Decl :=
  (inherit.map initDecl).reverse.foldl inheritDecl (initDecl self)

/-- for tools the accumulation over the stages happens in `prepare` on the evaluated lists
(`toolDepBuild = … | toolDepCheckout`), the per-file lists are only concatenated -/
def resolveToolDecl (self : Decl) (inherit : List Decl) : Decl :=
  let d := inherit.reverse.foldl inheritDecl self
  let buS := d.buS ++ d.coS
  let buW := d.buW ++ d.coW
  { coS := d.coS, coW := d.coW, buS := buS, buW := buW, paS := d.paS ++ buS, paW := d.paW ++ buW }

/-- `Env.prune(allowed)` -/
def prune (env : Env) (allowed : List Str) : Env :=
  env.filter fun kv => allowed.contains kv.1

structure StageEnv where
  digestEnv : Env
  env : Env
  deriving DecidableEq, Repr

/-- `xDigestEnv = env.prune(strong)`; `xEnv = env.prune(strong | weak) if weak else xDigestEnv` -/
def stageEnv (env : Env) (strong weak : List Str) : StageEnv :=
  let dig := prune env strong
  { digestEnv := dig, env := if weak.isEmpty then dig else prune env (strong ++ weak) }

inductive Stage | checkout | build | package
  deriving DecidableEq, Repr

def Decl.strong (d : Decl) : Stage → List Str
  | .checkout => d.coS | .build => d.buS | .package => d.paS

def Decl.weak (d : Decl) : Stage → List Str
  | .checkout => d.coW | .build => d.buW | .package => d.paW

/-- digest and execution environment of a stage of a recipe -/
def stepEnv (self : Decl) (inherit : List Decl) (env : Env) (s : Stage) : StageEnv :=
  let d := resolveDecl self inherit
  stageEnv env (d.strong s) (d.weak s)

/-- `Recipe.xVarsWeak`: weak minus strong -/
def weakOnly (d : Decl) (s : Stage) : List Str :=
  (d.weak s).filter fun k => !(d.strong s).contains k

/-- `toolDepX` after `weak -= strong; strong |= weak` -/
def toolDep (d : Decl) (s : Stage) : List Str := d.strong s ++ weakOnly d s

/-- `toolDepXWeak` after `weak -= strong` -/
def toolDepWeak (d : Decl) (s : Stage) : List Str := weakOnly d s

/-- set the value of `k` (the variable stays defined) -/
def setVal (env : Env) (k v : Str) : Env :=
  env.map fun kv => if kv.1 = k then (k, v) else kv

end PrepareTail
