import BobModel.Model.StringParser
/-
Model of pym/bob/pathspec.py (package path queries), property C18.

The persisted package graph (`.bob-tree.sqlite3`) is a `Graph`: nodes are `0 .. size-1`,
`children i` is the `OrderedDict` of node `i` (name, key, direct flag) in insertion order,
the parent table is *computed* from the children (`parentFlag`: first edge wins, as in
`__addParent`).  Python `set`s are lists; every function only depends on membership, except
where the code itself fixes an order (`sorted` in `__findResultNodes`).

String valued leaves of predicates (string literals after substitution, function calls) are
pre-evaluated per node: `sval leaf node` (the substitution language itself is C17's model).
`isTrue` and the code point order of strings are taken from the C17 model.

Loops: the two worklist loops (`__evalAxisDescendant`, `__evalAxisAncestor`) are one function
`worklist` with fuel `size + 2` (proved sufficient in Props/C18.lean); the two recursive walks
(`traverse` in `__findIntermediateNodes`, `__findResultNodes`) carry a depth fuel `size + 1`
(proved sufficient on acyclic graphs).
-/
namespace PathSpec

abbrev Node := Nat
abbrev Str := List Char

/-! ### sets as lists -/

def dedup : List Node → List Node
  | [] => []
  | x :: xs => if xs.contains x then dedup xs else x :: dedup xs

/-- `a | b` / `a.update(b)` -/
def union (a b : List Node) : List Node := a ++ (dedup b).filter (fun x => !a.contains x)
/-- `a & b` -/
def inter (a b : List Node) : List Node := a.filter (fun x => b.contains x)
/-- `a - b` -/
def diff (a b : List Node) : List Node := a.filter (fun x => !b.contains x)
/-- `a.issuperset(b)` -/
def superset (a b : List Node) : Bool := b.all (fun x => a.contains x)

/-! ### graph -/

structure Edge where
  name : Str
  node : Node
  direct : Bool
deriving Repr, DecidableEq

structure Graph where
  size : Nat
  root : Node
  name : Node → Str
  children : Node → List Edge
  /-- pre-evaluated string leaves: `sval leaf node` -/
  sval : Nat → Node → Str

/-- `root.allNodes()`: every row of the `graph` table -/
def allNodes (g : Graph) : List Node := List.range g.size

/-- `c.node for c in i.values() if (queryIndirect or c.direct)` -/
def succs (g : Graph) (qi : Bool) (i : Node) : List Node :=
  ((g.children i).filter (fun c => qi || c.direct)).map (·.node)

/-- the entry `parents[p]` of node `x` as written by `__convertPackageToGraph`/`__addParent`:
the direct flag of the first edge from `p` to `x` -/
def parentFlag (g : Graph) (p x : Node) : Option Bool :=
  ((g.children p).find? (fun e => e.node == x)).map (·.direct)

/-- `x.parents(queryIndirect)` -/
def preds (g : Graph) (qi : Bool) (x : Node) : List Node :=
  (allNodes g).filter fun p =>
    match parentFlag g p x with
    | some d => qi || d
    | none => false

/-! ### conversion of the package tree (`__convertPackageToGraph`), local part -/

structure Pkgs where
  size : Nat
  root : Node
  name : Node → Str
  direct : Node → List Node
  indirect : Node → List Node

/-- `childs[name] = value` on an `OrderedDict`: an existing key keeps its position -/
def odInsert : List Edge → Edge → List Edge
  | [], e => [e]
  | d :: ds, e => if d.name == e.name then e :: ds else d :: odInsert ds e

def hasName (d : List Edge) (n : Str) : Bool := d.any (fun e => e.name == n)

def convChildren (p : Pkgs) (i : Node) : List Edge :=
  let d := (p.direct i).foldl (fun acc c => odInsert acc ⟨p.name c, c, true⟩) []
  (p.indirect i).foldl (fun acc c => if hasName acc (p.name c) then acc else acc ++ [⟨p.name c, c, false⟩]) d

def Pkgs.toGraph (p : Pkgs) (sval : Nat → Node → Str) : Graph :=
  { size := p.size, root := p.root, name := p.name, children := convChildren p, sval := sval }

/-! ### axis loops -/

/-- the loop of `__evalAxisDescendant` / `__evalAxisAncestor`:
```
ret = set(); todo = nodes
while todo:
    childs = set(); for i in todo: childs.update(succ(i))
    todo = childs - ret
    ret.update(childs)
```
`none` = out of fuel. -/
def worklist (succ : Node → List Node) : Nat → List Node → List Node → Option (List Node)
  | 0, _, _ => none
  | fuel + 1, todo, ret =>
    if todo.isEmpty then some ret
    else
      let childs := dedup (todo.flatMap succ)
      let todo' := diff childs ret
      worklist succ fuel todo' (ret ++ todo')

def evalAxisChild (g : Graph) (nodes : List Node) (qi : Bool) : List Node :=
  dedup (nodes.flatMap (succs g qi))

def evalAxisDescendant (g : Graph) (nodes : List Node) (qi : Bool) : List Node :=
  (worklist (succs g qi) (g.size + 2) nodes []).getD []

def evalAxisParent (g : Graph) (nodes : List Node) (qi : Bool) : List Node :=
  dedup (nodes.flatMap (preds g qi))

def evalAxisAncestor (g : Graph) (nodes : List Node) (qi : Bool) : List Node :=
  (worklist (preds g qi) (g.size + 2) nodes []).getD []

/-! ### AST -/

inductive Axis
  | self | child | descendant | descendantOrSelf | directChild | directDescendant | directDescendantOrSelf
deriving Repr, DecidableEq

inductive CmpOp
  | lt | le | gt | ge | eq | ne
deriving Repr, DecidableEq

/-- the axis keywords of the grammar -/
def Axis.ofName : String → Option Axis
  | "self" => some .self
  | "child" => some .child
  | "descendant" => some .descendant
  | "descendant-or-self" => some .descendantOrSelf
  | "direct-child" => some .directChild
  | "direct-descendant" => some .directDescendant
  | "direct-descendant-or-self" => some .directDescendantOrSelf
  | _ => none

mutual
inductive Pred
  | not : Pred → Pred
  | and : Pred → Pred → Pred
  | or : Pred → Pred → Pred
  /-- location path in a predicate: absolute flag, steps -/
  | path : Bool → Steps → Pred
  /-- `BinaryStrOperator` on two string leaves -/
  | cmp : CmpOp → Nat → Nat → Pred
  /-- a string leaf (`StringLiteral` / `FunctionCall`) in boolean context -/
  | truth : Nat → Pred
inductive OptPred
  | none : OptPred
  | some : Pred → OptPred
/-- the steps of a `LocationPath`: axis, name test, optional predicate -/
inductive Steps
  | nil : Steps
  | cons : Axis → Str → OptPred → Steps → Steps
end

def star : Str := ['*']

/-- `fnmatchcase(name, pattern)` for patterns over the `nodeTest` alphabet, where `*` is the
only special character -/
def globMatch : Str → Str → Bool
  | [], [] => true
  | [], _ :: _ => false
  | p :: ps, [] => p == '*' && globMatch ps []
  | p :: ps, c :: cs =>
    if p == '*' then globMatch ps (c :: cs) || globMatch (p :: ps) cs
    else p == c && globMatch ps cs
termination_by p s => p.length + s.length

/-- the name test of a step on one name -/
def nameTest (test name : Str) : Bool :=
  if test == star then true
  else if test.contains '*' then globMatch test name
  else name == test

def nameFilter (g : Graph) (test : Str) (nodes : List Node) : List Node :=
  if test == star then nodes
  else if test.contains '*' then nodes.filter (fun i => globMatch test (g.name i))
  else nodes.filter (fun i => g.name i == test)

def cmpOp : CmpOp → Str → Str → Bool
  | .lt, l, r => StringParser.strLt l r
  | .gt, l, r => StringParser.strLt r l
  | .le, l, r => !StringParser.strLt r l
  | .ge, l, r => !StringParser.strLt l r
  | .eq, l, r => l == r
  | .ne, l, r => l != r

/-- first half of `LocationStep.evalForward`: the axis; second component is `search` -/
def axisForward (g : Graph) : Axis → List Node → List Node × Option Bool
  | .child, ns => (evalAxisChild g ns true, none)
  | .descendant, ns => (evalAxisDescendant g ns true, some true)
  | .descendantOrSelf, ns => (union (evalAxisDescendant g ns true) ns, some true)
  | .directChild, ns => (evalAxisChild g ns false, none)
  | .directDescendant, ns => (evalAxisDescendant g ns false, some false)
  | .directDescendantOrSelf, ns => (union (evalAxisDescendant g ns false) ns, some false)
  | .self, ns => (ns, none)

/-- last part of `LocationStep.evalBackward`: the inverse axis -/
def axisBackward (g : Graph) : Axis → List Node → List Node
  | .child, ns => evalAxisParent g ns true
  | .descendant, ns => evalAxisAncestor g ns true
  | .descendantOrSelf, ns => union (evalAxisAncestor g ns true) ns
  | .directChild, ns => evalAxisParent g ns false
  | .directDescendant, ns => evalAxisAncestor g ns false
  | .directDescendantOrSelf, ns => union (evalAxisAncestor g ns false) ns
  | .self, ns => ns

/-! ### backward evaluation (predicates) -/

mutual
/-- `evalBackward()` of `NotOperator`, `BinaryBoolOperator`, `LocationPath`,
`BinaryStrOperator`, `StringLiteral`, `FunctionCall` -/
def Pred.evalBackward (g : Graph) : Pred → List Node
  | .not p =>
    let s := p.evalBackward g
    diff (allNodes g) s
  | .and l r =>
    let a := l.evalBackward g
    let b := r.evalBackward g
    inter a b
  | .or l r =>
    let a := l.evalBackward g
    let b := r.evalBackward g
    union a b
  | .path abs steps =>
    let nodes := steps.evalBackward g (allNodes g)
    if abs then (if nodes.contains g.root then allNodes g else []) else nodes
  | .cmp op l r => (allNodes g).filter fun n => cmpOp op (g.sval l n) (g.sval r n)
  | .truth e => (allNodes g).filter fun n => StringParser.isTrue (g.sval e n)
/-- `if self.__pred: nodes = nodes & self.__pred.evalBackward()` -/
def OptPred.restrict (g : Graph) : OptPred → List Node → List Node
  | .none, ns => ns
  | .some p, ns =>
    let s := p.evalBackward g
    inter ns s
/-- `for i in reversed(self.__path): nodes = i.evalBackward(nodes)` -/
def Steps.evalBackward (g : Graph) : Steps → List Node → List Node
  | .nil, ns => ns
  | .cons ax test op rest, ns =>
    axisBackward g ax (op.restrict g (nameFilter g test (rest.evalBackward g ns)))
end

/-! ### forward evaluation -/

def OptPred.isSome : OptPred → Bool
  | .none => false
  | .some _ => true

/-- `LocationStep.evalForward`: (nodes, search, complexQuery) -/
def stepForward (g : Graph) (ax : Axis) (test : Str) (op : OptPred) (nodes : List Node) :
    List Node × Option Bool × Bool :=
  let (ns, search) := axisForward g ax nodes
  let cq := if test == star then true else if test.contains '*' then true else search.isSome
  let ns := nameFilter g test ns
  (op.restrict g ns, search, cq || op.isSome)

/-- state of `__findIntermediateNodes`: the dict `reaching` and the set `intermediate` -/
structure TState where
  reaching : List (Node × Bool)
  inter : List Node

/-- `reaching.get(node)` -/
def memoGet (m : List (Node × Bool)) (k : Node) : Option Bool :=
  (m.find? (fun e => e.1 == k)).map (·.2)

/-- `traverse` of `__findIntermediateNodes`: is a `new` node reachable from `node`?  Memoised in
`reaching`; every node with the answer `True` is put into `intermediate`.  The fuel bounds the
recursion depth. -/
def traverse (g : Graph) (new : List Node) (qi : Bool) : Nat → Node → TState → Bool × TState
  | 0, _, st => (false, st)
  | fuel + 1, node, st =>
    match memoGet st.reaching node with
    | some r => (r, st)
    | none =>
      let res := (succs g qi node).foldl
        (fun (acc : Bool × TState) c =>
          let r := traverse g new qi fuel c acc.2
          (acc.1 || (r.1 || new.contains c), r.2))
        (false, st)
      (res.1, { reaching := (node, res.1) :: res.2.reaching,
                inter := if res.1 then node :: res.2.inter else res.2.inter })

/-- `__findIntermediateNodes(old, new, queryIndirect)` -/
def findIntermediateNodes (g : Graph) (old new : List Node) (qi : Bool) : List Node :=
  if superset old new then []
  else (old.foldl (fun st n => (traverse g new qi (g.size + 1) n st).2) { reaching := [], inter := [] }).inter

/-- the loop of `__findReachableSubset` with `todo` as a stack -/
def reachLoop (g : Graph) (valid : List Node) : Nat → List Node → List Node → List Node
  | 0, _, ret => ret
  | _ + 1, [], ret => ret
  | fuel + 1, n :: todo, ret =>
    if !valid.contains n || ret.contains n then reachLoop g valid fuel todo ret
    else reachLoop g valid fuel (preds g true n ++ todo) (n :: ret)

def findReachableSubset (g : Graph) (valid nodes : List Node) : List Node :=
  reachLoop g valid (nodes.length + g.size * g.size + g.size + 1) nodes []

inductive Mode
  | nullset | nullglob | nullfail
deriving Repr, DecidableEq

def Mode.ofName : String → Option Mode
  | "nullset" => some .nullset
  | "nullglob" => some .nullglob
  | "nullfail" => some .nullfail
  | _ => none

inductive QErr
  /-- "Package '...' not found" -/
  | notFound
  /-- "Query '...' matched no packages" -/
  | noMatch
deriving Repr, DecidableEq

/-- the loop body of `LocationPath.evalForward` -/
def forwardLoop (g : Graph) (mode : Mode) :
    Steps → List Node → List Node → Bool → Except QErr (List Node × List Node)
  | .nil, nodes, valid, _ => .ok (nodes, valid)
  | .cons ax test op rest, old, valid, wasComplex =>
    let (nodes, search, cq) := stepForward g ax test op old
    let wasComplex := wasComplex || cq
    if nodes.isEmpty && mode != .nullset && !wasComplex then .error .notFound
    else if nodes.isEmpty && mode != .nullset && mode == .nullfail then .error .noMatch
    else
      let valid := match search with
        | some qi => union valid (findIntermediateNodes g old nodes qi)
        | none => union valid nodes
      let valid := union valid nodes
      let valid := inter valid (findReachableSubset g valid nodes)
      forwardLoop g mode rest nodes valid wasComplex

/-- `LocationPath.evalForward(root, emptyMode)` (the `absolute` flag is not looked at) -/
def evalForward (g : Graph) (mode : Mode) (steps : Steps) : Except QErr (List Node × List Node) :=
  forwardLoop g mode steps [g.root] [g.root] false

/-- the `(oldNodes, nodes, search)` triples of the loop, without the empty-mode exits -/
def forwardTrace (g : Graph) : Steps → List Node → List (List Node × List Node × Option Bool)
  | .nil, _ => []
  | .cons ax test op rest, old =>
    let (nodes, search, _) := stepForward g ax test op old
    (old, nodes, search) :: forwardTrace g rest nodes

/-! ### result enumeration -/

def insertByName (e : Edge) : List Edge → List Edge
  | [] => [e]
  | d :: ds => if StringParser.strLt e.name d.name then e :: d :: ds else d :: insertByName e ds

/-- `sorted((n, c.node) ...)`; names are the keys of a dict, so there are no ties -/
def sortByName (l : List Edge) : List Edge := l.foldr insertByName []

structure RState where
  out : List (List Str × Node)
  result : List Node
  valid : List Node

/-- `PackageSet.__findResultNodes`; the generator is run to completion, the yielded
`(stack, node)` pairs are collected in order.  With `queryAll = false` the sets `result` and
`valid` are consumed while walking. -/
def findResultNodes (g : Graph) (queryAll : Bool) : Nat → Node → List Str → RState → RState
  | 0, _, _, st => st
  | fuel + 1, node, stack, st =>
    let valid := if queryAll then st.valid else st.valid.filter (fun x => x != node)
    let hit := st.result.contains node
    let result := if hit && !queryAll then st.result.filter (fun x => x != node) else st.result
    let out := if hit then st.out ++ [(stack, node)] else st.out
    let kids := sortByName ((g.children node).filter (fun c => valid.contains c.node))
    kids.foldl (fun st c => findResultNodes g queryAll fuel c.node (stack ++ [c.name]) st)
      { out := out, result := result, valid := valid }

/-- `PackageSet.__findResultPackages`: the same walk, but the test `child in result` is made by
the parent, so the (virtual) root itself is never reported.  A package is identified by its
stack of names. -/
def findResultPackages (g : Graph) (queryAll : Bool) : Nat → Node → List Str → RState → RState
  | 0, _, _, st => st
  | fuel + 1, node, stack, st =>
    let valid := if queryAll then st.valid else st.valid.filter (fun x => x != node)
    let kids := sortByName ((g.children node).filter (fun c => valid.contains c.node))
    kids.foldl (fun st c =>
        let hit := st.result.contains c.node
        let result := if hit && !queryAll then st.result.filter (fun x => x != c.node) else st.result
        let out := if hit then st.out ++ [(stack ++ [c.name], c.node)] else st.out
        findResultPackages g queryAll fuel c.node (stack ++ [c.name])
          { out := out, result := result, valid := st.valid })
      { out := st.out, result := st.result, valid := valid }

/-- `queryPackagePath(path, queryAll)` after parsing -/
def queryPackages (g : Graph) (mode : Mode) (steps : Steps) (queryAll : Bool) :
    Except QErr (List (List Str × Node)) :=
  match evalForward g mode steps with
  | .error e => .error e
  | .ok (nodes, valid) =>
    .ok (findResultPackages g queryAll (g.size + 1) g.root [] { out := [], result := nodes, valid := valid }).out

/-- `queryTreePath(path, queryAll)` after parsing -/
def queryTree (g : Graph) (mode : Mode) (steps : Steps) (queryAll : Bool) :
    Except QErr (List (List Str × Node)) :=
  match evalForward g mode steps with
  | .error e => .error e
  | .ok (nodes, valid) =>
    .ok (findResultNodes g queryAll (g.size + 1) g.root [] { out := [], result := nodes, valid := valid }).out

/-! ### constructor normalisations of `LocationPath.__init__` -/

/-- remove trivial `self` steps -/
def dropTrivialSelf : Steps → Steps
  | .nil => .nil
  | .cons ax test op rest =>
    if ax == .self && test == star && !op.isSome then dropTrivialSelf rest
    else .cons ax test op (dropTrivialSelf rest)

/-- combine `//foo` to `descendant@foo` -/
def fuse : Steps → Steps
  | .nil => .nil
  | .cons ax test op .nil => .cons ax test op .nil
  | .cons ax test op (.cons ax2 test2 op2 rest) =>
    if ax == .descendantOrSelf && test == star && !op.isSome && ax2 == .child then
      .cons .descendant test2 op2 (fuse rest)
    else .cons ax test op (fuse (.cons ax2 test2 op2 rest))

mutual
def Pred.normalize : Pred → Pred
  | .not p => .not p.normalize
  | .and l r => .and l.normalize r.normalize
  | .or l r => .or l.normalize r.normalize
  | .path abs steps => .path abs (fuse (dropTrivialSelf steps.normalizeInner))
  | .cmp op l r => .cmp op l r
  | .truth e => .truth e
def OptPred.normalize : OptPred → OptPred
  | .none => .none
  | .some p => .some p.normalize
def Steps.normalizeInner : Steps → Steps
  | .nil => .nil
  | .cons ax test op rest => .cons ax test op.normalize rest.normalizeInner
end

/-- what `LocationPath.__init__` keeps of the token list (`//` already written as
`descendant-or-self@*`) -/
def Steps.normalize (s : Steps) : Steps := fuse (dropTrivialSelf s.normalizeInner)

/-! ### text level preparation in `PackageSet.__query` -/

def splitFirstSlash : Str → Str → Str × Option Str
  | acc, [] => (acc.reverse, none)
  | acc, c :: cs => if c == '/' then (acc.reverse, some cs) else splitFirstSlash (c :: acc) cs

def lookupAlias (aliases : List (Str × Str)) (k : Str) : Str :=
  match aliases.find? (fun kv => kv.1 == k) with
  | some kv => kv.2
  | none => k

/-- `__substAlias`: only the text before the first `/` is looked up; an absolute path
(empty first part) is never substituted -/
def substAlias (aliases : List (Str × Str)) (path : Str) : Str :=
  match splitFirstSlash [] path with
  | (first, none) => if first.isEmpty then path else lookupAlias aliases first
  | (first, some tail) => if first.isEmpty then path else lookupAlias aliases first ++ '/' :: tail

def stripTrailingSlashes (s : Str) : Str := (s.reverse.dropWhile (· == '/')).reverse

/-- the text handed to the grammar (empty = the root itself) -/
def prepareQuery (aliases : List (Str × Str)) (path : Str) : Str :=
  stripTrailingSlashes (substAlias aliases path)

end PathSpec
