import BobModel.Generated.ConstsC13
/-
Model of how Bob hands the declared environment to a step (property C13).

 (a) `shlexQuote`  = `shlex.quote` as used by pym/bob/languages.py, and `lexWord`/`bashWord`, an evaluator
     of bash WORDs for the fragment Bob emits: `'…'`, `"…"`, `\c`, unquoted plain characters, a trailing
     `$NAME`, ended by an unquoted blank / newline / `)` (`]` inside an array subscript).
 (b) `prologCmds`/`formatProlog` = `BashLanguage.__formatProlog` (header, three `declare -A` lines, sorted
     `export` block with the `PATH`/`LD_LIBRARY_PATH`/`BOB_CWD` composition), `setupCallArgs` = the argv of
     `__setupExec`, `fingerprintCmds` = the preamble of `mangleFingerprints`, and `evalCmds`, a bash
     evaluator of such TEXT (comment, blank, `declare -A N=( [k]=v … )`, `export N=WORD`, `set -o x`).
 (c) environment construction: `prune` (`Env.prune`), `stepEnvOf`/`digestEnvOf` (tail of `Recipe.prepare`),
     `whiteListFold` (whitelist / whitelistRemove / -e), `hostFilter` + `processEnv`
     (`Invoker.__init__`, `__runCommand`), `fingerprintEnvOf` (`Step._getFingerprintScript`).
 (d) `specOfStep` (`StepSpec.fromStep`: args, path arrays, depMounts), the helper argv of
     `Invoker.executeStep` (`slimSandboxArgs`, `fatSandboxArgs`, `stepSandboxArgs`), the option parser of
     src/namespace-sandbox/namespace-sandbox.c (`parseHelper`) and the mount contract `resolve`.

Strings are `List Char` (one Python code point per `Char`).  A Python dict is an association list whose
first match wins (`lookup`); `b ++ a` is `a.update(b)`.  `os.path.abspath`, `os.path.exists`, `os.listdir`
and the string substitution of sandbox mount paths are parameters (`abs`, …) of the model functions; the
driver instantiates `abs` with `posixAbs`, a transliteration of `posixpath.abspath`.
-/
namespace ShellEnv

abbrev Str := List Char
abbrev Env := List (Str × Str)

def lookup : Env → Str → Option Str
  | [], _ => none
  | (k', v) :: r, k => if k' = k then some v else lookup r k

def keys (e : Env) : List Str := e.map Prod.fst

/-- `sep.join(xs)` -/
def joinWith (sep : Str) : List Str → Str
  | [] => []
  | [x] => x
  | x :: y :: r => x ++ sep ++ joinWith sep (y :: r)

/-- Python `<=` on `str` (code point order) -/
def strLe : Str → Str → Bool
  | [], _ => true
  | _ :: _, [] => false
  | a :: as, b :: bs => if a.toNat < b.toNat then true else if b.toNat < a.toNat then false else strLe as bs

/-- Python `<=` on `(str, str)` tuples -/
def pairLe (a b : Str × Str) : Bool := if a.1 = b.1 then strLe a.2 b.2 else strLe a.1 b.1

/-! ## (a) `shlex.quote` and the bash word evaluator -/

def safeChar (c : Char) : Bool := Consts.C13.safeChars.contains c

/-- `s.replace("'", "'\"'\"'")` -/
def quoteBody : Str → Str
  | [] => []
  | c :: r => if c = '\'' then '\'' :: '"' :: '\'' :: '"' :: '\'' :: quoteBody r else c :: quoteBody r

/-- `shlex.quote` -/
def shlexQuote (s : Str) : Str :=
  if s.isEmpty then ['\'', '\'']
  else if s.all safeChar then s
  else '\'' :: (quoteBody s ++ ['\''])

inductive ShErr
  | unterminatedQuote | unsupported | badIdentifier | badSubscript | syntaxErr | nul | outOfFuel
  deriving DecidableEq, Repr

/-- characters bash takes literally in an unquoted assignment word (no expansion, no word break) -/
def plainChar (c : Char) : Bool :=
  c.isAlphanum || c = '_' || c = '@' || c = '%' || c = '+' || c = '=' || c = ':' || c = ',' || c = '.' ||
  c = '/' || c = '-'

/-- unquoted characters that end a word -/
def wordStop (c : Char) : Bool :=
  c = ' ' || c = '\t' || c = '\n' || c = ';' || c = '&' || c = '|' || c = '(' || c = ')' || c = '<' || c = '>'

/-- inside `[subscript]` -/
def subStop (c : Char) : Bool := c = ']' || wordStop c

def isNameStart (c : Char) : Bool := c.isAlpha || c = '_'
def isNameChar (c : Char) : Bool := c.isAlphanum || c = '_'

def isIdent : Str → Bool
  | [] => false
  | c :: r => isNameStart c && r.all isNameChar

def spanName : Str → Str × Str
  | [] => ([], [])
  | c :: r => if isNameChar c then (c :: (spanName r).1, (spanName r).2) else ([], c :: r)

inductive Mode | unq | sq | dq | esc | dqEsc
  deriving DecidableEq, Repr

def nulChar : Char := Char.ofNat 0

def headIs (p : Char → Bool) : Str → Bool
  | [] => false
  | c :: _ => p c

/-- `$NAME` at the end of a word (the only expansion Bob emits: `…:$PATH`) -/
def expandTail (E : Env) (stop : Char → Bool) (acc r : Str) : Except ShErr (Str × Str) :=
  if !headIs isNameStart r then .error .unsupported
  else
    match (spanName r).2 with
    | [] => .ok (acc ++ (lookup E (spanName r).1).getD [], [])
    | d :: r' =>
      if stop d then .ok (acc ++ (lookup E (spanName r).1).getD [], d :: r')
      else .error .unsupported

/-- one bash word: quote removal and (trailing) parameter expansion.  Returns the value and the rest of the
input, which is empty or starts with the unquoted `stop` character that ended the word.  Modes: unquoted,
inside `'…'`, inside `"…"`, directly after an unquoted backslash, directly after a backslash inside `"…"`. -/
def lexWord (E : Env) (stop : Char → Bool) : Mode → Str → Str → Except ShErr (Str × Str)
  | .unq, acc, [] => .ok (acc, [])
  | .sq, _, [] => .error .unterminatedQuote
  | .dq, _, [] => .error .unterminatedQuote
  | .esc, _, [] => .error .syntaxErr
  | .dqEsc, _, [] => .error .unterminatedQuote
  | .unq, acc, c :: r =>
    if c = nulChar then .error .nul
    else if c = '\'' then lexWord E stop .sq acc r
    else if c = '"' then lexWord E stop .dq acc r
    else if stop c then .ok (acc, c :: r)
    else if c = '\\' then lexWord E stop .esc acc r
    else if c = '$' then expandTail E stop acc r
    else if plainChar c then lexWord E stop .unq (acc ++ [c]) r
    else .error .unsupported
  | .esc, acc, d :: r =>
    if d = '\n' then lexWord E stop .unq acc r
    else if d = nulChar then .error .nul
    else lexWord E stop .unq (acc ++ [d]) r
  | .sq, acc, c :: r =>
    if c = nulChar then .error .nul
    else if c = '\'' then lexWord E stop .unq acc r
    else lexWord E stop .sq (acc ++ [c]) r
  | .dq, acc, c :: r =>
    if c = nulChar then .error .nul
    else if c = '"' then lexWord E stop .unq acc r
    else if c = '\\' then lexWord E stop .dqEsc acc r
    else if c = '$' || c = '`' then .error .unsupported
    else lexWord E stop .dq (acc ++ [c]) r
  | .dqEsc, acc, d :: r =>
    if d = '$' || d = '`' || d = '"' || d = '\\' then lexWord E stop .dq (acc ++ [d]) r
    else if d = '\n' then lexWord E stop .dq acc r
    else if d = nulChar then .error .nul
    else lexWord E stop .dq (acc ++ ['\\', d]) r

/-- a complete text evaluated as ONE word (nothing may be left over) -/
def bashWord (E : Env) (t : Str) : Except ShErr Str :=
  match lexWord E wordStop .unq [] t with
  | .error e => .error e
  | .ok (v, []) => .ok v
  | .ok (_, _ :: _) => .error .syntaxErr

/-! ## (b) the generated prolog as commands, as text, and its evaluation -/

structure Sh where
  env : Env
  arrays : List (Str × List (Str × Str))

structure Export where
  name : Str
  parts : List Str
  withPath : Bool

inductive Cmd
  | line (text : Str)                               -- comment or empty line
  | raw (text : Str)                                -- anything else (keepEnv block): not evaluated
  | declareA (name : Str) (elems : List (Str × Str))
  | export (e : Export)
  | setO (text : Str)                               -- `set -o …` line of the fingerprint preamble

def dollarPath : Str := '$' :: Consts.C13.varPath

def Export.rhs (e : Export) : Str :=
  joinWith [':'] (e.parts.map shlexQuote ++ (if e.withPath then [dollarPath] else []))

def kwExport : Str := ['e', 'x', 'p', 'o', 'r', 't', ' ']
def kwDeclare : Str := ['d', 'e', 'c', 'l', 'a', 'r', 'e', ' ', '-', 'A', ' ']
def kwSetO : Str := ['s', 'e', 't', ' ', '-', 'o', ' ']

def renderElem (kv : Str × Str) : Str := '[' :: (shlexQuote kv.1 ++ ']' :: '=' :: shlexQuote kv.2)

def Cmd.render : Cmd → Str
  | .line t => t
  | .raw t => t
  | .declareA n es => kwDeclare ++ n ++ ['=', '(', ' '] ++ joinWith [' '] (es.map renderElem) ++ [' ', ')']
  | .export e => kwExport ++ e.name ++ '=' :: e.rhs
  | .setO t => t

def renderCmds (cs : List Cmd) : Str := joinWith ['\n'] (cs.map Cmd.render)

def Export.value (E : Env) (e : Export) : Str :=
  joinWith [':'] (e.parts ++ (if e.withPath then [(lookup E Consts.C13.varPath).getD []] else []))

/-- intended meaning of a command -/
def Cmd.eval (sh : Sh) : Cmd → Sh
  | .line _ => sh
  | .raw _ => sh
  | .declareA n es => { sh with arrays := (n, es.reverse) :: sh.arrays }
  | .export e => { sh with env := (e.name, e.value sh.env) :: sh.env }
  | .setO _ => sh

def stripPrefix : Str → Str → Option Str
  | [], t => some t
  | _ :: _, [] => none
  | p :: ps, c :: t => if p = c then stripPrefix ps t else none

def dropLine : Str → Str
  | [] => []
  | c :: r => if c = '\n' then r else dropLine r

def skipBlanks : Str → Str
  | [] => []
  | c :: r => if c = ' ' || c = '\t' then skipBlanks r else c :: r

/-- after the last word of a command only the end of the line may follow -/
def endCmd : Str → Except ShErr Str
  | [] => .ok []
  | c :: r => if c = '\n' then .ok r else .error .unsupported

/-- `export NAME=WORD` (text after the keyword) -/
def parseExport (sh : Sh) (t : Str) : Except ShErr (Sh × Str) :=
  match (spanName t).2 with
  | [] => .error .badIdentifier
  | c :: r =>
    if c ≠ '=' then .error .badIdentifier
    else if !isIdent (spanName t).1 then .error .badIdentifier
    else
      match lexWord sh.env wordStop .unq [] r with
      | .error e => .error e
      | .ok (v, r1) =>
        match endCmd r1 with
        | .error e => .error e
        | .ok r2 => .ok ({ sh with env := ((spanName t).1, v) :: sh.env }, r2)

/-- the elements of a compound array assignment up to the closing parenthesis (later elements first) -/
def parseElems (E : Env) : Nat → List (Str × Str) → Str → Except ShErr (List (Str × Str) × Str)
  | 0, _, _ => .error .outOfFuel
  | f + 1, acc, t =>
    match skipBlanks t with
    | [] => .error .syntaxErr
    | c :: r =>
      if c = ')' then .ok (acc, r)
      else if c = '[' then
        match lexWord E subStop .unq [] r with
        | .error e => .error e
        | .ok (k, r1) =>
          match r1 with
          | c1 :: c2 :: r2 =>
            if c1 = ']' && c2 = '=' then
              if k.isEmpty then .error .badSubscript
              else
                match lexWord E wordStop .unq [] r2 with
                | .error e => .error e
                | .ok (v, r3) => parseElems E f ((k, v) :: acc) r3
            else .error .syntaxErr
          | _ => .error .syntaxErr
      else .error .unsupported

/-- `declare -A NAME=( … )` (text after the keyword) -/
def parseDeclare (sh : Sh) (t : Str) : Except ShErr (Sh × Str) :=
  if !isIdent (spanName t).1 then .error .badIdentifier
  else
    match stripPrefix ['=', '('] (spanName t).2 with
    | none => .error .unsupported
    | some r =>
      match parseElems sh.env (r.length + 1) [] r with
      | .error e => .error e
      | .ok (es, r1) =>
        match endCmd r1 with
        | .error e => .error e
        | .ok r2 => .ok ({ sh with arrays := ((spanName t).1, es) :: sh.arrays }, r2)

/-- bash on the text of a prolog: one command per step of fuel -/
def evalCmds : Nat → Sh → Str → Except ShErr Sh
  | _, sh, [] => .ok sh
  | 0, _, _ :: _ => .error .outOfFuel
  | f + 1, sh, c :: r =>
    if c = '\n' then evalCmds f sh r
    else if c = '#' then evalCmds f sh (dropLine r)
    else
      match stripPrefix kwExport (c :: r) with
      | some r1 =>
        match parseExport sh r1 with
        | .error e => .error e
        | .ok (sh', r2) => evalCmds f sh' r2
      | none =>
        match stripPrefix kwDeclare (c :: r) with
        | some r1 =>
          match parseDeclare sh r1 with
          | .error e => .error e
          | .ok (sh', r2) => evalCmds f sh' r2
        | none =>
          match stripPrefix kwSetO (c :: r) with
          | some r1 => evalCmds f sh (dropLine r1)
          | none => .error .unsupported

def evalScript (sh : Sh) (t : Str) : Except ShErr Sh := evalCmds (t.length + 1) sh t

/-- no NUL character (cannot occur in an environment value or argument of any process) -/
def NoNul (s : Str) : Prop := ∀ c ∈ s, c ≠ nulChar

/-- the text after a command: end of script, or a newline and the next commands -/
def Tail (tl : Str) : Prop := tl = [] ∨ ∃ r, tl = '\n' :: r

/-- commands of the fragment `evalCmds` gives a meaning to -/
def Cmd.WF : Cmd → Prop
  | .line t => (t = [] ∨ ∃ r, t = '#' :: r) ∧ '\n' ∉ t
  | .raw _ => False
  | .declareA n es => isIdent n = true ∧ ∀ kv ∈ es, kv.1 ≠ [] ∧ NoNul kv.1 ∧ NoNul kv.2
  | .export e => isIdent e.name = true ∧ ∀ p ∈ e.parts, NoNul p
  | .setO t => ∃ r, t = kwSetO ++ r ∧ '\n' ∉ r

/-- the fields of a `StepSpec` that reach the script -/
structure Spec where
  env : Env
  paths : List Str
  libraryPaths : List Str
  cwd : Str                          -- workspaceExecPath
  args : List Str
  allPaths : List (Str × Str)
  depPaths : List (Str × Str)
  toolPaths : List (Str × Str)

/-- what the recipe schema and the operating system guarantee about a `StepSpec`: `env` is a dict whose keys
are identifiers (`varNameUseSchema`), package/tool names are not empty, no string contains NUL -/
structure Spec.WF (abs : Str → Str) (s : Spec) : Prop where
  envNodup : (keys s.env).Nodup
  envIdent : ∀ kv ∈ s.env, isIdent kv.1 = true ∧ NoNul kv.2
  paths : ∀ p ∈ s.paths, NoNul (abs p)
  libs : ∀ p ∈ s.libraryPaths, NoNul (abs p)
  cwd : NoNul (abs s.cwd)
  names : ∀ np ∈ s.allPaths ++ s.depPaths ++ s.toolPaths, np.1 ≠ [] ∧ NoNul np.1 ∧ NoNul (abs np.2)

def isBobVar (k : Str) : Bool :=
  k = Consts.C13.varPath || k = Consts.C13.varLdLibraryPath || k = Consts.C13.varBobCwd

def bobExports (abs : Str → Str) (s : Spec) : List Export :=
  [⟨Consts.C13.varPath, s.paths.map abs, true⟩,
   ⟨Consts.C13.varLdLibraryPath, s.libraryPaths.map abs, false⟩,
   ⟨Consts.C13.varBobCwd, [abs s.cwd], false⟩]

/-- `env = {k: quote(v)}; env.update({PATH…, LD_LIBRARY_PATH…, BOB_CWD…})` before sorting -/
def exportEntries (abs : Str → Str) (s : Spec) : List Export :=
  bobExports abs s ++ (s.env.filter fun kv => !isBobVar kv.1).map fun kv => ⟨kv.1, [kv.2], false⟩

def sortExports (xs : List Export) : List Export := xs.mergeSort fun a b => strLe a.name b.name

/-- `sorted(["[{}]={}".format(quote(name), quote(abspath(path))) …])` -/
def sortElems (es : List (Str × Str)) : List (Str × Str) :=
  es.mergeSort fun a b => strLe (renderElem a) (renderElem b)

def absPairs (abs : Str → Str) (ps : List (Str × Str)) : List (Str × Str) := ps.map fun np => (np.1, abs np.2)

def splitLines : Str → Str → List Str
  | cur, [] => [cur.reverse]
  | cur, c :: r => if c = '\n' then cur.reverse :: splitLines [] r else splitLines (c :: cur) r

def arrayCmds (abs : Str → Str) (s : Spec) : List Cmd :=
  [.declareA Consts.C13.arrayAll (sortElems (absPairs abs s.allPaths)),
   .declareA Consts.C13.arrayDep (sortElems (absPairs abs s.depPaths)),
   .declareA Consts.C13.arrayTool (sortElems (absPairs abs s.toolPaths))]

/-- `BashLanguage.__formatProlog(spec, keepEnv)` as a command list -/
def prologCmds (abs : Str → Str) (s : Spec) (keepEnv : Bool) : List Cmd :=
  Consts.C13.prologHeader.map .line ++
  (if keepEnv then (splitLines [] Consts.C13.prologKeepEnv).map fun l => if l.isEmpty then .line l else .raw l else []) ++
  [.line Consts.C13.prologArraysComment] ++ arrayCmds abs s ++
  [.line [], .line Consts.C13.prologEnvComment] ++
  (sortExports (exportEntries abs s)).map .export

def formatProlog (abs : Str → Str) (s : Spec) (keepEnv : Bool) : Str := renderCmds (prologCmds abs s keepEnv)

/-- argv of `BashLanguage.__setupExec` -/
def setupCallArgs (abs : Str → Str) (s : Spec) (bash execScript : Str) (trace : Bool) : List Str :=
  [bash] ++ (if trace then [['-', 'x']] else []) ++ [['-', '-'], execScript] ++ s.args.map abs

/-- what bash binds to `"$@"` for an argv produced by `setupCallArgs`: everything after `-- script` -/
def positionalOf : List Str → List Str
  | [] => []
  | a :: r => if a = ['-', '-'] then r.drop 1 else positionalOf r

/-- preamble of `BashLanguage.mangleFingerprints(scripts, env)` (the part before snippets and script) -/
def fingerprintCmds (env : Env) : List Cmd :=
  (Consts.C13.fingerprintSetO.map Cmd.setO ++
    ((env.map fun kv => (⟨kv.1, [kv.2], false⟩ : Export)) |> sortExports).map Cmd.export).reverse

def fingerprintPreamble (env : Env) : Str := renderCmds (fingerprintCmds env)

/-! ## (c) environment construction -/

/-- `Env.prune(allowed)` -/
def prune (env : Env) (allowed : List Str) : Env := env.filter fun kv => allowed.contains kv.1

/-- tail of `Recipe.prepare`: the environment a step executes in … -/
def stepEnvOf (full : Env) (strong weak : List Str) : Env :=
  if weak.isEmpty then prune full strong else prune full (strong ++ weak)

/-- … and the one that enters its variant id -/
def digestEnvOf (full : Env) (strong : List Str) : Env := prune full strong

/-- user configuration files in order: `whitelist` (priority 50) then `whitelistRemove` (priority 100) of each
file, finally the `-e` names of the command line -/
def whiteListFold (dflt : List Str) (cfgs : List (List Str × List Str)) (cli : List Str) : List Str :=
  cfgs.foldl (fun wl ar => (wl ++ ar.1).filter fun k => !ar.2.contains k) dflt ++ cli

/-- `Invoker.__init__` -/
def hostFilter (preserve : Bool) (wl : List Str) (host : Env) : Env :=
  if preserve then host else host.filter fun kv => wl.contains kv.1

/-- `Invoker.__runCommand`: `_env = self.__env.copy(); if specEnv: update(spec.env); if env: update(env)` -/
def processEnv (preserve : Bool) (wl : List Str) (host : Env) (specEnv : Option Env) (extra : Env) : Env :=
  extra ++ (specEnv.getD [] ++ hostFilter preserve wl host)

/-- `Step._getFingerprintScript`: only `fingerprintVars` of the step environment are exported -/
def fingerprintEnvOf (stepEnv : Env) (fpVars : List Str) : Env := stepEnv.filter fun kv => fpVars.contains kv.1

/-- the environment a step script's children see (bash's own PWD/OLDPWD/SHLVL/_ aside): the process
environment given by the Invoker (`specEnv=False`), then the prolog evaluated by bash -/
def scriptEnv (abs : Str → Str) (s : Spec) (preserve : Bool) (wl : List Str) (host extra : Env) :
    Except ShErr Sh :=
  evalScript ⟨processEnv preserve wl host none extra, []⟩ (formatProlog abs s false)

end ShellEnv
