import BobModel.Generated.ConstsC13
/-
Model of how Bob hands the declared environment to a step (property C13).

 (a) `shlexQuote`  = `shlex.quote` as used by pym/bob/languages.py, and `lexWord`/`bashWord`, an evaluator
     of bash WORDs for the fragment Bob emits: `'…'`, `"…"`, `\c`, unquoted plain characters, a trailing
     `$NAME`, ended by an unquoted blank / newline / `)` (`]` inside an array subscript).
 (b) `prologCmds`/`formatProlog` = `BashLanguage.__formatProlog` (header, three `declare -A` lines, sorted
     `export` block with the `PATH`/`LD_LIBRARY_PATH`/`BOB_CWD` composition), `setupCallArgs` = the argv of
     `__setupExec`, `fingerprintCmds` = the preamble of `mangleFingerprints`, and `evalCmds`, a bash
     evaluator of such TEXT (comment, blank, `declare -A N=( [k]=v … )`, `export N=WORD`, `set -o x`).
 (c) environment construction: `prune` (`Env.prune`), `stepEnvOf`/`digestEnvOf` (tail of `Recipe.prepare`),
     `whiteListFold` (whitelist / whitelistRemove / -e), `hostFilter` + `processEnv`
     (`Invoker.__init__`, `__runCommand`), `fingerprintEnvOf` (`Step._getFingerprintScript`).
 (d) `specOfStep` (`StepSpec.fromStep`: args, path arrays, depMounts), the helper argv of
     `Invoker.executeStep` (`slimSandboxArgs`, `fatSandboxArgs`, `stepSandboxArgs`), the option parser of
     src/namespace-sandbox/namespace-sandbox.c (`parseHelper`) and the mount contract `resolve`.

Strings are `List Char` (one Python code point per `Char`).  A Python dict is an association list whose
first match wins (`lookup`); `b ++ a` is `a.update(b)`.  `os.path.abspath`, `os.path.exists`, `os.listdir`
and the string substitution of sandbox mount paths are parameters (`abs`, …) of the model functions; the
driver instantiates `abs` with `posixAbs`, a transliteration of `posixpath.abspath`.
-/
namespace ShellEnv

abbrev Str := List Char
abbrev Env := List (Str × Str)

def lookup : Env → Str → Option Str
  | [], _ => none
  | (k', v) :: r, k => if k' = k then some v else lookup r k

def keys (e : Env) : List Str := e.map Prod.fst

/-- `sep.join(xs)` -/
def joinWith (sep : Str) : List Str → Str
  | [] => []
  | [x] => x
  | x :: y :: r => x ++ sep ++ joinWith sep (y :: r)

/-- Python `<=` on `str` (code point order) -/
def strLe : Str → Str → Bool
  | [], _ => true
  | _ :: _, [] => false
  | a :: as, b :: bs => if a.toNat < b.toNat then true else if b.toNat < a.toNat then false else strLe as bs

/-- Python `<=` on `(str, str)` tuples -/
def pairLe (a b : Str × Str) : Bool := if a.1 = b.1 then strLe a.2 b.2 else strLe a.1 b.1

/-! ## (a) `shlex.quote` and the bash word evaluator -/

def safeChar (c : Char) : Bool := Consts.C13.safeChars.contains c

/-- `s.replace("'", "'\"'\"'")` -/
def quoteBody : Str → Str
  | [] => []
  | c :: r => if c = '\'' then '\'' :: '"' :: '\'' :: '"' :: '\'' :: quoteBody r else c :: quoteBody r

/-- `shlex.quote` -/
def shlexQuote (s : Str) : Str :=
  if s.isEmpty then ['\'', '\'']
  else if s.all safeChar then s
  else '\'' :: (quoteBody s ++ ['\''])

inductive ShErr
  | unterminatedQuote | unsupported | badIdentifier | badSubscript | syntaxErr | nul | outOfFuel
  deriving DecidableEq, Repr

/-- characters bash takes literally in an unquoted assignment word (no expansion, no word break) -/
def plainChar (c : Char) : Bool :=
  c.isAlphanum || c = '_' || c = '@' || c = '%' || c = '+' || c = '=' || c = ':' || c = ',' || c = '.' ||
  c = '/' || c = '-'

/-- unquoted characters that end a word -/
def wordStop (c : Char) : Bool :=
  c = ' ' || c = '\t' || c = '\n' || c = ';' || c = '&' || c = '|' || c = '(' || c = ')' || c = '<' || c = '>'

/-- inside `[subscript]` -/
def subStop (c : Char) : Bool := c = ']' || wordStop c

def isNameStart (c : Char) : Bool := c.isAlpha || c = '_'
def isNameChar (c : Char) : Bool := c.isAlphanum || c = '_'

def isIdent : Str → Bool
  | [] => false
  | c :: r => isNameStart c && r.all isNameChar

def spanName : Str → Str × Str
  | [] => ([], [])
  | c :: r => if isNameChar c then (c :: (spanName r).1, (spanName r).2) else ([], c :: r)

inductive Mode | unq | sq | dq | esc | dqEsc
  deriving DecidableEq, Repr

def nulChar : Char := Char.ofNat 0

def headIs (p : Char → Bool) : Str → Bool
  | [] => false
  | c :: _ => p c

/-- `$NAME` at the end of a word (the only expansion Bob emits: `…:$PATH`) -/
def expandTail (E : Env) (stop : Char → Bool) (acc r : Str) : Except ShErr (Str × Str) :=
  if !headIs isNameStart r then .error .unsupported
  else
    match (spanName r).2 with
    | [] => .ok (acc ++ (lookup E (spanName r).1).getD [], [])
    | d :: r' =>
      if stop d then .ok (acc ++ (lookup E (spanName r).1).getD [], d :: r')
      else .error .unsupported

/-- one bash word: quote removal and (trailing) parameter expansion.  Returns the value and the rest of the
input, which is empty or starts with the unquoted `stop` character that ended the word.  Modes: unquoted,
inside `'…'`, inside `"…"`, directly after an unquoted backslash, directly after a backslash inside `"…"`. -/
def lexWord (E : Env) (stop : Char → Bool) : Mode → Str → Str → Except ShErr (Str × Str)
  | .unq, acc, [] => .ok (acc, [])
  | .sq, _, [] => .error .unterminatedQuote
  | .dq, _, [] => .error .unterminatedQuote
  | .esc, _, [] => .error .syntaxErr
  | .dqEsc, _, [] => .error .unterminatedQuote
  | .unq, acc, c :: r =>
    if c = nulChar then .error .nul
    else if c = '\'' then lexWord E stop .sq acc r
    else if c = '"' then lexWord E stop .dq acc r
    else if stop c then .ok (acc, c :: r)
    else if c = '\\' then lexWord E stop .esc acc r
    else if c = '$' then expandTail E stop acc r
    else if plainChar c then lexWord E stop .unq (acc ++ [c]) r
    else .error .unsupported
  | .esc, acc, d :: r =>
    if d = '\n' then lexWord E stop .unq acc r
    else if d = nulChar then .error .nul
    else lexWord E stop .unq (acc ++ [d]) r
  | .sq, acc, c :: r =>
    if c = nulChar then .error .nul
    else if c = '\'' then lexWord E stop .unq acc r
    else lexWord E stop .sq (acc ++ [c]) r
  | .dq, acc, c :: r =>
    if c = nulChar then .error .nul
    else if c = '"' then lexWord E stop .unq acc r
    else if c = '\\' then lexWord E stop .dqEsc acc r
    else if c = '$' || c = '`' then .error .unsupported
    else lexWord E stop .dq (acc ++ [c]) r
  | .dqEsc, acc, d :: r =>
    if d = '$' || d = '`' || d = '"' || d = '\\' then lexWord E stop .dq (acc ++ [d]) r
    else if d = '\n' then lexWord E stop .dq acc r
    else if d = nulChar then .error .nul
    else lexWord E stop .dq (acc ++ ['\\', d]) r

/-- a complete text evaluated as ONE word (nothing may be left over) -/
def bashWord (E : Env) (t : Str) : Except ShErr Str :=
  match lexWord E wordStop .unq [] t with
  | .error e => .error e
  | .ok (v, []) => .ok v
  | .ok (_, _ :: _) => .error .syntaxErr

/-! ## (b) the generated prolog as commands, as text, and its evaluation -/

structure Sh where
  env : Env
  arrays : List (Str × List (Str × Str))

structure Export where
  name : Str
  parts : List Str
  withPath : Bool

inductive Cmd
  | line (text : Str)                               -- comment or empty line
  | raw (text : Str)                                -- anything else (keepEnv block): not evaluated
  | declareA (name : Str) (elems : List (Str × Str))
  | export (e : Export)
  | setO (text : Str)                               -- `set -o …` line of the fingerprint preamble

def dollarPath : Str := '$' :: Consts.C13.varPath

def Export.rhs (e : Export) : Str :=
  joinWith [':'] (e.parts.map shlexQuote ++ (if e.withPath then [dollarPath] else []))

def kwExport : Str := ['e', 'x', 'p', 'o', 'r', 't', ' ']
def kwDeclare : Str := ['d', 'e', 'c', 'l', 'a', 'r', 'e', ' ', '-', 'A', ' ']
def kwSetO : Str := ['s', 'e', 't', ' ', '-', 'o', ' ']

def renderElem (kv : Str × Str) : Str := '[' :: (shlexQuote kv.1 ++ ']' :: '=' :: shlexQuote kv.2)

def Cmd.render : Cmd → Str
  | .line t => t
  | .raw t => t
  | .declareA n es => kwDeclare ++ n ++ ['=', '(', ' '] ++ joinWith [' '] (es.map renderElem) ++ [' ', ')']
  | .export e => kwExport ++ e.name ++ '=' :: e.rhs
  | .setO t => t

def renderCmds (cs : List Cmd) : Str := joinWith ['\n'] (cs.map Cmd.render)

def Export.value (E : Env) (e : Export) : Str :=
  joinWith [':'] (e.parts ++ (if e.withPath then [(lookup E Consts.C13.varPath).getD []] else []))

/-- intended meaning of a command -/
def Cmd.eval (sh : Sh) : Cmd → Sh
  | .line _ => sh
  | .raw _ => sh
  | .declareA n es => { sh with arrays := (n, es.reverse) :: sh.arrays }
  | .export e => { sh with env := (e.name, e.value sh.env) :: sh.env }
  | .setO _ => sh

def stripPrefix : Str → Str → Option Str
  | [], t => some t
  | _ :: _, [] => none
  | p :: ps, c :: t => if p = c then stripPrefix ps t else none

def dropLine : Str → Str
  | [] => []
  | c :: r => if c = '\n' then r else dropLine r

def skipBlanks : Str → Str
  | [] => []
  | c :: r => if c = ' ' || c = '\t' then skipBlanks r else c :: r

/-- after the last word of a command only the end of the line may follow -/
def endCmd : Str → Except ShErr Str
  | [] => .ok []
  | c :: r => if c = '\n' then .ok r else .error .unsupported

/-- `export NAME=WORD` (text after the keyword) -/
def parseExport (sh : Sh) (t : Str) : Except ShErr (Sh × Str) :=
  match (spanName t).2 with
  | [] => .error .badIdentifier
  | c :: r =>
    if c ≠ '=' then .error .badIdentifier
    else if !isIdent (spanName t).1 then .error .badIdentifier
    else
      match lexWord sh.env wordStop .unq [] r with
      | .error e => .error e
      | .ok (v, r1) =>
        match endCmd r1 with
        | .error e => .error e
        | .ok r2 => .ok ({ sh with env := ((spanName t).1, v) :: sh.env }, r2)

/-- the elements of a compound array assignment up to the closing parenthesis (later elements first) -/
def parseElems (E : Env) : Nat → List (Str × Str) → Str → Except ShErr (List (Str × Str) × Str)
  | 0, _, _ => .error .outOfFuel
  | f + 1, acc, t =>
    match skipBlanks t with
    | [] => .error .syntaxErr
    | c :: r =>
      if c = ')' then .ok (acc, r)
      else if c = '[' then
        match lexWord E subStop .unq [] r with
        | .error e => .error e
        | .ok (k, r1) =>
          match r1 with
          | c1 :: c2 :: r2 =>
            if c1 = ']' && c2 = '=' then
              if k.isEmpty then .error .badSubscript
              else
                match lexWord E wordStop .unq [] r2 with
                | .error e => .error e
                | .ok (v, r3) => parseElems E f ((k, v) :: acc) r3
            else .error .syntaxErr
          | _ => .error .syntaxErr
      else .error .unsupported

/-- `declare -A NAME=( … )` (text after the keyword) -/
def parseDeclare (sh : Sh) (t : Str) : Except ShErr (Sh × Str) :=
  if !isIdent (spanName t).1 then .error .badIdentifier
  else
    match stripPrefix ['=', '('] (spanName t).2 with
    | none => .error .unsupported
    | some r =>
      match parseElems sh.env (r.length + 1) [] r with
      | .error e => .error e
      | .ok (es, r1) =>
        match endCmd r1 with
        | .error e => .error e
        | .ok r2 => .ok ({ sh with arrays := ((spanName t).1, es) :: sh.arrays }, r2)

/-- bash on the text of a prolog: one command per step of fuel -/
def evalCmds : Nat → Sh → Str → Except ShErr Sh
  | _, sh, [] => .ok sh
  | 0, _, _ :: _ => .error .outOfFuel
  | f + 1, sh, c :: r =>
    if c = '\n' then evalCmds f sh r
    else if c = '#' then evalCmds f sh (dropLine r)
    else
      match stripPrefix kwExport (c :: r) with
      | some r1 =>
        match parseExport sh r1 with
        | .error e => .error e
        | .ok (sh', r2) => evalCmds f sh' r2
      | none =>
        match stripPrefix kwDeclare (c :: r) with
        | some r1 =>
          match parseDeclare sh r1 with
          | .error e => .error e
          | .ok (sh', r2) => evalCmds f sh' r2
        | none =>
          match stripPrefix kwSetO (c :: r) with
          | some r1 => evalCmds f sh (dropLine r1)
          | none => .error .unsupported

def evalScript (sh : Sh) (t : Str) : Except ShErr Sh := evalCmds (t.length + 1) sh t

/-- no NUL character (cannot occur in an environment value or argument of any process) -/
def NoNul (s : Str) : Prop := ∀ c ∈ s, c ≠ nulChar

instance (s : Str) : Decidable (NoNul s) := by unfold NoNul; infer_instance

/-- the text after a command: end of script, or a newline and the next commands -/
def Tail (tl : Str) : Prop := tl = [] ∨ ∃ r, tl = '\n' :: r

/-- a comment or empty line -/
def lineOk (t : Str) : Bool := (t.isEmpty || headIs (· = '#') t) && !t.contains '\n'

/-- commands of the fragment `evalCmds` gives a meaning to -/
def Cmd.WF : Cmd → Prop
  | .line t => (t = [] ∨ ∃ r, t = '#' :: r) ∧ '\n' ∉ t
  | .raw _ => False
  | .declareA n es => isIdent n = true ∧ ∀ kv ∈ es, kv.1 ≠ [] ∧ NoNul kv.1 ∧ NoNul kv.2
  | .export e => isIdent e.name = true ∧ ∀ p ∈ e.parts, NoNul p
  | .setO t => ∃ r, t = kwSetO ++ r ∧ '\n' ∉ r

/-- the fields of a `StepSpec` that reach the script -/
structure Spec where
  env : Env
  paths : List Str
  libraryPaths : List Str
  cwd : Str                          -- workspaceExecPath
  args : List Str
  allPaths : List (Str × Str)
  depPaths : List (Str × Str)
  toolPaths : List (Str × Str)

/-- what the recipe schema and the operating system guarantee about a `StepSpec`: `env` is a dict whose keys
are identifiers (`varNameUseSchema`), package/tool names are not empty, no string contains NUL -/
structure Spec.WF (abs : Str → Str) (s : Spec) : Prop where
  envNodup : (keys s.env).Nodup
  envIdent : ∀ kv ∈ s.env, isIdent kv.1 = true ∧ NoNul kv.2
  paths : ∀ p ∈ s.paths, NoNul (abs p)
  libs : ∀ p ∈ s.libraryPaths, NoNul (abs p)
  cwd : NoNul (abs s.cwd)
  names : ∀ np ∈ s.allPaths ++ s.depPaths ++ s.toolPaths, np.1 ≠ [] ∧ NoNul np.1 ∧ NoNul (abs np.2)

def isBobVar (k : Str) : Bool :=
  k = Consts.C13.varPath || k = Consts.C13.varLdLibraryPath || k = Consts.C13.varBobCwd

def bobExports (abs : Str → Str) (s : Spec) : List Export :=
  [⟨Consts.C13.varPath, s.paths.map abs, true⟩,
   ⟨Consts.C13.varLdLibraryPath, s.libraryPaths.map abs, false⟩,
   ⟨Consts.C13.varBobCwd, [abs s.cwd], false⟩]

/-- `env = {k: quote(v)}; env.update({PATH…, LD_LIBRARY_PATH…, BOB_CWD…})` before sorting -/
def exportEntries (abs : Str → Str) (s : Spec) : List Export :=
  bobExports abs s ++ (s.env.filter fun kv => !isBobVar kv.1).map fun kv => ⟨kv.1, [kv.2], false⟩

def sortExports (xs : List Export) : List Export := xs.mergeSort fun a b => strLe a.name b.name

/-- `sorted(["[{}]={}".format(quote(name), quote(abspath(path))) …])` -/
def sortElems (es : List (Str × Str)) : List (Str × Str) :=
  es.mergeSort fun a b => strLe (renderElem a) (renderElem b)

def absPairs (abs : Str → Str) (ps : List (Str × Str)) : List (Str × Str) := ps.map fun np => (np.1, abs np.2)

def splitLines : Str → Str → List Str
  | cur, [] => [cur.reverse]
  | cur, c :: r => if c = '\n' then cur.reverse :: splitLines [] r else splitLines (c :: cur) r

def arrayCmds (abs : Str → Str) (s : Spec) : List Cmd :=
  [.declareA Consts.C13.arrayAll (sortElems (absPairs abs s.allPaths)),
   .declareA Consts.C13.arrayDep (sortElems (absPairs abs s.depPaths)),
   .declareA Consts.C13.arrayTool (sortElems (absPairs abs s.toolPaths))]

/-- everything of the prolog before the `export` block -/
def prologHead (abs : Str → Str) (s : Spec) (keepEnv : Bool) : List Cmd :=
  Consts.C13.prologHeader.map .line ++
  (if keepEnv then (splitLines [] Consts.C13.prologKeepEnv).map fun l => if l.isEmpty then .line l else .raw l else []) ++
  [.line Consts.C13.prologArraysComment] ++ arrayCmds abs s ++
  [.line [], .line Consts.C13.prologEnvComment]

/-- `BashLanguage.__formatProlog(spec, keepEnv)` as a command list -/
def prologCmds (abs : Str → Str) (s : Spec) (keepEnv : Bool) : List Cmd :=
  prologHead abs s keepEnv ++ (sortExports (exportEntries abs s)).map .export

def formatProlog (abs : Str → Str) (s : Spec) (keepEnv : Bool) : Str := renderCmds (prologCmds abs s keepEnv)

/-- argv of `BashLanguage.__setupExec` -/
def setupCallArgs (abs : Str → Str) (s : Spec) (bash execScript : Str) (trace : Bool) : List Str :=
  [bash] ++ (if trace then [['-', 'x']] else []) ++ [['-', '-'], execScript] ++ s.args.map abs

/-- what bash binds to `"$@"` for an argv produced by `setupCallArgs`: everything after `-- script` -/
def positionalOf : List Str → List Str
  | [] => []
  | a :: r => if a = ['-', '-'] then r.drop 1 else positionalOf r

/-- preamble of `BashLanguage.mangleFingerprints(scripts, env)` (the part before snippets and script) -/
def fingerprintCmds (env : Env) : List Cmd :=
  (Consts.C13.fingerprintSetO.map Cmd.setO ++
    ((env.map fun kv => (⟨kv.1, [kv.2], false⟩ : Export)) |> sortExports).map Cmd.export).reverse

def fingerprintPreamble (env : Env) : Str := renderCmds (fingerprintCmds env)

/-- argv of `BashLanguage.setupFingerprint`: `bash <fixed options> [-x] -c <script>` -/
def setupFingerprintArgs (bash : Str) (trace : Bool) (script : Str) : List Str :=
  [bash] ++ Consts.C13.fingerprintBashOpts ++ (if trace then [['-', 'x']] else []) ++ [['-', 'c'], script]

/-- bash's start-up rule for non-interactive shells (shell.c `run_startup_files`): a `-c` command whose standard
input is a network connection is taken for an rshd/sshd session and `~/.bashrc` is read - unless `--norc` is given.
Script files (`bash -- script`) never read it. -/
def bashReadsRc (argv : List Str) (stdinIsSocket : Bool) : Bool :=
  stdinIsSocket && argv.contains ['-', 'c'] && !argv.contains ['-', '-', 'n', 'o', 'r', 'c']

/-! ## (c) environment construction -/

/-- `Env.prune(allowed)` -/
def prune (env : Env) (allowed : List Str) : Env := env.filter fun kv => allowed.contains kv.1

/-- tail of `Recipe.prepare`: the environment a step executes in … -/
def stepEnvOf (full : Env) (strong weak : List Str) : Env :=
  if weak.isEmpty then prune full strong else prune full (strong ++ weak)

/-- … and the one that enters its variant id -/
def digestEnvOf (full : Env) (strong : List Str) : Env := prune full strong

/-- user configuration files in order: `whitelist` (priority 50) then `whitelistRemove` (priority 100) of each
file, finally the `-e` names of the command line -/
def whiteListFold (dflt : List Str) (cfgs : List (List Str × List Str)) (cli : List Str) : List Str :=
  cfgs.foldl (fun wl ar => (wl ++ ar.1).filter fun k => !ar.2.contains k) dflt ++ cli

/-- `Invoker.__init__` -/
def hostFilter (preserve : Bool) (wl : List Str) (host : Env) : Env :=
  if preserve then host else host.filter fun kv => wl.contains kv.1

/-- `Invoker.__runCommand`: `_env = self.__env.copy(); if specEnv: update(spec.env); if env: update(env)` -/
def processEnv (preserve : Bool) (wl : List Str) (host : Env) (specEnv : Option Env) (extra : Env) : Env :=
  extra ++ (specEnv.getD [] ++ hostFilter preserve wl host)

/-- `Step._getFingerprintScript`: only `fingerprintVars` of the step environment are exported -/
def fingerprintEnvOf (stepEnv : Env) (fpVars : List Str) : Env := stepEnv.filter fun kv => fpVars.contains kv.1

/-- the environment a step script's children see (bash's own PWD/OLDPWD/SHLVL/_ aside): the process
environment given by the Invoker (`specEnv=False`), then the prolog evaluated by bash -/
def scriptEnv (abs : Str → Str) (s : Spec) (preserve : Bool) (wl : List Str) (host extra : Env) :
    Except ShErr Sh :=
  evalScript ⟨processEnv preserve wl host none extra, []⟩ (formatProlog abs s false)

/-! ## (d) `StepSpec.fromStep`, the sandbox helper's argv, its option parser and the mount contract -/

def strOf (s : String) : Str := s.toList

/-- `os.path.join(a, b)` for POSIX paths -/
def pathJoin (a b : Str) : Str :=
  if headIs (· = '/') b then b
  else if a.isEmpty || a.getLast? = some '/' then a ++ b
  else a ++ '/' :: b

/-- `posixpath.normpath` on the components of a path: `new_comps` loop -/
def normComps (absolute : Bool) : List Str → List Str → List Str
  | acc, [] => acc.reverse
  | acc, c :: r =>
    if c.isEmpty || c = ['.'] then normComps absolute acc r
    else if c ≠ ['.', '.'] then normComps absolute (c :: acc) r
    else match acc with
      | [] => if absolute then normComps absolute [] r else normComps absolute [c] r
      | a :: acc' => if a = ['.', '.'] then normComps absolute (c :: acc) r else normComps absolute acc' r

def splitOn (sep : Char) : Str → Str → List Str
  | cur, [] => [cur.reverse]
  | cur, c :: r => if c = sep then cur.reverse :: splitOn sep [] r else splitOn sep (c :: cur) r

/-- `posixpath.normpath` -/
def normpath (p : Str) : Str :=
  if p.isEmpty then ['.']
  else
    let slashes : Nat :=
      if headIs (· = '/') p then
        (if headIs (· = '/') (p.drop 1) && !headIs (· = '/') (p.drop 2) then 2 else 1)
      else 0
    let body := joinWith ['/'] (normComps (slashes != 0) [] (splitOn '/' [] p))
    let res := List.replicate slashes '/' ++ body
    if res.isEmpty then ['.'] else res

/-- `posixpath.abspath` with the current directory `cwd` (absolute) -/
def posixAbs (cwd : Str) (p : Str) : Str := normpath (pathJoin cwd p)

structure DepStep where
  name : Str              -- package name
  valid : Bool
  isCheckout : Bool
  storage : Str           -- getStoragePath()
  exec : Str              -- getExecPath(referrer) of a valid step

/-- `StepIR.getExecPath`: invalid steps get the placeholder -/
def DepStep.execPath (d : DepStep) : Str := if d.valid then d.exec else Consts.C13.invalidExecPrefix ++ d.name

structure Tool where
  name : Str
  step : DepStep
  path : Str
  libs : List Str

/-- what `StepSpec.fromStep` reads from a step.  `chain` is `step.getArguments()[0]`, its first argument, …
(empty when the step has no arguments) -/
structure StepDesc where
  env : Env
  valid : Bool
  isCheckout : Bool
  args : List DepStep
  tools : List Tool
  sandbox : Option DepStep
  chain : List DepStep

def sortStrs (xs : List Str) : List Str := xs.mergeSort strLe
def sortPairs (xs : List (Str × Str)) : List (Str × Str) := xs.mergeSort pairLe
def sortTools (ts : List Tool) : List Tool := ts.mergeSort fun a b => strLe a.name b.name

def Tool.execPath (t : Tool) : Str := pathJoin t.step.execPath t.path

/-- `step.getAllDepSteps()` -/
def StepDesc.allDeps (d : StepDesc) : List DepStep :=
  d.args ++ (sortTools d.tools).map Tool.step ++ d.sandbox.toList

/-- the `while extra.isValid() and not extra.isCheckoutStep() and len(extra.getArguments()) > 0` loop -/
def extraMounts : Bool → Bool → List DepStep → List (Str × Str)
  | _, _, [] => []
  | valid, isCk, n :: rest =>
    if valid && !isCk then (if n.valid then [(n.storage, n.execPath)] else []) ++ extraMounts n.valid n.isCheckout rest
    else []

def StepDesc.depMounts (d : StepDesc) : List (Str × Str) :=
  (d.allDeps.filter DepStep.valid).map (fun a => (a.storage, a.execPath)) ++ extraMounts d.valid d.isCheckout d.chain

/-- `StepSpec.fromStep`: the fields that reach the script -/
def specOfStep (d : StepDesc) (cwd : Str) : Spec :=
  { env := d.env
    paths := sortStrs (d.tools.map Tool.execPath)
    libraryPaths := (sortTools d.tools).flatMap fun t => t.libs.map (pathJoin t.step.execPath)
    cwd := cwd
    args := d.args.map DepStep.execPath
    allPaths := sortPairs (d.allDeps.map fun a => (a.name, a.execPath))
    depPaths := sortPairs ((d.args.filter DepStep.valid).map fun a => (a.name, a.execPath))
    toolPaths := sortPairs (d.tools.map fun t => (t.name, t.execPath)) }

structure Mount where
  src : Str
  tgt : Str
  rw : Bool
  deriving DecidableEq, Repr

/-- option groups of a helper command line -/
inductive HArg
  | flag (c : Char)                    -- -i -n -r
  | opt (c : Char) (v : Str)           -- -S -H -d -W
  | mount (m : Mount)                  -- -M src -m|-w tgt
  | mountSame (src : Str)              -- -M src   (no target: same path, read-only)

def dash (c : Char) : Str := ['-', c]

def HArg.render : HArg → List Str
  | .flag c => [dash c]
  | .opt c v => [dash c, v]
  | .mount m => [dash 'M', m.src, dash (if m.rw then 'w' else 'm'), m.tgt]
  | .mountSame s => [dash 'M', s]

def HArg.mounts : HArg → List Mount
  | .mount m => [m]
  | .mountSame s => [⟨s, s, false⟩]
  | _ => []

def renderHArgs (gs : List HArg) : List Str := gs.flatMap HArg.render

structure HostMount where
  host : Str              -- after string substitution
  sandbox : Str           -- after string substitution
  options : List Str

def tmpStr : Str := ['t', 'm', 'p']

/-- `Invoker.__getSlimSandboxCmds` (without the helper path) -/
def slimGroups (tmpDir cwd : Str) (rootEntries : List Str) : List HArg :=
  [.opt 'S' (pathJoin tmpDir (strOf "sandbox")), .flag 'i', .opt 'd' ('/' :: tmpStr)] ++
  (rootEntries.filter (· ≠ tmpStr)).map (fun f => .mount ⟨'/' :: f, '/' :: f, false⟩) ++
  [.mount ⟨pathJoin tmpDir (strOf "whiteout"), cwd, true⟩]

def hostMountGroups (skipOpt : Str) (existing : Str → Bool) (m : HostMount) : List HArg :=
  if m.options.contains skipOpt then []
  else if m.options.contains (strOf "nofail") && !existing m.host then []
  else if m.options.contains (strOf "rw") then [.mount ⟨m.host, m.sandbox, true⟩]
  else if m.host ≠ m.sandbox then [.mount ⟨m.host, m.sandbox, false⟩]
  else [.mountSame m.host]

/-- `Invoker.__getFatSandboxCmds` (without the helper path) -/
def fatGroups (tmpDir rootFs : Str) (rootEntries : List Str) (isJenkins : Bool) (existing : Str → Bool)
    (hostMounts : List HostMount) (user : Str) : List HArg :=
  [.opt 'S' tmpDir, .opt 'H' (strOf "bob"), .opt 'd' ('/' :: tmpStr)] ++
  rootEntries.map (fun f => .mount ⟨pathJoin rootFs f, '/' :: f, false⟩) ++
  hostMounts.flatMap (hostMountGroups (strOf (if isJenkins then "nojenkins" else "nolocal")) existing) ++
  (if user = strOf "root" then [.flag 'r'] else if user = strOf "$USER" then [.flag 'i'] else [])

/-- the part `Invoker.executeStep` appends: script, network, env file, own workspace, dependencies -/
def stepGroups (abs : Str → Str) (realScript execScript : Str) (netAccess : Bool) (envFile : Option Str)
    (wsStorage wsExec : Str) (depMounts : List (Str × Str)) : List HArg :=
  [.mount ⟨abs realScript, execScript, false⟩] ++
  (if netAccess then [] else [.flag 'n']) ++
  (match envFile with | some f => [.mount ⟨abs f, strOf "/bob/env", true⟩] | none => []) ++
  [.mount ⟨abs wsStorage, abs wsExec, true⟩, .opt 'W' (abs wsExec)] ++
  depMounts.map fun d => .mount ⟨abs d.1, abs d.2, false⟩

/-- options as `ParseCommandLine` of namespace-sandbox.c collects them -/
structure HelperOpts where
  root : Option Str := none
  workdir : Option Str := none
  dirs : List Str := []
  mounts : List Mount := []
  pending : Option Str := none         -- `-M` not yet followed by `-m`/`-w`
  flags : List Char := []
  host : Option Str := none
  cmd : List Str := []

/-- `AddMountSource(NULL, opt)`: a pending source is mounted at the same path, read-only -/
def HelperOpts.flush (o : HelperOpts) : HelperOpts :=
  match o.pending with
  | none => o
  | some s => { o with mounts := o.mounts ++ [⟨s, s, false⟩], pending := none }

inductive HelperErr | usage | unsupported
  deriving DecidableEq, Repr

def optLetter : Str → Option Char
  | ['-', c] => some c
  | _ => none

def isFlagOpt (c : Char) : Bool := c = 'i' || c = 'n' || c = 'r'

/-- one option with its argument (`case` bodies of the getopt switch) -/
def applyOpt (o : HelperOpts) (c : Char) (v : Str) : Except HelperErr HelperOpts :=
  if c = 'S' then (if o.root.isSome then .error .usage else .ok { o with root := some v })
  else if c = 'W' then (if o.workdir.isSome then .error .usage else .ok { o with workdir := some v })
  else if c = 'H' then .ok { o with host := some v }
  else if c = 'd' then (if !headIs (· = '/') v then .error .usage else .ok { o with dirs := o.dirs ++ [v] })
  else if c = 'M' then (if !headIs (· = '/') v then .error .usage else .ok { o.flush with pending := some v })
  else if c = 'm' || c = 'w' then
    (if !headIs (· = '/') v then .error .usage
     else match o.pending with
      | none => .error .usage
      | some s => .ok { o with mounts := o.mounts ++ [⟨s, v, c = 'w'⟩], pending := none })
  else .error .unsupported

/-- the getopt loop of `ParseCommandLine` for separately given option arguments (the only form Bob emits);
`--` ends the options, the rest is the command -/
def parseHelper : HelperOpts → List Str → Except HelperErr HelperOpts
  | o, [] => .ok o.flush
  | o, [a] =>
    match optLetter a with
    | none => .error .unsupported
    | some c =>
      if c = '-' then .ok o.flush
      else if isFlagOpt c then .ok { o with flags := o.flags ++ [c] }.flush
      else .error .usage
  | o, a :: v :: r =>
    match optLetter a with
    | none => .error .unsupported
    | some c =>
      if c = '-' then .ok { o.flush with cmd := v :: r }
      else if isFlagOpt c then parseHelper { o with flags := o.flags ++ [c] } (v :: r)
      else
        match applyOpt o c v with
        | .error e => .error e
        | .ok o1 => parseHelper o1 r

/-- path components -/
def comps (p : Str) : List Str := (splitOn '/' [] p).filter (!·.isEmpty)

/-- **mount contract of the helper** (assumed, not verified: the C program and the kernel): a path inside the
sandbox leads to the LAST mount whose target is a component prefix of it, at the corresponding place below the
mount's source, writable iff that mount was given with `-w`; a path covered by no mount lives in the
private, initially empty sandbox root (`-S`, a fresh temporary directory). -/
def resolve (mounts : List Mount) (p : Str) : Option (Mount × List Str) :=
  (mounts.reverse.find? fun m => (comps m.tgt).isPrefixOf (comps p)).map fun m =>
    (m, (comps p).drop (comps m.tgt).length)

end ShellEnv
