import BobModel.Model.Builder
import BobModel.Util.Proto
open Lean Proto Builder

namespace BuilderProto

/-
Stateful driver of the builder model (shared by C01 and C05).  The persistent state `St` lives
across requests, like `.bob-state.pickle` + the workspaces of one project directory.

requests
 {"op":"reset"}
 {"op":"invoke","cfg":{"force":b,"cleanBuild":b,"checkoutOnly":b,"noDeps":b,"attic":b},
  "steps":{id:{"kind":"checkout|build|package","tag":s,"path":s,"execPath":s,"pkg":s,"det":b,
               "hasScript":b,"scms":[[dir,digest]],"boLoc":s,"boUpd":s,"world":s,"fp":b,
               "pre":[id],"deps":[id]}},
  "root":id,"fuel":n|null,"junk":s,"fail":{tag:partial content},"stateful":[tag],"paths":[s],"dry":b}
reply
 {"ok":b,"log":[op],"state":{path:{"result":..,"inputs":..,"dir":..,"vid":..,"disk":..}}}

external functions of this instance: H = identity (injective), sem = the term
`tag[world](in1,in2,...)` (stateful tags also record the old content, failing tags return a
partial term), rmDir / hasDir work on `<dir>` markers inside the term.
-/

def kindOf : String → Kind
  | "checkout" => .checkout
  | "build" => .build
  | _ => .package

def kindName : Kind → String
  | .checkout => "checkout" | .build => "build" | .package => "package"

def pairList (j : Json) (k : String) : List (String × String) :=
  (getArr j k).filterMap fun x => match x with
    | .arr a => match a.toList with
      | [.str d, .str g] => some (d, g)
      | _ => none
    | _ => none

def infoOf (j : Json) : Info :=
  { sig := { kind := kindOf (getStr j "kind"), tag := getStr j "tag" },
    path := getStr j "path", execPath := getStr j "execPath", pkg := getStr j "pkg",
    det := getBool j "det", hasScript := getBool j "hasScript", scms := pairList j "scms",
    boLoc := getStr j "boLoc", boUpd := getStr j "boUpd", world := getStr j "world",
    fp := getBool j "fp" }

partial def stepOf (tbl : Json) (id : String) : Step :=
  let j := tbl.getObjValD id
  .mk (infoOf j) ((strList (j.getObjValD "pre")).map (stepOf tbl)) ((strList (j.getObjValD "deps")).map (stepOf tbl))

def replaceFirst (s pat rep : String) : String :=
  match s.splitOn pat with
  | [] => s
  | [x] => x
  | x :: rest => x ++ rep ++ pat.intercalate rest

def containsSub (s pat : String) : Bool := (s.splitOn pat).length > 1

def mkEnv (j : Json) : Env :=
  let failing := j.getObjValD "fail"
  let stateful := strList (j.getObjValD "stateful")
  { H := fun c => c,
    sem := fun sig world old ins =>
      let body := sig.tag ++ "[" ++ world ++ "]" ++ (if stateful.contains sig.tag then "{" ++ old ++ "}" else "")
        ++ "(" ++ ",".intercalate ins ++ ")"
      match failing.getObjVal? sig.tag with
      | .ok (.str partialC) => .fail partialC
      | _ => .ok body,
    junk := getStr j "junk",
    rmDir := fun d c => replaceFirst c ("<" ++ d ++ ">") "<~>",
    hasDir := fun c d => containsSub c ("<" ++ d ++ ">") }

def cfgOf (j : Json) : Cfg :=
  { force := getBool j "force", cleanBuild := getBool j "cleanBuild", checkoutOnly := getBool j "checkoutOnly",
    noDeps := getBool j "noDeps", attic := match j.getObjVal? "attic" with | .ok (.bool b) => b | _ => true }

partial def vidJson : Vid → Json
  | .mk s ds => Json.arr (#[Json.str (kindName s.kind ++ ":" ++ s.tag)] ++ (ds.map vidJson).toArray)

def rhJson : RH → Json
  | .hash h => Json.mkObj [("h", Json.str h)]
  | .forged t => Json.mkObj [("forged", Json.num t)]
  | .fp p => Json.mkObj [("fp", Json.str p)]

def optJson {α : Type} (f : α → Json) : Option α → Json
  | none => Json.null
  | some a => f a

def inputsJson (i : Inputs) : Json := Json.arr (i.map (optJson rhJson)).toArray

def scmsJson (l : List (Dir × Digest)) : Json :=
  Json.arr (l.map fun (d, g) => Json.arr #[Json.str d, Json.str g]).toArray

def dirJson : DirState → Json
  | .co s v b => Json.mkObj [("co", scmsJson s), ("vid", optJson vidJson v),
      ("bo", optJson (fun (b : BoState) => Json.arr #[Json.str b.loc, Json.str b.upd, inputsJson b.ins]) b)]
  | .build iv ps => Json.mkObj [("build", vidJson iv), ("paths", Json.arr (ps.map Json.str).toArray)]
  | .pkg v => Json.mkObj [("pkg", vidJson v)]

def opJson : Op → Json
  | .mkDir p => Json.mkObj [("op", "mkDir"), ("p", Json.str p)]
  | .reset p d => Json.mkObj [("op", "reset"), ("p", Json.str p), ("v", optJson dirJson d)]
  | .setDir p d => Json.mkObj [("op", "setDir"), ("p", Json.str p), ("v", dirJson d)]
  | .delInputs p => Json.mkObj [("op", "delInputs"), ("p", Json.str p)]
  | .setResult p r => Json.mkObj [("op", "setResult"), ("p", Json.str p), ("v", rhJson r)]
  | .setInputs p i => Json.mkObj [("op", "setInputs"), ("p", Json.str p), ("v", inputsJson i)]
  | .setVid p v => Json.mkObj [("op", "setVid"), ("p", Json.str p), ("v", vidJson v)]
  | .emptyDir p => Json.mkObj [("op", "emptyDir"), ("p", Json.str p)]
  | .scriptBegin p => Json.mkObj [("op", "scriptBegin"), ("p", Json.str p)]
  | .scriptEnd p ok => Json.mkObj [("op", "scriptEnd"), ("p", Json.str p), ("v", Json.bool ok)]
  | .atticMove p d => Json.mkObj [("op", "atticMove"), ("p", Json.str p), ("v", Json.str d)]
  | .setAttic p d => Json.mkObj [("op", "setAttic"), ("p", Json.str p), ("v", Json.str d)]

def stateJson (st : St) (paths : List String) : Json :=
  Json.mkObj (paths.map fun p => (p, Json.mkObj [
    ("result", optJson rhJson (st.results p)),
    ("inputs", optJson inputsJson (st.inputs p)),
    ("dir", optJson dirJson (st.dirStates p)),
    ("vid", optJson vidJson (st.variantIds p)),
    ("disk", optJson Json.str (st.disk p))]))

def allPaths (t : Step) : List String := ((subtrees t).map Step.path).eraseDups

def step (st : St) (j : Json) : St × Json :=
  match getStr j "op" with
  | "reset" => (St.init, Json.mkObj [("ok", Json.bool true)])
  | "invoke" =>
    let tbl := j.getObjValD "steps"
    let t := stepOf tbl (getStr j "root")
    let fuel := match j.getObjVal? "fuel" with
      | .ok (.num n) => n.mantissa.toNat
      | _ => 1000000
    let res := invoke (mkEnv j) (cfgOf (j.getObjValD "cfg")) t fuel st
    let paths := (allPaths t ++ strList (j.getObjValD "paths")).eraseDups
    ((if getBool j "dry" then st else res.st),
     Json.mkObj [("ok", Json.bool res.isOk), ("log", Json.arr (res.log.map opJson).toArray),
                 ("state", stateJson res.st paths)])
  | "vid" =>
    let tbl := j.getObjValD "steps"
    (st, vidJson (vid (stepOf tbl (getStr j "root"))))
  | _ => (st, err "bad-op")

def drvMain : IO Unit := run St St.init step

end BuilderProto
