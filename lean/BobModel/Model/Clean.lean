import BobModel.Model.Dirs
/-
Model of `pym/bob/cmds/build/clean.py` (`collectPaths`, `doClean` for the modes develop,
release and attic; `--shared` belongs to C15) and of the two places of `pym/bob/builder.py`
that decide whether an existing workspace is emptied before it is used (`_cookBuildStep`,
`_preparePackageStep`; minimal local model of the decision only, the full builder model is C01's).

External facts are parameters of the model:
* the package graph of the current recipes (`Graph`): per package the three steps with
  `isValid()`, `getWorkspacePath()` (`none` = the release interrogator does not know the step)
  and `getVariantId()`, and `getDirectDepSteps()` as package ids;
* `BobState()`: `getDirectories()/getDirectoryState` (`states`), `getAllNameDirectores()`
  (`byName`), `getAtticDirectories()` (`attic`);
* the file system: the paths for which `os.path.exists` holds (`existing`);
* the SCM status: the source workspaces for which `checkRegularSource` / `checkAtticSource`
  return `True` (`expendable`, `atticExpendable`).
-/
namespace BobClean
open BobDirs (Str pjoin lookup)

abbrev Vid := Str

/-- what `BobState().getDirectoryState(path, False)` holds: a `dict` for checkout workspaces, a
`list` whose first entry is the (incremental) variant id for build workspaces, the variant id
`bytes` for package workspaces -/
inductive DirState
  | src
  | build (vid0 : Vid)
  | pkg (vid : Vid)
  deriving DecidableEq, Repr

structure Step where
  valid : Bool
  path : Option Str
  vid : Vid
  deriving Repr

structure Pkg where
  id : Nat
  checkout : Step
  build : Step
  package : Step
  deps : List Nat
  deriving Repr

abbrev Graph := List Pkg
abbrev States := List (Str × DirState)

def Graph.get (g : Graph) (i : Nat) : Option Pkg := g.find? (fun p => p.id == i)

/-- `(state is None) or (buildStep.getVariantId() == state[0])`.  A `bytes` state gives an `int`
for `state[0]`, which never equals the variant id.  (A `dict` state would raise `KeyError`; the
label is part of every workspace path, so a build path never carries a checkout state.) -/
def buildUsed (st : States) (s : Step) (p : Str) : Bool :=
  match lookup st p with
  | none => true
  | some (.build v) => decide (s.vid = v)
  | some _ => false

/-- `(state is None) or (packageStep.getVariantId() == state)` -/
def pkgUsed (st : States) (s : Step) (p : Str) : Bool :=
  match lookup st p with
  | none => true
  | some (.pkg v) => decide (s.vid = v)
  | some _ => false

/-- the paths that one visit of `walk` adds.  A `None` path (release interrogator) is added to
the set by the implementation too but can never be equal to a directory name. -/
def pathsOf (st : States) (p : Pkg) : List Str :=
  (if p.checkout.valid then p.checkout.path.toList else [])
  ++ (if p.build.valid then
        match p.build.path with
        | some q => if buildUsed st p.build q then [q] else []
        | none => []
      else [])
  ++ (match p.package.path with
      | some q => if pkgUsed st p.package q then [q] else []
      | none => [])

/-- `walk(package)` of `collectPaths`; the accumulator is `(done, paths)`.  Recursion depth is
bounded by fuel (`none` = out of fuel, Python: RecursionError). -/
def walk (g : Graph) (st : States) : Nat → (List Nat × List Str) → Nat → Option (List Nat × List Str)
  | fuel, acc, i =>
    if acc.1.contains i then some acc
    else match fuel with
      | 0 => none
      | f + 1 =>
        match g.get i with
        | none => some (i :: acc.1, acc.2)
        | some p =>
          p.deps.foldlM (fun a d => walk g st f a d) (i :: acc.1, acc.2 ++ pathsOf st p)

def collectPaths (g : Graph) (st : States) (fuel : Nat) (root : Nat) : Option (List Str) :=
  (walk g st fuel ([], []) root).map (·.2)

inductive Mode
  | develop | release | attic
  deriving DecidableEq, Repr

structure Opts where
  mode : Mode
  src : Bool
  force : Bool
  dryRun : Bool
  verbose : Bool
  deriving Repr

structure World where
  states : States
  byName : List (Str × Bool)
  attic : List Str
  existing : List Str
  expendable : List Str
  atticExpendable : List Str
  deriving Repr

def workspace : Str := Consts.C16.workspaceName

/-- `allPaths`: the known directories of the selected mode with their `isSourceDir` flag -/
def allPaths (o : Opts) (w : World) : List (Str × Bool) :=
  match o.mode with
  | .release => w.byName.map fun d => (pjoin d.1 workspace, d.2)
  | .develop =>
    let releasePaths := w.byName.map fun d => pjoin d.1 workspace
    (w.states.filter fun d => !releasePaths.contains d.1).map fun d =>
      (d.1, match d.2 with | .src => true | _ => false)
  | .attic => []

/-- the source workspace policy `mayClean` -/
def mayClean (o : Opts) (w : World) (d : Str) : Bool :=
  if o.src then (if o.force then true else w.expendable.contains d) else false

/-- code point order of Python `str` -/
def leStr : Str → Str → Bool
  | [], _ => true
  | _ :: _, [] => false
  | a :: as, b :: bs =>
    if a.val < b.val then true else if b.val < a.val then false else leStr as bs

/-- `delPaths` before sorting -/
def delCandidates (o : Opts) (w : World) (used : List Str) : List Str :=
  match o.mode with
  | .attic =>
    w.attic.filter fun d => w.existing.contains d && (o.force || w.atticExpendable.contains d)
  | _ =>
    ((allPaths o w).filter fun d =>
      !used.contains d.1 && w.existing.contains d.1 && (!d.2 || mayClean o w d.1)).map (·.1)

/-- `sorted(...)` (insertion sort; equal strings are indistinguishable, so stability is irrelevant) -/
def insertSorted (a : Str) : List Str → List Str
  | [] => [a]
  | b :: r => if leStr a b then a :: b :: r else b :: insertSorted a r

def sortStr (l : List Str) : List Str := l.foldr insertSorted []

def delPaths (o : Opts) (w : World) (used : List Str) : List Str :=
  sortStr (delCandidates o w used)

inductive Op
  | print (d : Str)
  | rm (d : Str)
  | delState (d : Str)
  | delAttic (d : Str)
  deriving DecidableEq, Repr

/-- the body of `for d in delPaths:` -/
def delOps (o : Opts) (d : Str) : List Op :=
  (if o.verbose || o.dryRun then [Op.print d] else [])
  ++ (if !o.dryRun then
        [Op.rm d, if o.mode = .attic then Op.delAttic d else Op.delState d]
      else [])

/-- "cleanup BobState() of non-existent directories"; `os.path.exists` is evaluated after the
removals (workspaces are assumed not to be nested in each other) -/
def sweepOps (o : Opts) (w : World) (del : List Str) : List Op :=
  if o.dryRun then []
  else
    let gone := fun d => !(w.existing.contains d && !del.contains d)
    let dirs := if o.mode = .attic then w.states.map (·.1)
                else (w.states.map (·.1)).filter fun d => !del.contains d
    let attic := if o.mode = .attic then w.attic.filter fun d => !del.contains d else w.attic
    (dirs.filter gone).map Op.delState ++ (attic.filter gone).map Op.delAttic

def cleanOps (o : Opts) (w : World) (del : List Str) : List Op :=
  del.flatMap (delOps o) ++ sweepOps o w del

def applyOp (w : World) : Op → World
  | .print _ => w
  | .rm d => { w with existing := w.existing.filter fun x => x != d }
  | .delState d => { w with states := w.states.filter fun x => x.1 != d }
  | .delAttic d => { w with attic := w.attic.filter fun x => x != d }

structure Result where
  used : List Str
  del : List Str
  ops : List Op
  world : World
  deriving Repr

/-- `doClean` for `--develop`, `--release`, `--attic` -/
def doClean (o : Opts) (w : World) (g : Graph) (fuel root : Nat) : Option Result :=
  let used? := if o.mode = .attic then some [] else collectPaths g w.states fuel root
  match used? with
  | none => none
  | some used =>
    let del := delPaths o w used
    let ops := cleanOps o w del
    some { used := used, del := del, ops := ops, world := ops.foldl applyOp w }

/-! ### the prune decision of the builder (minimal local model) -/

inductive PrepOp (σ : Type)
  | invalidate
  | unlink
  | emptyDir
  | resetState (d : σ)
  | run
  | skip
  deriving DecidableEq, Repr

/-- `_cookBuildStep` from "get directory into shape" to the decision whether the script runs.
`created`: `_constructDir` had to create the directory; `present`: `os.path.exists`;
`old`/`new`: stored and current build digest; `storedInputs`/`inputs`: `getInputHashes` and the
current input hashes (`resetWorkspaceState` deletes the stored ones).  `invalidate` is the
`resetWorkspaceState(path, None)` that precedes every prune (an interrupted prune is repeated). -/
def cookBuild [DecidableEq σ] [DecidableEq ι] (created present force : Bool) (old : Option σ) (new : σ)
    (storedInputs : Option ι) (inputs : ι) : List (PrepOp σ) :=
  let reset := created || decide (old ≠ some new)
  let prep := if reset then
      (if !created && present then [PrepOp.invalidate, PrepOp.emptyDir] else []) ++ [PrepOp.resetState new]
    else []
  let stored := if reset then none else storedInputs
  prep ++ [if !force && decide (stored = some inputs) then PrepOp.skip else PrepOp.run]

/-- `_preparePackageStep`: `there` = `os.path.lexists`, `fileOrLink` = symlink or file left by a
shared package -/
def preparePackage [DecidableEq σ] (there fileOrLink : Bool) (old : Option σ) (new : σ) : List (PrepOp σ) :=
  let prune := there && decide (old ≠ some new)
  (if prune then [PrepOp.invalidate, if fileOrLink then PrepOp.unlink else PrepOp.emptyDir] else [])
  ++ (if prune || !there then [PrepOp.resetState new] else [])

end BobClean
