import BobModel.Model.Sched
/-
Executable forms of the invariants and trace properties of the scheduler model that `Props/C06.lean`
proves.  They are evaluated by the correspondence driver after every step of every replayed and every
randomly explored schedule (a cheap guard against stating something that is not inductive, and a second
tie between the statements and the implementation traces); the theorems themselves are in Props/.
-/
namespace Sched
open JobSem

/-- does the continuation currently own a job slot?  Decided by the next token operation. -/
def holdsTok : List Op → Bool
  | [] => false
  | .release :: _ => true
  | .yieldRel _ _ :: _ => true
  | .start :: _ => false
  | .startWait :: _ => false
  | .reacq :: _ => false
  | .reacqWait :: _ => false
  | _ :: r => holdsTok r

/-- operations that are only executed while the task owns a job slot -/
def Op.needsTok : Op → Bool
  | .cook _ _ | .spawn _ _ _ | .spawnSeq _ _ _ _ | .cookBody _ _ | .lock _ _ _ | .lockWait _ _ _
  | .underLock _ _ | .bidSingle _ | .run _ | .runWait _ _ => true
  | _ => false

/-- acquire / release brackets of a continuation are balanced; `h` = a slot is owned at its beginning -/
def wf : Bool → List Op → Bool
  | h, [] => !h
  | h, .start :: r => !h && wf false r
  | h, .startWait :: r => !h && wf false r
  | h, .release :: r => h && wf false r
  | h, .yieldRel _ _ :: r => h && wf true r
  | h, .reacq :: r => !h && wf true r
  | h, .reacqWait :: r => !h && wf true r
  | h, .wrapEnd :: r => !h && r.isEmpty
  | h, op :: r => (!op.needsTok || h) && wf h r

/-- operations that stand for a suspended `await` (they only occur at the head of a continuation) -/
def Op.isWait : Op → Bool
  | .startWait | .reacqWait | .lockWait _ _ _ | .runWait _ _ => true
  | _ => false

def noWait (ops : List Op) : Bool := ops.all fun o => !o.isWait

def Task.wf (x : Task) : Bool := Sched.wf (holdsTok x.ops) x.ops && noWait x.ops.tail

def Op.isTokWait : Op → Bool
  | .startWait | .reacqWait => true
  | _ => false

/-- number of pending `await runners.acquire()` of the task (0 or 1) -/
def Task.waitingTok (x : Task) : Nat := (x.ops.filter Op.isTokWait).length

def Op.isRunWait : Op → Bool
  | .runWait _ _ => true
  | _ => false

/-- number of scripts of the task between "started" and "the task noticed the end" (0 or 1) -/
def Task.scriptRunning (x : Task) : Nat := (x.ops.filter Op.isRunWait).length

def Task.holds (x : Task) : Nat := if holdsTok x.ops then 1 else 0

/-- sum of a per-task quantity -/
def tsum (f : Task → Nat) (st : St) : Nat := (st.tasks.map f).sum

def holders (st : St) : Nat := tsum Task.holds st

def waiting (st : St) : Nat := tsum Task.waitingTok st

def scriptsRunning (st : St) : Nat := tsum Task.scriptRunning st

/-- invariant of the job server semaphore; `n` = tokens that circulate (pipe, `__tokens`, child makes).
In recursive mode the first owner runs on the implicit slot of the parent `make`. -/
def semInv (n : Nat) (s : JobSem.St) : Bool :=
  s.pipe + s.tokens + s.envHeld == n &&
  s.tokens + (if s.recursive && decide (0 < s.acquired) then 1 else 0) == s.acquired &&
  s.waitersCnt == notDone s.sem.waiters &&
  s.sem.value == 0 &&
  (s.reader == decide (s.waitersCnt > 0)) &&
  (!s.recursive || s.waitersCnt == 0 || decide (0 < s.acquired))

/-- the job slot accounting of a configuration: `n` = number of circulating tokens resp. the bound -/
def tokInv (n : Nat) (st : St) : Bool :=
  st.tasks.all Task.wf &&
  match st.runners with
  | .job s => semInv n s && s.acquired == holders st + inflight s.sem.waiters && s.sem.waiters.length == waiting st
  | .bounded s b => b == n && s.value + holders st + inflight s.waiters == b && s.waiters.length == waiting st

/-- number of job slots: tokens plus the implicit slot in recursive mode -/
def capacity (n : Nat) (st : St) : Nat :=
  match st.runners with
  | .job s => if s.recursive then n + 1 else n
  | .bounded _ b => b

def runningBound (n : Nat) (st : St) : Bool := scriptsRunning st ≤ capacity n st

/-! ### workspace locks -/

def Op.isUnlock (p : Nat) : Op → Bool
  | .unlock q => q == p
  | _ => false

def Task.unlocks (p : Nat) (x : Task) : Nat := (x.ops.filter (Op.isUnlock p)).length

def lockHolders (p : Nat) (st : St) : Nat := tsum (Task.unlocks p) st

def Op.isLockWait (P : Project) (p : Nat) : Op → Bool
  | .lockWait s _ _ => (P.info s).path == p
  | _ => false

def Task.waitingLock (P : Project) (p : Nat) (x : Task) : Nat := (x.ops.filter (Op.isLockWait P p)).length

/-- the asyncio.Lock of workspace `p`: locked iff exactly one task is inside `async with`, at most one
waiter has been woken and then nobody is inside; the waiters are exactly the tasks blocked in `acquire` -/
def lockInvAt (P : Project) (st : St) (p : Nat) : Bool :=
  let l := st.lockOf p
  let h := lockHolders p st
  let i := inflight l.waiters
  (if l.locked then h == 1 && i == 0 else h == 0 && i ≤ 1) &&
  l.waiters.length == tsum (Task.waitingLock P p) st

def Op.section? (P : Project) : Op → Option Nat
  | .run s => some (P.info s).path
  | .runWait s _ => some (P.info s).path
  | .underLock s _ => some (P.info s).path
  | .setRun s _ => some (P.info s).path
  | _ => none

/-- a script is started, runs or is recorded as run only inside the lock of its workspace: every operation of
a lock section is followed by the `unlock` of its workspace -/
def underLockOK (P : Project) : List Op → Bool
  | [] => true
  | o :: r => (match o.section? P with | some p => r.contains (.unlock p) | none => true) && underLockOK P r

def runUnderLock (P : Project) (x : Task) : Bool := underLockOK P x.ops

def allPaths (P : Project) : List Nat := (P.steps.map (·.path)).eraseDups

def lockInv (P : Project) (st : St) : Bool :=
  (allPaths P).all (lockInvAt P st) && st.tasks.all (runUnderLock P)

/-! ### trace properties -/

inductive WsStatus | idle | running | ok | failed
  deriving DecidableEq, Repr

/-- per workspace: executions do not overlap, and a workspace is started again only after a failed execution -/
def legalFrom (P : Project) (p : Nat) : WsStatus → List Ev → Bool
  | _, [] => true
  | s, .start _ x :: r =>
    if (P.info x).path == p then (s == .idle || s == .failed) && legalFrom P p .running r else legalFrom P p s r
  | s, .fin _ x ok :: r =>
    if (P.info x).path == p then s == .running && legalFrom P p (if ok then .ok else .failed) r else legalFrom P p s r
  | s, _ :: r => legalFrom P p s r

def onceLegal (P : Project) (st : St) : Bool := (allPaths P).all fun p => legalFrom P p .idle st.trace

def finishedOk (P : Project) (tr : List Ev) (p : Nat) : Bool :=
  tr.any fun e => match e with
    | .fin _ x true => (P.info x).path == p
    | _ => false

/-- every script start is preceded by the successful end of the scripts of all valid dependencies -/
def depsFirstFrom (P : Project) : List Ev → List Ev → Bool
  | _, [] => true
  | pre, e :: r =>
    (match e with
     | .start _ s => (P.info s).deps.all fun d => !(P.info d).valid || finishedOk P pre (P.info d).path
     | _ => true) && depsFirstFrom P (pre ++ [e]) r

def depsFirst (P : Project) (st : St) : Bool := depsFirstFrom P [] st.trace

/-- without keep-going nobody passes a `running` check after the first recorded failure -/
def noPassAfterFail : Bool → List Ev → Bool
  | _, [] => true
  | failed, .failRec _ :: r => noPassAfterFail true r
  | failed, .pass _ :: r => !failed && noPassAfterFail failed r
  | failed, _ :: r => noPassAfterFail failed r

def failureInv (cfg : Cfg) (st : St) : Bool :=
  cfg.keepGoing || (noPassAfterFail false st.trace &&
    (!(st.trace.any fun e => match e with | .failRec _ => true | _ => false) || !st.running))

/-! ### dataflow -/

/-- the value every step has in a sequential build: `run s (values of its inputs)` -/
def value (P : Project) : Nat → Nat → Nat
  | 0, _ => 0
  | fuel + 1, s =>
    P.run s ((P.info s).bidDeps.map fun d => value P fuel d)

def valueInv (P : Project) (st : St) : Bool :=
  let n := P.steps.length + 1
  st.trace.all fun e => match e with
    | .fin _ s true => st.diskAt (P.info s).path == value P n s
    | _ => true

def wasRunOk (P : Project) (st : St) (s : Nat) (co : Bool) : Bool :=
  match lookup (P.info s).path st.wasRun with
  | some (v, sk) => v == (P.info s).vid && (co || !sk)
  | none => false

/-- a cook task that ended without an exception has cooked its (valid) step -/
def doneInv (P : Project) (st : St) : Bool :=
  st.tasks.all fun x =>
    !(x.ops.isEmpty && x.err.isNone) ||
    (match x.kind with
     | .cook s co => !(P.info s).valid || wasRunOk P st s co
     | _ => true)

def allDone (st : St) : Bool := st.tasks.all Task.done

/-- terminal configuration of a build: everything is given back -/
def terminalInv (n : Nat) (st : St) : Bool :=
  !allDone st ||
  (match st.runners with
   | .job s => s.acquired == 0 && s.tokens == 0 && s.pipe + s.envHeld == n
   | .bounded s b => s.value == b) &&
  st.locks.all fun (_, l) => !l.locked && l.waiters.isEmpty

def checkAll (P : Project) (cfg : Cfg) (n : Nat) (st : St) : List String :=
  (if tokInv n st then [] else ["tokInv"]) ++
  (if runningBound n st then [] else ["runningBound"]) ++
  (if lockInv P st then [] else ["lockInv"]) ++
  (if onceLegal P st then [] else ["onceLegal"]) ++
  (if depsFirst P st then [] else ["depsFirst"]) ++
  (if failureInv cfg st then [] else ["failureInv"]) ++
  (if valueInv P st then [] else ["valueInv"]) ++
  (if doneInv P st then [] else ["doneInv"]) ++
  (if terminalInv n st then [] else ["terminalInv"])

end Sched
