/-
Model of the directory level logic of `LocalBuilder._cookCheckoutStep` (pym/bob/builder.py):
old directory state vs. new SCM list, `checkoutsFromState` order, `AtticTracker`, the
`--clean-checkout` invalidation, the switch-or-attic loop, `attic disabled ⇒ error`, the
collision check for new checkouts, the order of directory state writes and the following
run of the SCMs (`Invoker.executeStep`), plus `bob clean -s` / `bob clean --attic`
(pym/bob/cmds/build/clean.py).

The file system is abstract: a list of SCM directories (workspace or attic location) with a
content of type `κ`.  What an SCM does to a content (`switch`, `invoke`, `status`) is the
parameter `ScmSem`; for git it is instantiated with `Model/GitSwitch.lean` by the driver.
Every change of the file system goes through `emit`/`emitSet`, so the micro-op list is
complete by construction (`Props/C12.lean: fs_is_replay`).

(Findings F-C12-1/2/3, fixed in the source: nested SCMs of an SCM in "." are registered in the attic,
`bob clean --attic` consults the nested registrations below a candidate, and `checkoutsFromState`
orders by path components so that a directory always comes before the directories below it.)
-/
namespace Checkout

/-! ## paths -/

abbrev Comps := List String

/-- `os.path.normpath` of a relative POSIX path, as components ("." = []) -/
def normAux : List String → List String → List String
  | [], acc => acc.reverse
  | c :: rest, acc =>
    if c == "" || c == "." then normAux rest acc
    else if c == ".." then
      match acc with
      | [] => normAux rest [".."]
      | a :: acc' => if a == ".." then normAux rest (".." :: a :: acc') else normAux rest acc'
    else normAux rest (c :: acc)

def normComps (dir : String) : Comps := normAux (dir.splitOn "/") []

/-- code point order of Python strings -/
def lexLe : List Char → List Char → Bool
  | [], _ => true
  | _ :: _, [] => false
  | a :: as, b :: bs => if a.toNat < b.toNat then true else if b.toNat < a.toNat then false else lexLe as bs

def isPrefix : Comps → Comps → Bool
  | [], _ => true
  | _ :: _, [] => false
  | a :: as, b :: bs => a == b && isPrefix as bs

/-! ## state -/

abbrev Digest := String

/-- location of a directory: in the workspace, or inside attic directory number `n` -/
inductive Loc
  | ws (p : Comps)
  | attic (n : Nat) (p : Comps)
  deriving DecidableEq, Repr

/-- `l` is `base` or below it -/
def Loc.under : Loc → Loc → Bool
  | .ws p, .ws b => isPrefix b p
  | .attic n p, .attic m b => n == m && isPrefix b p
  | _, _ => false

structure OldEntry (σ : Type) where
  dir : String
  digest : Option Digest      -- `none`: invalidated by --clean-checkout (`False` in the code)
  spec : Option σ             -- `None` in projects of old Bob versions
  deriving Repr

structure NewEntry (σ : Type) where
  dir : String
  digest : Digest
  spec : σ
  deriving Repr

/-- what the SCM kinds do; everything external to the builder -/
structure ScmSem (σ κ : Type) where
  canSwitch : σ → σ → Bool                      -- old new ↦ new.canSwitch(old)
  switch : σ → σ → κ → κ × Bool                 -- old new content ↦ content', success
  invoke : σ → Option κ → κ × Bool              -- `none`: nothing of this SCM exists at the path
  dirty : σ → Option κ → Bool                   -- status(...).dirty for --clean-checkout (`none`: no checkout there)
  expendable : σ → Option κ → Bool              -- status(...).expendable for bob clean
  prunes : σ → Bool                             -- import SCM with prune: empties the directory first

inductive Op (σ : Type)
  | scmSwitch (p : Comps) (ok : Bool)
  | moveToAttic (p : Comps) (n : Nat)            -- os.rename(workspace/p, attic/<n>)
  | regAttic (n : Nat) (sub : Comps) (spec : Option σ)
  | setDirState (dirs : List String)
  | invoke (p : Comps) (fresh : Bool) (ok : Bool)
  | emptyDir (p : Comps)                         -- import SCM with prune
  | rmAttic (n : Nat) (sub : Comps)              -- bob clean --attic
  | rmWorkspace                                  -- bob clean -s
  deriving Repr

inductive Err
  | atticDisabled (dir : String)
  | collides (dir : String)
  | scmFailed (dir : String)
  deriving DecidableEq, Repr

structure St (σ κ : Type) where
  fs : List (Loc × κ)                       -- SCM directories that exist
  plain : List Comps                        -- other existing paths in the workspace (leftover parents, user files)
  wsMissing : Bool                          -- the workspace directory itself does not exist
  old : List (OldEntry σ)                   -- persisted directory state of the workspace
  atticReg : List ((Nat × Comps) × Option σ)     -- persisted attic registry
  nextAttic : Nat                           -- fresh attic names
  ops : List (Op σ)                         -- micro-op log (newest first)
  complete : Bool := false                  -- the last run of the step finished (the state holds its variant id)

variable {σ κ : Type}

/-- the location is `workspace/p` or below it -/
def wsUnder (p : Comps) : Loc → Bool
  | .ws q => isPrefix p q
  | _ => false

/-- `os.path.exists(workspace/p)` -/
def existsWs (st : St σ κ) (p : Comps) : Bool :=
  !st.wsMissing &&
  (p.isEmpty || st.fs.any (fun e => wsUnder p e.1) || st.plain.any (fun q => isPrefix p q))

def moveLoc (p : Comps) (n : Nat) : Loc → Loc
  | .ws q => if isPrefix p q then .attic n (q.drop p.length) else .ws q
  | l => l

/-- effect of a micro-op on the set of directories (contents are changed by `emitSet`) -/
def applyOp (fs : List (Loc × κ)) : Op σ → List (Loc × κ)
  | .moveToAttic p n => fs.map (fun e => (moveLoc p n e.1, e.2))
  | .emptyDir p => fs.filter (fun e => !(e.1.under (.ws p) && e.1 != .ws p))
  | .rmAttic n sub => fs.filter (fun e => !e.1.under (.attic n sub))
  | .rmWorkspace => fs.filter (fun e => match e.1 with | .ws _ => false | _ => true)
  | _ => fs

/-- replace the content of the (first) entry at `l`, or add one -/
def setContent : List (Loc × κ) → Loc → κ → List (Loc × κ)
  | [], l, k => [(l, k)]
  | e :: rest, l, k => if e.1 == l then (l, k) :: rest else e :: setContent rest l k

def contentAt (fs : List (Loc × κ)) (l : Loc) : Option κ :=
  (fs.find? (fun e => e.1 == l)).map (·.2)

/-- log a micro-op and apply it to the file system -/
def emit (op : Op σ) (st : St σ κ) : St σ κ :=
  { st with fs := applyOp st.fs op, ops := op :: st.ops }

/-- log an SCM run (`scmSwitch` / `invoke`) that leaves content `k` at workspace path `p` -/
def emitSet (op : Op σ) (p : Comps) (k : κ) (st : St σ κ) : St σ κ :=
  { st with fs := setContent st.fs (.ws p) k, ops := op :: st.ops }

/-! ## checkoutsFromState and AtticTracker -/

/-- order of Python lists of strings: the sort key of `checkoutsFromState` is the list of path
components of `normcase(normpath(dir))`, `[]` for "." -/
def compsLe : Comps → Comps → Bool
  | [], _ => true
  | _ :: _, [] => false
  | a :: as, b :: bs => if a == b then compsLe as bs else lexLe a.toList b.toList

def sortedOld (old : List (OldEntry σ)) : List (OldEntry σ) :=
  old.mergeSort (fun a b => compsLe (normComps a.dir) (normComps b.dir))

def sortedNewDirs (new : List (NewEntry σ)) : List String :=
  (new.map (·.dir)).mergeSort (fun a b => compsLe (normComps a) (normComps b))

/-- `AtticTracker.__match`: first registered prefix in insertion order -/
def trackerMatch (tr : List (Comps × Nat)) (p : Comps) : Option (Comps × Nat) :=
  tr.find? (fun e => isPrefix e.1 p)

/-- `AtticTracker.add` (dict insertion order) -/
def trackerAdd (tr : List (Comps × Nat)) (p : Comps) (n : Nat) : List (Comps × Nat) :=
  if tr.any (fun e => e.1 == p) then tr.map (fun e => if e.1 == p then (p, n) else e) else tr ++ [(p, n)]

def eraseDir (old : List (OldEntry σ)) (dir : String) : List (OldEntry σ) :=
  old.filter (fun e => e.dir != dir)

def asOld (n : NewEntry σ) : OldEntry σ := { dir := n.dir, digest := some n.digest, spec := some n.spec }

def setOld (old : List (OldEntry σ)) (n : NewEntry σ) : List (OldEntry σ) :=
  if old.any (fun e => e.dir == n.dir) then old.map (fun e => if e.dir == n.dir then asOld n else e)
  else old ++ [asOld n]

def findNew (new : List (NewEntry σ)) (dir : String) : Option (NewEntry σ) :=
  new.find? (fun n => n.dir == dir)

def setReg (reg : List ((Nat × Comps) × Option σ)) (k : Nat × Comps) (s : Option σ) :
    List ((Nat × Comps) × Option σ) :=
  if reg.any (fun e => e.1 == k) then reg.map (fun e => if e.1 == k then (k, s) else e) else reg ++ [(k, s)]

/-- `BobState().setDirectoryState(prettySrcPath, oldCheckoutState)` -/
def persist (st : St σ κ) : St σ κ :=
  emit (.setDirState (st.old.map (·.dir))) st

/-- drop an entry from the old state and persist -/
def dropOld (dir : String) (st : St σ κ) : St σ κ :=
  persist { st with old := eraseDir st.old dir }

/-- `--clean-checkout`: invalidate the digest of dirty SCMs whose recipe did not change -/
def cleanInvalidate (sem : ScmSem σ κ) (new : List (NewEntry σ)) (st : St σ κ) : St σ κ :=
  { st with old := st.old.map (fun e =>
      match findNew new e.dir with
      | none => e
      | some n =>
        if e.digest == some n.digest && existsWs st (normComps e.dir) &&
           sem.dirty n.spec (contentAt st.fs (.ws (normComps e.dir)))
        then { e with digest := none } else e) }

/-- the inline switch attempt for entry `e` at path `p` -/
def trySwitch (sem : ScmSem σ κ) (new : List (NewEntry σ)) (e : OldEntry σ) (p : Comps) (st : St σ κ) :
    St σ κ × Bool :=
  match findNew new e.dir with
  | none => (st, false)
  | some n =>
    match e.spec with
    | none => (st, false)
    | some os =>
      if e.digest.isSome && sem.canSwitch os n.spec && existsWs st p then
        match contentAt st.fs (.ws p) with
        | some k => (emitSet (.scmSwitch p (sem.switch os n.spec k).2) p (sem.switch os n.spec k).1 st,
                     (sem.switch os n.spec k).2)
        | none => (emit (.scmSwitch p false) st, false)       -- no checkout of the SCM there: git fails
      else (st, false)

/-- move workspace path `p` to a fresh attic directory and register it -/
def moveAway (e : OldEntry σ) (p : Comps) (st : St σ κ) : St σ κ :=
  let n := st.nextAttic
  let st1 := emit (.moveToAttic p n)
    { st with nextAttic := n + 1, wsMissing := st.wsMissing || p.isEmpty,
              plain := (st.plain.filter (fun q => !isPrefix p q)) ++ (if p.length ≤ 1 then [] else [p.dropLast]) }
  emit (.regAttic n [] e.spec) { st1 with atticReg := setReg st1.atticReg (n, []) e.spec }

/-- `scmDigest == checkoutState.get(scmDir, (None, None))[0]`; an invalidated digest (`False`)
equals nothing, not even a missing new entry (`None`) -/
def unchanged (new : List (NewEntry σ)) (e : OldEntry σ) : Bool :=
  match e.digest, findNew new e.dir with
  | some d, some n => d == n.digest
  | _, _ => false

/-- "Invalidate first": before a changed SCM directory is switched or moved its stored digest is set
to `False` and the state is persisted (a kill in between must not leave a trusted entry) -/
def invalidate (e : OldEntry σ) (st : St σ κ) : St σ κ :=
  if e.digest.isSome then
    persist { st with old := st.old.map (fun o => if o.dir == e.dir then { o with digest := none } else o) }
  else st

/-- a changed SCM directory: switch inline, or move to the attic, or just drop the state entry -/
def changedStep (sem : ScmSem σ κ) (atticEnabled : Bool) (new : List (NewEntry σ))
    (st : St σ κ) (tr : List (Comps × Nat)) (e : OldEntry σ) : Except Err (St σ κ × List (Comps × Nat)) :=
  let p := normComps e.dir
  let sw := trySwitch sem new e p st
  if sw.2 then
    match findNew new e.dir with
    | some n => .ok (persist { sw.1 with old := setOld sw.1.old n }, tr)
    | none => .ok (sw.1, tr)
  else if existsWs sw.1 p then
    if !atticEnabled then .error (.atticDisabled e.dir)
    else .ok (dropOld e.dir (moveAway e p sw.1), trackerAdd tr p sw.1.nextAttic)
  else
    .ok (dropOld e.dir sw.1, tr)

/-- one iteration of the switch-or-attic loop for the (snapshot) entry `e` -/
def loopStep (sem : ScmSem σ κ) (atticEnabled : Bool) (new : List (NewEntry σ))
    (st : St σ κ) (tr : List (Comps × Nat)) (e : OldEntry σ) : Except Err (St σ κ × List (Comps × Nat)) :=
  let p := normComps e.dir
  match trackerMatch tr p with
  | some (q, n) =>
    -- an SCM above was moved to the attic: nested SCMs went with it
    let sub := p.drop q.length
    -- `os.path.exists(atticPath)`: the nested directory went along with its parent
    let vis := st.fs.any (fun x => x.1.under (.attic n sub))
    let st1 := if vis then emit (.regAttic n sub e.spec) { st with atticReg := setReg st.atticReg (n, sub) e.spec }
               else st
    .ok (dropOld e.dir st1, tr)
  | none =>
    if unchanged new e then .ok (st, tr)        -- digest unchanged: keep
    else changedStep sem atticEnabled new (invalidate e st) tr e

/-- the whole loop over the snapshot; on error the state reached so far is returned -/
def loopAll (sem : ScmSem σ κ) (atticEnabled : Bool) (new : List (NewEntry σ)) :
    List (OldEntry σ) → St σ κ → List (Comps × Nat) → St σ κ × Option Err
  | [], st, _ => (st, none)
  | e :: rest, st, tr =>
    match loopStep sem atticEnabled new st tr e with
    -- the only error (attic disabled) is raised after the invalidation and the switch attempt
    | .error x => ((trySwitch sem new e (normComps e.dir) (invalidate e st)).1, some x)
    | .ok (st', tr') => loopAll sem atticEnabled new rest st' tr'

/-- collision check for new checkouts: first colliding directory in sorted order -/
def collision (new : List (NewEntry σ)) (st : St σ κ) : Option String :=
  (sortedNewDirs new).find? (fun d =>
    d != "." && !st.old.any (fun e => e.dir == d) && existsWs st (normComps d))

/-- run one SCM of the checkout step (`scm.invoke`) -/
def runScm (sem : ScmSem σ κ) (n : NewEntry σ) (st : St σ κ) : St σ κ × Bool :=
  let p := normComps n.dir
  let st := { st with wsMissing := false }      -- the workspace / the SCM directory is (re)created
  let st := if sem.prunes n.spec then
      emit (.emptyDir p) { st with plain := st.plain.filter (fun q => !(isPrefix p q && q != p)) } else st
  let cur := contentAt st.fs (.ws p)
  (emitSet (.invoke p cur.isNone (sem.invoke n.spec cur).2) p (sem.invoke n.spec cur).1 st,
   (sem.invoke n.spec cur).2)

/-- run the SCMs in recipe order (`Invoker.executeStep`), stop at the first failure -/
def runScms (sem : ScmSem σ κ) : List (NewEntry σ) → St σ κ → St σ κ × Option Err
  | [], st => (st, none)
  | n :: rest, st =>
    match runScm sem n st with
    | (st', true) => runScms sem rest st'
    | (st', false) => (st', some (.scmFailed n.dir))

structure Flags where
  cleanCheckout : Bool := false
  atticEnabled : Bool := true
  deriving Repr

/-- `compareDirectoryState` restricted to the SCM part -/
def sameDirs (old : List (OldEntry σ)) (new : List (NewEntry σ)) : Bool :=
  old.all (fun e => unchanged new e) &&
  new.all (fun n => old.any (fun e => e.dir == n.dir))

/-- the final `setDirectoryState(checkoutState)` (with the variant id) after a successful run -/
def markComplete (r : St σ κ × Option Err) : St σ κ × Option Err :=
  match r.2 with
  | none => ({ r.1 with complete := true }, none)
  | some x => (r.1, some x)

/-- `_cookCheckoutStep` (not --build-only).  `indet`: the step is not deterministic (a checkout
reason always exists).  Returns the final state and the error, if any. -/
def cook (sem : ScmSem σ κ) (fl : Flags) (indet : Bool) (new : List (NewEntry σ)) (st0 : St σ κ) :
    St σ κ × Option Err :=
  -- `_constructDir`: a missing workspace is created and its state reset
  let created := st0.wsMissing
  let st0 := if created then { st0 with wsMissing := false, old := [], plain := [], complete := false } else st0
  let st := if fl.cleanCheckout then cleanInvalidate sem new st0 else st0
  -- a step that failed half way has no variant id in its state: "recipe changed", it runs again
  if st.complete && (!created && !indet && sameDirs st.old new) then (st, none) else
  match loopAll sem fl.atticEnabled new (sortedOld st.old) st [] with
  | (st1, some x) => (st1, some x)
  | (st1, none) =>
    match collision new st1 with
    | some d => (st1, some (.collides d))
    | none =>
      let st2 := emit (.setDirState (new.map (·.dir))) { st1 with old := new.map asOld, complete := false }
      markComplete (runScms sem new st2)

/-! ## bob clean -/

def atticPresent (st : St σ κ) (k : Nat × Comps) : Bool :=
  st.fs.any (fun x => x.1.under (.attic k.1 k.2))

/-- registration `k'` is `k` or lies below it -/
def regBelow (k k' : Nat × Comps) : Bool := k'.1 == k.1 && isPrefix k.2 k'.2

/-- `checkAtticSource`: the SCM the attic directory was registered with reports expendable -/
def regExpendable (sem : ScmSem σ κ) (st : St σ κ) (e : (Nat × Comps) × Option σ) : Bool :=
  match e.2 with
  | some s => sem.expendable s (contentAt st.fs (.attic e.1.1 e.1.2))
  | none => false

/-- the attic directories `bob clean --attic` (no --force) selects: registered, existing, and every
registered existing attic directory at or below it is expendable (nested SCMs went to the attic
with their parent and are registered separately) -/
def atticDeletable (sem : ScmSem σ κ) (st : St σ κ) : List (Nat × Comps) :=
  ((st.atticReg.filter (fun e => atticPresent st e.1)).filter (fun e =>
    (st.atticReg.filter (fun e' => atticPresent st e'.1)).all
      (fun e' => !regBelow e.1 e'.1 || regExpendable sem st e'))).map (·.1)

def cleanAttic (sem : ScmSem σ κ) (dryRun : Bool) (st : St σ κ) : St σ κ :=
  if dryRun then st else
  let st1 := (atticDeletable sem st).foldl (fun st k => emit (.rmAttic k.1 k.2) st) st
  { st1 with atticReg := st1.atticReg.filter (fun e => atticPresent st1 e.1) }

/-- `checkRegularSource`: every SCM of the directory state is expendable -/
def srcExpendable (sem : ScmSem σ κ) (st : St σ κ) : Bool :=
  st.old.all (fun e =>
    match e.spec with
    | some s => sem.expendable s (contentAt st.fs (.ws (normComps e.dir)))
    | none => false)

/-- `bob clean -s` (no --force) on a source workspace that no package uses any more -/
def cleanSrc (sem : ScmSem σ κ) (dryRun : Bool) (st : St σ κ) : St σ κ :=
  if dryRun || st.wsMissing || !srcExpendable sem st then st else
  { (emit .rmWorkspace st) with old := [], plain := [], wsMissing := true, complete := false }

end Checkout
