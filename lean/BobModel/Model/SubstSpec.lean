import BobModel.Model.StringParser
/-
The *documented* substitution language (doc/manual/configuration.rst, "String substitution") as a
tree, independent of the parser's control flow: what a text *means* is defined by structural
recursion over fragments, not by scanning characters.

  lit c                 an ordinary character
  esc c                 `\c`
  sq s                  `'...'`          (nothing is special inside)
  dq fs                 `"..."`          (substitution still happens inside)
  bare name             `$NAME`
  var name              `${name}`        (the name is itself a fragment list: `${${N}}`)
  dflt name colon d     `${name-d}` / `${name:-d}`
  altv name colon a     `${name+a}` / `${name:+a}`
  call f args           `$(f,arg,…)`

`render` produces concrete syntax (a literal that is special in the current delimiter context is
written as an escape), `eval` is the documented value.  The untaken branch of `:-`/`:+` is evaluated
with substitution switched off (`subst && unset`), i.e. lazily: unset variables and function calls
in it have no effect.  This mirrors `render`/`spec_eval` of harness/props/c17.py.  The table of
string functions (`callFun`) is shared with the parser model; it is not what this spec is about.
-/
namespace SubstSpec
open StringParser

inductive Frag
  | lit (c : Char)
  | esc (c : Char)
  | sq (s : Str)
  | dq (fs : List Frag)
  | bare (name : Str)
  | var (name : List Frag)
  | dflt (name : List Frag) (colon : Bool) (d : List Frag)
  | altv (name : List Frag) (colon : Bool) (a : List Frag)
  | call (f : List Frag) (args : List (List Frag))

/-- the characters that are special everywhere: backslash, both quotes, dollar -/
def metaChars : List Char := ['\\', '"', '\'', '$']

/-- delimiter contexts of the documented grammar -/
def ctxTop : List Char := []
def ctxDq : List Char := ['"']
def ctxName : List Char := [':', '-', '+', '}']
def ctxBranch : List Char := ['}']
def ctxWord : List Char := [',', ')']

def renderLit (delims : List Char) (c : Char) : Str :=
  if metaChars.contains c || delims.contains c then ['\\', c] else [c]

def colonStr (colon : Bool) : Str := if colon then [':'] else []

mutual
def Frag.render (delims : List Char) : Frag → Str
  | .lit c => renderLit delims c
  | .esc c => ['\\', c]
  | .sq s => '\'' :: s ++ ['\'']
  | .dq fs => '"' :: renderL ctxDq fs ++ ['"']
  | .bare name => '$' :: name
  | .var name => '$' :: '{' :: renderL ctxName name ++ ['}']
  | .dflt name colon d =>
    '$' :: '{' :: renderL ctxName name ++ colonStr colon ++ '-' :: renderL ctxBranch d ++ ['}']
  | .altv name colon a =>
    '$' :: '{' :: renderL ctxName name ++ colonStr colon ++ '+' :: renderL ctxBranch a ++ ['}']
  | .call f args => '$' :: '(' :: renderL ctxWord f ++ renderArgs args ++ [')']

def renderL (delims : List Char) : List Frag → Str
  | [] => []
  | f :: fs => f.render delims ++ renderL delims fs

def renderArgs : List (List Frag) → Str
  | [] => []
  | a :: as => ',' :: renderL ctxWord a ++ renderArgs as
end

/-- value of a variable reference under the `nounset` rule -/
def varValue (cfg : Cfg) (subst : Bool) (name : Str) : Except PErr Str :=
  match lookup cfg.env name with
  | some v => .ok v
  | none => if subst && cfg.nounset then .error .unsetVar else .ok []

/-- "unset" in the sense of `-`/`+` (without colon) resp. `:-`/`:+` (unset or empty) -/
def isUnset (cfg : Cfg) (colon : Bool) (name : Str) : Bool :=
  match lookup cfg.env name with
  | none => true
  | some v => colon && v = []

mutual
def Frag.eval (cfg : Cfg) (subst : Bool) : Frag → Except PErr Str
  | .lit c => .ok [c]
  | .esc c => .ok [c]
  | .sq s => .ok s
  | .dq fs => evalL cfg subst fs
  | .bare name => varValue cfg subst name
  | .var name =>
    match evalL cfg subst name with
    | .error e => .error e
    | .ok n => varValue cfg subst n
  | .dflt name colon d =>
    match evalL cfg subst name with
    | .error e => .error e
    | .ok n =>
      let unset := isUnset cfg colon n
      match evalL cfg (subst && unset) d with
      | .error e => .error e
      | .ok dv => .ok (if unset then dv else (lookup cfg.env n).getD [])
  | .altv name colon a =>
    match evalL cfg subst name with
    | .error e => .error e
    | .ok n =>
      let unset := isUnset cfg colon n
      match evalL cfg (subst && !unset) a with
      | .error e => .error e
      | .ok av => .ok (if unset then [] else av)
  | .call f args =>
    match evalL cfg subst f with
    | .error e => .error e
    | .ok fn =>
      match evalArgs cfg subst args with
      | .error e => .error e
      | .ok as => if subst then callFun cfg fn as else .ok []

def evalL (cfg : Cfg) (subst : Bool) : List Frag → Except PErr Str
  | [] => .ok []
  | f :: fs =>
    match f.eval cfg subst with
    | .error e => .error e
    | .ok v =>
      match evalL cfg subst fs with
      | .error e => .error e
      | .ok r => .ok (v ++ r)

def evalArgs (cfg : Cfg) (subst : Bool) : List (List Frag) → Except PErr (List Str)
  | [] => .ok []
  | a :: as =>
    match evalL cfg subst a with
    | .error e => .error e
    | .ok v =>
      match evalArgs cfg subst as with
      | .error e => .error e
      | .ok vs => .ok (v :: vs)
end

/-- the text of a fragment list at top level -/
def render (fs : List Frag) : Str := renderL ctxTop fs

/-- the documented value of a fragment list (`Env.substitute`: substitution on) -/
def eval (cfg : Cfg) (fs : List Frag) : Except PErr Str := evalL cfg true fs

/-! ### well-formedness: which trees have a concrete syntax

* a `'...'` body contains no `'`;
* a bare name is a `NAME` word and is not directly followed by a literal name character (the
  renderer would merge them into a longer name);
* `"..."` does not occur directly inside `"..."` (the inner quote would close the outer one).
-/

def isName (name : Str) : Bool :=
  match name with
  | [] => false
  | c :: rest => Consts.C17.nameStart.contains c && rest.all Consts.C17.nameChars.contains

/-- the next fragment does not start with a character that would extend a bare name -/
def startOk : List Frag → Bool
  | .lit c :: _ => !Consts.C17.nameChars.contains c
  | _ => true

def isBare : Frag → Bool
  | .bare _ => true
  | _ => false

mutual
def Frag.wf (delims : List Char) : Frag → Bool
  | .lit _ => true
  | .esc _ => true
  | .sq s => !s.contains '\''
  | .dq fs => !delims.contains '"' && wfL ctxDq fs
  | .bare name => isName name
  | .var name => wfL ctxName name
  | .dflt name _ d => wfL ctxName name && wfL ctxBranch d
  | .altv name _ a => wfL ctxName name && wfL ctxBranch a
  | .call f args => wfL ctxWord f && wfArgs args

def wfL (delims : List Char) : List Frag → Bool
  | [] => true
  | f :: fs => f.wf delims && (!isBare f || startOk fs) && wfL delims fs

def wfArgs : List (List Frag) → Bool
  | [] => true
  | a :: as => wfL ctxWord a && wfArgs as
end

def WF (fs : List Frag) : Prop := wfL ctxTop fs = true

instance (fs : List Frag) : Decidable (WF fs) := by unfold WF; infer_instance

/-! ### the three documented ways to protect arbitrary text -/

/-- a backslash in front of every character -/
def escAll (s : Str) : Str := s.flatMap fun c => ['\\', c]

/-- a backslash in front of each of `\ " ' $` (what has to be escaped inside double quotes) -/
def escMeta (s : Str) : Str := s.flatMap fun c => if metaChars.contains c then ['\\', c] else [c]

end SubstSpec
