/-
Model of pym/bob/share.py (`LocalShare`: installSharedPackage / useSharedPackage / gc /
__addPackage, `OpenLocked`, `checkUnused`, `sameWorkspace`) and of the builder side
(`LocalBuilder._useSharedPackage`, `_installSharedPackage`: symlink creation after the share
call, unshare), as a transition system of concurrent processes over one shared store.

* A process runs ONE operation (`Op`).  Its program is cut exactly where the harness can stop the
  real code: before every `open` of `OpenLocked.__enter__`, before every `flock`, after every
  unlock of a writable file (the buffered JSON is only written by the `close()` that FOLLOWS the
  unlock in `OpenLocked.__exit__`), before the publishing / collecting `os.rename`, before the
  workspace `os.symlink` / `os.unlink` of the builder.  One `stepPc` = the code between two cuts.
* `flock` state is a function of the program counters (`holdsEX`, `holdsSH`): the repository lock
  is the only lock that is held across a cut; the per package lock is taken and released inside
  one segment and is therefore implicit.
* Files: `repo.json` is absent | torn (exists, is not valid JSON: just created with mode "x", or
  truncated with the new text still in the writer's buffer) | valid.  `pkg.json` likewise.
* Contents are abstract: a workspace tree is a `Nat`, `H` is the directory hash (parameter).
* `Cfg` selects the variant of the code: `ff` flush before unlock in `OpenLocked.__exit__`, `gcMissingOk` gc returns 0
  when repo.json does not exist, `emptyOk` an empty repo.json is an empty repository and `__addPackage` creates it
  with a plain open, `lostRace` the builder records itself as user when install returned `(path, False)`.
  `Cfg.old` is the code before the four fixes, `Cfg.fixed` the code with all of them; the driver takes the flags
  from `Generated/ConstsC15.lean` (extracted from the current source).  An empty file and a file truncated with the
  new text still buffered are the same thing on disk: `torn`.
-/
namespace Share

abbrev Bid := Nat
abbrev Ws := Nat
abbrev Pid := Nat

structure Meta where
  hash : Nat
  size : Nat
  users : List Ws
  deriving DecidableEq, Repr

inductive JFile (α : Type) where
  | torn
  | valid (a : α)
  deriving DecidableEq, Repr

structure PkgDir where
  audit : Bool
  ws : Option Nat
  info : Option (JFile Meta)
  mtime : Nat
  deriving DecidableEq, Repr

inductive RepoFile where
  | absent
  | torn
  | valid (l : List (Bid × Nat))
  deriving DecidableEq, Repr

inductive Err where
  | fileNotFound    -- gc: FileNotFoundError on repo.json (unhandled)
  | jsonDecode      -- JSONDecodeError from __addPackage / gc (unhandled)
  | corruptMeta     -- BuildError "Corrupt meta info" from useSharedPackage
  | hashChanged     -- BuildError "The shared package hash changed at destination"
  | installOSError  -- BuildError "Error installing shared package" (source audit missing)
  | inspect         -- BuildError "Error inspecting workspace" (dangling link of a recorded user)
  | typeError       -- `repoSize <= None`
  | renameENOENT    -- gc: package directory vanished before the move
  | linkExists      -- builder: os.symlink on an existing path
  | unlinkMissing   -- builder: os.unlink on a missing path
  deriving DecidableEq, Repr

inductive Res where
  | useNone
  | useOk (hash : Nat)
  | inst (installed : Bool)
  | gcNone
  | gcSize (n : Nat)
  | shared (b : Bool)
  | dropped
  | err (e : Err)
  deriving DecidableEq, Repr

inductive Op where
  | use (ws : Ws) (bid : Bid) (link : Bool)
  | install (ws : Ws) (bid : Bid) (dst claimed size : Nat) (hasAudit link : Bool)
  | gc (pruneUsed pruneUnused dryRun : Bool)
  | dropws (ws : Ws)
  deriving DecidableEq, Repr

structure Prog where
  op : Op
  quota : Option Nat
  autoClean : Bool
  deriving DecidableEq, Repr

/-- one scanned candidate: the tuple `(pkgUnused, pkgTime, size, pkg)` -/
structure Cand where
  unused : Bool
  time : Nat
  size : Nat
  bid : Bid
  deriving DecidableEq, Repr

inductive Pc where
  | start
  | uOpen | uLockRepo | uOpenPkg | uLockPkg
  | uClosePkg (pending : Option Meta) (r : Res)
  | iVerify
  | iRename (tmp : PkgDir)
  | iAddOpen | iAddTouch | iAddLock | iAddCreate | iAddCreateLock
  | iAddClose (pending : Option (List (Bid × Nat))) (total : Nat) (failed : Bool)
  | gOpen | gLock
  | gScanOpen (rmeta : List (Bid × Nat)) (todo : List (Bid × Nat)) (cands : List Cand) (total : Nat)
  | gScanLock (rmeta : List (Bid × Nat)) (b : Bid) (sz : Nat) (todo : List (Bid × Nat)) (cands : List Cand) (total : Nat)
  | gMove (rmeta : List (Bid × Nat)) (plan : List Cand) (total : Nat) (dirty terr : Bool)
  | gClose (pending : Option (List (Bid × Nat))) (r : Res)
  | bUnlink (relink : Option Bid)
  | bSymlink (b : Bid)
  | done (r : Res)
  deriving DecidableEq, Repr

/-- which of the four fixes the modelled source contains -/
structure Cfg where
  ff : Bool
  gcMissingOk : Bool
  emptyOk : Bool
  lostRace : Bool
  deriving DecidableEq, Repr

def Cfg.old : Cfg := ⟨false, false, false, false⟩
def Cfg.fixed : Cfg := ⟨true, true, true, true⟩

structure Store where
  storeExists : Bool
  repo : RepoFile
  final : Bid → Option PkgDir
  links : Ws → Option Bid
  clock : Nat
  nInst : Bid → Nat
  nGc : Bid → Nat

structure Proc where
  prog : Prog
  pc : Pc
  pub : Bool
  deriving DecidableEq, Repr

structure St where
  g : Store
  procs : List Proc

def upd {α : Type} (f : Nat → α) (k : Nat) (v : α) : Nat → α :=
  fun x => if x = k then v else f x

/-- `meta["pkgs"][bid] = size` on an insertion ordered dict -/
def setPkg : List (Bid × Nat) → Bid → Nat → List (Bid × Nat)
  | [], b, sz => [(b, sz)]
  | (k, v) :: rest, b, sz => if k = b then (k, sz) :: rest else (k, v) :: setPkg rest b sz

def erasePkg : List (Bid × Nat) → Bid → List (Bid × Nat)
  | [], _ => []
  | (k, v) :: rest, b => if k = b then rest else (k, v) :: erasePkg rest b

def sumSizes (l : List (Bid × Nat)) : Nat := (l.map (·.2)).sum

/-! ### gc selection: `sorted(candidates)` and the quota loop (pure) -/

/-- Python tuple order on `(pkgUnused, pkgTime, size, pkg)`; `False < True` -/
def Cand.le (a b : Cand) : Bool :=
  if a.unused != b.unused then !a.unused
  else if a.time != b.time then a.time < b.time
  else if a.size != b.size then a.size < b.size
  else a.bid ≤ b.bid

def insertCand (c : Cand) : List Cand → List Cand
  | [] => [c]
  | d :: rest => if c.le d then c :: d :: rest else d :: insertCand c rest

def sortCands : List Cand → List Cand
  | [] => []
  | c :: rest => insertCand c (sortCands rest)

/-- the `for … in sorted(candidates)` loop: removed candidates, resulting size, TypeError flag -/
def gcLoop (quota : Option Nat) (pruneUnused : Bool) : List Cand → Nat → List Cand × Nat × Bool
  | [], total => ([], total, false)
  | c :: rest, total =>
    if !c.unused || !pruneUnused then
      match quota with
      | none => ([], total, true)
      | some q =>
        if total ≤ q then ([], total, false)
        else
          let r := gcLoop quota pruneUnused rest (total - c.size)
          (c :: r.1, r.2.1, r.2.2)
    else
      let r := gcLoop quota pruneUnused rest (total - c.size)
      (c :: r.1, r.2.1, r.2.2)

def gcSelect (quota : Option Nat) (pruneUnused : Bool) (cands : List Cand) (total : Nat) :
    List Cand × Nat × Bool :=
  gcLoop quota pruneUnused (sortCands cands) total

/-! ### the store as seen by `checkUnused` -/

def wsExists (g : Store) (b : Bid) : Bool :=
  match g.final b with
  | some d => d.ws.isSome
  | none => false

/-- `all(not sameWorkspace(user, pkgWorkspace) for user in users)`; `os.path.samefile` raises on a
dangling link -/
def checkUnused (g : Store) (b : Bid) : List Ws → Except Err Bool
  | [] => .ok true
  | u :: rest =>
    match g.links u with
    | none => checkUnused g b rest
    | some b' =>
      if !wsExists g b' then .error .inspect
      else if b' = b then .ok false
      else checkUnused g b rest

/-! ### programs -/

structure GcCtx where
  pruneUsed : Bool
  pruneUnused : Bool
  dryRun : Bool
  newPkg : Option Bid
  deriving DecidableEq, Repr

def gcCtx (prog : Prog) : GcCtx :=
  match prog.op with
  | .gc pu pun dry => ⟨pu, pun, dry, none⟩
  | .install _ b _ _ _ _ _ => ⟨false, false, false, some b⟩
  | _ => ⟨false, false, false, none⟩

def opBid (prog : Prog) : Bid :=
  match prog.op with
  | .use _ b _ => b
  | .install _ b _ _ _ _ _ => b
  | _ => 0

def opWs (prog : Prog) : Ws :=
  match prog.op with
  | .use ws _ _ => ws
  | .install ws _ _ _ _ _ _ => ws
  | .dropws ws => ws
  | _ => 0

def opSize (prog : Prog) : Nat :=
  match prog.op with
  | .install _ _ _ _ size _ _ => size
  | _ => 0

def opLink (prog : Prog) : Bool :=
  match prog.op with
  | .use _ _ l => l
  | .install _ _ _ _ _ _ l => l
  | _ => false

/-- what the caller of the share API does with its result (`builder.py`) -/
def afterShare (cfg : Cfg) (prog : Prog) (g : Store) (r : Res) : Store × Pc :=
  if !opLink prog then (g, .done r)
  else
    match r with
    | .useOk _ =>
      match g.links (opWs prog) with
      | some b' => if b' = opBid prog then (g, .done (.shared true)) else (g, .bUnlink (some (opBid prog)))
      | none => (g, .bSymlink (opBid prog))
    | .useNone =>
      match g.links (opWs prog) with
      | some _ => (g, .bUnlink none)
      | none => (g, .done (.shared false))
    | .inst installed =>
      -- fix 4: somebody else installed the package: register as its user first
      if cfg.lostRace && !installed then (g, .uOpen) else (g, .bSymlink (opBid prog))
    | r => (g, .done r)

/-- return of `gc`: the command itself, or the automatic call at the end of an install -/
def finishGc (cfg : Cfg) (prog : Prog) (g : Store) (r : Res) : Store × Pc :=
  match prog.op with
  | .install .. =>
    match r with
    | .err e => (g, .done (.err e))
    | _ => afterShare cfg prog g (.inst true)
  | _ => (g, .done r)

/-- `json.load` of repo.json under the lock: an empty file is an empty repository only with fix 3 -/
def readRepo (cfg : Cfg) : RepoFile → Option (List (Bid × Nat))
  | .valid l => some l
  | .torn => if cfg.emptyOk then some [] else none
  | .absent => none

def repoMissing (cfg : Cfg) (g : Store) : Bool :=
  if cfg.gcMissingOk then (match g.repo with | .absent => true | _ => false) else !g.storeExists

def gcStart (cfg : Cfg) (prog : Prog) (g : Store) : Store × Pc :=
  if prog.quota.isNone && !(gcCtx prog).pruneUnused then finishGc cfg prog g .gcNone
  else if repoMissing cfg g then finishGc cfg prog g (.gcSize 0)
  else (g, .gOpen)

/-- end of the scan: sort, run the quota loop; the moves themselves are separate segments -/
def gcPlan (prog : Prog) (g : Store) (rmeta : List (Bid × Nat)) (cands : List Cand) (total : Nat) :
    Store × Pc :=
  let r := gcSelect prog.quota (gcCtx prog).pruneUnused cands total
  let res := if r.2.2 then Res.err .typeError else Res.gcSize r.2.1
  if (gcCtx prog).dryRun || r.1.isEmpty then (g, .gClose none res)
  else (g, .gMove rmeta r.1 r.2.1 false r.2.2)

def gcNext (prog : Prog) (g : Store) (rmeta todo : List (Bid × Nat)) (cands : List Cand) (total : Nat) :
    Store × Pc :=
  match todo with
  | [] => gcPlan prog g rmeta cands total
  | _ :: _ => (g, .gScanOpen rmeta todo cands total)

def setMeta (g : Store) (b : Bid) (m : JFile Meta) : Store :=
  match g.final b with
  | some d => { g with final := upd g.final b (some { d with info := some m, mtime := g.clock }), clock := g.clock + 1 }
  | none => g

def touch (g : Store) (b : Bid) : Store :=
  match g.final b with
  | some d => { g with final := upd g.final b (some { d with mtime := g.clock }), clock := g.clock + 1 }
  | none => g

/-- One segment of process code.  `H` directory hash, `cfg` the variant of the code,
`exO`/`shO`: another process holds the repository lock exclusively / shared.  A blocked process
does not move. -/
def stepPc (H : Nat → Nat) (cfg : Cfg) (prog : Prog) (exO shO : Bool) (g : Store) (pc : Pc) : Store × Pc :=
  let ff := cfg.ff
  let b := opBid prog
  let ws := opWs prog
  match pc with
  | .done r => (g, .done r)
  | .start =>
    match prog.op with
    | .use .. => (g, .uOpen)
    | .install _ _ _ _ _ hasAudit _ =>
      if (g.final b).isSome then afterShare cfg prog g (.inst false)
      else
        let g := { g with storeExists := true }
        if !hasAudit then (g, .done (.err .installOSError))
        else (g, .iVerify)
    | .gc .. => gcStart cfg prog g
    | .dropws w => ({ g with links := upd g.links w none }, .done .dropped)
  -- useSharedPackage
  | .uOpen =>
    match g.repo with
    | .absent => afterShare cfg prog g .useNone
    | _ => (g, .uLockRepo)
  | .uLockRepo => if exO then (g, .uLockRepo) else (g, .uOpenPkg)
  | .uOpenPkg =>
    match g.final b with
    | none => afterShare cfg prog g .useNone
    | some d =>
      match d.info with
      | none => afterShare cfg prog g .useNone
      | some _ => (g, .uLockPkg)
  | .uLockPkg =>
    match g.final b with
    | none => (g, .uClosePkg none .useNone)
    | some d =>
      match d.info with
      | some (.valid m) =>
        if m.users.contains ws then (touch g b, .uClosePkg none (.useOk m.hash))
        else
          let m' : Meta := { m with users := m.users ++ [ws] }
          if ff then (setMeta g b (.valid m'), .uClosePkg none (.useOk m.hash))
          else (setMeta g b .torn, .uClosePkg (some m') (.useOk m.hash))
      | _ => (g, .uClosePkg none (.err .corruptMeta))
  | .uClosePkg pending r =>
    let g := match pending with
      | some m' => setMeta g b (.valid m')
      | none => g
    afterShare cfg prog g r
  -- installSharedPackage
  | .iVerify =>
    match prog.op with
    | .install _ _ dst claimed size _ _ =>
      if H dst != claimed then (g, .done (.err .hashChanged))
      else
        ({ g with clock := g.clock + 1 },
         .iRename ⟨true, some dst, some (.valid ⟨claimed, size, [ws]⟩), g.clock⟩)
    | _ => (g, .done (.err .installOSError))
  | .iRename tmp =>
    if (g.final b).isSome then afterShare cfg prog g (.inst false)
    else ({ g with final := upd g.final b (some tmp), nInst := upd g.nInst b (g.nInst b + 1) }, .iAddOpen)
  | .iAddOpen =>
    match g.repo with
    | .absent =>
      -- fix 3: create an empty file with a plain open and retry the locked update
      if cfg.emptyOk then (g, .iAddTouch) else (g, .iAddCreate)
    | _ => (g, .iAddLock)
  | .iAddTouch =>
    -- `open(fn, "a").close()`, outside the lock: creates an empty file, NEVER changes an existing one
    match g.repo with
    | .absent => ({ g with repo := .torn }, .iAddOpen)
    | _ => (g, .iAddOpen)
  | .iAddLock =>
    if exO || shO then (g, .iAddLock)
    else
      match readRepo cfg g.repo with
      | some l =>
        let l' := setPkg l b (opSize prog)
        if ff then ({ g with repo := .valid l' }, .iAddClose none (sumSizes l') false)
        else ({ g with repo := .torn }, .iAddClose (some l') (sumSizes l') false)
      | none => (g, .iAddClose none 0 true)
  | .iAddCreate =>
    match g.repo with
    | .absent => ({ g with repo := .torn }, .iAddCreateLock)
    | _ => (g, .iAddOpen)
  | .iAddCreateLock =>
    if exO || shO then (g, .iAddCreateLock)
    else
      let size := opSize prog
      if ff then ({ g with repo := .valid [(b, size)] }, .iAddClose none size false)
      else (g, .iAddClose (some [(b, size)]) size false)
  | .iAddClose pending total failed =>
    let g := match pending with
      | some l => { g with repo := .valid l }
      | none => g
    if failed then (g, .done (.err .jsonDecode))
    else
      match prog.quota with
      | some q =>
        if total > q && prog.autoClean then gcStart cfg prog g
        else afterShare cfg prog g (.inst true)
      | none => afterShare cfg prog g (.inst true)
  -- gc
  | .gOpen =>
    match g.repo with
    | .absent => (g, .done (.err .fileNotFound))
    | _ => (g, .gLock)
  | .gLock =>
    if exO || shO then (g, .gLock)
    else
      match readRepo cfg g.repo with
      | some l => gcNext prog g l l [] 0
      | none => (g, .gClose none (.err .jsonDecode))
  | .gScanOpen rmeta todo cands total =>
    match todo with
    | [] => gcPlan prog g rmeta cands total
    | (k, sz) :: rest =>
      match g.final k with
      | none => gcNext prog g rmeta rest cands (total + sz)
      | some d =>
        match d.info with
        | none => gcNext prog g rmeta rest cands (total + sz)
        | some _ => (g, .gScanLock rmeta k sz rest cands (total + sz))
  | .gScanLock rmeta k sz rest cands total =>
    match g.final k with
    | some ⟨_, _, some (.valid m), t⟩ =>
      match checkUnused g k m.users with
      | .error e => (g, .gClose none (.err e))
      | .ok u =>
        let unused := u && (some k != (gcCtx prog).newPkg)
        let cands := if unused || (gcCtx prog).pruneUsed then cands ++ [⟨unused, t, sz, k⟩] else cands
        gcNext prog g rmeta rest cands total
    | _ => (g, .gClose none (.err .jsonDecode))
  | .gMove rmeta plan total dirty terr =>
    match plan with
    | [] =>
      if ff && dirty then ({ g with repo := .valid rmeta }, .gClose none (if terr then .err .typeError else .gcSize total))
      else (g, .gClose (if dirty then some rmeta else none) (if terr then .err .typeError else .gcSize total))
    | c :: rest =>
      match g.final c.bid with
      | none =>
        if ff && dirty then ({ g with repo := .valid rmeta }, .gClose none (.err .renameENOENT))
        else (g, .gClose (if dirty then some rmeta else none) (.err .renameENOENT))
      | some _ =>
        let rmeta' := erasePkg rmeta c.bid
        let g := { g with final := upd g.final c.bid none, nGc := upd g.nGc c.bid (g.nGc c.bid + 1), repo := .torn }
        match rest with
        | [] =>
          if ff then ({ g with repo := .valid rmeta' }, .gClose none (if terr then .err .typeError else .gcSize total))
          else (g, .gClose (some rmeta') (if terr then .err .typeError else .gcSize total))
        | _ :: _ => (g, .gMove rmeta' rest total true terr)
  | .gClose pending r =>
    let g := match pending with
      | some l => { g with repo := .valid l }
      | none => g
    finishGc cfg prog g r
  -- builder side
  | .bUnlink relink =>
    match g.links ws with
    | none => (g, .done (.err .unlinkMissing))
    | some _ =>
      let g := { g with links := upd g.links ws none }
      match relink with
      | some b' => (g, .bSymlink b')
      | none => (g, .done (.shared false))
  | .bSymlink b' =>
    match g.links ws with
    | some _ => (g, .done (.err .linkExists))
    | none => ({ g with links := upd g.links ws (some b') }, .done (.shared true))

def Pc.holdsEX : Pc → Bool
  | .gScanOpen .. | .gScanLock .. | .gMove .. => true
  | _ => false

def Pc.holdsSH : Pc → Bool
  | .uOpenPkg | .uLockPkg | .uClosePkg .. => true
  | _ => false

def othersAny (f : Pc → Bool) (procs : List Proc) (p : Pid) : Bool :=
  (procs.zipIdx.any fun (q, i) => i != p && f q.pc)

def isPublish (g : Store) (prog : Prog) (pc : Pc) : Bool :=
  match pc with
  | .iRename _ => (g.final (opBid prog)).isNone
  | _ => false

/-- process `p` runs its next segment -/
def step (H : Nat → Nat) (cfg : Cfg) (s : St) (p : Pid) : St :=
  match s.procs[p]? with
  | none => s
  | some pr =>
    let r := stepPc H cfg pr.prog (othersAny Pc.holdsEX s.procs p) (othersAny Pc.holdsSH s.procs p) s.g pr.pc
    { g := r.1, procs := s.procs.set p { pr with pc := r.2, pub := pr.pub || isPublish s.g pr.prog pr.pc } }

def run (H : Nat → Nat) (cfg : Cfg) (s : St) : List Pid → St
  | [] => s
  | p :: rest => run H cfg (step H cfg s p) rest

def Pc.isDone : Pc → Bool
  | .done _ => true
  | _ => false

/-- would `p` block on `flock` now? (driver / harness comparison) -/
def blocked (s : St) (p : Pid) : Bool :=
  match s.procs[p]? with
  | none => false
  | some pr =>
    let exO := othersAny Pc.holdsEX s.procs p
    let shO := othersAny Pc.holdsSH s.procs p
    match pr.pc with
    | .uLockRepo => exO
    | .iAddLock | .iAddCreateLock | .gLock => exO || shO
    | _ => false

def emptyStore : Store :=
  { storeExists := false, repo := .absent, final := fun _ => none, links := fun _ => none,
    clock := 0, nInst := fun _ => 0, nGc := fun _ => 0 }

def mkProcs (ps : List Prog) : List Proc := ps.map fun p => ⟨p, .start, false⟩

end Share
