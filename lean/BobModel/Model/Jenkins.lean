import BobModel.Generated.ConstsC20
/-
Model of the Jenkins job graph calculation of pym/bob/cmds/jenkins/jenkins.py:

* `JobNameCalculator.sanitize`  (addStep / addChilds / greedy merge per name / longestPrefix / numbering),
  `getJobDisplayName`, `getJobInternalName`;
* `_genJenkinsJobs` + `JenkinsJob.addStep` + `getUpstreamJobs` (steps per job, upstream job names);
* `genJenkinsBuildOrder` (cycle detection).

The model follows the code as it is.  Abstractions (see ASSUMPTIONS of harness/props/c20.py):

* a node is a *package step* identified by its Jenkins variant-id (a small number here).  The
  checkout and build step of a package are not nodes: `sanitize.addStep` passes them through with
  `job = parentJob`, so their dependencies are flattened into `deps` (in traversal order) and the
  one visible effect of the pass-through -- the job's own `pkgs` end up in its `childs`, because a
  non-package step returns `job.pkgs | job.childs` of the *parent* job -- is modelled explicitly;
* `deps v`  = package steps met below `v` by `sanitize.addStep` (valid or not),
  `vdeps v` = the valid ones that `_genJenkinsJobs` recurses into / `JenkinsJob.addStep` records;
* Python sets are duplicate free lists; every place where the iteration order of a set is
  arbitrary in Python does not influence the result (union / membership / per element update).
-/
namespace Jenkins

abbrev Str := List Char

structure Graph where
  deps : Nat → List Nat
  vdeps : Nat → List Nat
  pkgName : Nat → Str
  recipe : Nat → Str

/-- `AbstractJob` -/
structure AJob where
  pkgs : List Nat
  parents : List Nat
  childs : List Nat

/-- `a.add(x)` -/
def insert1 (a : List Nat) (x : Nat) : List Nat := if a.contains x then a else a ++ [x]

/-- set union `a | b` -/
def union (a b : List Nat) : List Nat := b.foldl insert1 a

/-- `a.issubset(b)` / `b >= a` -/
def subset (a b : List Nat) : Bool := a.all (fun x => b.contains x)

def upd {α : Type} (f : Nat → α) (k : Nat) (v : α) : Nat → α := fun x => if x = k then v else f x

/-- dict `name -> [job]` in insertion order -/
abbrev NameMap := List (Str × List Nat)

/-- `m.setdefault(nm, []).extend(js)` -/
def extendName : NameMap → Str → List Nat → NameMap
  | [], nm, js => [(nm, js)]
  | (k, l) :: rest, nm, js => if k = nm then (k, l ++ js) :: rest else (k, l) :: extendName rest nm js

def lookup : NameMap → Str → List Nat
  | [], _ => []
  | (k, l) :: rest, nm => if k = nm then l else lookup rest nm

/-- `m[nm] = js` for an existing key -/
def setName : NameMap → Str → List Nat → NameMap
  | [], _, _ => []
  | (k, l) :: rest, nm, js => if k = nm then (k, js) :: rest else (k, l) :: setName rest nm js

/-- state of `sanitize`: `vidToJob`, the job objects (a job is identified by the variant-id it was
created for), `nameToJobs`.  `vidToName` is `Graph.pkgName`. -/
structure St where
  v2j : Nat → Option Nat
  job : Nat → AJob
  names : NameMap

def St.init : St := ⟨fun _ => none, fun _ => ⟨[], [], []⟩, []⟩

def setChilds (s : St) (j : Nat) (c : List Nat) : St :=
  { s with job := upd s.job j { s.job j with childs := c } }

/-! ### `addStep` : span the graph, one job per package step -/

/-- `for d in step.getAllDepSteps(): job.childs |= addStep(d, job)` -/
def addDeps (step : Nat → List Nat → St → St × List Nat) (j : Nat) : List Nat → St → St
  | [], s => s
  | d :: ds, s =>
    let r := step d (s.job j).pkgs s
    addDeps step j ds (setChilds r.1 j (union (r.1.job j).childs r.2))

/-- `addStep(step, parentJob)` for a package step `v`; `pp` = `parentJob.pkgs`.  Returns
`job.pkgs | job.childs`.  The fuel bounds the recursion depth (depth of the DAG). -/
def addStep (g : Graph) (iso : Str → Bool) : Nat → Nat → List Nat → St → St × List Nat
  | 0, _, _, s => (s, [])
  | fuel+1, v, pp, s =>
    match s.v2j v with
    | some j =>
      -- job.parents |= parentJob.pkgs
      let jb := s.job j
      ({ s with job := upd s.job j { jb with parents := union jb.parents pp } }, union jb.pkgs jb.childs)
    | none =>
      -- job = AbstractJob([vid], parentJob.pkgs); nameToJobs.setdefault(name, []).append(job)
      let nm := if iso (g.pkgName v) then g.pkgName v else g.recipe v
      let s1 : St := { v2j := upd s.v2j v (some v), job := upd s.job v ⟨[v], pp, []⟩,
                       names := extendName s.names nm [v] }
      let s2 := addDeps (addStep g iso fuel) v (g.deps v) s1
      -- the build step of the package is a non-package dependency: it is handled with
      -- job = parentJob and returns `job.pkgs | job.childs` of this very job
      let s3 := setChilds s2 v (union (s2.job v).childs (union (s2.job v).pkgs (s2.job v).childs))
      (s3, union (s3.job v).pkgs (s3.job v).childs)

def addRoots (g : Graph) (iso : Str → Bool) (fuel : Nat) (roots : List Nat) (s : St) : St :=
  roots.foldl (fun s r => (addStep g iso fuel r [] s).1) s

/-! ### merging jobs of one name -/

/-- `addChilds(pkgs, childs)` -/
def addChilds : Nat → List Nat → List Nat → St → St
  | 0, _, _, s => s
  | fuel+1, pkgs, X, s =>
    pkgs.foldl (fun s i =>
      match s.v2j i with
      | none => s
      | some j =>
        if subset X (s.job j).childs then s
        else
          let s' := setChilds s j (union (s.job j).childs X)
          addChilds fuel (s'.job j).parents X s') s

/-- `i.childs >= (j.pkgs|j.childs)` -/
def reaches (s : St) (i j : Nat) : Bool :=
  subset (union (s.job j).pkgs (s.job j).childs) (s.job i).childs

def comparable (s : St) (i j : Nat) : Bool := reaches s i j || reaches s j i

/-- the `else` branch of the merge loop: collapse `j` into `i` -/
def mergeInto (n : Nat) (i j : Nat) (s : St) : St :=
  let ji := s.job i
  let jj := s.job j
  let ni : AJob := ⟨union ji.pkgs jj.pkgs, union ji.parents jj.parents, union ji.childs jj.childs⟩
  let s1 : St := { s with job := upd s.job i ni }
  let s2 := addChilds (n + 1) ni.parents (union ni.pkgs ni.childs) s1
  -- for k in j.pkgs: vidToJob[k] = i
  { s2 with v2j := fun k => if jj.pkgs.contains k then some i else s2.v2j k }

/-- `for j in remaining:` -/
def inner (n : Nat) (i : Nat) : List Nat → List Nat → St → St × List Nat
  | [], todo, s => (s, todo)
  | j :: rem, todo, s =>
    if comparable s i j then inner n i rem (todo ++ [j]) s
    else inner n i rem todo (mergeInto n i j s)

/-- `while todo:` -/
def mergeLoop (n : Nat) : Nat → List Nat → List Nat → St → St × List Nat
  | 0, _, jobs, s => (s, jobs)
  | _+1, [], jobs, s => (s, jobs)
  | fuel+1, i :: rest, jobs, s =>
    let r := inner n i rest [] s
    mergeLoop n fuel r.2 (jobs ++ [i]) r.1

def mergeName (n : Nat) (s : St) (name : Str) : St :=
  let todo := lookup s.names name
  let r := mergeLoop n (todo.length + 1) todo [] s
  { r.1 with names := setName r.1.names name r.2 }

/-! ### sorting of dict keys (Python `sorted` on `str`: by code point) -/

def strLe : Str → Str → Bool
  | [], _ => true
  | _ :: _, [] => false
  | a :: as, b :: bs => if a.toNat < b.toNat then true else if b.toNat < a.toNat then false else strLe as bs

def insertSorted {α : Type} (le : α → α → Bool) (x : α) : List α → List α
  | [] => [x]
  | y :: ys => if le x y then x :: y :: ys else y :: insertSorted le x ys

def isort {α : Type} (le : α → α → Bool) : List α → List α
  | [] => []
  | x :: xs => insertSorted le x (isort le xs)

def keyLe (a b : Str × List Nat) : Bool := strLe a.1 b.1

def mergeAll (n : Nat) (s : St) : St :=
  (isort strLe (s.names.map (·.1))).foldl (mergeName n) s

/-! ### naming -/

def splitOn (c : Char) : Str → List Str
  | [] => [[]]
  | x :: xs =>
    if x = c then [] :: splitOn c xs
    else match splitOn c xs with
      | [] => [[x]]
      | w :: ws => (x :: w) :: ws

def joinWith (c : Char) : List Str → Str
  | [] => []
  | [w] => w
  | w :: ws => w ++ c :: joinWith c ws

def commonPrefix : List Str → List Str → List Str
  | a :: as, b :: bs => if a = b then a :: commonPrefix as bs else []
  | _, _ => []

/-- `longestPrefix(pkgs)`: the package name for a single package, else the common `-` separated prefix
(`zip` over the split names stops at the shortest; taking the pairwise common prefix is the same) -/
def longestPrefix (g : Graph) : List Nat → Str
  | [] => []
  | [v] => g.pkgName v
  | v :: vs => joinWith Consts.C20.sepChar
      (vs.foldl (fun acc w => commonPrefix acc (splitOn Consts.C20.sepChar (g.pkgName w))) (splitOn Consts.C20.sepChar (g.pkgName v)))

def finalNames (g : Graph) (s : St) : NameMap :=
  (isort keyLe s.names).foldl (fun fin p =>
      if p.2.length > 1 then p.2.foldl (fun fin j => extendName fin (longestPrefix g (s.job j).pkgs) [j]) fin
      else extendName fin p.1 p.2) []

def digitChar (d : Nat) : Char := Char.ofNat (48 + d)

def decAux : Nat → Nat → Str → Str
  | 0, _, acc => acc
  | fuel+1, n, acc => if n < 10 then digitChar n :: acc else decAux fuel (n / 10) (digitChar (n % 10) :: acc)

/-- decimal representation -/
def dec (n : Nat) : Str := decAux (n + 1) n []

/-- `"{}-{}".format(name, i+1)` (separator and offset from the source) -/
def numbered (name : Str) (i : Nat) : Str := name ++ Consts.C20.sepChar :: dec (i + Consts.C20.numberOffset)

abbrev PkgNames := Nat → Option Str

/-- `for vid in pkgs: self.__packageName[vid] = nm` -/
def setAll (pn : PkgNames) (vs : List Nat) (nm : Str) : PkgNames :=
  fun v => if vs.contains v then some nm else pn v

def assignNumbered (s : St) (name : Str) : Nat → List Nat → PkgNames → PkgNames
  | _, [], pn => pn
  | i, j :: js, pn => assignNumbered s name (i + 1) js (setAll pn (s.job j).pkgs (numbered name i))

def assign (s : St) (fin : NameMap) : PkgNames :=
  (isort keyLe fin).foldl (fun pn p =>
      match p.2 with
      | [j] => setAll pn (s.job j).pkgs p.1
      | js => assignNumbered s p.1 0 js pn) (fun _ => none)

/-- `JobNameCalculator.sanitize()` for the root package steps `roots` (in `addPackage` order); `n` bounds
the number of package steps (fuel of the traversals).  Returns the final state and `__packageName`. -/
def sanitizeSt (g : Graph) (n : Nat) (iso : Str → Bool) (roots : List Nat) : St :=
  mergeAll n (addRoots g iso (n + 1) roots St.init)

def sanitize (g : Graph) (n : Nat) (iso : Str → Bool) (roots : List Nat) : PkgNames :=
  let s := sanitizeSt g n iso roots
  assign s (finalNames g s)

/-! ### display / internal names -/

/-- the character class of the regular expression of `JobNameCalculator` (extracted from the source) -/
def isNameChar (c : Char) : Bool :=
  Consts.C20.keepRanges.any (fun r => r.1 ≤ c.toNat && c.toNat ≤ r.2)

def lowerChar (c : Char) : Char :=
  let k := c.toNat
  if 65 ≤ k && k ≤ 90 then Char.ofNat (k + 32) else c

/-- `re.compile(r'[^a-zA-Z0-9-_]').sub('_', name).lower()` -/
def foldName (s : Str) : Str :=
  s.map (fun c =>
    let c' := if isNameChar c then c else Consts.C20.replChar
    if Consts.C20.lowerCase then lowerChar c' else c')

def displayName (pfx : Str) (pn : PkgNames) (v : Nat) : Option Str := (pn v).map (pfx ++ ·)

def internalName (pfx : Str) (pn : PkgNames) (v : Nat) : Option Str := (displayName pfx pn v).map foldName

/-! ### `_genJenkinsJobs` -/

def expand (g : Graph) (vis : List Nat) : List Nat :=
  vis.foldl (fun acc v => union acc (g.vdeps v)) vis

/-- the package steps `_genJenkinsJobs` visits from the roots: closure under valid dependencies -/
def visited (g : Graph) (roots : List Nat) : Nat → List Nat
  | 0 => roots.foldl (fun acc r => union acc [r]) []
  | k+1 => expand g (visited g roots k)

structure JJob where
  name : Str
  pkgs : List Nat
  up : List Str

def insertNew (l : List Str) (x : Str) : List Str := if l.contains x then l else l ++ [x]

/-- `JenkinsJob.getUpstreamJobs()` of the job `nm`: job names of the recorded dependencies that are not
steps of this job -/
def upstream (g : Graph) (nameOf : Nat → Option Str) (vis : List Nat) (nm : Str) : List Str :=
  vis.foldl (fun acc v =>
    if nameOf v = some nm then
      (g.vdeps v).foldl (fun acc d =>
        match nameOf d with
        | some dn => if dn = nm then acc else insertNew acc dn
        | none => acc) acc
    else acc) []

/-- `genJenkinsJobs`: `none` stands for the `KeyError` of a package without a calculated name -/
def genJobs (g : Graph) (n : Nat) (pfx : Str) (pn : PkgNames) (roots : List Nat) : Option (List JJob) :=
  let vis := visited g roots n
  let nameOf := internalName pfx pn
  if vis.all (fun v => (nameOf v).isSome) then
    let names := vis.foldl (fun acc v => match nameOf v with | some nm => insertNew acc nm | none => acc) []
    some (names.map fun nm => ⟨nm, vis.filter (fun v => nameOf v = some nm), upstream g nameOf vis nm⟩)
  else none

/-! ### `genJenkinsBuildOrder` -/

def upOf (jobs : List JJob) (nm : Str) : List Str :=
  match jobs.find? (fun j => j.name = nm) with
  | some j => j.up
  | none => []

/-- `visit(j, pending, processing, order, stack)`; `processing` is the set of jobs on the recursion stack.
`none` = "Jobs are cyclic". -/
def visitJob (jobs : List JJob) : Nat → Str → List Str → List Str × List Str → Option (List Str × List Str)
  | 0, _, _, st => some st
  | fuel+1, j, processing, st =>
    if processing.contains j then none
    else if st.1.contains j then
      match (upOf jobs j).foldlM (fun st d => visitJob jobs fuel d (j :: processing) st) st with
      | some st' => some (st'.1.erase j, st'.2 ++ [j])
      | none => none
    else some st

def buildOrder (jobs : List JJob) : Option (List Str) :=
  let keys := jobs.map (·.name)
  match keys.foldlM (fun st j => visitJob jobs (keys.length + 1) j [] st) (keys, []) with
  | some st => some st.2
  | none => none

end Jenkins
