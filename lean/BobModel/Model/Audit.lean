import BobModel.Util.Bytes
import BobModel.Generated.ConstsC14
/-
Model of pym/bob/audit.py.

* `Data`            the Python values `digestData` accepts (str | dict | list | int | bool | bytes | None)
* `digest`          `digestData`/`digestMap`/`digestString`: tagged, length-prefixed, key-sorted byte
                    encoding.  Transliterated as it is in the source:
                      - the length prefix of a string is its number of *code points* (`len(s)`), the payload
                        is its UTF-8 encoding;
                      - `isinstance(d, int)` is tested before `isinstance(d, bool)`, so `True`/`False` are
                        digested as the integers 1/0 (`Consts.C14.intBeforeBool`, regenerated from the source);
                      - `struct.pack` rejects lengths >= 2^32 and integers outside int64: `fits`/`digest?`.
* `Artifact`        one audit record (`Artifact.__data`), split into the `dependencies` entry, the cached
                    `artifact-id` entry and all other entries.
* `Audit`           `(artifact, references)` with `merge`, `addArg/addTool/setSandbox`, `setRecipesAudit`, `validate`
                    (worklist loop with `done` set), `getReferencedBuildIds` (worklist loop without), `saveLoad`,
                    `loadDebug` (the `--debug audit` validation on load, which checks the pre-load state).

The hash is a parameter `H : Bytes → Id` everywhere (SHA-1 in the driver).
Python sets are lists without duplicates; `set.pop()` takes the head (the verdicts that are compared do not
depend on the order).  Python dicts are association lists with replace-in-place / append.
-/
namespace Audit
open Consts.C14

abbrev Str := List Char
abbrev Id := Bytes

inductive Data where
  | str (s : Str)
  | map (kvs : List (Str × Data))
  | list (xs : List Data)
  | int (i : Int)
  | bool (b : Bool)
  | bytes (b : Bytes)
  | null
  deriving Inhabited

/-! ### the byte encoding -/

/-- `struct.pack("<BI", tag, n)` -/
def hdr (tag n : Nat) : Bytes := UInt8.ofNat tag :: Bytes.le 4 n

/-- `s.encode('utf8')` -/
def utf8 (s : Str) : Bytes := s.flatMap String.utf8EncodeChar

/-- `digestString`: the prefix counts code points, not bytes -/
def encStr (s : Str) : Bytes := hdr tagStr s.length ++ utf8 s

/-- `struct.pack("<Bq", tagInt, i)`: two's complement, 8 bytes little endian -/
def encInt (i : Int) : Bytes := UInt8.ofNat tagInt :: Bytes.le 8 (i % 18446744073709551616).toNat

/-- Python string order: lexicographic by code point -/
def strLe : Str → Str → Bool
  | [], _ => true
  | _ :: _, [] => false
  | a :: as, b :: bs => a.val < b.val || (a == b && strLe as bs)

def insertKV {α : Type} (k : Str) (v : α) : List (Str × α) → List (Str × α)
  | [] => [(k, v)]
  | (k', v') :: rest => if strLe k k' then (k, v) :: (k', v') :: rest else (k', v') :: insertKV k v rest

/-- `sorted(m.items())` (keys of a dict are distinct, so the values are never compared) -/
def sortKV {α : Type} : List (Str × α) → List (Str × α)
  | [] => []
  | (k, v) :: rest => insertKV k v (sortKV rest)

def joinKV : List (Str × Bytes) → Bytes
  | [] => []
  | (k, e) :: rest => encStr k ++ e ++ joinKV rest

mutual
/-- `digestData(d, h)`: the bytes fed to the hash -/
def digest : Data → Bytes
  | .str s => encStr s
  | .map kvs => hdr tagMap kvs.length ++ joinKV (sortKV (digestKVs kvs))
  | .list xs => hdr tagList xs.length ++ digestList xs
  | .int i => encInt i
  | .bool b =>
    if intBeforeBool then encInt (if b then 1 else 0)
    else [UInt8.ofNat tagBool, if b then 1 else 0]
  | .bytes b => hdr tagBytes b.length ++ b
  | .null => [UInt8.ofNat tagNone]
def digestKVs : List (Str × Data) → List (Str × Bytes)
  | [] => []
  | (k, v) :: rest => (k, digest v) :: digestKVs rest
def digestList : List Data → Bytes
  | [] => []
  | x :: xs => digest x ++ digestList xs
end

def lenOk (n : Nat) : Bool := n < 4294967296

mutual
/-- the values `struct.pack` accepts (otherwise `struct.error`) -/
def fits : Data → Bool
  | .str s => lenOk s.length
  | .map kvs => lenOk kvs.length && fitsKVs kvs
  | .list xs => lenOk xs.length && fitsList xs
  | .int i => decide (-9223372036854775808 ≤ i) && decide (i < 9223372036854775808)
  | .bool _ => true
  | .bytes b => lenOk b.length
  | .null => true
def fitsKVs : List (Str × Data) → Bool
  | [] => true
  | (k, v) :: rest => lenOk k.length && fits v && fitsKVs rest
def fitsList : List Data → Bool
  | [] => true
  | x :: xs => fits x && fitsList xs
end

/-- `digestData` with its error branch -/
def digest? (d : Data) : Option Bytes := if fits d then some (digest d) else none

/-! ### canonical form: what the encoding distinguishes -/

mutual
/-- keys sorted, booleans replaced by 1/0 when the source conflates them -/
def canon : Data → Data
  | .str s => .str s
  | .map kvs => .map (sortKV (canonKVs kvs))
  | .list xs => .list (canonList xs)
  | .int i => .int i
  | .bool b => if intBeforeBool then .int (if b then 1 else 0) else .bool b
  | .bytes b => .bytes b
  | .null => .null
def canonKVs : List (Str × Data) → List (Str × Data)
  | [] => []
  | (k, v) :: rest => (k, canon v) :: canonKVs rest
def canonList : List Data → List Data
  | [] => []
  | x :: xs => canon x :: canonList xs
end

mutual
/-- the plain tagged encoding (no sorting, booleans with their own tag); `digest = enc ∘ canon` -/
def enc : Data → Bytes
  | .str s => encStr s
  | .map kvs => hdr tagMap kvs.length ++ encKVs kvs
  | .list xs => hdr tagList xs.length ++ encList xs
  | .int i => encInt i
  | .bool b => [UInt8.ofNat tagBool, if b then 1 else 0]
  | .bytes b => hdr tagBytes b.length ++ b
  | .null => [UInt8.ofNat tagNone]
def encKVs : List (Str × Data) → Bytes
  | [] => []
  | (k, v) :: rest => encStr k ++ enc v ++ encKVs rest
def encList : List Data → Bytes
  | [] => []
  | x :: xs => enc x ++ encList xs
end

/-! ### dict helpers -/

def dictGet {α : Type} (d : List (Str × α)) (k : Str) : Option α :=
  match d with
  | [] => none
  | (k', v) :: rest => if k' = k then some v else dictGet rest k

/-- `d[k] = v` -/
def dictSet {α : Type} (d : List (Str × α)) (k : Str) (v : α) : List (Str × α) :=
  match d with
  | [] => [(k, v)]
  | (k', v') :: rest => if k' = k then (k', v) :: rest else (k', v') :: dictSet rest k v

/-- `del d[k]` (when present) -/
def dictDel {α : Type} (d : List (Str × α)) (k : Str) : List (Str × α) :=
  d.filter fun p => p.1 ≠ k

def setAdd (s : List Id) (x : Id) : List Id := if x ∈ s then s else s ++ [x]

def setUnion (s : List Id) : List Id → List Id
  | [] => s
  | x :: t => setUnion (setAdd s x) t

/-! ### Artifact -/

structure Artifact where
  /-- every entry of `__data` except `dependencies` and `artifact-id` -/
  other : List (Str × Data)
  /-- `dependencies.args` (absent / list of ids) -/
  args : Option (List Id)
  /-- `dependencies.tools` (absent / dict name ↦ id) -/
  tools : Option (List (Str × Id))
  /-- `dependencies.sandbox` -/
  sandbox : Option Id
  /-- the `artifact-id` entry when present (`__calculateArtifactId` trusts it) -/
  cachedId : Option Id
  deriving Inhabited

def hexStr (b : Bytes) : Str := (Bytes.toHex b).toList

def idData (i : Id) : Data := .str (hexStr i)

def optEntry (k : String) (v : Option Data) : List (Str × Data) :=
  match v with
  | none => []
  | some d => [(k.toList, d)]

namespace Artifact

def depsData (a : Artifact) : Data :=
  .map (optEntry "args" (a.args.map fun l => .list (l.map idData))
     ++ optEntry "tools" (a.tools.map fun t => .map (t.map fun (n, i) => (n, idData i)))
     ++ optEntry "sandbox" (a.sandbox.map idData))

/-- `__data` without the `artifact-id` entry: what `__calculateArtifactId` digests -/
def record (a : Artifact) : Data :=
  .map (a.other ++ [("dependencies".toList, depsData a)])

/-- `getId`: the cached entry if present, else the hash of the digest of the record -/
def getId (H : Bytes → Id) (a : Artifact) : Id :=
  match a.cachedId with
  | some i => i
  | none => H (digest a.record)

/-- `dump()` / `getId()` leave the id in `__data` -/
def dump (H : Bytes → Id) (a : Artifact) : Artifact := { a with cachedId := some (a.getId H) }

def invalidate (a : Artifact) : Artifact := { a with cachedId := none }

def addArg (a : Artifact) (i : Id) : Artifact :=
  invalidate { a with args := some (a.args.getD [] ++ [i]) }

def addTool (a : Artifact) (name : Str) (i : Id) : Artifact :=
  invalidate { a with tools := some (dictSet (a.tools.getD []) name i) }

def setSandbox (a : Artifact) (i : Id) : Artifact :=
  invalidate { a with sandbox := some i }

/-- `getReferences()`: args, sandbox, tool ids as a set -/
def getReferences (a : Artifact) : List Id :=
  setUnion [] (a.args.getD [] ++ a.sandbox.toList ++ (a.tools.getD []).map Prod.snd)

def modifyMap (d : List (Str × Data)) (k : String) (dflt : Option (List (Str × Data)))
    (f : List (Str × Data) → List (Str × Data)) : List (Str × Data) :=
  match dictGet d k.toList with
  | some (.map m) => dictSet d k.toList (.map (f m))
  | some _ => d
  | none => match dflt with
    | some m => dictSet d k.toList (.map (f m))
    | none => d

/-- `__data["meta"][name] = value` -/
def addDefine (a : Artifact) (name value : Str) : Artifact :=
  invalidate { a with other := modifyMap a.other "meta" none fun m => dictSet m name (.str value) }

/-- `__data.setdefault("metaEnv", {})[var] = value` -/
def addMetaEnv (a : Artifact) (name value : Str) : Artifact :=
  invalidate { a with other := modifyMap a.other "metaEnv" (some []) fun m => dictSet m name (.str value) }

def addAuditFile (a : Artifact) (name value : Str) : Artifact :=
  invalidate { a with other := modifyMap a.other "files" (some []) fun m => dictSet m name (.str value) }

def setEnv (a : Artifact) (text : Str) : Artifact :=
  invalidate { a with other := dictSet a.other "env".toList (.str text) }

def setRecipes (a : Artifact) (r : Option Data) : Artifact :=
  let o := match r with
    | none => dictDel a.other "recipes".toList
    | some d => dictSet a.other "recipes".toList d
  invalidate { a with other := o }

def setLayers (a : Artifact) (layers : List (Str × Data)) : Artifact :=
  let o := if layers.isEmpty then dictDel a.other "layers".toList
    else dictSet a.other "layers".toList (.map layers)
  invalidate { a with other := o }

/-- `getMetaData()["step"]` -/
def step (a : Artifact) : Option Str :=
  match dictGet a.other "meta".toList with
  | some (.map m) => match dictGet m "step".toList with
    | some (.str s) => some s
    | _ => none
  | _ => none

def hexVals : Str → Option Bytes := Bytes.ofHexAux

/-- `getBuildId()` -/
def buildId (a : Artifact) : Option Id :=
  match dictGet a.other "build-id".toList with
  | some (.str s) => hexVals s
  | _ => none

/-! parsing a loaded record (a JSON dict) into the structured view -/

def idOfData : Data → Option Id
  | .str s => if s.all (fun c => c.isDigit || ('a' ≤ c && c ≤ 'f')) then hexVals s else none
  | _ => none

def idsOfList : List Data → Option (List Id)
  | [] => some []
  | x :: xs => do
    let i ← idOfData x
    let r ← idsOfList xs
    pure (i :: r)

def toolsOfList : List (Str × Data) → Option (List (Str × Id))
  | [] => some []
  | (n, x) :: xs => do
    let i ← idOfData x
    let r ← toolsOfList xs
    pure ((n, i) :: r)

def depKeys : List Str := ["args".toList, "tools".toList, "sandbox".toList]

/-- `Artifact.load(data)`: `none` = `ParseError("Invalid audit trail")` or a record outside the model
(dependencies that are not of the documented shape).  `strict := false` reads the `__data` of a live object
(no `REQUIRED_KEYS` test, the id may be absent). -/
def ofData (d : List (Str × Data)) (strict : Bool := true) : Option Artifact :=
  if strict && !(requiredKeys.all fun k => (dictGet d k.toList).isSome) then none else
  match dictGet d "dependencies".toList with
  | some (.map deps) =>
    if !(deps.all fun p => depKeys.contains p.1) then none else do
    let args ← match dictGet deps "args".toList with
      | none => some none
      | some (.list l) => (idsOfList l).map some
      | some _ => none
    let tools ← match dictGet deps "tools".toList with
      | none => some none
      | some (.map t) => (toolsOfList t).map some
      | some _ => none
    let sandbox ← match dictGet deps "sandbox".toList with
      | none => some none
      | some x => (idOfData x).map some
    let cid ← match dictGet d "artifact-id".toList with
      | some x => (idOfData x).map some
      | none => some none
    pure { other := (dictDel (dictDel d "dependencies".toList) "artifact-id".toList),
           args := args, tools := tools, sandbox := sandbox, cachedId := cid }
  | _ => none

end Artifact

/-! ### Audit -/

structure Audit where
  artifact : Artifact
  references : List (Id × Artifact)
  deriving Inhabited

def lookupRef (refs : List (Id × Artifact)) (k : Id) : Option Artifact :=
  match refs with
  | [] => none
  | (k', v) :: rest => if k' = k then some v else lookupRef rest k

/-- `refs[k] = v` -/
def refsInsert (refs : List (Id × Artifact)) (k : Id) (v : Artifact) : List (Id × Artifact) :=
  match refs with
  | [] => [(k, v)]
  | (k', v') :: rest => if k' = k then (k', v) :: rest else (k', v') :: refsInsert rest k v

/-- `refs.update(other)` -/
def refsUpdate (refs : List (Id × Artifact)) : List (Id × Artifact) → List (Id × Artifact)
  | [] => refs
  | (k, v) :: rest => refsUpdate (refsInsert refs k v) rest

def refKeys (refs : List (Id × Artifact)) : List Id := refs.map Prod.fst

namespace Audit

/-- `Audit.create(...)` followed by the record setters: a fresh artifact without dependencies -/
def create (fields : List (Str × Data)) : Audit :=
  { artifact := { other := fields, args := none, tools := none, sandbox := none, cachedId := none },
    references := [] }

/-- `__merge(other)`; `other.getId()` leaves the id cached in the very object that is stored -/
def merge (H : Bytes → Id) (self other : Audit) : Audit :=
  { self with references :=
      refsInsert (refsUpdate self.references other.references) (other.artifact.getId H) (other.artifact.dump H) }

def addArg (H : Bytes → Id) (self other : Audit) : Audit :=
  let m := merge H self other
  { m with artifact := m.artifact.addArg (other.artifact.getId H) }

def addTool (H : Bytes → Id) (self : Audit) (name : Str) (other : Audit) : Audit :=
  let m := merge H self other
  { m with artifact := m.artifact.addTool name (other.artifact.getId H) }

def setSandbox (H : Bytes → Id) (self other : Audit) : Audit :=
  let m := merge H self other
  { m with artifact := m.artifact.setSandbox (other.artifact.getId H) }

/-- `setRecipesAudit(recipesAudit)`: the entry with the empty name is the recipes audit of the project itself
(`recipesAudit.get("")`: an absent key and a stored `None` are alike), every other entry a layer;
`audit and audit.dump()` stores `None` for a layer without audit.  `ScmAudit.dump()` is external: the values
are the dumped data. -/
def setRecipesAudit (self : Audit) (ra : List (Str × Option Data)) : Audit :=
  let layers := (ra.filter fun p => p.1 ≠ []).map fun p => (p.1, p.2.getD .null)
  { self with artifact := (self.artifact.setRecipes ((dictGet ra []).bind id)).setLayers layers }

/-- the tree `save` writes: every record dumped (`dump()` leaves the ids cached in the live objects too) -/
def save (H : Bytes → Id) (a : Audit) : Audit :=
  { artifact := a.artifact.dump H,
    references := a.references.map fun p => (p.1, p.2.dump H) }

/-- `load`/`fromFile` of a saved tree: the references dict is rebuilt keyed by the stored `artifact-id`
of each record (the keys of `tree` are not part of the file) -/
def load (H : Bytes → Id) (tree : Audit) : Audit :=
  { artifact := tree.artifact,
    references := refsUpdate [] (tree.references.map fun p => (p.2.getId H, p.2)) }

def saveLoad (H : Bytes → Id) (a : Audit) : Audit := load H (save H a)

inductive VResult where
  | ok
  | missing (id : Id)
  | outOfFuel
  deriving DecidableEq, Inhabited

/-- the `while refs:` loop of `__validate` -/
def validateLoop (refs : List (Id × Artifact)) : Nat → List Id → List Id → VResult
  | _, [], _ => .ok
  | 0, _ :: _, _ => .outOfFuel
  | fuel + 1, cur :: rest, done =>
    match lookupRef refs cur with
    | none => .missing cur
    | some a =>
      validateLoop refs fuel
        (setUnion rest (a.getReferences.filter fun d => !done.contains d)) (setAdd done cur)

/-- `__validate()`; the fuel is proved sufficient in `Props/C14.lean` -/
def validate (a : Audit) : VResult :=
  validateLoop a.references (2 * a.references.length + 1) a.artifact.getReferences []

inductive RResult where
  | ok (ids : List Id)
  | keyError
  | outOfFuel
  deriving DecidableEq, Inhabited

/-- `Audit.load` under `DEBUG['audit']`: `self.__validate()` runs *before* `__artifact` and `__references`
are assigned from the tree, so it checks the state the object had before the load (`error i` = ParseError
"Incomplete audit: missing i").  `fromFile`/`fromByteStream` call it on a fresh `cls()`. -/
def loadDebug (H : Bytes → Id) (self tree : Audit) : Except Id Audit :=
  match validate self with
  | .missing i => .error i
  | _ => .ok (load H tree)

/-- the `while refs:` loop of `getReferencedBuildIds` (no `done` set in the source) -/
def rbiLoop (refs : List (Id × Artifact)) : Nat → List Id → List Id → RResult
  | _, [], acc => .ok acc
  | 0, _ :: _, _ => .outOfFuel
  | fuel + 1, cur :: rest, acc =>
    match lookupRef refs cur with
    | none => .keyError
    | some a =>
      match a.step with
      | none => .keyError
      | some s =>
        if s = stopLabel.toList then
          match a.buildId with
          | none => .keyError
          | some b => rbiLoop refs fuel rest (setAdd acc b)
        else rbiLoop refs fuel (setUnion rest a.getReferences) acc

def bytesLt : Bytes → Bytes → Bool
  | [], [] => false
  | [], _ :: _ => true
  | _ :: _, [] => false
  | a :: as, b :: bs => a < b || (a == b && bytesLt as bs)

def insertId (x : Id) : List Id → List Id
  | [] => [x]
  | y :: ys => if bytesLt y x then y :: insertId x ys else x :: y :: ys

def sortIds (l : List Id) : List Id := l.foldr insertId []

/-- `getReferencedBuildIds()` with explicit fuel (the source loops forever on a cyclic reference graph) -/
def getReferencedBuildIds (fuel : Nat) (a : Audit) : RResult :=
  match rbiLoop a.references fuel a.artifact.getReferences [] with
  | .ok ids => .ok (sortIds ids)
  | r => r

end Audit

/-! ### build DAGs -/

inductive DepKind where
  | arg
  | tool (name : Str)
  | sandbox

/-- a step together with the steps it consumed (a DAG is identified with its unfolding: a shared
dependency is the same sub-tree, hence the same trail file) -/
inductive Build where
  | node (fields : List (Str × Data)) (deps : List (DepKind × Build))

namespace Audit

def addDep (H : Bytes → Id) (a : Audit) (k : DepKind) (d : Audit) : Audit :=
  match k with
  | .arg => addArg H a d
  | .tool n => addTool H a n d
  | .sandbox => setSandbox H a d

mutual
/-- the trail `_generateAudit` writes for a step: create, then add every dependency's saved trail -/
def trail (H : Bytes → Id) : Build → Audit
  | .node fields deps => trailDeps H (create fields) deps
def trailDeps (H : Bytes → Id) (acc : Audit) : List (DepKind × Build) → Audit
  | [] => acc
  | (k, b) :: rest => trailDeps H (addDep H acc k (saveLoad H (trail H b))) rest
end

end Audit

end Audit
