import BobModel.Util.Bytes
import BobModel.Generated.ConstsC08
/-
Model of the artifact extraction path of pym/bob/archive.py (`TarHelper._extract`,
`TarHelper.__extractPackage`), of `_tarExtractFilter` (pym/bob/utils.py), of the per-member
extraction of CPython 3.12 `tarfile` (`TarFile.extract` → `_extract_member` → `makefile`,
`makedir`, `makelink`, `makefifo`, `makedev`, `chown/chmod/utime`; ASSUMED semantics,
validated differentially) and of the acceptance logic of `LocalBuilder._downloadPackage`.

The file system is a name table from canonical absolute paths to directories / inode
references plus an inode table (regular file, symbolic link, fifo, character device), rooted
at `/`, so that "outside the workspace" exists in the model.  Path resolution is one
function `walk` with two flags: `strict` (kernel: a missing or non-directory intermediate
component fails) versus lenient (`os.path.realpath`, non strict: such components are
appended lexically and `..` is applied to the text) and `follow` (whether a symbolic link in
the last component is followed).  Recursion uses fuel (one unit per component step).

`Cfg` selects the dispatch: `Cfg.current` is what the current source does (the flags come from
`Generated/ConstsC08.lean`, regenerated from archive.py / utils.py / builder.py on every run),
`Cfg.asIs` is the dispatch before commit 8ba1640 (only `_tarExtractFilter`), `Cfg.lexical` a repair
that only normalises hard link names, `Cfg.repaired` all checks of `TarHelper.__checkMember`.
The checks are extra rejections before `tar.extract`; the extraction code is the same for all.

The fallback of `TarFile.makelink` for hard link members (re-extraction of the link target member
from the archive, `reextract` / `linkFallback`) is modelled.  Not modelled (result `unsupported`,
the run stops there): the same fallback for *symbolic* link members (`unlink`/`symlink` failed; it
searches the whole archive), writes onto fifos, symbolic link loops seen by realpath, hard link
names with a trailing slash.  Ownership and time
stamps are not kept; `chown/chmod/utime` are one step that follows links and is skipped on
failure.  Paths are absolute; the umask is 022.
-/
namespace TarExtract

abbrev Str := List Char
abbrev Name := Str
abbrev Path := List Name

/-! ### association lists -/

def aget {α β : Type} [DecidableEq α] : List (α × β) → α → Option β
  | [], _ => none
  | (k, v) :: r, x => if k = x then some v else aget r x

def adel {α β : Type} [DecidableEq α] (m : List (α × β)) (x : α) : List (α × β) :=
  m.filter (fun kv => decide (kv.1 ≠ x))

def aset {α β : Type} [DecidableEq α] (m : List (α × β)) (x : α) (v : β) : List (α × β) :=
  (x, v) :: adel m x

/-! ### file system -/

inductive Obj
  | file (data : Str)
  | symlink (target : Str)
  | fifo
  | chr
  deriving DecidableEq, Repr

structure Inode where
  obj : Obj
  mode : Nat
  deriving DecidableEq, Repr

inductive Entry
  | dir (mode : Nat)
  | ref (ino : Nat)
  deriving DecidableEq, Repr

/-- `names` maps canonical absolute paths (component lists, `[]` is `/`) to entries; the
root directory is an ordinary entry of the table. -/
structure FS where
  names : List (Path × Entry)
  inodes : List (Nat × Inode)
  next : Nat
  deriving Repr

namespace FS
def look (fs : FS) (p : Path) : Option Entry := aget fs.names p
def inode (fs : FS) (i : Nat) : Option Inode := aget fs.inodes i
def setName (fs : FS) (p : Path) (e : Entry) : FS := { fs with names := aset fs.names p e }
def delName (fs : FS) (p : Path) : FS := { fs with names := adel fs.names p }
def setInode (fs : FS) (i : Nat) (o : Inode) : FS := { fs with inodes := aset fs.inodes i o }
/-- a new inode with a number that no name refers to -/
def alloc (fs : FS) (o : Inode) : FS := { fs with inodes := aset fs.inodes fs.next o, next := fs.next + 1 }
/-- `shutil.rmtree`: the directory and everything below it -/
def delTree (fs : FS) (p : Path) : FS :=
  { fs with names := fs.names.filter (fun kv => !(p.isPrefixOf kv.1)) }
end FS

/-- the symbolic link target stored at a location, if the location is a symbolic link -/
def symTarget (fs : FS) (loc : Path) : Option Str :=
  match fs.look loc with
  | some (.ref i) =>
    match fs.inode i with
    | some ⟨.symlink t, _⟩ => some t
    | _ => none
  | _ => none

/-! ### path strings -/

def slash : Char := '/'
def dot : Name := ['.']
def dotdot : Name := ['.', '.']

/-- `str.split('/')` -/
def splitSlash : Str → List Str
  | [] => [[]]
  | c :: r =>
    if c = slash then [] :: splitSlash r
    else match splitSlash r with
      | [] => [[c]]
      | h :: t => (c :: h) :: t

/-- the non-empty components (the kernel and `os.path` both ignore empty ones) -/
def comps (s : Str) : List Name := (splitSlash s).filter (fun c => decide (c ≠ []))

def isAbs (s : Str) : Bool := s.head? = some slash

/-- `str.lstrip('/')` -/
def lstripSlash : Str → Str
  | [] => []
  | c :: r => if c = slash then lstripSlash r else c :: r

/-- components of `posixpath.normpath` (purely lexical) -/
def normAux : List Name → List Name → Bool → List Name
  | [], acc, _ => acc.reverse
  | c :: r, acc, ab =>
    if c = dot then normAux r acc ab
    else if c = dotdot then
      match acc with
      | [] => if ab then normAux r [] ab else normAux r [dotdot] ab
      | a :: acc' => if a = dotdot then normAux r (dotdot :: a :: acc') ab else normAux r acc' ab
    else normAux r (c :: acc) ab

def normpath (s : Str) : Bool × List Name := (isAbs s, normAux (comps s) [] (isAbs s))

/-! ### path resolution -/

inductive WErr
  | enoent | enotdir | eloop
  deriving DecidableEq, Repr

/-- Resolve `rest` starting at the canonical location `cur`.
`strict = true`: the kernel (`ENOENT`/`ENOTDIR` on a missing / non-directory intermediate
component; a missing *last* component yields the location where it would be created).
`strict = false`: `os.path.realpath(strict=False)`.  `follow`: follow a symbolic link in the
last component. -/
def walk (fs : FS) (strict follow : Bool) : Nat → Path → List Name → Except WErr Path
  | _, cur, [] => .ok cur
  | 0, _, _ :: _ => .error .eloop
  | n + 1, cur, c :: rest =>
    if c = dot then walk fs strict follow n cur rest
    else if c = dotdot then walk fs strict follow n cur.dropLast rest
    else
      match symTarget fs (cur ++ [c]) with
      | some t =>
        if rest = [] ∧ follow = false then .ok (cur ++ [c])
        else walk fs strict follow n (if isAbs t then [] else cur) (comps t ++ rest)
      | none =>
        -- realpath treats a missing entry, a directory and any other non-link alike
        if strict = false then walk fs strict follow n (cur ++ [c]) rest
        else
          match fs.look (cur ++ [c]) with
          | some (.dir _) => walk fs strict follow n (cur ++ [c]) rest
          | none => if rest = [] then .ok (cur ++ [c]) else .error .enoent
          | some (.ref _) => if rest = [] then .ok (cur ++ [c]) else .error .enotdir

structure Cfg where
  fuel : Nat
  /-- `_tarExtractFilter` is installed by `tarfileOpen` and checks `realpath(name)` -/
  filter : Bool
  /-- repair: member names (after the `content/` prefix) must consist of plain components -/
  canonNames : Bool
  /-- repair: the directory that receives the member must resolve inside the destination -/
  parentCheck : Bool
  /-- repair of the hard link handling: 0 = none (code as it is), 1 = lexical (normalised link
  name must not leave `content/`; insufficient), 2 = strict (canonical link name, source is an
  extracted regular file inside, destination does not exist) -/
  lnkCheck : Nat
  deriving Repr

/-- the dispatch before commit 8ba1640 (kept for the refutation witnesses) -/
def Cfg.asIs (fuel : Nat) : Cfg := ⟨fuel, true, false, false, 0⟩
/-- a repair that only normalises the hard link name (insufficient, see Props/C08) -/
def Cfg.lexical (fuel : Nat) : Cfg := ⟨fuel, true, false, false, 1⟩
def Cfg.repaired (fuel : Nat) : Cfg := ⟨fuel, true, true, true, 2⟩
/-- what the current source does (regenerated constants) -/
def Cfg.current (fuel : Nat) : Cfg :=
  ⟨fuel, Consts.C08.filterInstalled, Consts.C08.canonNames, Consts.C08.parentCheck, Consts.C08.lnkCheck⟩

/-- `os.path.realpath` of an absolute path -/
def realpath (fs : FS) (cfg : Cfg) (p : List Name) : Except WErr Path := walk fs false true cfg.fuel [] p
/-- kernel resolution of an absolute path -/
def kres (fs : FS) (cfg : Cfg) (follow : Bool) (p : List Name) : Except WErr Path := walk fs true follow cfg.fuel [] p

/-- `os.path.exists` -/
def kexists (fs : FS) (cfg : Cfg) (p : List Name) : Bool :=
  match kres fs cfg true p with
  | .ok loc => (fs.look loc).isSome
  | .error _ => false

/-! ### primitive operations (kernel calls as used by tarfile) -/

inductive KRes
  | ok | eexist | fail | unsup
  deriving DecidableEq, Repr

/-- `os.mkdir(p, mode)` -/
def kMkdir (fs : FS) (cfg : Cfg) (p : List Name) (mode : Nat) : FS × KRes :=
  match kres fs cfg false p with
  | .error _ => (fs, .fail)
  | .ok loc =>
    match fs.look loc with
    | some _ => (fs, .eexist)
    | none => (fs.setName loc (.dir mode), .ok)

/-- `os.makedirs(p)` (exist_ok=False, mode 0o777 under umask 022), transliterated recursion;
`k` bounds the recursion depth by the number of components -/
def makedirs (fs : FS) (cfg : Cfg) : Nat → List Name → FS × KRes
  | 0, _ => (fs, .fail)
  | k + 1, p =>
    match p.getLast? with
    | none => (fs, .eexist)
    | some tail =>
      let head := p.dropLast
      let r1 := if head ≠ [] ∧ kexists fs cfg head = false then makedirs fs cfg k head else (fs, .ok)
      match r1.2 with
      | .fail => (r1.1, .fail)
      | .unsup => (r1.1, .unsup)
      | _ =>                       -- FileExistsError of the recursive call is swallowed
        if tail = dot then (r1.1, .ok)
        else kMkdir r1.1 cfg p 0o755

/-- `chown`, `chmod`, `utime` of tarfile after a member was created: all three follow symbolic
links, a failure raises ExtractError which is only logged at errorlevel 1.  Only the mode is
kept in the model. -/
def chmodFollow (fs : FS) (cfg : Cfg) (p : List Name) (mode : Nat) : FS :=
  match kres fs cfg true p with
  | .error _ => fs
  | .ok loc =>
    match fs.look loc with
    | none => fs
    | some (.dir _) => fs.setName loc (.dir mode)
    | some (.ref i) =>
      match fs.inode i with
      | some ino => fs.setInode i { ino with mode := mode }
      | none => fs

/-- `open(p, "wb")` followed by writing `data` -/
def kWrite (fs : FS) (cfg : Cfg) (p : List Name) (data : Str) : FS × KRes :=
  match kres fs cfg true p with
  | .error _ => (fs, .fail)
  | .ok loc =>
    match fs.look loc with
    | none => ((fs.alloc ⟨.file data, 0o644⟩).setName loc (.ref fs.next), .ok)
    | some (.dir _) => (fs, .fail)
    | some (.ref i) =>
      match fs.inode i with
      | some ⟨.file _, m⟩ => (fs.setInode i ⟨.file data, m⟩, .ok)
      | some ⟨.chr, _⟩ => (fs, .ok)
      | some ⟨.fifo, _⟩ => (fs, .unsup)
      | _ => (fs, .fail)

/-- `makelink` for a symbolic link member: `if lexists: unlink` then `symlink`.  Any OSError
enters the fallback of `makelink` (not modelled). -/
def kSymlink (fs : FS) (cfg : Cfg) (p : List Name) (target : Str) : FS × KRes :=
  if target = [] then (fs, .unsup) else
  match kres fs cfg false p with
  | .error _ => (fs, .unsup)
  | .ok loc =>
    match fs.look loc with
    | some (.dir _) => (fs, .unsup)
    | _ =>
      -- `os.symlink` resolves the path again after the `unlink`: when the removed link was part of
      -- the path itself (`x -> .`, member `x/x`) the call fails and the fallback is entered
      match kres (fs.delName loc) cfg false p with
      | .ok loc' =>
        if loc' = loc then (((fs.delName loc).alloc ⟨.symlink target, 0o777⟩).setName loc (.ref fs.next), .ok)
        else (fs.delName loc, .unsup)
      | .error _ => (fs.delName loc, .unsup)

/-- `os.link(src, dst)`; failures enter the fallback of `makelink` (not modelled) -/
def kLink (fs : FS) (cfg : Cfg) (src dst : List Name) : FS × KRes :=
  match kres fs cfg false src, kres fs cfg false dst with
  | .ok s, .ok d =>
    match fs.look s, fs.look d with
    | some (.ref i), none => (fs.setName d (.ref i), .ok)
    | _, _ => (fs, .unsup)
  | _, _ => (fs, .unsup)

/-- `os.mkfifo` / `os.mknod` -/
def kMknod (fs : FS) (cfg : Cfg) (p : List Name) (o : Obj) : FS × KRes :=
  match kres fs cfg false p with
  | .error _ => (fs, .fail)
  | .ok loc =>
    match fs.look loc with
    | some _ => (fs, .fail)
    | none => ((fs.alloc ⟨o, 0o644⟩).setName loc (.ref fs.next), .ok)

/-- `removePath` of pym/bob/utils.py -/
def removePath (fs : FS) (cfg : Cfg) (p : List Name) : FS :=
  match kres fs cfg false p with
  | .error _ => fs
  | .ok loc =>
    match fs.look loc with
    | none => fs
    | some (.dir _) => fs.delTree loc
    | some (.ref _) => fs.delName loc

/-! ### archive members -/

inductive MType
  | reg | dir | sym | lnk | fifo | chr
  deriving DecidableEq, Repr

structure Member where
  name : Str
  type : MType
  linkname : Str
  mode : Nat
  data : Str
  deriving DecidableEq, Repr

inductive Err
  | unsupportedArtifact | invalidHardLink | unknownFile | filter
  | filterName | filterParent | filterLink
  | oserror | keyerror | streamerror | internal | unsupported
  deriving DecidableEq, Repr

def contentSlash : Str := Consts.C08.contentPrefix
def auditMember : Str := Consts.C08.auditMember

/-- all components of a relative name are plain: no empty component, no `.`, no `..` -/
def canonical (s : Str) : Bool :=
  (splitSlash s).all (fun c => decide (c ≠ [] ∧ c ≠ dot ∧ c ≠ dotdot))

/-- `_tarExtractFilter(member, path)`; `dest` is the destination as passed to `extract`.
Returns the (possibly renamed) member. -/
def tarFilter (cfg : Cfg) (fs : FS) (dest : List Name) (m : Member) : Except Err Member :=
  match realpath fs cfg dest with
  | .error _ => .error .unsupported
  | .ok path =>
    let name := lstripSlash m.name
    match realpath fs cfg (path ++ comps name) with
    | .error _ => .error .unsupported
    | .ok full =>
      if cfg.filter = true ∧ path.isPrefixOf full = false then .error .filter else .ok { m with name := name }

/-- the repaired dispatch: extra rejections before `tar.extract` (`TarHelper.__checkMember` of
the proposed patch); the dispatch that exists performs none of them -/
def checkMember (cfg : Cfg) (fs : FS) (dest : List Name) (m : Member) : Except Err Unit :=
  match realpath fs cfg dest with
  | .error _ => .error .unsupported
  | .ok path =>
    if cfg.canonNames = true ∧ canonical m.name = false then .error .filterName else
    let nc := comps m.name
    let parentOk : Except Err Unit :=
      if cfg.parentCheck = true then
        match realpath fs cfg (path ++ nc.dropLast) with
        | .error _ => .error .unsupported
        | .ok par => if path.isPrefixOf par then .ok () else .error .filterParent
      else .ok ()
    match parentOk with
    | .error e => .error e
    | .ok () =>
      if m.type = .lnk ∧ cfg.lnkCheck = 2 then
        let src := if isAbs m.linkname then comps m.linkname else path ++ comps m.linkname
        match realpath fs cfg src with
        | .error _ => .error .unsupported
        | .ok rsrc =>
          if path.isPrefixOf rsrc = false then .error .filterLink else
          -- not islink(source) and isfile(source)
          match kres fs cfg false src with
          | .error _ => .error .filterLink
          | .ok s =>
            match fs.look s with
            | some (.ref i) =>
              match fs.inode i with
              | some ⟨.file _, _⟩ =>
                -- not lexists(destination)
                match kres fs cfg false (path ++ nc) with
                | .ok d => if (fs.look d).isSome then .error .filterLink else .ok ()
                | .error _ => .ok ()
              | _ => .error .filterLink
            | _ => .error .filterLink
      else .ok ()

/-- `os.path.normpath` as a comparison key (`_getmember(..., normalize=True)`): the lexically
normalised components plus the number of leading slashes Python keeps (exactly two stay two) -/
def normKey (s : Str) : Nat × List Name :=
  let lead : Nat :=
    if isAbs s then (if (s.drop 1).head? = some slash ∧ (s.drop 2).head? ≠ some slash then 2 else 1) else 0
  (lead, (normpath s).2)

/-- The re-extraction fallback of `TarFile.makelink` for a hard link member whose `os.link` was not
possible: `_find_link_target` (`_getmember(linkname, tarinfo=<the link member>, normalize=True)`:
the latest member *before* the link member whose normalised name equals the normalised link name;
`before` holds those members latest first, named as `__extractPackage` has renamed them) and
`_extract_member(<that member>, targetpath)` at the path `full` of the link member.
 * no such member: `KeyError` (result `keyerror`; the callers turn it into what `makelink` does);
 * `getmembers()` has read the stream to its end, so the data of a regular member cannot be read
   again: `StreamError`;
 * directory / fifo / device: as in a first extraction, with the attributes of the *found* member;
 * symbolic link: `unlink` + `symlink`, no attribute calls that follow links; its own fallback
   (when that fails) is not modelled: `unsupported`;
 * hard link: the archive's own `TarInfo` has no `_link_target` (`AttributeError`, which is one of
   `symlink_exception`), so `makelink` enters its handler and re-extracts *that* member's target,
   searched before it; afterwards the attributes of the found hard link member are applied.  A
   `KeyError` in the handler becomes `ExtractError`, which is only logged at errorlevel 1 — but
   the stream is exhausted and the next `tar.next()` of `__extractPackage` raises `StreamError`.
The upper directories exist (the outer `_extract_member` has just created them), `os.makedirs` is
not run again.  An `OSError` of the first attempt in the `else` branch of `makelink` enters the
handler, which repeats the same re-extraction on the unchanged tree and fails the same way. -/
def reextract (cfg : Cfg) (fs : FS) (full : List Name) : List Member → Str → FS × Option Err
  | [], _ => (fs, some .keyerror)
  | t :: before, ln =>
    if normKey t.name ≠ normKey ln then reextract cfg fs full before ln
    else
      match t.type with
      | .reg => (fs, some .streamerror)
      | .dir =>
        let r := kMkdir fs cfg full 0o700
        match r.2 with
        | .ok => (chmodFollow r.1 cfg full t.mode, none)
        | .eexist => (chmodFollow r.1 cfg full t.mode, none)
        | _ => (r.1, some .oserror)
      | .sym =>
        let r := kSymlink fs cfg full t.linkname
        match r.2 with
        | .ok => (r.1, none)
        | _ => (r.1, some .unsupported)
      | .lnk =>
        let r := reextract cfg fs full before t.linkname
        match r.2 with
        | none => (chmodFollow r.1 cfg full t.mode, none)
        | some .keyerror => (r.1, some .streamerror)
        | some e => (r.1, some e)
      | .fifo =>
        let r := kMknod fs cfg full .fifo
        match r.2 with
        | .ok => (chmodFollow r.1 cfg full t.mode, none)
        | _ => (r.1, some .oserror)
      | .chr =>
        let r := kMknod fs cfg full .chr
        match r.2 with
        | .ok => (chmodFollow r.1 cfg full t.mode, none)
        | _ => (r.1, some .oserror)

/-- `makelink` of a hard link member after `os.link` was not possible (`fs`: the tree at that
point).  A successful re-extraction is followed by the attribute calls of the link member itself
(`chown`/`chmod`/`utime` follow symbolic links), and then `__extractPackage` asks the exhausted
stream for the next member: `StreamError`.  `notFound`: what a `KeyError` of `_find_link_target`
becomes (`keyerror` in the `else` branch of `makelink`, `ExtractError` = logged only in its handler). -/
def linkFallback (cfg : Cfg) (fs : FS) (full : List Name) (prev : List Member) (m : Member) (notFound : Err) : FS × Option Err :=
  let r := reextract cfg fs full prev m.linkname
  match r.2 with
  | none => (chmodFollow r.1 cfg full m.mode, some .streamerror)
  | some .keyerror => (r.1, some notFound)
  | some e => (r.1, some e)

/-- `TarFile._extract_member` for a member that passed the filter (`m.name` is the filtered
name), including the creation of the upper directories and the attribute calls.
`prev`: the members seen before (as renamed by the dispatch, latest first), for
`_find_link_target`. -/
def extractMember (cfg : Cfg) (fs : FS) (dest : List Name) (prev : List Member) (m : Member) : FS × Option Err :=
  let full := dest ++ comps m.name
  let up := full.dropLast
  let r1 := if up ≠ [] ∧ kexists fs cfg up = false then makedirs fs cfg up.length up else (fs, KRes.ok)
  match r1.2 with
  | .fail => (r1.1, some .oserror)
  | .eexist => (r1.1, some .oserror)
  | .unsup => (r1.1, some .unsupported)
  | .ok =>
    let fs1 := r1.1
    match m.type with
    | .reg =>
      let r := kWrite fs1 cfg full m.data
      match r.2 with
      | .ok => (chmodFollow r.1 cfg full m.mode, none)
      | .unsup => (r.1, some .unsupported)
      | _ => (r.1, some .oserror)
    | .dir =>
      let r := kMkdir fs1 cfg full 0o700
      match r.2 with
      | .ok => (chmodFollow r.1 cfg full m.mode, none)
      | .eexist => (chmodFollow r.1 cfg full m.mode, none)
      | _ => (r.1, some .oserror)
    | .sym =>
      let r := kSymlink fs1 cfg full m.linkname
      match r.2 with
      | .ok => (r.1, none)
      | _ => (r.1, some .unsupported)
    | .lnk =>
      if m.linkname.getLast? = some slash then (fs1, some .unsupported) else
      let src := if isAbs m.linkname then comps m.linkname else dest ++ comps m.linkname
      if kexists fs1 cfg src then
        let r := kLink fs1 cfg src full
        match r.2 with
        | .ok => (chmodFollow r.1 cfg full m.mode, none)
        | _ => linkFallback cfg r.1 full prev m .streamerror
      else linkFallback cfg fs1 full prev m .keyerror
    | .fifo =>
      let r := kMknod fs1 cfg full .fifo
      match r.2 with
      | .ok => (chmodFollow r.1 cfg full m.mode, none)
      | _ => (r.1, some .oserror)
    | .chr =>
      let r := kMknod fs1 cfg full .chr
      match r.2 with
      | .ok => (chmodFollow r.1 cfg full m.mode, none)
      | _ => (r.1, some .oserror)

/-! ### `TarHelper.__extractPackage` -/

inductive Action
  | content (m : Member)      -- member renamed into the workspace name space
  | audit
  | skip
  deriving DecidableEq, Repr

/-- the name space dispatch of `__extractPackage` (pure part) -/
def dispatch (cfg : Cfg) (m : Member) : Except Err Action :=
  if contentSlash.isPrefixOf m.name then
    if m.type = .lnk then
      if contentSlash.isPrefixOf m.linkname = false then .error .invalidHardLink
      else
        let ln := m.linkname.drop Consts.C08.stripLen
        if cfg.lnkCheck = 1 ∧ (isAbs ln ∨ (normpath ln).2.head? = some dotdot) then .error .invalidHardLink
        else .ok (.content { m with name := m.name.drop Consts.C08.stripLen, linkname := ln })
    else .ok (.content { m with name := m.name.drop Consts.C08.stripLen })
  else if m.name = auditMember then .ok .audit
  else if Consts.C08.skipNames.contains m.name then .ok .skip
  else if Consts.C08.unknownRejected then .error .unknownFile
  else .ok .skip

structure St where
  fs : FS
  err : Option Err
  prev : List Member
  deriving Repr

def stepMember (cfg : Cfg) (dest audit : List Name) (st : St) (m : Member) : St :=
  if st.err.isSome then st else
  match dispatch cfg m with
  | .error e => { st with err := some e }
  | .ok .skip => { st with prev := m :: st.prev }
  | .ok .audit =>
    -- `tar.extractfile(f)`: a file object only for regular members
    if m.type = .sym ∨ m.type = .lnk then { st with err := some .streamerror } else
    if m.type ≠ .reg then { st with err := some .internal } else
    let r := kWrite st.fs cfg audit m.data
    match r.2 with
    | .ok => { fs := r.1, err := none, prev := m :: st.prev }
    | .unsup => { st with fs := r.1, err := some .unsupported }
    | _ => { st with fs := r.1, err := some .oserror }
  | .ok (.content m') =>
    match checkMember cfg st.fs dest m' with
    | .error e => { st with err := some e }
    | .ok () =>
      match tarFilter cfg st.fs dest m' with
      | .error e => { st with err := some e }
      | .ok m'' =>
        let r := extractMember cfg st.fs dest st.prev m''
        { fs := r.1, err := r.2, prev := m' :: st.prev }

/-- `__extractPackage(tar, audit, content)`; `vsn` is the pax header `bob-archive-vsn` -/
def extractPackage (cfg : Cfg) (dest audit : List Name) (vsn : Option Str) (fs : FS) (ms : List Member) : St :=
  if vsn.getD Consts.C08.vsnDefault ≠ Consts.C08.vsnAccepted then ⟨fs, some .unsupportedArtifact, []⟩
  else ms.foldl (stepMember cfg dest audit) ⟨fs, none, []⟩

/-- `TarHelper._extract(fileobj, audit, content)` after the archive was opened -/
def extractAll (cfg : Cfg) (dest audit : List Name) (vsn : Option Str) (fs : FS) (ms : List Member) : St :=
  let fs1 := removePath fs cfg audit
  let fs2 := removePath fs1 cfg dest
  let r := makedirs fs2 cfg dest.length dest
  match r.2 with
  | .ok => extractPackage cfg dest audit vsn r.1 ms
  | _ => ⟨r.1, some .oserror, []⟩

/-! ### `TarHelper._pack` (name space only; the codec is the tar library) -/

/-- what `tar.add(audit, "meta/" + basename(audit)); tar.add(content, arcname="content")` emits when
the library lists the tree below `content` as the members `rels` (names relative to the tree,
hard link names relative to the tree) -/
def packMembers (auditBase : Str) (auditData : Str) (rels : List Member) : List Member :=
  ⟨Consts.C08.packMetaDir ++ auditBase, .reg, [], 0o644, auditData⟩ ::
  ⟨Consts.C08.packContent, .dir, [], 0o755, []⟩ ::
  rels.map (fun m => { m with name := Consts.C08.packContent ++ [slash] ++ m.name,
                              linkname := if m.type = .lnk then Consts.C08.packContent ++ [slash] ++ m.linkname else m.linkname })

/-! ### acceptance of a download (`LocalBuilder._downloadPackage`, builder.py) -/

inductive DlErr
  | missingAudit | corrupt
  deriving DecidableEq, Repr

/-- what the builder observes after `downloadPackage` returned -/
structure DlObs (Digest : Type) where
  wasDownloaded : Bool
  auditExists : Bool
  auditResultHash : Digest
  workspaceHash : Digest

/-- `some hash` = the download is recorded as the result of the package step with that result
hash; `none` = nothing downloaded (the package is built). -/
def acceptDownload {Digest : Type} [DecidableEq Digest] (o : DlObs Digest) : Except DlErr (Option Digest) :=
  if o.wasDownloaded then
    if Consts.C08.auditPresenceChecked = true ∧ o.auditExists = false then .error .missingAudit
    else if Consts.C08.resultHashChecked = true ∧ o.auditResultHash ≠ o.workspaceHash then .error .corrupt
    else .ok (some o.workspaceHash)
  else .ok none

end TarExtract
