import BobModel.Generated.ConstsC09
/-
Model of the file archive back end of pym/bob/archive.py as a transition system over one
archive directory that is shared by any number of processes:

* `LocalArchive._openUploadFile`            -> pcs `statDest`, `ensureDir`, `create`
* `BaseArchive._uploadPackage` / `_pack`    -> pcs `fetch k`, `write k`          (kind `package`)
* `BaseArchive._downloadPackage` with a cache archive: `Tee`, `MirrorLeecher`, `MirrorWriter`
                                            -> `mOpen`, then the same pcs         (kind `mirror`)
* `BaseArchive._uploadLocalFile`            -> the same pcs with `overwrite`      (kind `md s`)
* `LocalArchiveUploader.__exit__`           -> `flush`, `close`, `chmod`, `publish`, `unlink` (success)
                                               `fClose`, `fUnlink`                 (exception pending)
* `LocalArchiveDownloader` + read loop      -> `rOpen`, `rRead`                   (kind `reader`)

The file system is a name table (`Name → Option Ino`) plus an inode table; a name is the artifact
name of the one Build-Id under consideration, one of the overwritable metadata names, or a
temporary name in the destination directory.  Content is a list of abstract chunks (one chunk =
the data of one `write` system call).  `step` executes ONE file system operation of ONE process;
the `Choice` says whether the operation runs, fails with an injected I/O error, or the process is
killed (it never takes a step again).  Scheduling = the order of `(Pid, Choice)` pairs.

Library calls are abstracted (see ASSUMPTIONS in harness/props/c09.py): `os.makedirs` is one
operation, `NamedTemporaryFile` creates a fresh name atomically (O_EXCL), `BufferedWriter.close`
is "write what is buffered, then close(2)", `os.path.isfile` maps every error to "absent".

Which of link()/replace() a caller uses is not hard coded: it is the `overwrite` argument found at
the call sites of `_openUploadFile` in the current source (Generated/ConstsC09.lean).
-/
namespace ArchiveFS

abbrev Pid := Nat
abbrev Ino := Nat
/-- the data of one write(2) call, abstract -/
abbrev Chunk := Nat

inductive Suffix | buildid | fprnt
  deriving DecidableEq, Repr

inductive Name
  | art                    -- <archive>/xx/yy/<build-id>-1.tgz
  | md (s : Suffix)        -- <archive>/xx/yy/<key>-1.buildid / .fprnt
  | tmp (k : Nat)          -- temporary name in the destination directory
  deriving DecidableEq, Repr

inductive Kind
  | package                -- BaseArchive._uploadPackage
  | mirror                 -- BaseArchive._downloadPackage(caches=[this archive])
  | md (s : Suffix)        -- BaseArchive._uploadLocalFile
  | reader                 -- BaseArchive._downloadPackage / any reader of the artifact name
  deriving DecidableEq, Repr

/-- the program of one process -/
structure Params where
  kind : Kind
  /-- package/meta: the packed data; mirror: the complete upstream file; chunk granularity = write calls -/
  payload : List Chunk
  /-- number of chunks that reach the file before `__exit__` (the rest is still buffered and is
  written by `tmp.close()`) -/
  nPack : Nat
  /-- mirror only: how many chunks of the upstream file the extractor (tarfile) reads before it stops
  at the end-of-archive marker -/
  consumed : Nat
  /-- `fileMode` is configured: `os.chmod` before publishing -/
  fileMode : Bool
  deriving Repr

/-- what the process hands to `write`.  A mirror copies what is read from the upstream file: what the
extractor consumed and, if `_downloadPackage` drains the stream afterwards (it does since the fix of
F-C09-1; taken from the current source), everything up to end of file. -/
def written (pr : Params) : List Chunk :=
  match pr.kind with
  | .mirror => if Consts.C09.mirrorDrains then pr.payload else pr.payload.take pr.consumed
  | _ => pr.payload

/-- `overwrite` argument of `_openUploadFile` at the three call sites (from the current source) -/
def overwrite : Kind → Bool
  | .package => Consts.C09.overwritePackage
  | .mirror => Consts.C09.overwriteCache
  | .md _ => Consts.C09.overwriteMeta
  | .reader => false

/-- the name a process publishes under -/
def dest : Kind → Name
  | .md s => .md s
  | _ => .art

inductive Choice | run | fail | kill
  deriving DecidableEq, Repr

inductive LinkSt | linked | lost | err
  deriving DecidableEq, Repr

inductive Result | ok | skipped | lost | failed | notFound | read
  deriving DecidableEq, Repr

inductive PC
  | mOpen                  -- mirror: open the upstream artifact
  | statDest               -- os.path.isfile(destination)   (only if not overwrite)
  | ensureDir              -- os.path.isdir / os.makedirs(exist_ok=True)
  | create                 -- NamedTemporaryFile(dir=destination directory, delete=False)
  | fetch (k : Nat)        -- produce chunk k (read workspace / read upstream) or finish the body; may raise
  | write (k : Nat)        -- write chunk k to the temporary file
  | flush                  -- tmp.close(), part 1: write the buffered rest
  | close (ok : Bool)      -- tmp.close(), part 2: close(2); ok = false when the flush raised
  | chmod
  | publish                -- os.link(tmp, dest)  or  os.replace(tmp, dest)
  | unlink (st : LinkSt)   -- os.unlink(tmp) in the `finally` of the link
  | fClose                 -- exception pending: tmp.close()
  | fUnlink                -- exception pending: os.unlink(tmp)
  | rOpen                  -- reader: open(artifact name)
  | rRead (pos : Nat)      -- reader: read next chunk
  | done (r : Result)
  deriving DecidableEq, Repr

structure Proc where
  pc : PC
  /-- ghost: the process has created its temporary file (fields `tmp`, `ino` are valid) -/
  created : Bool := false
  tmp : Nat := 0
  ino : Ino := 0
  /-- ghost: this process' link()/replace() bound its inode to the destination name -/
  linked : Bool := false
  killed : Bool := false
  /-- reader: inode behind the descriptor, data read so far -/
  rino : Ino := 0
  acc : List Chunk := []
  deriving Repr

structure Inode where
  chunks : List Chunk := []
  closed : Bool := false
  /-- chmod applied -/
  mode : Bool := false
  /-- ghost: creating process -/
  owner : Pid := 0
  deriving Repr, DecidableEq

structure State where
  names : Name → Option Ino
  inodes : Ino → Inode
  nextIno : Nat
  nextTmp : Nat
  dirExists : Bool
  procs : Pid → Proc

def upd {α : Type} {β : Type} [DecidableEq α] (f : α → β) (a : α) (b : β) : α → β :=
  fun x => if x = a then b else f x

def startPc : Kind → PC
  | .package => .statDest
  | .mirror => .mOpen
  | .md _ => .statDest
  | .reader => .rOpen

def init (prog : Pid → Params) : State :=
  { names := fun _ => none, inodes := fun _ => {}, nextIno := 0, nextTmp := 0, dirExists := false,
    procs := fun p => { pc := startPc (prog p).kind } }

def setPc (s : State) (p : Pid) (pc : PC) : State :=
  { s with procs := upd s.procs p { s.procs p with pc := pc } }

def modInode (s : State) (i : Ino) (f : Inode → Inode) : State :=
  { s with inodes := upd s.inodes i (f (s.inodes i)) }

/-- after chunk `k` has been produced: write it, or (everything that reaches the file before `__exit__`
has been written) leave the `with` body -/
def afterFetch (pr : Params) (k : Nat) : PC :=
  if k < pr.nPack then .write k else .flush

def finalResult : LinkSt → Result
  | .linked => .ok
  | .lost => .lost
  | .err => .failed

/-- one operation of process `p` (not killed); `fail` = the operation raises OSError -/
def exec (pr : Params) (s : State) (p : Pid) (fail : Bool) : State :=
  let q := s.procs p
  match q.pc with
  | .mOpen => setPc s p (if fail then .done .failed else .statDest)
  | .statDest =>
    -- `if not overwrite and os.path.isfile(dest): raise ArtifactExistsError`; isfile() maps errors to False
    if overwrite pr.kind then setPc s p .ensureDir
    else if !fail && (s.names (dest pr.kind)).isSome then setPc s p (.done .skipped)
    else setPc s p .ensureDir
  | .ensureDir =>
    if fail then setPc s p (.done .failed)
    else { setPc s p .create with dirExists := true }
  | .create =>
    if fail then setPc s p (.done .failed)
    else
      { s with
        names := upd s.names (.tmp s.nextTmp) (some s.nextIno)
        inodes := upd s.inodes s.nextIno { owner := p }
        nextIno := s.nextIno + 1
        nextTmp := s.nextTmp + 1
        procs := upd s.procs p { q with pc := .fetch 0, created := true, tmp := s.nextTmp, ino := s.nextIno } }
  | .fetch k => setPc s p (if fail then .fClose else afterFetch pr k)
  | .write k =>
    if fail then setPc s p .fClose
    else setPc (modInode s q.ino fun n => { n with chunks := n.chunks ++ ((written pr).drop k).take 1 }) p
           (.fetch (k + 1))
  | .flush =>
    if fail then setPc s p (.close false)
    else setPc (modInode s q.ino fun n => { n with chunks := n.chunks ++ (written pr).drop pr.nPack }) p (.close true)
  | .close ok =>
    if fail then setPc s p (.done .failed)
    else setPc (modInode s q.ino fun n => { n with closed := true }) p
           (if ok then (if pr.fileMode then .chmod else .publish) else .done .failed)
  | .chmod =>
    if fail then setPc s p (.done .failed)
    else setPc (modInode s q.ino fun n => { n with mode := true }) p .publish
  | .publish =>
    if overwrite pr.kind then
      -- os.replace(tmp, dest); an error propagates, nothing is cleaned up
      if fail then setPc s p (.done .failed)
      else
        { s with
          names := upd (upd s.names (dest pr.kind) (some q.ino)) (.tmp q.tmp) none
          procs := upd s.procs p { q with pc := .done .ok, linked := true } }
    else
      -- try: os.link(tmp, dest)  except FileExistsError: pass  finally: os.unlink(tmp)
      if fail then setPc s p (.unlink .err)
      else match s.names (dest pr.kind) with
        | some _ => setPc s p (.unlink .lost)
        | none =>
          { s with
            names := upd s.names (dest pr.kind) (some q.ino)
            procs := upd s.procs p { q with pc := .unlink .linked, linked := true } }
  | .unlink st =>
    if fail then setPc s p (.done .failed)
    else
      { s with
        names := upd s.names (.tmp q.tmp) none
        procs := upd s.procs p { q with pc := .done (finalResult st) } }
  | .fClose =>
    -- `self.tmp.close()` is the first statement of __exit__: if it raises, the unlink is skipped
    if fail then setPc s p (.done .failed)
    else setPc (modInode s q.ino fun n => { n with closed := true }) p .fUnlink
  | .fUnlink =>
    if fail then setPc s p (.done .failed)
    else
      { s with
        names := upd s.names (.tmp q.tmp) none
        procs := upd s.procs p { q with pc := .done .failed } }
  | .rOpen =>
    if fail then setPc s p (.done .failed)
    else match s.names .art with
      | none => setPc s p (.done .notFound)
      | some i => { s with procs := upd s.procs p { q with pc := .rRead 0, rino := i, acc := [] } }
  | .rRead pos =>
    if fail then setPc s p (.done .failed)
    else match (s.inodes q.rino).chunks[pos]? with
      | some c => { s with procs := upd s.procs p { q with pc := .rRead (pos + 1), acc := q.acc ++ [c] } }
      | none => setPc s p (.done .read)
  | .done _ => s

/-- the transition function: scheduler picks `p`, the environment picks run / I/O error / kill -/
def step (prog : Pid → Params) (s : State) (p : Pid) (c : Choice) : State :=
  if (s.procs p).killed then s
  else match c with
    | .kill => { s with procs := upd s.procs p { s.procs p with killed := true } }
    | .run => exec (prog p) s p false
    | .fail => exec (prog p) s p true

/-- a schedule with fault choices -/
abbrev Sched := List (Pid × Choice)

def run (prog : Pid → Params) (s : State) : Sched → State
  | [] => s
  | (p, c) :: rest => run prog (step prog s p c) rest

end ArchiveFS
