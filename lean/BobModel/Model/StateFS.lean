import BobModel.Util.Sha1
import BobModel.Generated.ConstsC10
/-
Model of the persistence protocol of `pym/bob/state.py` (`_BobState`): an abstract file system
with synced / unsynced file contents, crashes that garble unsynced contents, and the
save / commit / load / finalize / lock state machine of `_BobState` emitting file-system operations.

  __init__   : O_CREAT|O_EXCL lock file, `__commit(verify=True)`, load `.bob-state.pickle`
  __save     : write `<new>.dirty` (pickle ++ Adler-32 trailer), rename to `<new>`          (no fsync)
  __commit   : exists `<new>`? -> [read, verify] -> fsync -> rename to `.bob-state.pickle` | unlink
  finalize   : assert not asynchronous/dirty, `__commit(verify=False)`, unlink lock
  setAsynchronous / setSynchronous : deferred save

The machine is generic in the in-memory state `σ`, the mutators `μ` and their semantics
(`Cfg.step : σ → μ → σ × Bool`, the flag says whether the mutator calls `__save`), and in the pickle
codec.  The concrete mutators of `_BobState` (`St`, `Mut`, `stepSt`) instantiate it for the
correspondence run.  The four file names, the version window, the upgrade thresholds and the
trailer layout come from `Generated/ConstsC10.lean`.

I/O errors (section "I/O errors of the file-system calls"): every FS call of `__save`, `__commit`,
`finalize`, `__init__` may fail; the exception handling is transliterated as it is (`__save`: OSError ->
ParseError, `.dirty` is left behind; `__commit`: `os.path.exists` swallows a stat error, every other
OSError -> warning and *unlink of the uncommitted file*, an unlink error -> warning; lock creation:
non-EEXIST error -> warning and the instance runs unlocked; load: OSError -> `finalize(); raise`).

Not modelled: the sqlite build-id cache, directory fsync (rename durability is assumed).
-/
namespace StateFS

/-! ## file system -/

inductive Name
  | lock | pickle | new | dirty
  deriving DecidableEq, Repr

def Name.path : Name → String
  | .lock => Consts.C10.pathLock
  | .pickle => Consts.C10.pathPickle
  | .new => Consts.C10.pathNew
  | .dirty => Consts.C10.pathDirty

def Name.all : List Name := [.lock, .pickle, .new, .dirty]

structure File where
  data : Bytes
  synced : Bool
  deriving DecidableEq, Repr

/-- a directory: name table; a file is its content plus whether that content is durable -/
abbrev FS := Name → Option File

def FS.empty : FS := fun _ => none

def FS.set (fs : FS) (n : Name) (v : Option File) : FS := fun m => if m = n then v else fs m

/-- which call failed (for the trace comparison only; a failed call has no effect) -/
inductive FailKind
  | stat | open | write | read | fsync | rename | unlink | lockOpen
  deriving DecidableEq, Repr

inductive Op
  | createExcl (n : Name)          -- open(O_CREAT|O_EXCL|O_WRONLY) + close; fails (no effect) when the name exists
  | openTrunc (n : Name)           -- open("wb"): create or truncate
  | append (n : Name) (c : Bytes)  -- write(s) + close
  | fsync (n : Name)
  | rename (a b : Name)
  | unlink (n : Name)
  | stat (n : Name)                -- os.path.exists
  | read (n : Name)                -- content read
  | failed (k : FailKind) (n : Name) -- a call on `n` that returned an error (no effect on the directory)
  deriving DecidableEq, Repr

def applyOp (fs : FS) : Op → FS
  | .createExcl n => match fs n with
    | none => fs.set n (some ⟨[], false⟩)
    | some _ => fs
  | .openTrunc n => fs.set n (some ⟨[], false⟩)
  | .append n c => match fs n with
    | none => fs
    | some f => fs.set n (some ⟨f.data ++ c, false⟩)
  | .fsync n => match fs n with
    | none => fs
    | some f => fs.set n (some ⟨f.data, true⟩)
  | .rename a b => if a = b then fs else match fs a with
    | none => fs
    | some f => (fs.set b (some f)).set a none
  | .unlink n => fs.set n none
  | .stat _ => fs
  | .read _ => fs
  | .failed _ _ => fs

def applyOps (fs : FS) (ops : List Op) : FS := ops.foldl applyOp fs

/-- what a machine crash may do to the content of a file that was written but not synced -/
abbrev Garble := Name → Bytes → Bytes

/-- machine crash: the name table and synced contents survive, every unsynced content is replaced
by its garbling (the result stays "unsynced": a later crash may garble it again) -/
def crash (fs : FS) (g : Garble) : FS := fun n =>
  match fs n with
  | none => none
  | some f => if f.synced then some f else some ⟨g n f.data, false⟩

/-- crash followed by the documented manual recovery step: the stale lock file is deleted -/
def recover (fs : FS) (g : Garble) : FS := (crash fs g).set .lock none

/-! ## checksum trailer (`DigestAdder`, `__commit`) -/

/-- `struct.pack("=L", csum)` on a little-endian host (`Props/C10.consts_match_model` re-checks the layout) -/
def trailer (p : Bytes) : Bytes := Bytes.le 4 (Adler32.adler32 p)

/-- the content `__save` writes: pickle followed by the Adler-32 of the pickle -/
def enc (p : Bytes) : Bytes := p ++ trailer p

/-- `csum = pack(adler32(data[:-4])); commit = (csum == data[-4:])`; Python slicing semantics:
for `len(data) < 4`, `data[:-4]` is empty and `data[-4:]` is all of `data`. -/
def verify (d : Bytes) : Bool :=
  decide (trailer (d.take (d.length - 4)) = d.drop (d.length - 4))

/-- the assumption about garbling: the uncommitted file either survives intact or its trailer mismatches -/
def Detectable (g : Garble) : Prop := ∀ d, g .new d = d ∨ verify (g .new d) = false

/-! ## the `_BobState` machine -/

/-- parameters: pickle codec, version upgrade steps, initial state, semantics of the mutators -/
structure Cfg (σ μ : Type) where
  pickle : Nat → σ → Bytes                  -- version, state ↦ pickle.dump
  unpickle : Bytes → Option (Nat × σ)       -- pickle.load of a file content (stops at the STOP opcode)
  up : Nat → σ → σ                          -- the upgrade guarded by threshold `t`
  default : σ                               -- state of a workspace without state file
  step : σ → μ → σ × Bool                   -- mutator: new in-memory state, does it call `__save`?

/-- the only law needed: a state pickled with the current version is read back, whatever follows it -/
def Cfg.Lawful {σ μ : Type} (c : Cfg σ μ) : Prop :=
  ∀ s t, c.unpickle (c.pickle Consts.C10.curVersion s ++ t) = some (Consts.C10.curVersion, s)

inductive LoadErr
  | decode | tooOld | tooNew
  deriving DecidableEq, Repr

inductive InitErr
  | locked | load (e : LoadErr)
  deriving DecidableEq, Repr

section Machine
variable {σ μ : Type}

/-- the chain of `if state["version"] == 2 / <= 3 / ...` upgrades in `__init__` -/
def upgrade (c : Cfg σ μ) (v : Nat) (s : σ) : σ :=
  Consts.C10.upgrades.foldl (fun s u => if (if u.1 then v == u.2 else decide (v ≤ u.2)) then c.up u.2 s else s) s

def loadBytes (c : Cfg σ μ) (d : Bytes) : Except LoadErr σ :=
  match c.unpickle d with
  | none => .error .decode
  | some (v, s) =>
    if v < Consts.C10.minVersion then .error .tooOld
    else if v > Consts.C10.curVersion then .error .tooNew
    else .ok (upgrade c v s)

/-- `if os.path.exists(self.__path): ... pickle.load`; `none` = there is no state file -/
def loadDisk (c : Cfg σ μ) (fs : FS) : Except LoadErr (Option σ) :=
  match fs .pickle with
  | none => .ok none
  | some f => match loadBytes c f.data with
    | .ok s => .ok (some s)
    | .error e => .error e

/-- events of a run: file-system operations plus ghost markers (which snapshot is being saved,
which state an instance loaded, an invocation ran to completion) -/
inductive Ev (σ : Type)
  | op (o : Op)
  | saved (s : σ)
  | loaded (x : Option σ)
  | endInv

def applyEv (fs : FS) : Ev σ → FS
  | .op o => applyOp fs o
  | _ => fs

def applyEvs (fs : FS) (es : List (Ev σ)) : FS := es.foldl applyEv fs

def evOps : List (Ev σ) → List Op
  | [] => []
  | .op o :: es => o :: evOps es
  | _ :: es => evOps es

structure Mem (σ : Type) where
  cur : σ
  async : Int
  dirty : Bool

def encS (c : Cfg σ μ) (s : σ) : Bytes := enc (c.pickle Consts.C10.curVersion s)

/-- `__save` in synchronous mode -/
def saveEvs (c : Cfg σ μ) (s : σ) : List (Ev σ) :=
  [.op (.openTrunc .dirty), .op (.append .dirty (encS c s)), .saved s, .op (.rename .dirty .new)]

/-- `__commit(verify)` -/
def commitOps (fs : FS) (vfy : Bool) : List Op :=
  .stat .new :: match fs .new with
  | none => []
  | some f =>
    (if vfy then [.read .new] else []) ++ [.fsync .new] ++
      (if !vfy || verify f.data then [.rename .new .pickle] else [.unlink .new])

structure InitRes (σ : Type) where
  evs : List (Ev σ)
  res : Except InitErr (Option σ)

def loadOps (fs : FS) : List Op :=
  .stat .pickle :: match fs .pickle with
  | none => []
  | some _ => [.read .pickle]

/-- `_BobState.__init__` -/
def initRun (c : Cfg σ μ) (fs : FS) : InitRes σ :=
  match fs .lock with
  | some _ => ⟨[.op (.createExcl .lock)], .error .locked⟩
  | none =>
    let fs1 := applyOp fs (.createExcl .lock)
    let cops := commitOps fs1 true
    let fs2 := applyOps fs1 cops
    let pre : List (Ev σ) := .op (.createExcl .lock) :: (cops ++ loadOps fs2).map .op
    match loadDisk c fs2 with
    | .ok x => ⟨pre ++ [.loaded x], .ok x⟩
    | .error e =>
      -- `except: self.finalize(); raise`
      ⟨pre ++ ((commitOps fs2 false).map .op ++ [.op (.unlink .lock)]), .error (.load e)⟩

def memOf (c : Cfg σ μ) (x : Option σ) : Mem σ := ⟨x.getD c.default, 0, false⟩

inductive Call (μ : Type)
  | mut (m : μ)
  | setAsync
  | setSync

/-- one API call on a live instance.  `raised` = AssertionError of `setSynchronous` -/
def callStep (c : Cfg σ μ) (mem : Mem σ) : Call μ → Mem σ × List (Ev σ) × Bool
  | .mut m =>
    let r := c.step mem.cur m
    if r.2 then
      if mem.async = 0 then (⟨r.1, mem.async, false⟩, saveEvs c r.1, false)
      else (⟨r.1, mem.async, true⟩, [], false)
    else (⟨r.1, mem.async, mem.dirty⟩, [], false)
  | .setAsync => (⟨mem.cur, mem.async + 1, mem.dirty⟩, [], false)
  | .setSync =>
    let a := mem.async - 1
    if a < 0 then (⟨mem.cur, a, mem.dirty⟩, [], true)
    else if a = 0 ∧ mem.dirty = true then (⟨mem.cur, a, false⟩, saveEvs c mem.cur, false)
    else (⟨mem.cur, a, mem.dirty⟩, [], false)

def runCalls (c : Cfg σ μ) (mem : Mem σ) : List (Call μ) → Mem σ × List (Ev σ)
  | [] => (mem, [])
  | cl :: rest =>
    let r := callStep c mem cl
    let r' := runCalls c r.1 rest
    (r'.1, r.2.1 ++ r'.2)

/-- `finalize`: the assertion guards everything -/
def finalizeOk (mem : Mem σ) : Bool := mem.async == 0 && !mem.dirty

def finalizeEvs (fs : FS) (mem : Mem σ) : List (Ev σ) :=
  if finalizeOk mem then (commitOps fs false).map .op ++ [.op (.unlink .lock), .endInv] else []

/-- one invocation of Bob: start, the API calls, `finalize` -/
def runInv (c : Cfg σ μ) (fs : FS) (calls : List (Call μ)) : List (Ev σ) :=
  let i := initRun c fs
  match i.res with
  | .error _ => i.evs
  | .ok x =>
    let r := runCalls c (memOf c x) calls
    let fs' := applyEvs fs (i.evs ++ r.2)
    i.evs ++ r.2 ++ finalizeEvs fs' r.1

/-- a history of invocations, one after the other -/
def runHist (c : Cfg σ μ) (fs : FS) : List (List (Call μ)) → List (Ev σ)
  | [] => []
  | calls :: rest =>
    let e := runInv c fs calls
    e ++ runHist c (applyEvs fs e) rest

/-! ## what a crash may legitimately leave: the ghost state -/

/-- `base`: what the last completed invocation left; `since`: snapshots saved after that;
`last`: the durable view of the current instance (what it loaded or last saved) -/
structure Ghost (σ : Type) where
  base : Option σ
  since : List σ
  last : Option σ

def Ghost.init : Ghost σ := ⟨none, [], none⟩

def Ghost.step (G : Ghost σ) : Ev σ → Ghost σ
  | .op _ => G
  | .saved s => ⟨G.base, s :: G.since, some s⟩
  | .loaded x => ⟨G.base, G.since, x⟩
  | .endInv => ⟨G.last, [], G.last⟩

def Ghost.run (G : Ghost σ) (es : List (Ev σ)) : Ghost σ := es.foldl Ghost.step G

/-- the admissible results of a recovery: the state at the end of the last completed invocation or
one of the snapshots saved since (`none` = workspace without state) -/
def Adm (G : Ghost σ) (x : Option σ) : Prop := x = G.base ∨ ∃ s, s ∈ G.since ∧ x = some s

/-- which snapshot an *intact* directory image holds: `pending` is the snapshot being written,
it becomes `durable` when `.dirty` is renamed to `.new` -/
structure Dur (σ : Type) where
  pending : Option σ
  durable : Option σ

def Dur.step (D : Dur σ) : Ev σ → Dur σ
  | .saved s => ⟨some s, D.durable⟩
  | .op (.rename .dirty .new) => ⟨D.pending, match D.pending with | some s => some s | none => D.durable⟩
  | _ => D

def Dur.run (D : Dur σ) (es : List (Ev σ)) : Dur σ := es.foldl Dur.step D

/-- sessions for histories with several crashes -/
inductive Session (μ : Type)
  | complete (calls : List (Call μ))
  | crashed (calls : List (Call μ)) (cut : Nat) (g : Garble)

/-- events of one session and the file system it leaves (after a crash: recovered, lock removed) -/
def runSession (c : Cfg σ μ) (fs : FS) : Session μ → List (Ev σ) × FS
  | .complete calls => let e := runInv c fs calls; (e, applyEvs fs e)
  | .crashed calls cut g => let e := (runInv c fs calls).take cut; (e, recover (applyEvs fs e) g)

def runSessions (c : Cfg σ μ) (fs : FS) (G : Ghost σ) : List (Session μ) → FS × Ghost σ
  | [] => (fs, G)
  | s :: rest => let r := runSession c fs s; runSessions c r.2 (G.run r.1) rest


/-! ## I/O errors of the file-system calls

Every file-system call of `__save` / `__commit` / `finalize` / `__init__` may fail.  The fault choice is an
explicit parameter of each step, so a history with faults is a list of invocations, each with a fault
choice for the start, for every API call and for `finalize`.  A failed call has no effect on the
directory (a failed `write` leaves a prefix of the content in `.dirty`). -/

/-- where `__save` fails: `open(dirty,"wb")`, a `write`/`close` after `k` bytes, `os.replace(dirty,new)` -/
inductive SaveFault
  | open | write (k : Nat) | rename
  deriving DecidableEq, Repr

/-- `__save` with an optional fault: events, and whether `ParseError("Error saving workspace state")` is raised.
The `saved` marker is emitted only when the rename is going to be performed. -/
def saveF (c : Cfg σ μ) (s : σ) : Option SaveFault → List (Ev σ) × Bool
  | none => (saveEvs c s, false)
  | some .open => ([.op (.failed .open .dirty)], true)
  | some (.write k) =>
    ([.op (.openTrunc .dirty), .op (.append .dirty ((encS c s).take k)), .op (.failed .write .dirty)], true)
  | some .rename =>
    ([.op (.openTrunc .dirty), .op (.append .dirty (encS c s)), .op (.failed .rename .dirty)], true)

/-- where `__commit` fails: `os.path.exists` (swallowed: treated as "no uncommitted file"), `open("r+b")`,
`f.read()`, `os.fsync`, `os.replace` -/
inductive CFault
  | stat | open | read | fsync | rename
  deriving DecidableEq, Repr

structure CF where
  pos : Option CFault
  unlinkFails : Bool        -- the `os.unlink(uncommitted)` of the discard path fails (warning only)
  deriving DecidableEq, Repr

def CF.none : CF := ⟨Option.none, false⟩

/-- the tail of `__commit`: `os.unlink(self.__uncommittedPath)`, an error is a warning -/
def discardOps (cf : CF) : List Op := [if cf.unlinkFails then .failed .unlink .new else .unlink .new]

/-- `__commit(verify)` with faults: every `OSError` inside the `try` is caught, warned about, and control
falls through to the unlink of the uncommitted file. -/
def commitF (fs : FS) (vfy : Bool) (cf : CF) : List Op :=
  if cf.pos = some CFault.stat then [Op.failed FailKind.stat Name.new] else
  .stat .new :: match fs .new with
  | Option.none => []
  | some f =>
    if cf.pos = some CFault.open then .failed .open .new :: discardOps cf
    else if vfy && cf.pos = some CFault.read then .failed .read .new :: discardOps cf
    else (if vfy then [.read .new] else []) ++
      (if cf.pos = some CFault.fsync then .failed .fsync .new :: discardOps cf
       else .fsync .new ::
        (if !vfy || verify f.data then
          (if cf.pos = some CFault.rename then .failed .rename .new :: discardOps cf else [.rename .new .pickle])
         else discardOps cf))

structure FinFault where
  commit : CF
  unlock : Bool             -- `os.unlink(lock)` fails (warning only; the lock file stays)
  deriving DecidableEq, Repr

def FinFault.none : FinFault := ⟨CF.none, false⟩

structure InitFault where
  lock : Bool               -- `os.open(lock, O_CREAT|O_EXCL)` fails with an errno other than EEXIST: warning, run unlocked
  commit : CF
  load : Bool               -- `open(path,'rb')` / `pickle.load` raises OSError -> ParseError, `finalize()`, raise
  fin : FinFault            -- faults of the `finalize()` of the error path
  deriving DecidableEq, Repr

def InitFault.none : InitFault := ⟨false, CF.none, false, FinFault.none⟩

/-- `finalize` of the code before 99181a7 commits with `verify=False`; since 99181a7 it passes
`not self.__uncommittedTrusted` (the flag is False from `__init__`, True after a performed rename of `__save`).
`vu` ("verify untrusted") selects the code: `true` = fixed, `false` = old. -/
def finVerify (vu trusted : Bool) : Bool := vu && !trusted

/-- the mode of the current source (regenerated constant) -/
def verifyUntrusted : Bool := Consts.C10.finalizeVerifiesUntrusted

/-- the file-system part of `finalize` (`__commit(vfy)`, unlink of the lock if this instance holds it) -/
def finOpsF (fs : FS) (locked : Bool) (vfy : Bool) (ff : FinFault) : List Op :=
  commitF fs vfy ff.commit ++
    (if locked then [if ff.unlock then .failed .unlink .lock else .unlink .lock] else [])

inductive InitErrF
  | locked | load (e : LoadErr) | loadIO
  deriving DecidableEq, Repr

structure InitResF (σ : Type) where
  evs : List (Ev σ)
  res : Except InitErrF (Option σ)
  locked : Bool             -- does the instance hold the lock (`self.__lock`)

/-- `_BobState.__init__` with faults (`vu`: the `finalize()` of the error path runs untrusted) -/
def initF (c : Cfg σ μ) (vu : Bool) (fs : FS) (ift : InitFault) : InitResF σ :=
  if !ift.lock && (fs .lock).isSome then ⟨[.op (.createExcl .lock)], .error .locked, false⟩ else
  let lockOp : Op := if ift.lock then .failed .lockOpen .lock else .createExcl .lock
  let locked := !ift.lock
  let fs1 := applyOp fs lockOp
  let cops := commitF fs1 true ift.commit
  let fs2 := applyOps fs1 cops
  if ift.load && (fs2 .pickle).isSome then
    ⟨.op lockOp :: (cops ++ ([Op.stat .pickle, Op.failed .open .pickle] : List Op) ++ finOpsF fs2 locked (finVerify vu false) ift.fin).map Ev.op,
      .error .loadIO, locked⟩
  else
    let pre : List (Ev σ) := .op lockOp :: (cops ++ loadOps fs2).map .op
    match loadDisk c fs2 with
    | .ok x => ⟨pre ++ [.loaded x], .ok x, locked⟩
    | .error e => ⟨pre ++ (finOpsF fs2 locked (finVerify vu false) ift.fin).map .op, .error (.load e), locked⟩

/-- one API call with a fault choice for the `__save` it may perform.
`raised`: 0 = returns, 1 = AssertionError of `setSynchronous`, 2 = ParseError of `__save`.
`__save` clears `__dirty` before the `try`, the in-memory state keeps the mutation. -/
def callStepF (c : Cfg σ μ) (mem : Mem σ) (sf : Option SaveFault) : Call μ → Mem σ × List (Ev σ) × Nat
  | .mut m =>
    let r := c.step mem.cur m
    if r.2 then
      if mem.async = 0 then
        let sv := saveF c r.1 sf
        (⟨r.1, mem.async, false⟩, sv.1, if sv.2 then 2 else 0)
      else (⟨r.1, mem.async, true⟩, [], 0)
    else (⟨r.1, mem.async, mem.dirty⟩, [], 0)
  | .setAsync => (⟨mem.cur, mem.async + 1, mem.dirty⟩, [], 0)
  | .setSync =>
    let a := mem.async - 1
    if a < 0 then (⟨mem.cur, a, mem.dirty⟩, [], 1)
    else if a = 0 ∧ mem.dirty = true then
      let sv := saveF c mem.cur sf
      (⟨mem.cur, a, false⟩, sv.1, if sv.2 then 2 else 0)
    else (⟨mem.cur, a, mem.dirty⟩, [], 0)

/-- does the call perform the rename of `__save` (then `__uncommittedTrusted` becomes True) -/
def savedBy (c : Cfg σ μ) (mem : Mem σ) (sf : Option SaveFault) : Call μ → Bool
  | .mut m => (c.step mem.cur m).2 && decide (mem.async = 0) && sf.isNone
  | .setAsync => false
  | .setSync => decide (mem.async - 1 = 0) && mem.dirty && sf.isNone

/-- the client goes on after an exception (the most general client); the third component is `__uncommittedTrusted` -/
def runCallsF (c : Cfg σ μ) (mem : Mem σ) (t : Bool) : List (Call μ × Option SaveFault) → Mem σ × List (Ev σ) × Bool
  | [] => (mem, [], t)
  | cl :: rest =>
    let r := callStepF c mem cl.2 cl.1
    let r' := runCallsF c r.1 (t || savedBy c mem cl.2 cl.1) rest
    (r'.1, r.2.1 ++ r'.2.1, r'.2.2)

/-- `finalize` with faults: commit mode `vfy`, ghost marker iff `endOk` -/
def finalizeCore (fs : FS) (mem : Mem σ) (locked : Bool) (vfy endOk : Bool) (ff : FinFault) : List (Ev σ) :=
  if finalizeOk mem then (finOpsF fs locked vfy ff).map .op ++ (if endOk then [.endInv] else []) else []

/-- `finalize` with faults of an instance whose `__uncommittedTrusted` is `t`.  The ghost marker `endInv` ("the state
this instance last saved or loaded is now the committed one") is emitted only when nothing was left to commit, or
the uncommitted file is this instance's own save and its commit met no error. -/
def finalizeF (vu : Bool) (fs : FS) (mem : Mem σ) (locked : Bool) (t : Bool) (ff : FinFault) : List (Ev σ) :=
  finalizeCore fs mem locked (finVerify vu t) ((fs .new).isNone || (t && ff.commit.pos.isNone)) ff

structure InvF (μ : Type) where
  init : InitFault
  calls : List (Call μ × Option SaveFault)
  fin : FinFault

def runInvF (c : Cfg σ μ) (vu : Bool) (fs : FS) (iv : InvF μ) : List (Ev σ) :=
  let i := initF c vu fs iv.init
  match i.res with
  | .error _ => i.evs
  | .ok x =>
    let r := runCallsF c (memOf c x) false iv.calls
    let fs' := applyEvs fs (i.evs ++ r.2.1)
    i.evs ++ r.2.1 ++ finalizeF vu fs' r.1 i.locked r.2.2 iv.fin

inductive SessionF (μ : Type)
  | complete (iv : InvF μ)
  | crashed (iv : InvF μ) (cut : Nat) (g : Garble)

def runSessionF (c : Cfg σ μ) (vu : Bool) (fs : FS) : SessionF μ → List (Ev σ) × FS
  | .complete iv => let e := runInvF c vu fs iv; (e, applyEvs fs e)
  | .crashed iv cut g => let e := (runInvF c vu fs iv).take cut; (e, recover (applyEvs fs e) g)

def runSessionsF (c : Cfg σ μ) (vu : Bool) (fs : FS) (G : Ghost σ) : List (SessionF μ) → FS × Ghost σ
  | [] => (fs, G)
  | s :: rest => let r := runSessionF c vu fs s; runSessionsF c vu r.2 (G.run r.1) rest

/-- the start-up commit really gets rid of (or commits) the uncommitted file: `os.path.exists` does not fail on
it and the unlink of the discard path does not fail.  (Without this the real code keeps an unverified
uncommitted file that the `finalize` of the same invocation commits *without* verification: see
`Props/C10.recover_is_snapshot_faulty_old_refuted`; with the fixed `finalize` it is not needed.) -/
def InitFault.StartOK (f : InitFault) : Prop := f.commit.pos ≠ some CFault.stat ∧ f.commit.unlinkFails = false

def SessionF.iv : SessionF μ → InvF μ
  | .complete iv => iv
  | .crashed iv _ _ => iv

def SessionF.Det : SessionF μ → Prop
  | .complete _ => True
  | .crashed _ _ g => Detectable g

/-! ## two instances on one directory -/

inductive Who
  | a | b
  deriving DecidableEq, Repr

inductive Act (μ : Type)
  | init (w : Who)
  | call (w : Who) (c : Call μ)
  | fin (w : Who)

structure World2 (σ : Type) where
  fs : FS
  ma : Option (Mem σ)
  mb : Option (Mem σ)

def World2.get (w : World2 σ) : Who → Option (Mem σ)
  | .a => w.ma
  | .b => w.mb

def World2.put (w : World2 σ) (i : Who) (m : Option (Mem σ)) (fs : FS) : World2 σ :=
  match i with
  | .a => ⟨fs, m, w.mb⟩
  | .b => ⟨fs, w.ma, m⟩

/-- one step of either instance; steps of an instance that is not running (resp. `init` of a running
one: `BobState()` returns the singleton) do nothing -/
def step2 (c : Cfg σ μ) (w : World2 σ) : Act μ → World2 σ × List (Ev σ)
  | .init i => match w.get i with
    | some _ => (w, [])
    | none =>
      let r := initRun c w.fs
      match r.res with
      | .ok x => (w.put i (some (memOf c x)) (applyEvs w.fs r.evs), r.evs)
      | .error _ => (w.put i none (applyEvs w.fs r.evs), r.evs)
  | .call i cl => match w.get i with
    | none => (w, [])
    | some m => let r := callStep c m cl; (w.put i (some r.1) (applyEvs w.fs r.2.1), r.2.1)
  | .fin i => match w.get i with
    | none => (w, [])
    | some m =>
      let e := finalizeEvs w.fs m
      if finalizeOk m then (w.put i none (applyEvs w.fs e), e) else (w, [])

def run2 (c : Cfg σ μ) (w : World2 σ) : List (Act μ) → World2 σ
  | [] => w
  | a :: rest => run2 c (step2 c w a).1 rest

/-! two instances on one directory, with I/O errors -/

inductive ActF (μ : Type)
  | init (w : Who) (f : InitFault)
  | call (w : Who) (c : Call μ) (sf : Option SaveFault)
  | fin (w : Who) (ff : FinFault)

/-- a live instance: its memory and whether it holds the lock (`self.__lock`) -/
structure World2F (σ : Type) where
  fs : FS
  ma : Option (Mem σ × Bool)
  mb : Option (Mem σ × Bool)

def World2F.get (w : World2F σ) : Who → Option (Mem σ × Bool)
  | .a => w.ma
  | .b => w.mb

def World2F.put (w : World2F σ) (i : Who) (m : Option (Mem σ × Bool)) (fs : FS) : World2F σ :=
  match i with
  | .a => ⟨fs, m, w.mb⟩
  | .b => ⟨fs, w.ma, m⟩

def step2F (c : Cfg σ μ) (w : World2F σ) : ActF μ → World2F σ
  | .init i f => match w.get i with
    | some _ => w
    | none =>
      let r := initF c verifyUntrusted w.fs f
      match r.res with
      | .ok x => w.put i (some (memOf c x, r.locked)) (applyEvs w.fs r.evs)
      | .error _ => w.put i none (applyEvs w.fs r.evs)
  | .call i cl sf => match w.get i with
    | none => w
    | some m => let r := callStepF c m.1 sf cl; w.put i (some (r.1, m.2)) (applyEvs w.fs r.2.1)
  | .fin i ff => match w.get i with
    | none => w
    | some m => if finalizeOk m.1 then w.put i none (applyEvs w.fs (finalizeF false w.fs m.1 m.2 true ff)) else w

def run2F (c : Cfg σ μ) (w : World2F σ) : List (ActF μ) → World2F σ
  | [] => w
  | a :: rest => run2F c (step2F c w a) rest

def holdsLock : Option (Mem σ × Bool) → Bool
  | some (_, true) => true
  | _ => false

/-- net effect of a list of mutator calls inside an asynchronous section -/
def foldMuts (c : Cfg σ μ) (s : σ) (need : Bool) : List (Call μ) → σ × Bool
  | [] => (s, need)
  | .mut m :: rest => let r := c.step s m; foldMuts c r.1 (need || r.2) rest
  | _ :: rest => foldMuts c s need rest

/-- the nesting depth stays positive: the calls lie strictly inside an asynchronous section -/
def Inside : Int → List (Call μ) → Prop
  | d, [] => 0 < d
  | d, .mut _ :: rest => 0 < d ∧ Inside d rest
  | d, .setAsync :: rest => 0 < d ∧ Inside (d + 1) rest
  | d, .setSync :: rest => 1 < d ∧ Inside (d - 1) rest

def depthAfter : Int → List (Call μ) → Int
  | d, [] => d
  | d, .mut _ :: rest => depthAfter d rest
  | d, .setAsync :: rest => depthAfter (d + 1) rest
  | d, .setSync :: rest => depthAfter (d - 1) rest

end Machine

/-! ## the concrete mutators of `_BobState` (used by the correspondence run)

Python values are canonical strings produced by the harness (equal strings ⇔ equal values for the
generated values); dictionaries are association lists (compared up to order). -/

abbrev KV (α : Type) := List (String × α)

def kvGet {α : Type} (m : KV α) (k : String) : Option α :=
  match m with
  | [] => none
  | (k', v) :: rest => if k' = k then some v else kvGet rest k

def kvSet {α : Type} (m : KV α) (k : String) (v : α) : KV α :=
  match m with
  | [] => [(k, v)]
  | (k', v') :: rest => if k' = k then (k, v) :: rest else (k', v') :: kvSet rest k v

def kvDel {α : Type} (m : KV α) (k : String) : KV α := m.filter fun e => e.1 != k

def kvHas {α : Type} (m : KV α) (k : String) : Bool := (kvGet m k).isSome

structure Jenk where
  config : String
  jobs : KV String
  counters : KV Nat
  dirs : KV String

structure St where
  counters : KV Nat                 -- byNameDirs: baseDir ↦ last number
  dirs : KV (String × Bool)         -- byNameDirs: digest ↦ (directory, isSourceDir)
  results : KV String
  inputs : KV String
  jenkins : KV Jenk
  dirStates : KV String
  layerStates : KV String
  buildState : String
  variantIds : KV String
  atticDirs : KV String
  createdWithVersion : Nat
  storagePath : KV String

def St.default : St :=
  { counters := [], dirs := [], results := [], inputs := [], jenkins := [], dirStates := [], layerStates := [],
    buildState := "{}", variantIds := [], atticDirs := [], createdWithVersion := Consts.C10.curVersion,
    storagePath := [] }

inductive Mut
  | getByNameDirectory (baseDir digest : String) (isSource : Bool)
  | setResultHash (k v : String)
  | setInputHashes (k v : String)
  | delInputHashes (k : String)
  | setLayerState (k v : String)
  | delLayerState (k : String)
  | setDirectoryState (k v : String)
  | delDirectoryState (k : String)
  | setVariantId (k v : String)
  | setStoragePath (ws storage : String)
  | resetWorkspaceState (path : String) (dirState : Option String)
  | setAtticDirectoryState (normPath v : String)     -- the key is `os.path.normpath(path)`, computed by the caller
  | delAtticDirectoryState (k : String)
  | addJenkins (name cfg : String)
  | delJenkins (name : String)
  | getJenkinsByNameDirectory (jenkins baseDir digest : String)
  | setJenkinsConfig (name cfg : String)
  | addJenkinsJob (jenkins job cfg : String)
  | delJenkinsJob (jenkins job : String)
  | setJenkinsJobConfig (jenkins job cfg : String)
  | setBuildState (v : String)

/-- result of a mutator as seen by the caller -/
inductive Ret
  | none
  | str (s : String)
  | keyError

structure StepRes where
  st : St
  save : Bool
  ret : Ret

def setIfDiffers (m : KV String) (k v : String) : KV String × Bool :=
  if kvGet m k != some v then (kvSet m k v, true) else (m, false)

def delIfPresent {α : Type} (m : KV α) (k : String) : KV α × Bool :=
  if kvHas m k then (kvDel m k, true) else (m, false)

def resetWs (s : St) (path : String) (dirState : Option String) : StepRes :=
  let (results, n1) := delIfPresent s.results path
  let (inputs, n2) := delIfPresent s.inputs path
  let (dirStates, n3) :=
    if kvGet s.dirStates path != dirState then
      (match dirState with
       | none => kvDel s.dirStates path
       | some d => kvSet s.dirStates path d, true)
    else (s.dirStates, false)
  let (variantIds, n4) := delIfPresent s.variantIds path
  let (storagePath, n5) := delIfPresent s.storagePath path
  ⟨{ s with results, inputs, dirStates, variantIds, storagePath }, n1 || n2 || n3 || n4 || n5, .none⟩

def stepSt (s : St) : Mut → StepRes
  | .getByNameDirectory baseDir digest isSource =>
    match kvGet s.dirs digest with
    | some d => ⟨s, false, .str d.1⟩
    | none =>
      let num := (kvGet s.counters baseDir).getD 0 + 1
      let res := baseDir ++ "/" ++ toString num
      ⟨{ s with counters := kvSet s.counters baseDir num, dirs := kvSet s.dirs digest (res, isSource) }, true, .str res⟩
  | .setResultHash k v => let r := setIfDiffers s.results k v; ⟨{ s with results := r.1 }, r.2, .none⟩
  | .setInputHashes k v => let r := setIfDiffers s.inputs k v; ⟨{ s with inputs := r.1 }, r.2, .none⟩
  | .delInputHashes k => let r := delIfPresent s.inputs k; ⟨{ s with inputs := r.1 }, r.2, .none⟩
  | .setLayerState k v => ⟨{ s with layerStates := kvSet s.layerStates k v }, true, .none⟩
  | .delLayerState k => let r := delIfPresent s.layerStates k; ⟨{ s with layerStates := r.1 }, r.2, .none⟩
  | .setDirectoryState k v => ⟨{ s with dirStates := kvSet s.dirStates k v }, true, .none⟩
  | .delDirectoryState k => resetWs s k none
  | .setVariantId k v => let r := setIfDiffers s.variantIds k v; ⟨{ s with variantIds := r.1 }, r.2, .none⟩
  | .setStoragePath ws storage =>
    let st : Option String := if storage = ws then none else some storage
    if kvGet s.storagePath ws != st then
      ⟨{ s with storagePath := match st with
          | none => kvDel s.storagePath ws
          | some v => kvSet s.storagePath ws v }, true, .none⟩
    else ⟨s, false, .none⟩
  | .resetWorkspaceState path dirState => resetWs s path dirState
  | .setAtticDirectoryState k v => ⟨{ s with atticDirs := kvSet s.atticDirs k v }, true, .none⟩
  | .delAtticDirectoryState k => let r := delIfPresent s.atticDirs k; ⟨{ s with atticDirs := r.1 }, r.2, .none⟩
  | .addJenkins name cfg => ⟨{ s with jenkins := kvSet s.jenkins name ⟨cfg, [], [], []⟩ }, true, .none⟩
  | .delJenkins name => let r := delIfPresent s.jenkins name; ⟨{ s with jenkins := r.1 }, r.2, .none⟩
  | .getJenkinsByNameDirectory j baseDir digest =>
    match kvGet s.jenkins j with
    | none => ⟨s, false, .keyError⟩
    | some jk =>
      match kvGet jk.dirs digest with
      | some d => ⟨s, false, .str d⟩
      | none =>
        let num := (kvGet jk.counters baseDir).getD 0 + 1
        let res := baseDir ++ "/" ++ toString num
        ⟨{ s with jenkins := kvSet s.jenkins j { jk with counters := kvSet jk.counters baseDir num, dirs := kvSet jk.dirs digest res } },
         true, .str res⟩
  | .setJenkinsConfig name cfg =>
    match kvGet s.jenkins name with
    | none => ⟨s, false, .keyError⟩
    | some jk => ⟨{ s with jenkins := kvSet s.jenkins name { jk with config := cfg } }, true, .none⟩
  | .addJenkinsJob j job cfg =>
    match kvGet s.jenkins j with
    | none => ⟨s, false, .keyError⟩
    | some jk => ⟨{ s with jenkins := kvSet s.jenkins j { jk with jobs := kvSet jk.jobs job cfg } }, true, .none⟩
  | .delJenkinsJob j job =>
    match kvGet s.jenkins j with
    | none => ⟨s, false, .keyError⟩
    | some jk =>
      if kvHas jk.jobs job then ⟨{ s with jenkins := kvSet s.jenkins j { jk with jobs := kvDel jk.jobs job } }, true, .none⟩
      else ⟨s, false, .keyError⟩
  | .setJenkinsJobConfig j job cfg =>
    match kvGet s.jenkins j with
    | none => ⟨s, false, .keyError⟩
    | some jk => ⟨{ s with jenkins := kvSet s.jenkins j { jk with jobs := kvSet jk.jobs job cfg } }, true, .none⟩
  | .setBuildState v => ⟨{ s with buildState := v }, true, .none⟩

end StateFS
