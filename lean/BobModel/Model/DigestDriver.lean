import BobModel.Model.Digest
import BobModel.Model.Scripts
import BobModel.Model.PrepareTail
import BobModel.Util.Sha1
import BobModel.Util.Proto
/-
Request handler shared by the drivers `drv_c02` and `drv_c03` (same model, same protocol).

 {"op":"vid","script":s|null,"tools":[{"name","prov":hex,"path","libs":[..],"weak":b}],"env":[[k,v]..],
              "args":[hex..],"host":hex}                      -> {"ok":hex,"recipe":hex,"hostenc":hex}
 {"op":"bid", … ,"platform":hex}                              -> {"ok":hex,"recipe":hex,"hostenc":hex}
 {"op":"merge","glue":s,"frags":[[[text|null,dig|null],[..],[..]]..]}
                                                              -> {"setup":s|null,"main":s|null,"digest":s|null,"script":s}
 {"op":"codigest","scms":[s..],"dig":s|null,"asserts":[s..]}  -> {"ok":s}
 {"op":"split","self":decl,"inherit":[decl..],"env":[[k,v]..]} decl = {"coS":[..],"coW":..,"buS":..,"buW":..,"paS":..,"paW":..}
                                                              -> {"checkout":{"digestEnv":[[k,v]..],"env":[..]},"build":…,"package":…}
 {"op":"toolsplit","self":decl,"inherit":[decl..]}            -> {"checkout":{"dep":[..],"weak":[..]},…}
-/
open Lean Proto

namespace DigestDriver

def optStr (j : Json) (k : String) : Option (List Char) :=
  match j.getObjVal? k with
  | .ok (.str s) => some s.toList
  | _ => none

def strs (j : Json) (k : String) : List (List Char) :=
  (strList (j.getObjValD k)).map String.toList

def pairs (j : Json) (k : String) : List (List Char × List Char) :=
  (getArr j k).filterMap fun p => match p with
    | .arr #[.str a, .str b] => some (a.toList, b.toList)
    | _ => none

def hexOf (j : Json) : Bytes :=
  match j with
  | .str s => (Bytes.ofHex s).getD []
  | _ => []

def toolOf (j : Json) : Digest.Tool :=
  { name := (getStr j "name").toList, prov := hexBytes j "prov", path := (getStr j "path").toList,
    libs := strs j "libs", weak := getBool j "weak" }

def descOf (j : Json) : Digest.StepDesc :=
  { script := optStr j "script",
    tools := (getArr j "tools").map toolOf,
    env := pairs j "env",
    args := (getArr j "args").map hexOf,
    hostPrefix := hexBytes j "host" }

def jstr (s : List Char) : Json := Json.str (String.ofList s)
def jopt (s : Option (List Char)) : Json := match s with | some x => jstr x | none => Json.null
def jpairs (l : List (List Char × List Char)) : Json :=
  Json.arr (l.map fun (k, v) => Json.arr #[jstr k, jstr v]).toArray
def jstrs (l : List (List Char)) : Json := Json.arr (l.map jstr).toArray

def partOf (j : Json) : Scripts.Part :=
  match j with
  | .arr #[a, b] =>
    { text := match a with | .str s => some s.toList | _ => none,
      dig := match b with | .str s => some s.toList | _ => none }
  | _ => { text := none, dig := none }

def fragOf (j : Json) : Scripts.Frag :=
  match j with
  | .arr #[a, b, c] => { setup := partOf a, script := partOf b, final := partOf c }
  | _ => { setup := ⟨none, none⟩, script := ⟨none, none⟩, final := ⟨none, none⟩ }

def declOf (j : Json) : PrepareTail.Decl :=
  { coS := strs j "coS", coW := strs j "coW", buS := strs j "buS", buW := strs j "buW",
    paS := strs j "paS", paW := strs j "paW" }

def sortedPairs (l : List (List Char × List Char)) : List (List Char × List Char) :=
  Digest.sortBy Digest.kvLe l

def sortedStrs (l : List (List Char)) : List (List Char) :=
  (Digest.sortBy Digest.strLe l).eraseDups

def stageJson (e : PrepareTail.StageEnv) : Json :=
  Json.mkObj [("digestEnv", jpairs (sortedPairs e.digestEnv)), ("env", jpairs (sortedPairs e.env))]

def digestReply (recipe host : Bytes) : Json :=
  Json.mkObj [("ok", Json.str (Bytes.toHex (Digest.digest Sha1.hashBytes recipe host))),
              ("recipe", Json.str (Bytes.toHex recipe)), ("hostenc", Json.str (Bytes.toHex host))]

def handle (j : Json) : Json :=
  match getStr j "op" with
  | "vid" =>
    let d := descOf j
    digestReply (Digest.encRecipe d) (Digest.encHost d)
  | "bid" =>
    let d := descOf j
    digestReply (Digest.encRecipeG (hexBytes j "platform") true d) (Digest.encHost d)
  | "merge" =>
    let glue := (getStr j "glue").toList
    let fr := (getArr j "frags").map fragOf
    let (s, m, d) := Scripts.mergeScripts fr glue
    Json.mkObj [("setup", jopt s), ("main", jopt m), ("digest", jopt d),
                ("script", jstr (Scripts.stepScript s m glue)),
                ("exec", jstrs (Scripts.execSeq fr)), ("digests", jstrs (Scripts.digestSeq fr))]
  | "codigest" =>
    Json.mkObj [("ok", jstr (Scripts.checkoutDigestScript (strs j "scms") (optStr j "dig") (strs j "asserts")))]
  | "split" =>
    let self := declOf (j.getObjValD "self")
    let inh := (getArr j "inherit").map declOf
    let env := pairs j "env"
    Json.mkObj [("checkout", stageJson (PrepareTail.stepEnv self inh env .checkout)),
                ("build", stageJson (PrepareTail.stepEnv self inh env .build)),
                ("package", stageJson (PrepareTail.stepEnv self inh env .package))]
  | "toolsplit" =>
    let d := PrepareTail.resolveToolDecl (declOf (j.getObjValD "self")) ((getArr j "inherit").map declOf)
    let st (s : PrepareTail.Stage) : Json :=
      Json.mkObj [("dep", jstrs (sortedStrs (PrepareTail.toolDep d s))), ("weak", jstrs (sortedStrs (PrepareTail.toolDepWeak d s)))]
    Json.mkObj [("checkout", st .checkout), ("build", st .build), ("package", st .package)]
  | _ => err "bad-op"

end DigestDriver
