import BobModel.Util.Bytes
import BobModel.Generated.ConstsC04
/-
Model of the package-graph caches of Bob (property C04).

(a) `Comp` / `TEnv`     pym/bob/stringparser.py  class Env: `data` plus a *stack of touched sets that is shared by
                        reference between copies* (`touchReset` pushes a new set, every tracked read adds the key to
                        all sets of the stack, `copy/derive/prune/filter` share the stack, `detach/inspect` are the
                        untracked escapes).  `Comp` is the shape of a computation that observes its input environment
                        only through the tracked accessors.
(b) `Matcher`, `Tbl`,   pym/bob/input.py  PackageMatcher and the per-recipe memo of Recipe.prepare
    `evalU`, `evalM`    (`__corePackagesByMatch`: searched front to back, insert at front; `__corePackagesById`:
                        `setdefault(resultId, p)`).  `evalU` is Recipe.prepare without any memo, `evalM` the code as it is.
(c) `YCache`, `cacheKey` YamlCache.loadYaml keyed by (name, binStat ++ schema digest), YamlCache.close digest,
                        RecipeSet.generatePackages cache key
                        H(BOB_INPUT_HASH ‖ H(sorted (len name, name, digest)) ‖ count ‖ sorted (len k, len v, k+v) ‖ flag).

External functions are parameters: the hash `H`, the YAML parser + schema validation `parse`, the text encoding
`enc` (UTF-8; `utf8` below is the concrete one used by the driver), the projection `proj` of a value to what the
matcher stores of it (identity for variables, `resultId` for tools).
-/
namespace Memo

abbrev Str := List Char

/-! ## (a) computations over tracked environments -/

/-- A computation that can look at its input environment only through `Env.get`/`__getitem__`
(`get`) and `Env.__contains__` (`has`). -/
inductive Comp (K V R : Type) where
  | ret (r : R)
  | get (k : K) (cont : Option V → Comp K V R)
  | has (k : K) (cont : Bool → Comp K V R)

/-- environments as lookup functions (`none` = key absent) -/
abbrev Envf (K V : Type) := K → Option V

/-- run a computation; returns the result and the keys it touched (in order, with repetitions) -/
def Comp.run {K V R : Type} : Comp K V R → Envf K V → R × List K
  | .ret r, _ => (r, [])
  | .get k f, e => let p := (f (e k)).run e; (p.1, k :: p.2)
  | .has k f, e => let p := (f (e k).isSome).run e; (p.1, k :: p.2)

/-! ### the real `Env`: data + stack of shared touched sets -/

section TEnv
variable {K V : Type} [DecidableEq K]

/-- Python dict as association list without duplicate keys (insertion ordered) -/
def dlookup (d : List (K × V)) (k : K) : Option V :=
  match d with
  | [] => none
  | (k', v) :: rest => if k' = k then some v else dlookup rest k

def dset (d : List (K × V)) (k : K) (v : V) : List (K × V) :=
  match d with
  | [] => [(k, v)]
  | (k', v') :: rest => if k' = k then (k, v) :: rest else (k', v') :: dset rest k v

def ddel (d : List (K × V)) (k : K) : List (K × V) := d.filter fun p => p.1 ≠ k

def dupdate (d o : List (K × V)) : List (K × V) := o.foldl (fun d p => dset d p.1 p.2) d

def insertKey (k : K) (s : List K) : List K := if k ∈ s then s else s ++ [k]

def insertKeys (keys : List K) (s : List K) : List K := keys.foldl (fun s k => insertKey k s) s

/-- all touched sets that exist; a set is identified by its index (Python: object identity) -/
structure Heap (K : Type) where
  sets : List (List K)

/-- add `keys` to every set whose id is in `ids` (`for i in self.touched: i.update(keys)`) -/
def Heap.addTo (h : Heap K) (ids : List Nat) (keys : List K) : Heap K :=
  ⟨h.sets.mapIdx fun i s => if i ∈ ids then insertKeys keys s else s⟩

def Heap.alloc (h : Heap K) : Heap K × Nat := (⟨h.sets ++ [[]]⟩, h.sets.length)

/-- `stringparser.Env` -/
structure TEnv (K V : Type) where
  data : List (K × V)
  touched : List Nat

/-- `Env(other)` -/
def TEnv.new (h : Heap K) (data : List (K × V)) : Heap K × TEnv K V :=
  let (h', i) := h.alloc
  (h', ⟨dupdate [] data, [i]⟩)

/-- `Env.get(key)` / `Env.__getitem__` (the caller maps `none` to KeyError) -/
def TEnv.get (h : Heap K) (e : TEnv K V) (k : K) : Heap K × Option V :=
  (h.addTo e.touched [k], dlookup e.data k)

/-- `key in env` -/
def TEnv.contains (h : Heap K) (e : TEnv K V) (k : K) : Heap K × Bool :=
  (h.addTo e.touched [k], (dlookup e.data k).isSome)

def TEnv.setitem (e : TEnv K V) (k : K) (v : V) : TEnv K V := { e with data := dset e.data k v }
def TEnv.delitem (e : TEnv K V) (k : K) : Option (TEnv K V) :=
  if (dlookup e.data k).isSome then some { e with data := ddel e.data k } else none
def TEnv.update (e : TEnv K V) (o : List (K × V)) : TEnv K V := { e with data := dupdate e.data o }
def TEnv.clear (e : TEnv K V) : TEnv K V := { e with data := [] }

/-- `Env.copy()`: new dict with the same content, the *same* list of touched sets -/
def TEnv.copy (e : TEnv K V) : TEnv K V := e
/-- `Env.derive(overrides)` -/
def TEnv.derive (e : TEnv K V) (ov : List (K × V)) : TEnv K V := { e with data := dupdate e.data ov }
/-- `Env.prune(allowed)`; `none` = Python `None` -/
def TEnv.prune (e : TEnv K V) (allowed : Option (List K)) : TEnv K V :=
  match allowed with
  | none => e
  | some a => { e with data := e.data.filter fun p => p.1 ∈ a }

/-- `checkGlobList(name, allowed)` for non-glob patterns: `(negated, name)`, folded left to right -/
def checkList (name : K) (allowed : List (Bool × K)) : Bool :=
  allowed.foldl (fun ok p => if p.2 = name then !p.1 else ok) false

/-- `Env.filter(allowed)` -/
def TEnv.filter (e : TEnv K V) (allowed : Option (List (Bool × K))) : TEnv K V :=
  match allowed with
  | none => e
  | some a => { e with data := e.data.filter fun p => checkList p.1 a }

/-- `Env.touchReset()`: `self.touched = self.touched + [set()]` — a NEW list, the old sets stay shared -/
def TEnv.touchReset (h : Heap K) (e : TEnv K V) : Heap K × TEnv K V :=
  let (h', i) := h.alloc
  (h', { e with touched := e.touched ++ [i] })

/-- `Env.touch(keys)` -/
def TEnv.touch (h : Heap K) (e : TEnv K V) (keys : List K) : Heap K := h.addTo e.touched keys

/-- `Env.touchedKeys()` = `self.touched[-1]` -/
def TEnv.touchedKeys (h : Heap K) (e : TEnv K V) : List K :=
  match e.touched.getLast? with
  | some i => h.sets.getD i []
  | none => []

/-- `Env.detach()` / `Env.inspect()`: the data without any tracking -/
def TEnv.detach (e : TEnv K V) : List (K × V) := e.data

/-- run a `Comp` against a real tracked environment -/
def Comp.runT {R : Type} : Comp K V R → Heap K → TEnv K V → Heap K × R
  | .ret r, h, _ => (h, r)
  | .get k f, h, e => let (h', v) := e.get h k; (f v).runT h' e
  | .has k f, h, e => let (h', b) := e.contains h k; (f b).runT h' e

end TEnv

/-! ## (b) PackageMatcher, memo table, Recipe.prepare with and without memo -/

/-- `PackageMatcher`: for every key touched by the computation the projection of the value the *input* had
(`none` = absent), the untracked-but-compared inputs `x` (sandbox resultId, plugin states, alias package name) and
the memoised result (core package + sub tree package names). -/
structure Matcher (K W X R : Type) where
  keys : List (K × Option W)
  x : X
  result : R

section Match
variable {K V W X R : Type} [DecidableEq K] [DecidableEq W] [DecidableEq X]

/-- `PackageMatcher.__init__`: snapshot of the touched keys in the input environment -/
def Matcher.make (proj : V → W) (e : Envf K V) (touched : List K) (x : X) (r : R) : Matcher K W X R :=
  ⟨touched.map fun k => (k, (e k).map proj), x, r⟩

/-- `PackageMatcher.matches` -/
def Matcher.matches (proj : V → W) (m : Matcher K W X R) (e : Envf K V) (x : X) : Bool :=
  m.keys.all (fun p => decide ((e p.1).map proj = p.2)) && decide (m.x = x)

/-- keys that `PackageMatcher.touch` adds to the caller's environment -/
def Matcher.touchKeys (m : Matcher K W X R) : List K := m.keys.map (·.1)

/-- `for m in self.__corePackagesByMatch: if m.matches(...)`: first hit from the front -/
def findHit (proj : V → W) (ms : List (Matcher K W X R)) (e : Envf K V) (x : X) : Option (Matcher K W X R) :=
  ms.find? fun m => m.matches proj e x

end Match

/-- The body of `Recipe.prepare` as an interaction tree: tracked reads of the input and calls of the
`prepare` of dependencies.  `call r x inherit ov cont`: dependency on recipe `r` with compared inputs `x`;
with `inherit` the callee sees the caller's input overlaid by `ov` (the caller's own definitions, the
`environment:` of the dependency, variables/tools provided by earlier dependencies) and shares the caller's
touched stack, without (`inherit: False`) it sees exactly `ov` (root environment + overrides, no tools) and
shares nothing with the caller (since commit 4680878 also the tool diff recorded for such a dependency is
independent of the caller's input: "start from no tools"). -/
inductive PComp (K V X R : Type) where
  | ret (r : R)
  | get (k : K) (cont : Option V → PComp K V X R)
  | call (recipe : Nat) (x : X) (inherit : Bool) (ov : Envf K V) (cont : R → PComp K V X R)

def overlay {K V : Type} (ov e : Envf K V) : Envf K V := fun k =>
  match ov k with
  | some v => some v
  | none => e k

def calleeEnv {K V : Type} (inherit : Bool) (ov e : Envf K V) : Envf K V :=
  if inherit then overlay ov e else ov

/-- the recipes of a project: body of `prepare` of recipe `r` for compared inputs `x` -/
abbrev Prog (K V X R : Type) := Nat → X → PComp K V X R

/-- `Recipe.prepare` with every memo disabled.  `none` = out of fuel (or aborted by a ParseError, which ends the
whole parse in the implementation). -/
def evalU {K V X R : Type} (prog : Prog K V X R) : Nat → PComp K V X R → Envf K V → Option (R × List K)
  | 0, _, _ => none
  | _ + 1, .ret r, _ => some (r, [])
  | n + 1, .get k f, e =>
    match evalU prog n (f (e k)) e with
    | none => none
    | some (r, t) => some (r, k :: t)
  | n + 1, .call rc x inh ov cont, e =>
    match evalU prog n (prog rc x) (calleeEnv inh ov e) with
    | none => none
    | some (res, t) =>
      match evalU prog n (cont res) e with
      | none => none
      | some (r2, t2) => some (r2, (if inh then t else []) ++ t2)

/-- memo state of all recipes -/
structure Tbl (K W X R I : Type) where
  byMatch : Nat → List (Matcher K W X R)     -- Recipe.__corePackagesByMatch
  byId : Nat → List (I × R)                  -- Recipe.__corePackagesById

def Tbl.empty {K W X R I : Type} : Tbl K W X R I := ⟨fun _ => [], fun _ => []⟩

def lookupId {I R : Type} [DecidableEq I] (l : List (I × R)) (i : I) : Option R :=
  match l with
  | [] => none
  | (j, r) :: rest => if j = i then some r else lookupId rest i

section EvalM
variable {K V W X R I : Type} [DecidableEq K] [DecidableEq W] [DecidableEq X] [DecidableEq I]

/-- `reusable = self.__corePackagesById.setdefault(pid, p)`: the returned package ... -/
def setdefaultGet (l : List (I × R)) (i : I) (res : R) : R := (lookupId l i).getD res
/-- ... and the dict afterwards -/
def setdefaultPut (l : List (I × R)) (i : I) (res : R) : List (I × R) :=
  if (lookupId l i).isSome then l else (i, res) :: l

/-- what happens after a miss was computed: dedup by result id, matcher inserted at the front -/
def Tbl.remember (proj : V → W) (rid : R → I) (tb : Tbl K W X R I) (rc : Nat) (e : Envf K V) (t : List K) (x : X)
    (res : R) : R × Tbl K W X R I :=
  let res' := setdefaultGet (tb.byId rc) (rid res) res
  (res', ⟨fun r => if r = rc then Matcher.make proj e t x res' :: tb.byMatch rc else tb.byMatch r,
          fun r => if r = rc then setdefaultPut (tb.byId rc) (rid res) res else tb.byId r⟩)

/-- the head of `Recipe.prepare`: memo lookup front to back; on a hit the stored result and the keys that
`m.touch(inputEnv, inputTools)` adds to the caller; on a miss the body is computed (`compute`), deduplicated by
result id and remembered. -/
def callSub (proj : V → W) (rid : R → I) (tb : Tbl K W X R I) (rc : Nat) (x : X) (e' : Envf K V)
    (compute : Unit → Option (R × List K × Tbl K W X R I)) : Option (R × List K × Tbl K W X R I) :=
  match findHit proj (tb.byMatch rc) e' x with
  | some m => some (m.result, m.touchKeys, tb)
  | none =>
    match compute () with
    | none => none
    | some (res, t, tb1) => some ((tb1.remember proj rid rc e' t x res).1, t, (tb1.remember proj rid rc e' t x res).2)

/-- `Recipe.prepare` as it is -/
def evalM (prog : Prog K V X R) (proj : V → W) (rid : R → I) :
    Nat → Tbl K W X R I → PComp K V X R → Envf K V → Option (R × List K × Tbl K W X R I)
  | 0, _, _, _ => none
  | _ + 1, tb, .ret r, _ => some (r, [], tb)
  | n + 1, tb, .get k f, e =>
    match evalM prog proj rid n tb (f (e k)) e with
    | none => none
    | some (r, t, tb') => some (r, k :: t, tb')
  | n + 1, tb, .call rc x inh ov cont, e =>
    match callSub proj rid tb rc x (calleeEnv inh ov e)
        (fun _ => evalM prog proj rid n tb (prog rc x) (calleeEnv inh ov e)) with
    | none => none
    | some (res, t, tb2) =>
      match evalM prog proj rid n tb2 (cont res) e with
      | none => none
      | some (r2, t2, tb3) => some (r2, (if inh then t else []) ++ t2, tb3)

/-- a sequence of top-level `prepare` calls (recipe, compared inputs, input environment) against one memo state -/
def runCallsM (prog : Prog K V X R) (proj : V → W) (rid : R → I) (n : Nat) :
    Tbl K W X R I → List (Nat × X × Envf K V) → Option (List R × Tbl K W X R I)
  | tb, [] => some ([], tb)
  | tb, (rc, x, e) :: rest =>
    match evalM prog proj rid n tb (.call rc x true (fun _ => none) .ret) e with
    | none => none
    | some (r, _, tb') =>
      match runCallsM prog proj rid n tb' rest with
      | none => none
      | some (rs, tb'') => some (r :: rs, tb'')

end EvalM

def runCallsU {K V X R : Type} (prog : Prog K V X R) (n : Nat) : List (Nat × X × Envf K V) → Option (List R)
  | [] => some []
  | (rc, x, e) :: rest =>
    match evalU prog n (.call rc x true (fun _ => none) .ret) e with
    | none => none
    | some (r, _) =>
      match runCallsU prog n rest with
      | none => none
      | some rs => some (r :: rs)

/-! ## (c) YAML cache and package cache key -/

section Yaml
variable {D E : Type}

/-- `.bob-cache.sqlite3`: table `yaml(name PRIMARY KEY, stat, digest, data)` and `meta.vsn` -/
structure YCache (D : Type) where
  rows : List (Str × Bytes × Bytes × D)
  vsn : Option Bytes

/-- one `RecipeSet.parse`: `__hot` and the `__files` dict (name → content digest) -/
structure YSession where
  hot : Bool
  files : List (Str × Bytes)

/-- file system as seen by one session: name → (binStat, content) -/
abbrev FS := Str → Option (Bytes × Bytes)

/-- `YamlCache.open` -/
def YCache.openSession (c : YCache D) (inputHash : Bytes) : YCache D × YSession :=
  if c.vsn = some inputHash then (c, ⟨true, []⟩) else (⟨[], some inputHash⟩, ⟨false, []⟩)

def findRow (rows : List (Str × Bytes × Bytes × D)) (name : Str) (bs : Bytes) : Option (Bytes × D) :=
  match rows with
  | [] => none
  | (n, s, dg, d) :: rest => if n = name ∧ s = bs then some (dg, d) else findRow rest name bs

/-- `INSERT OR REPLACE` with `name` as primary key -/
def replaceRow (rows : List (Str × Bytes × Bytes × D)) (row : Str × Bytes × Bytes × D) :
    List (Str × Bytes × Bytes × D) :=
  row :: rows.filter fun r => r.1 ≠ row.1

/-- result of one `loadYaml`: `none` = file absent (the schema default is returned and nothing is recorded) -/
abbrev LoadResult (D E : Type) := Option (Except E D)

/-- `YamlCache.loadYaml(name, (schema, schemaDigest))` -/
def loadYaml (H : Bytes → Bytes) (parse : Bytes → Bytes → Except E D) (fs : FS) (c : YCache D) (s : YSession)
    (name : Str) (schemaDigest : Bytes) : YCache D × YSession × LoadResult D E :=
  match fs name with
  | none => (c, s, none)
  | some (st, content) =>
    let bs := st ++ schemaDigest
    match (if s.hot then findRow c.rows name bs else none) with
    | some (dg, d) => (c, { s with files := dset s.files name dg }, some (.ok d))
    | none =>
      match parse schemaDigest content with
      | .error err => (c, s, some (.error err))
      | .ok d =>
        ({ c with rows := replaceRow c.rows (name, bs, H content, d) },
         { s with files := dset s.files name (H content) }, some (.ok d))

/-- the same without any cache -/
def loadYamlU (H : Bytes → Bytes) (parse : Bytes → Bytes → Except E D) (fs : FS) (s : YSession)
    (name : Str) (schemaDigest : Bytes) : YSession × LoadResult D E :=
  match fs name with
  | none => (s, none)
  | some (_, content) =>
    match parse schemaDigest content with
    | .error err => (s, some (.error err))
    | .ok d => ({ s with files := dset s.files name (H content) }, some (.ok d))

/-- `YamlCache.loadBinary` -/
def loadBinary (H : Bytes → Bytes) (fs : FS) (s : YSession) (name : Str) : YSession × Option Bytes :=
  match fs name with
  | none => (s, none)
  | some (_, content) => ({ s with files := dset s.files name (H content) }, some content)

/-- the loads of one session, in order; returns every result and the final `__files` -/
def runLoads (H : Bytes → Bytes) (parse : Bytes → Bytes → Except E D) (fs : FS) :
    YCache D → YSession → List (Str × Bytes) → YCache D × YSession × List (LoadResult D E)
  | c, s, [] => (c, s, [])
  | c, s, (name, sd) :: rest =>
    let (c1, s1, r) := loadYaml H parse fs c s name sd
    let (c2, s2, rs) := runLoads H parse fs c1 s1 rest
    (c2, s2, r :: rs)

def runLoadsU (H : Bytes → Bytes) (parse : Bytes → Bytes → Except E D) (fs : FS) :
    YSession → List (Str × Bytes) → YSession × List (LoadResult D E)
  | s, [] => (s, [])
  | s, (name, sd) :: rest =>
    let (s1, r) := loadYamlU H parse fs s name sd
    let (s2, rs) := runLoadsU H parse fs s1 rest
    (s2, r :: rs)

/-- one Bob invocation: Bob's own input hash, the file system at that time, the files it loads -/
structure Invocation where
  inputHash : Bytes
  fs : FS
  loads : List (Str × Bytes)

/-- a history of invocations against one persistent `.bob-cache.sqlite3`; per invocation the load results and
the recorded (name, digest) dict -/
def runHist (H : Bytes → Bytes) (parse : Bytes → Bytes → Except E D) :
    YCache D → List Invocation → List (List (LoadResult D E) × List (Str × Bytes))
  | _, [] => []
  | c, inv :: rest =>
    let (c0, s0) := c.openSession inv.inputHash
    let (c1, s1, rs) := runLoads H parse inv.fs c0 s0 inv.loads
    (rs, s1.files) :: runHist H parse c1 rest

def runHistU (H : Bytes → Bytes) (parse : Bytes → Bytes → Except E D) :
    List Invocation → List (List (LoadResult D E) × List (Str × Bytes))
  | [] => []
  | inv :: rest =>
    let (s1, rs) := runLoadsU H parse inv.fs ⟨false, []⟩ inv.loads
    (rs, s1.files) :: runHistU H parse rest

end Yaml

/-! ### cache key -/

/-- Python `str <` (code point lexicographic) -/
def strLt : Str → Str → Bool
  | [], [] => false
  | [], _ :: _ => true
  | _ :: _, [] => false
  | a :: as, b :: bs => if a.val < b.val then true else if b.val < a.val then false else strLt as bs

def insertSorted {A : Type} (p : Str × A) : List (Str × A) → List (Str × A)
  | [] => [p]
  | q :: rest => if strLt q.1 p.1 then q :: insertSorted p rest else p :: q :: rest

/-- `sorted(d.items())` of a dict with `str` keys -/
def sortItems {A : Type} (l : List (Str × A)) : List (Str × A) := l.foldr insertSorted []

def le32 (n : Nat) : Bytes := Bytes.le Consts.C04.lenBytes n

/-- concrete UTF-8 (`str.encode('utf8')` for strings without surrogates) -/
def utf8 (s : Str) : Bytes := s.flatMap String.utf8EncodeChar

/-- what `YamlCache.close` feeds to the hash, for the already sorted items -/
def filesBlob (enc : Str → Bytes) (files : List (Str × Bytes)) : Bytes :=
  files.flatMap fun p => le32 p.1.length ++ enc p.1 ++ p.2

def envEntries (enc : Str → Bytes) (env : List (Str × Str)) : Bytes :=
  env.flatMap fun p => le32 p.1.length ++ le32 p.2.length ++ enc (p.1 ++ p.2)

def envBlob (enc : Str → Bytes) (env : List (Str × Str)) : Bytes :=
  le32 env.length ++ envEntries enc env

def flagByte (sandbox : Bool) : UInt8 := if sandbox then Consts.C04.flagTrue else Consts.C04.flagFalse

/-- `YamlCache.getDigest()` -/
def filesDigest (H : Bytes → Bytes) (enc : Str → Bytes) (files : List (Str × Bytes)) : Bytes :=
  H (filesBlob enc (sortItems files))

/-- the bytes hashed by `RecipeSet.generatePackages` -/
def cacheKeyInput (H : Bytes → Bytes) (enc : Str → Bytes) (inputHash : Bytes) (files : List (Str × Bytes))
    (rootEnv : List (Str × Str)) (sandbox : Bool) : Bytes :=
  inputHash ++ filesDigest H enc files ++ envBlob enc (sortItems rootEnv) ++ [flagByte sandbox]

/-- key of `.bob-packages*.pickle` and `.bob-tree.sqlite3` -/
def cacheKey (H : Bytes → Bytes) (enc : Str → Bytes) (inputHash : Bytes) (files : List (Str × Bytes))
    (rootEnv : List (Str × Str)) (sandbox : Bool) : Bytes :=
  H (cacheKeyInput H enc inputHash files rootEnv sandbox)

/-- `__generatePackages` / `PkgGraphNode.init`: a persisted value is used iff its stored key equals the current one -/
def persistedLookup {A : Type} (stored : Option (Bytes × A)) (key : Bytes) (compute : Unit → A) : A × Option (Bytes × A) :=
  match stored with
  | some (k, a) => if k = key then (a, stored) else let a' := compute (); (a', some (key, a'))
  | none => let a' := compute (); (a', some (key, a'))

end Memo
