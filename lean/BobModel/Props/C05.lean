import BobModel.Props.C01
import BobModel.Proofs.C05Emit
import BobModel.Proofs.C05Rerun
/-
C05 — failed or killed builds never poison the workspace: property theorems about the builder model
(Model/Builder.lean).  Definitions (`Truthful`, `Loc`, `AllWF` ...) and lemmas live in Proofs/C01*.lean.

An aborted run is `invoke E cfg t fuel st` with too little `fuel`: the micro-operation list of the
invocation is cut after `fuel` operations.  A script is two micro-operations, the cut between them
leaves the arbitrary content `E.junk` in the workspace; a failing script (`E.sem … = .fail c`)
leaves its partial output `c` and aborts the run.  `E` (hash, script semantics, junk) is universally
quantified everywhere.
-/
namespace C05
open Builder

/-- the cook functions of the current source perform their state updates and workspace operations in
the order the model was transcribed from -/
theorem source_order_matches :
    Consts.C01.buildCalls = expectedBuildCalls ∧ Consts.C01.prepareCalls = expectedPrepareCalls ∧
    Consts.C01.packageCalls = expectedPackageCalls ∧ Consts.C01.checkoutCalls = expectedCheckoutCalls := by
  decide

/-- the source order of `_cookBuildStep` / `_preparePackageStep` invalidates the stored state before
a prune empties the workspace (constants regenerated from the current source) -/
theorem prune_invalidates_first :
    Consts.C01.buildPruneInvalidatesFirst = true ∧ Consts.C01.packagePruneInvalidatesFirst = true := by
  decide

/-- **Truthful at every cut**: after every prefix of the micro-operations of every invocation
(any project, any flags, any cut point `fuel`, any junk content, any failing script) Bob's state
never claims more than the disk holds. -/
theorem truthful_at_every_cut (E : Env) (dev : Bool) (Γ : Path → List (Dir × Digest)) (cfg : Cfg) (t : Step)
    (hinj : Function.Injective E.H) (hdev : cfg.cleanBuild = false → dev = true) (hwf : AllWF Γ t)
    (st : St) (h : Truthful E dev Γ st) (fuel : Nat) :
    Truthful E dev Γ (invoke E cfg t fuel st).st := by
  have hy : Hyp E dev cfg := ⟨prune_invalidates_first.1, prune_invalidates_first.2, hinj, hdev⟩
  have hk := ((kstep_all (Γ := Γ) hy t) hwf).1 cfg.checkoutOnly
    { st := st, mem := Mem.init, fuel := fuel, log := [] } h
  unfold invoke cook
  unfold wp at hk
  cases hr : cookStep E cfg cfg.checkoutOnly t { st := st, mem := Mem.init, fuel := fuel, log := [] } with
  | ok a r' => rw [hr] at hk; exact hk.1
  | abort r' => rw [hr] at hk; exact hk

/-- any sequence of invocations in one workspace - successful, failing, or killed at any cut -
each with its own project state, flags, cut point and junk content -/
def runAny (E : Env) : List (Cfg × Step × Nat × Content) → St → St
  | [], st => st
  | (cfg, T, fuel, junk) :: rest, st => runAny E rest (invoke { E with junk := junk } cfg T fuel st).st

theorem runAny_truthful (E : Env) (dev : Bool) (Γ : Path → List (Dir × Digest)) (hinj : Function.Injective E.H)
    (hist : List (Cfg × Step × Nat × Content))
    (hall : ∀ x ∈ hist, (x.1.cleanBuild = false → dev = true) ∧ AllWF Γ x.2.1)
    (st : St) (h : Truthful E dev Γ st) : Truthful E dev Γ (runAny E hist st) := by
  induction hist generalizing st with
  | nil => exact h
  | cons x rest ih =>
    obtain ⟨cfg, T, fuel, junk⟩ := x
    simp only [runAny]
    have hx := hall (cfg, T, fuel, junk) (by simp)
    apply ih (fun y hy => hall y (by simp [hy]))
    exact (truthful_junk junk).mp
      (truthful_at_every_cut { E with junk := junk } dev Γ cfg T hinj hx.1 hx.2 st ((truthful_junk junk).mpr h) fuel)

/-- **aborted builds never poison the workspace**: after any history of invocations of arbitrary
project states - any number of them failing or killed at any cut with any junk left behind - a
successful invocation produces, for every reachable step of its project (in particular every
package result), exactly the content of a from-scratch build in an empty workspace. -/
theorem abort_then_cook_eq_clean (E : Env) (dev : Bool) (Γ : Path → List (Dir × Digest))
    (hinj : Function.Injective E.H) (hist : List (Cfg × Step × Nat × Content))
    (hall : ∀ x ∈ hist, (x.1.cleanBuild = false → dev = true) ∧ AllWF Γ x.2.1)
    (cfg : Cfg) (T : Step) (fuel : Nat) (rA : Run)
    (hdev : cfg.cleanBuild = false → dev = true) (hsem : SemHyp E dev T) (hwf : TreeWF Γ T)
    (hnd : cfg.noDeps = false) (hco : cfg.checkoutOnly = false)
    (hA : invoke E cfg T fuel (runAny E hist St.init) = .ok () rA)
    (cfgB : Cfg) (fuelB : Nat) (rB : Run) (hdevB : cfgB.cleanBuild = false → dev = true)
    (hndB : cfgB.noDeps = false) (hcoB : cfgB.checkoutOnly = false)
    (hB : invoke E cfgB T fuelB St.init = .ok () rB) :
    ∀ u ∈ reach T, rA.st.disk u.path = rB.st.disk u.path ∧ rA.st.disk u.path = some (value E u) := by
  have ht := runAny_truthful E dev Γ hinj hist hall St.init (truthful_init E dev Γ)
  have dA := (C01.cook_result_is_dataflow E dev Γ cfg T hinj hdev hsem hwf hnd hco _ ht fuel rA hA).2
  have dB := (C01.cook_result_is_dataflow E dev Γ cfgB T hinj hdevB hsem hwf hndB hcoB St.init (truthful_init E dev Γ)
    fuelB rB hB).2
  intro u hu
  exact ⟨by rw [dA u hu, dB u hu], dA u hu⟩

/-- **no claim while a workspace is being modified**: whenever an invocation stops - killed, out
of fuel, or because a script failed - right after the begin or the end of a step script in workspace
`p` (i.e. while the script runs, after it failed, or before its result is recorded), the stored
state claims nothing about `p`: the input hashes are gone (build and package steps) or the directory
state lacks the variant-id key (checkout).  Holds for every project, state, flag set and
environment: it is a property of the source order alone. -/
theorem cut_in_script_unclaimed (E : Env) (cfg : Cfg) (T : Step) (fuel : Nat) (st : St) (p : Path)
    (hlast : (invoke E cfg T fuel st).log.getLast? = some (.scriptBegin p) ∨
      ∃ ok, (invoke E cfg T fuel st).log.getLast? = some (.scriptEnd p ok)) :
    NoClaim (invoke E cfg T fuel st).st p := by
  have h := (logsafe_cook (E := E) cfg T).1 cfg.checkoutOnly { st := st, mem := Mem.init, fuel := fuel, log := [] }
    (by intro q hq; simp [lastOp] at hq)
  unfold invoke cook at hlast ⊢
  unfold wp at h
  cases hr : cookStep E cfg cfg.checkoutOnly T { st := st, mem := Mem.init, fuel := fuel, log := [] } with
  | ok a r' => rw [hr] at h hlast; exact h p hlast
  | abort r' => rw [hr] at h hlast; exact h p hlast

/-- **an unclaimed workspace is never treated as up to date**: if the stored state claims nothing
about the workspace of a step (which is what every cut inside its script leaves behind,
`cut_in_script_unclaimed`), then cooking that step - for every project state, flag set and
environment - starts its script again whenever the cook function returns normally: the skip tests
of `_cookBuildStep`, `_preparePackageStep` + `_cookPackageStep` and `_cookCheckoutStep` all fail. -/
theorem unclaimed_step_is_rerun (E : Env) (cfg : Cfg) (i : Info) (pre ds : List Step) (r : Run)
    (hc : NoClaim r.st i.path) :
    wp (cookBuild E cfg i ds) (fun _ r' => Op.scriptBegin i.path ∈ r'.log) (fun _ => True) r ∧
    wp (cookCheckout E cfg i ds) (fun _ r' => Op.scriptBegin i.path ∈ r'.log) (fun _ => True) r ∧
    wp (preparePackage i ds) (fun _ r' => r'.st.inputs i.path = none) (fun _ => True) r ∧
    (r.st.inputs i.path = none →
      wp (cookPackage E cfg i pre ds) (fun _ r' => Op.scriptBegin i.path ∈ r'.log) (fun _ => True) r) :=
  ⟨cookBuild_emits cfg i ds r hc, cookCheckout_emits cfg i ds r hc, preparePackage_unclaimed i ds r hc,
    fun hi => cookPackage_emits cfg i pre ds r hi⟩

/-- the log-level reading of "Bob never treats a step as up to date whose workspace was left
incomplete": after a cut inside the script of `p`, the next successful invocation of a project that
contains a step at `p` starts that script again.  As stated - for EVERY flag set `cfg'` of the second
invocation - this is false of the model and of the implementation (`no_false_uptodate_refuted`): an
invocation with `--checkout-only` (or `--no-deps`) that does not request the step at `p` at all
succeeds without touching it.  Proved with the hypothesis that the second invocation requests all
steps (`cfg'.noDeps = false`; `cfg'.checkoutOnly = true` only if the step at `p` is a checkout step):
`no_false_uptodate_partial`. -/
def no_false_uptodate_goal : Prop :=
  ∀ (E : Env) (dev : Bool) (Γ : Path → List (Dir × Digest)) (cfg cfg' : Cfg) (T T' : Step) (fuel fuel' : Nat) (st : St)
    (p : Path) (r' : Run),
    Function.Injective E.H → Truthful E dev Γ st → AllWF Γ T → TreeWF Γ T' →
    (invoke E cfg T fuel st).log.getLast? = some (.scriptBegin p) →
    (∃ u ∈ reach T', u.path = p) →
    invoke E cfg' T' fuel' (invoke E cfg T fuel st).st = .ok () r' →
    Op.scriptBegin p ∈ r'.log

open C01.Example in
theorem ex_bLib_reach (w s : String) : ∃ u ∈ reach (pApp w s), u.path = "build/lib" := by
  refine ⟨bLib, ?_, by simp [Step.path, Step.info, bLib, mkInfo]⟩
  have h := self_mem_reach bLib
  simp [reach, reachL, pApp, bApp, pLib, h]

open C01.Example in
/-- the goal is false for arbitrary flags of the second invocation.  Witness (example project of
`Props/C01.lean`, develop mode): `bob dev app` killed while the build script of `build/lib` runs
(cut after 25 micro-operations), then `bob dev --checkout-only app`: it succeeds and - correctly -
does not run the build step.  The same happens with `--no-deps` for a step of another package. -/
theorem no_false_uptodate_refuted : ¬ no_false_uptodate_goal := by
  intro h
  have hlast : (invoke exE devCfg (pApp "w" "s") 25 St.init).log.getLast? = some (.scriptBegin "build/lib") := by
    decide +kernel
  have hok : (invoke exE { checkoutOnly := true } (pApp "w" "s") 1000
      (invoke exE devCfg (pApp "w" "s") 25 St.init).st).isOk = true := by
    decide +kernel
  have hno : Op.scriptBegin "build/lib" ∉ (invoke exE { checkoutOnly := true } (pApp "w" "s") 1000
      (invoke exE devCfg (pApp "w" "s") 25 St.init).st).log := by
    decide +kernel
  cases hB : invoke exE { checkoutOnly := true } (pApp "w" "s") 1000 (invoke exE devCfg (pApp "w" "s") 25 St.init).st with
  | abort r => rw [hB] at hok; cases hok
  | ok a rB =>
    rw [hB] at hno
    apply hno
    exact h exE true exΓ devCfg { checkoutOnly := true } (pApp "w" "s") (pApp "w" "s") 25 1000 St.init "build/lib" rB
      ex_inj (truthful_init _ _ _) (ex_wf _ _).wf (ex_wf _ _) hlast
      (ex_bLib_reach _ _) hB

/-- **an unclaimed workspace is cooked again**, through the depth-first driver: from ANY state that
claims nothing about workspace `p`, a successful invocation that requests the step at `p` (no
`--no-deps`; `--checkout-only` only if the step at `p` is a checkout step) of any project that reaches
a step at `p` starts the script of `p`.  No hypothesis on the environment, the scripts, the state or
the first project. -/
theorem unclaimed_workspace_is_rerun (E : Env) (Γ : Path → List (Dir × Digest)) (cfg' : Cfg) (T' : Step) (fuel' : Nat)
    (st : St) (p : Path) (r' : Run) (hwf : TreeWF Γ T') (hnd : cfg'.noDeps = false)
    (hnc : NoClaim st p)
    (hp : ∃ u ∈ reach T', u.path = p ∧ (cfg'.checkoutOnly = true → u.kind = .checkout))
    (h : invoke E cfg' T' fuel' st = .ok () r') :
    Op.scriptBegin p ∈ r'.log := by
  obtain ⟨u, hu, hpu, hco⟩ := hp
  exact rerun_of_unclaimed hwf hnd st hnc fuel' r' h u hu hpu hco

/-- **no false up-to-date** (`no_false_uptodate_goal` with the added hypothesis that the second
invocation requests the step at `p`: `cfg'.noDeps = false`, and `cfg'.checkoutOnly = true` only if
the step at `p` is a checkout step): after a cut - kill, fuel, failing script - right after the begin
or the end of the script of workspace `p`, the next successful invocation of any project containing
a step at `p` starts that script again.  The hypotheses `Function.Injective E.H`, `Truthful`,
`AllWF Γ T` of the goal are not needed. -/
theorem no_false_uptodate_partial (E : Env) (Γ : Path → List (Dir × Digest)) (cfg cfg' : Cfg) (T T' : Step)
    (fuel fuel' : Nat) (st : St) (p : Path) (r' : Run) (hwf : TreeWF Γ T')
    (hnd : cfg'.noDeps = false)
    (hlast : (invoke E cfg T fuel st).log.getLast? = some (.scriptBegin p) ∨
      ∃ ok, (invoke E cfg T fuel st).log.getLast? = some (.scriptEnd p ok))
    (hp : ∃ u ∈ reach T', u.path = p ∧ (cfg'.checkoutOnly = true → u.kind = .checkout))
    (h : invoke E cfg' T' fuel' (invoke E cfg T fuel st).st = .ok () r') :
    Op.scriptBegin p ∈ r'.log :=
  unclaimed_workspace_is_rerun E Γ cfg' T' fuel' _ p r' hwf hnd
    (cut_in_script_unclaimed E cfg T fuel st p hlast) hp h

open C01.Example in
/-- the hypotheses of `no_false_uptodate_partial` are satisfiable: the example project, killed while
the build script of `build/lib` runs, then built again -/
example : ∃ rB, invoke exE devCfg (pApp "w" "s") 1000 (invoke exE devCfg (pApp "w" "s") 25 St.init).st = .ok () rB ∧
    Op.scriptBegin "build/lib" ∈ rB.log := by
  have hlast : (invoke exE devCfg (pApp "w" "s") 25 St.init).log.getLast? = some (.scriptBegin "build/lib") := by
    decide +kernel
  have hok : (invoke exE devCfg (pApp "w" "s") 1000 (invoke exE devCfg (pApp "w" "s") 25 St.init).st).isOk = true := by
    decide +kernel
  cases hB : invoke exE devCfg (pApp "w" "s") 1000 (invoke exE devCfg (pApp "w" "s") 25 St.init).st with
  | abort r => rw [hB] at hok; cases hok
  | ok a rB =>
    exact ⟨rB, rfl, no_false_uptodate_partial exE exΓ devCfg devCfg (pApp "w" "s") (pApp "w" "s") 25 1000 St.init
      "build/lib" rB (ex_wf _ _) rfl (Or.inl hlast)
      (by obtain ⟨u, hu, hpu⟩ := ex_bLib_reach "w" "s"; exact ⟨u, hu, hpu, fun h => by cases h⟩) hB⟩

end C05
