import BobModel.Proofs.C01Cook
/-
C05 — failed or killed builds never poison the workspace: property theorems about the builder model
(Model/Builder.lean).  Definitions (`Truthful`, `Loc`, `AllWF` ...) and lemmas live in Proofs/C01*.lean.

An aborted run is `invoke E cfg t fuel st` with too little `fuel`: the micro-operation list of the
invocation is cut after `fuel` operations.  A script is two micro-operations, the cut between them
leaves the arbitrary content `E.junk` in the workspace; a failing script (`E.sem … = .fail c`)
leaves its partial output `c` and aborts the run.  `E` (hash, script semantics, junk) is universally
quantified everywhere.
-/
namespace C05
open Builder

/-- the source order of `_cookBuildStep` / `_preparePackageStep` invalidates the stored state before
a prune empties the workspace (constants regenerated from the current source) -/
theorem prune_invalidates_first :
    Consts.C01.buildPruneInvalidatesFirst = true ∧ Consts.C01.packagePruneInvalidatesFirst = true := by
  decide

/-- **Truthful at every cut**: after every prefix of the micro-operations of every invocation
(any project, any flags, any cut point `fuel`, any junk content, any failing script) Bob's state
never claims more than the disk holds. -/
theorem truthful_at_every_cut (E : Env) (dev : Bool) (Γ : Path → List (Dir × Digest)) (cfg : Cfg) (t : Step)
    (hinj : Function.Injective E.H) (hdev : cfg.cleanBuild = false → dev = true) (hwf : AllWF Γ t)
    (st : St) (h : Truthful E dev Γ st) (fuel : Nat) :
    Truthful E dev Γ (invoke E cfg t fuel st).st := by
  have hy : Hyp E dev cfg := ⟨prune_invalidates_first.1, prune_invalidates_first.2, hinj, hdev⟩
  have hk := ((kstep_all (Γ := Γ) hy t) hwf).1 cfg.checkoutOnly
    { st := st, mem := Mem.init, fuel := fuel, log := [] } h
  unfold invoke cook
  unfold wp at hk
  cases hr : cookStep E cfg cfg.checkoutOnly t { st := st, mem := Mem.init, fuel := fuel, log := [] } with
  | ok a r' => rw [hr] at hk; exact hk.1
  | abort r' => rw [hr] at hk; exact hk

end C05
