import BobModel.Proofs.C18Complete
import BobModel.Proofs.C18Norm
import BobModel.Generated.ConstsC18
/-
C18 — property theorems about the model of pym/bob/pathspec.py (Model/PathSpec.lean) against the
declarative meaning of path queries (Spec/PathSem.lean).  Only statements that mention the
property live here; helper lemmas are in Proofs/C18*.lean.
-/
namespace C18
open PathSpec

/-! ### a concrete graph for the non-vacuity examples: root(0) → a(1) → b(2) → a(3), root → b(2) indirectly -/

def exChildren : Node → List Edge
  | 0 => [⟨['a'], 1, true⟩, ⟨['b'], 2, false⟩]
  | 1 => [⟨['b'], 2, true⟩]
  | 2 => [⟨['a'], 3, true⟩]
  | _ => []

def exName : Node → Str
  | 1 => ['a'] | 2 => ['b'] | 3 => ['a'] | _ => []

def exGraph : Graph := { size := 4, root := 0, name := exName, children := exChildren, sval := fun _ _ => [] }

theorem exGraph_wf : exGraph.WF := by
  refine ⟨by decide, ?_, ?_⟩
  · intro p e he
    match p with
    | 0 => simp [exGraph, exChildren] at he; rcases he with rfl | rfl <;> decide
    | 1 => simp [exGraph, exChildren] at he; subst he; decide
    | 2 => simp [exGraph, exChildren] at he; subst he; decide
    | n + 3 => simp [exGraph, exChildren] at he
  · intro p
    match p with
    | 0 => decide
    | 1 => decide
    | 2 => decide
    | n + 3 => simp [exGraph, exChildren]

/-! ### 0. the constants of the current source -/

/-- every axis keyword of the grammar (which are also exactly the axis names dispatched in
`LocationStep.evalForward` and `evalBackward`, checked by the extractor) is modelled, by a distinct axis -/
theorem axis_names_cover :
    Consts.C18.axes.map Axis.ofName =
      [some .child, some .descendant, some .descendantOrSelf, some .directChild, some .directDescendant,
       some .directDescendantOrSelf, some .self] := by
  decide

/-- a name test cannot contain any `fnmatch` special character but `*`, so `globMatch` is all of
`fnmatchcase` that can be reached -/
theorem nameTest_wildcard_only :
    ∀ c ∈ Consts.C18.nodeTestChars, c ≠ '?' ∧ c ≠ '[' ∧ c ≠ ']' ∧ c ≠ '!' := by
  decide

/-- the two mode names `LocationPath.evalForward` compares with are modelled; every other value
behaves like `nullglob` -/
theorem compared_modes : Consts.C18.comparedModes.map Mode.ofName = [some .nullfail, some .nullset] := by
  decide

/-! ### 1. the worklist loops -/

/-- the loop shared by `__evalAxisDescendant` and `__evalAxisAncestor` computes exactly the
transitive closure of its successor function on every finite graph and never runs out of fuel -/
theorem worklist_eq_transGen (succ : Node → List Node) (size : Nat)
    (hsucc : ∀ a b, b ∈ succ a → b < size) (nodes : List Node) :
    ∃ r, worklist succ (size + 2) nodes [] = some r ∧
      ∀ x, x ∈ r ↔ ∃ n ∈ nodes, Relation.TransGen (fun a b => b ∈ succ a) n x :=
  worklist_spec succ size hsucc nodes

theorem axis_descendant_eq_transGen (g : Graph) (hwf : g.WF) (nodes : List Node) (qi : Bool) :
    ∃ r, worklist (succs g qi) (g.size + 2) nodes [] = some r ∧
      ∀ x, x ∈ r ↔ ∃ n ∈ nodes, Relation.TransGen (edge g qi) n x := by
  have h := worklist_spec (succs g qi) g.size (fun a b h => edge_lt hwf (mem_succs.mp h)) nodes
  rw [succs_rel_eq] at h
  exact h

theorem axis_ancestor_eq_transGen (g : Graph) (hwf : g.WF) (nodes : List Node) (qi : Bool) :
    ∃ r, worklist (preds g qi) (g.size + 2) nodes [] = some r ∧
      ∀ x, x ∈ r ↔ x < g.size ∧ ∃ n ∈ nodes, Relation.TransGen (edge g qi) x n := by
  obtain ⟨r, hr, _⟩ := worklist_spec (preds g qi) g.size (fun a b h => ((mem_preds hwf).mp h).1) nodes
  refine ⟨r, hr, fun x => ?_⟩
  have := mem_evalAxisAncestor hwf (ns := nodes) (qi := qi) (x := x)
  unfold evalAxisAncestor at this
  rw [hr] at this
  exact this

example : ∃ r, worklist (succs exGraph true) (exGraph.size + 2) [0] [] = some r ∧ 3 ∈ r := by
  obtain ⟨r, hr, h⟩ := axis_descendant_eq_transGen exGraph exGraph_wf [0] true
  refine ⟨r, hr, (h 3).mpr ⟨0, by simp, ?_⟩⟩
  have e01 : edge exGraph true 0 1 := ⟨⟨['a'], 1, true⟩, by simp [exGraph, exChildren], rfl, Or.inl rfl⟩
  have e12 : edge exGraph true 1 2 := ⟨⟨['b'], 2, true⟩, by simp [exGraph, exChildren], rfl, Or.inl rfl⟩
  have e23 : edge exGraph true 2 3 := ⟨⟨['a'], 3, true⟩, by simp [exGraph, exChildren], rfl, Or.inl rfl⟩
  exact .tail (.tail (.single e01) e12) e23

/-! ### 2. the parent table -/

/-- the parent table (first edge wins) is the inverse of the child table, including the direct flag -/
theorem parents_inverse (g : Graph) (hwf : g.WF) (qi : Bool) (p x : Node) :
    p ∈ preds g qi x ↔ p < g.size ∧ edge g qi p x :=
  mem_preds hwf

/-- the tables written by `__convertPackageToGraph` form a well-formed graph: a (parent, child)
pair occurs under one name only -/
theorem converted_graph_wf (p : Pkgs) (sval : Nat → Node → Str) (hroot : p.root < p.size)
    (hd : ∀ i c, c ∈ p.direct i → c < p.size) (hi : ∀ i c, c ∈ p.indirect i → c < p.size) :
    (p.toGraph sval).WF :=
  toGraph_wf p sval hroot hd hi

/-! ### 3. backward evaluation of predicates -/

/-- evaluating a predicate backwards over the whole graph selects exactly the packages for
which the predicate holds in its forward (declarative) meaning -/
theorem evalBackward_iff_holds (g : Graph) (hwf : g.WF) (p : Pred) (n : Node) (hn : n < g.size) :
    n ∈ p.evalBackward g ↔ holds g p n :=
  pred_back hwf p n hn

theorem path_evalBackward_iff (g : Graph) (hwf : g.WF) (s : Steps) (n : Node) (hn : n < g.size) :
    n ∈ s.evalBackward g (allNodes g) ↔ ∃ m, sem g s n m := by
  rw [steps_back hwf s (allNodes g) n hn (by intro m hm; simpa [allNodes] using hm)]
  constructor
  · rintro ⟨m, _, hm⟩; exact ⟨m, hm⟩
  · rintro ⟨m, hm⟩; exact ⟨m, by simpa [allNodes] using sem_lt hwf s _ _ hn hm, hm⟩

example : holds exGraph (.path false (.cons .descendant ['a'] .none .nil)) 1 := by
  simp only [holds, sem, axisRel, holdsOpt]
  have e12 : edge exGraph true 1 2 := ⟨⟨['b'], 2, true⟩, by simp [exGraph, exChildren], rfl, Or.inl rfl⟩
  have e23 : edge exGraph true 2 3 := ⟨⟨['a'], 3, true⟩, by simp [exGraph, exChildren], rfl, Or.inl rfl⟩
  exact ⟨3, 3, .tail (.single e12) e23, by decide, trivial, rfl⟩

/-! ### 4. the node set of the forward evaluation -/

/-- the set of packages selected by `LocationPath.evalForward` is the step-by-step set -/
theorem evalForward_nodes (g : Graph) (hwf : g.WF) (mode : Mode) (steps : Steps) (nodes valid : List Node)
    (h : evalForward g mode steps = .ok (nodes, valid)) :
    ∀ m, m ∈ nodes ↔ sem g steps g.root m := by
  intro m
  rw [forwardLoop_nodes hwf mode steps [g.root] [g.root] false nodes valid
    (by intro a ha; simp at ha; subst ha; exact hwf.root_lt) h m]
  simp

/-! ### 6. empty results -/

/-- `nullset` never raises -/
theorem empty_mode_nullset (g : Graph) (steps : Steps) : ∃ r, evalForward g .nullset steps = .ok r :=
  forwardLoop_nullset g steps _ _ _

/-- in both other modes "Package not found" is raised exactly if some prefix of the path consists
of simple steps only (exact name, child/self axis, no predicate) and already selects nothing -/
theorem empty_mode_notFound (g : Graph) (hwf : g.WF) (mode : Mode) (hmode : mode ≠ .nullset) (steps : Steps) :
    evalForward g mode steps = .error .notFound ↔
      ∃ k, (steps.take k).anyComplex = false ∧ ∀ m, ¬ sem g (steps.take k) g.root m := by
  unfold evalForward
  rw [forwardLoop_notFound hwf mode hmode steps [g.root] [g.root] false
    (by intro a ha; simp at ha; subst ha; exact hwf.root_lt) (by intro _; simp)]
  simp

/-- `nullglob` raises nothing else -/
theorem empty_mode_nullglob (g : Graph) (steps : Steps) : evalForward g .nullglob steps ≠ .error .noMatch :=
  forwardLoop_nullglob_noMatch g steps _ _ _

/-- `nullfail` raises exactly if the path selects nothing -/
theorem empty_mode_nullfail (g : Graph) (hwf : g.WF) (steps : Steps) :
    (∃ e, evalForward g .nullfail steps = .error e) ↔ ∀ m, ¬ sem g steps g.root m := by
  unfold evalForward
  rw [forwardLoop_nullfail hwf steps [g.root] [g.root] false
    (by intro a ha; simp at ha; subst ha; exact hwf.root_lt) (by simp)]
  simp

/-- the three modes on the example graph: the missing package `zz` and the wildcard `z*` -/
example : evalForward exGraph .nullglob (.cons .child ['z', 'z'] .none .nil) = .error .notFound := by rfl
example : evalForward exGraph .nullset (.cons .child ['z', 'z'] .none .nil) = .ok ([], []) := by rfl
example : evalForward exGraph .nullfail (.cons .descendant ['z', 'z'] .none .nil) = .error .noMatch := by rfl
example : evalForward exGraph .nullglob (.cons .descendant ['z', 'z'] .none .nil) = .ok ([], []) := by rfl

/-! ### 5. reported paths -/

/-- every `(stack, node)` reported by `queryTreePath` is a selected package, reported with a real
path from the root all of whose nodes are in `valid` -/
theorem result_paths_sound (g : Graph) (hwf : g.WF) (mode : Mode) (steps : Steps) (queryAll : Bool)
    (nodes valid : List Node) (h : evalForward g mode steps = .ok (nodes, valid))
    (out : List (List Str × Node)) (hout : queryTree g mode steps queryAll = .ok out) :
    ∀ p ∈ out, sem g steps g.root p.2 ∧ PathWithin g valid g.root p.1 p.2 := by
  intro p hp
  simp only [queryTree, h, Except.ok.injEq] at hout
  subst hout
  obtain ⟨_, _, extra, hex, hall⟩ := findResultNodes_ok g queryAll valid nodes g.root (g.size + 1) g.root []
    { out := [], result := nodes, valid := valid } rfl (fun _ h => h) (fun _ h => h)
  simp only [List.nil_append] at hex
  rw [hex] at hp
  obtain ⟨h1, h2⟩ := hall p hp
  exact ⟨(evalForward_nodes g hwf mode steps nodes valid h p.2).mp h1, h2⟩

/-- `valid` only contains packages that lie on a real path from the root to a selected package -/
theorem valid_on_result_paths (g : Graph) (hwf : g.WF) (mode : Mode) (steps : Steps) (nodes valid : List Node)
    (h : evalForward g mode steps = .ok (nodes, valid)) :
    ∀ x ∈ valid, Reach g g.root x ∧ ∃ t ∈ nodes, Reach g x t := by
  apply forwardLoop_valid hwf mode g.root steps [g.root] [g.root] false nodes valid
    (by intro a ha; simp at ha; subst ha; exact hwf.root_lt) _ _ _ h
  · intro a ha; simp at ha; subst ha; exact reach_refl g _
  · intro a ha; simp at ha; subst ha; exact reach_refl g _
  · intro a ha; simp at ha; subst ha; exact ⟨g.root, by simp, reach_refl g _⟩


/-- `__findIntermediateNodes` (since 6706b01): exactly the packages that are reachable from an old
context node and from which a new context node is reachable, i.e. the packages on any path between
`old` and `new` — independent of any iteration order -/
theorem intermediate_nodes_spec (g : Graph) (hwf : g.WF) (hac : g.Acyclic) (old new : List Node) (qi : Bool)
    (hsup : superset old new = false) (y : Node) :
    y ∈ findIntermediateNodes g old new qi ↔
      (∃ o ∈ old, ReachQ g qi o y) ∧ ∃ t ∈ new, Relation.TransGen (edge g qi) y t :=
  findIntermediateNodes_spec hwf hac old new qi hsup y

/-- **every selected package is reported at least once** (both with `queryAll` False and True): trimming
`valid` never disconnects a result, and the depth fuel of the two recursive walks suffices on every
acyclic graph -/
theorem result_paths_complete (g : Graph) (hwf : g.WF) (hac : g.Acyclic) (mode : Mode) (steps : Steps)
    (queryAll : Bool) (out : List (List Str × Node)) (hout : queryTree g mode steps queryAll = .ok out) :
    ∀ n, sem g steps g.root n → ∃ s, (s, n) ∈ out := by
  intro n hn
  unfold queryTree at hout
  cases h : evalForward g mode steps with
  | error e => simp [h] at hout
  | ok r =>
    obtain ⟨nodes, valid⟩ := r
    simp only [h, Except.ok.injEq] at hout
    subst hout
    exact findResultNodes_complete hwf hac (intermediateConn hwf hac) mode steps nodes valid h queryAll n
      ((evalForward_nodes g hwf mode steps nodes valid h n).mpr hn)

/-- the set of packages returned by `queryTreePath` is the declarative set -/
theorem query_returns_declarative_set (g : Graph) (hwf : g.WF) (hac : g.Acyclic) (mode : Mode) (steps : Steps)
    (queryAll : Bool) (out : List (List Str × Node)) (hout : queryTree g mode steps queryAll = .ok out) (n : Node) :
    (∃ s, (s, n) ∈ out) ↔ sem g steps g.root n := by
  constructor
  · rintro ⟨s, hs⟩
    cases h : evalForward g mode steps with
    | error e => simp [queryTree, h] at hout
    | ok r =>
      obtain ⟨nodes, valid⟩ := r
      exact (result_paths_sound g hwf mode steps queryAll nodes valid h out hout (s, n) hs).1
  · exact result_paths_complete g hwf hac mode steps queryAll out hout n

theorem exGraph_acyclic : exGraph.Acyclic := by
  -- every edge of the example leads to a larger key
  have hlt : ∀ a b, edge exGraph true a b → a < b := by
    rintro a b ⟨e, he, rfl, _⟩
    match a with
    | 0 => simp [exGraph, exChildren] at he; rcases he with rfl | rfl <;> decide
    | 1 => simp [exGraph, exChildren] at he; subst he; decide
    | 2 => simp [exGraph, exChildren] at he; subst he; decide
    | n + 3 => simp [exGraph, exChildren] at he
  have htg : ∀ a b, Relation.TransGen (edge exGraph true) a b → a < b := by
    intro a b t
    induction t with
    | single h => exact hlt _ _ h
    | tail _ h ih => exact Nat.lt_trans ih (hlt _ _ h)
  intro a h
  exact Nat.lt_irrefl a (htg a a h)

/-- on the example graph the nested match `a`(3) below `a`(1) is reported: `//a` -/
example (out : List (List Str × Node))
    (h : queryTree exGraph .nullset (.cons .descendant ['a'] .none .nil) false = .ok out) :
    ∃ s, (s, 3) ∈ out := by
  apply result_paths_complete exGraph exGraph_wf exGraph_acyclic _ _ _ out h 3
  simp only [sem, axisRel, holdsOpt]
  have e01 : edge exGraph true 0 1 := ⟨⟨['a'], 1, true⟩, by simp [exGraph, exChildren], rfl, Or.inl rfl⟩
  have e12 : edge exGraph true 1 2 := ⟨⟨['b'], 2, true⟩, by simp [exGraph, exChildren], rfl, Or.inl rfl⟩
  have e23 : edge exGraph true 2 3 := ⟨⟨['a'], 3, true⟩, by simp [exGraph, exChildren], rfl, Or.inl rfl⟩
  exact ⟨3, .tail (.tail (.single e01) e12) e23, by decide, trivial, rfl⟩

/-! ### what is NOT true of the code (known finding F-C18-2) -/

/-- the full wording of the property for reported paths: every reported stack passes through the
steps of the query.  Not asserted: `valid` is a set of nodes, so the result walk may take an edge
between two valid nodes that skips a step (F-C18-2). -/
def result_paths_through_steps_goal : Prop :=
  ∀ (g : Graph), g.WF → g.Acyclic → ∀ (mode : Mode) (steps : Steps) (queryAll : Bool) (out : List (List Str × Node)),
    queryTree g mode steps queryAll = .ok out → ∀ p ∈ out, semPath g steps g.root p.1 p.2

/-- witness graph of F-C18-2: root(0) → b(1) → a2(2), root → a2(2) -/
def bypassChildren : Node → List Edge
  | 0 => [⟨['b'], 1, true⟩, ⟨['a', '2'], 2, true⟩]
  | 1 => [⟨['a', '2'], 2, true⟩]
  | _ => []

def bypassGraph : Graph :=
  { size := 3, root := 0, name := fun i => if i = 1 then ['b'] else if i = 2 then ['a', '2'] else [],
    children := bypassChildren, sval := fun _ _ => [] }

/-- the model reproduces the finding: `b/a2` is reported at the stack `a2`, not `b/a2` -/
theorem bypass_witness :
    (queryTree bypassGraph .nullset (.cons .child ['b'] .none (.cons .child ['a', '2'] .none .nil)) false).toOption
      = some [([['a', '2']], 2)] := by
  decide

/-! ### 7. constructor normalisations -/

/-- dropping trivial `self` steps and fusing `//x` into `descendant@x`, also inside predicates, does
not change the meaning of a path -/
theorem normalisation_preserves_sem (g : Graph) (s : Steps) (a b : Node) :
    sem g s.normalize a b ↔ sem g s a b :=
  sem_normalize g s a b

theorem normalisation_preserves_holds (g : Graph) (p : Pred) (n : Node) :
    holds g p.normalize n ↔ holds g p n :=
  holds_normalize g p n

/-! ### 8. aliases -/

theorem splitFirstSlash_append (first tail acc : Str) (h : '/' ∉ first) :
    splitFirstSlash acc (first ++ '/' :: tail) = (acc.reverse ++ first, some tail) := by
  induction first generalizing acc with
  | nil => simp [splitFirstSlash]
  | cons c cs ih =>
    have hc : c ≠ '/' := fun hc => h (by simp [hc])
    have hcs : '/' ∉ cs := fun hm => h (List.mem_cons_of_mem _ hm)
    simp only [List.cons_append, splitFirstSlash, beq_iff_eq, hc, if_false]
    rw [ih (c :: acc) hcs]
    simp

/-- an absolute path is never subject to alias substitution -/
theorem alias_absolute_untouched (aliases : List (Str × Str)) (path : Str) :
    substAlias aliases ('/' :: path) = '/' :: path := by
  simp [substAlias, splitFirstSlash]

/-- in a relative path exactly the text before the first `/` is looked up -/
theorem alias_first_step_only (aliases : List (Str × Str)) (first tail : Str) (h : '/' ∉ first) (hne : first ≠ []) :
    substAlias aliases (first ++ '/' :: tail) = lookupAlias aliases first ++ '/' :: tail := by
  unfold substAlias
  rw [splitFirstSlash_append first tail [] h]
  cases first with
  | nil => exact absurd rfl hne
  | cons c cs => simp

end C18
