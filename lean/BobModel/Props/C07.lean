import BobModel.Proofs.C07Cook
import BobModel.Proofs.C07Log
import BobModel.Proofs.C07Bid
import BobModel.Proofs.C07NoBuild
import BobModel.Proofs.C07Fuel
import BobModel.Generated.ConstsC07
/-
C07 — Binary artifacts are reused exactly when they are the right ones.

Models: `Model/Digest.lean` (`buildId`: the bytes `StepIR.getDigestCoro(…, fingerprint, platform, relaxTools=True)`
hashes; shared with C02/C03) and `Model/Download.lean` (`_downloadPackage`, `dissectPackageInputState`, download
modes, `_cookPackageStep`, the package branch of `_cookStep`, Build-Id cache, live-build-id predictions,
`__handleChangedBuildId` and the restart loop).

`H` / `E.H` are hash function parameters; collision freedom appears as hypothesis (`NoColl`, `Function.Injective`).
-/
namespace C07
open Download

/-! ## 0. the constants the models were written against -/

/-- initial depths of `LocalBuilder.__init__`, the (download depth, forced depth) table of `__setDownloadMode` for
every mode and both answers of `archive.canDownload()`, and the byte strings `getPlatformTag` is composed of (no NUL
byte: the tag can be split off the 20 zero bytes that follow it in the digest) -/
theorem consts_as_modelled :
    Consts.C07.downloadDepthInit = ({} : DlCfg).depth ∧ Consts.C07.downloadDepthForceInit = ({} : DlCfg).depthForce ∧
    Consts.C07.uploadDepthInit = ({} : Cfg).uploadDepth ∧
    (∀ t ∈ Consts.C07.platformTagParts, 0 ∉ t) ∧
    (∀ row ∈ Consts.C07.modeTable,
      (Mode.ofString row.1).map (fun m => setDownloadMode m row.2.1) = some { depth := row.2.2.1, depthForce := row.2.2.2.1 } ∧
      row.2.2.2.2 = (row.1 == "packages")) := by
  decide

/-! ## 1. Build-Ids -/
section bid
open Digest

/-- the Build-Id is a function of the meaning only: platform tag, script, strong tools (provider id, path,
libraries), strong variables, argument ids, fingerprint and host parts of the arguments.  Nothing else - no
workspace path, no weak variable, nothing of a weakly used tool but its name - can influence it: two workspaces at
different locations with the same recipes, sources and fingerprint compute the same Build-Ids. -/
theorem bid_pure (H : Bytes → Bytes) (p : Bytes) (d₁ d₂ : StepDesc) (hk : ToolsFramed d₁ d₂) (hs : bidSem d₁ = bidSem d₂)
    (hn : d₁.tools.length = d₂.tools.length) (he : d₁.env.length = d₂.env.length) (ha : d₁.args.length = d₂.args.length)
    (hh : semHost d₁ = semHost d₂) : buildId H p d₁ = buildId H p d₂ := by
  unfold buildId
  rw [encRecipeG_of_sem p d₁ d₂ hk hs hn he ha, encHost_eq_hostOfSem, encHost_eq_hostOfSem, hh]

/-- full statement of injectivity (not asserted: false of model and code, see `bid_injective_goal_false`) -/
def bid_injective_goal : Prop :=
  ∀ (H : Bytes → Bytes) (p₁ p₂ : Bytes) (d₁ d₂ : StepDesc), HashLen H → WF d₁ → WF d₂ →
    (0 : UInt8) ∉ p₁ → (0 : UInt8) ∉ p₂ → HostFramed d₁ d₂ →
    NoColl H (encRecipeG p₁ true d₁) (encRecipeG p₂ true d₂) → NoColl H (encHost d₁) (encHost d₂) →
    buildId H p₁ d₁ = buildId H p₂ d₂ → p₁ = p₂ ∧ bidSem d₁ = bidSem d₂ ∧ semHost d₁ = semHost d₂

/-- **equal Build-Ids ⇒ equal platform tag, script, strong tools (provider Build-Id, path, libraries), strong
variables, argument Build-Ids, fingerprint**, when the same tools are used weakly on both sides (`ToolsFramed`:
`relaxTools` hashes the bare name of a weak tool without a delimiter) and the host contributions sit at the same
positions (`HostFramed`, the undelimited host part known from C02). -/
theorem bid_injective_partial (H : Bytes → Bytes) (hl : HashLen H) (p₁ p₂ : Bytes) (d₁ d₂ : StepDesc)
    (w₁ : WF d₁) (w₂ : WF d₂) (hp₁ : (0 : UInt8) ∉ p₁) (hp₂ : (0 : UInt8) ∉ p₂)
    (ht : ToolsFramed d₁ d₂) (hf : HostFramed d₁ d₂)
    (c₁ : NoColl H (encRecipeG p₁ true d₁) (encRecipeG p₂ true d₂)) (c₂ : NoColl H (encHost d₁) (encHost d₂))
    (h : buildId H p₁ d₁ = buildId H p₂ d₂) : p₁ = p₂ ∧ bidSem d₁ = bidSem d₂ ∧ semHost d₁ = semHost d₂ := by
  unfold buildId at h
  rw [digest_eq_iff hl] at h
  obtain ⟨hr, hh⟩ := h
  have ⟨e0, e1⟩ := encRecipeG_relaxed_inj p₁ p₂ d₁ d₂ w₁ w₂ hp₁ hp₂ ht (c₁ hr)
  have e2 : encHost d₁ = encHost d₂ := by
    rcases hh with ⟨a, b⟩ | ⟨_, _, c⟩
    · rw [a, b]
    · exact c₂ c
  refine ⟨e0, e1, ?_⟩
  rw [encHost_eq_hostOfSem, encHost_eq_hostOfSem] at e2
  apply hostOfSem_inj _ _ e2
  · exact hf.1
  · have := hf.2
    simpa [semHost, List.map_map, Function.comp_def] using this

/-- a strongly used tool whose provider id is `AAAA…` versus a weakly used tool whose *name* spells the same bytes -/
def weakWitness₁ : StepDesc :=
  { script := none, tools := [⟨['t'], List.replicate 20 65, [], [], false⟩], env := [], args := [], hostPrefix := [] }
def weakWitness₂ : StepDesc :=
  { script := none, tools := [⟨List.replicate 20 'A' ++ List.replicate 8 (Char.ofNat 0), List.replicate 20 1, [], [], true⟩],
    env := [], args := [], hostPrefix := [] }

theorem weakWitness_same_encoding :
    encRecipeG [] true weakWitness₁ = encRecipeG [] true weakWitness₂ ∧ encHost weakWitness₁ = encHost weakWitness₂ ∧
    bidSem weakWitness₁ ≠ bidSem weakWitness₂ := by
  decide

/-- without `ToolsFramed` the statement is false for *every* hash function: the undelimited name of a weakly used
tool can spell the record of a strongly used one (needs a tool name with NUL characters and a provider id that is
valid UTF-8 - an artefact of the encoding, no practical collision) -/
theorem bid_injective_goal_false : ¬ bid_injective_goal := by
  intro goal
  have e := weakWitness_same_encoding
  have wf1 : WF weakWitness₁ :=
    { script := (by simp [weakWitness₁, lenOk]), ntools := (by simp [weakWitness₁]),
      tools := (by intro t ht; simp [weakWitness₁] at ht; subst ht; simp [lenOk]), nenv := (by simp [weakWitness₁]),
      env := (by intro t ht; simp [weakWitness₁] at ht), nargs := (by simp [weakWitness₁]),
      args := (by intro a ha; simp [weakWitness₁] at ha) }
  have wf2 : WF weakWitness₂ :=
    { script := (by simp [weakWitness₂, lenOk]), ntools := (by simp [weakWitness₂]),
      tools := (by intro t ht; simp [weakWitness₂] at ht; subst ht; simp [lenOk]), nenv := (by simp [weakWitness₂]),
      env := (by intro t ht; simp [weakWitness₂] at ht), nargs := (by simp [weakWitness₂]),
      args := (by intro a ha; simp [weakWitness₂] at ha) }
  have := goal (fun _ => List.replicate 20 0) [] [] weakWitness₁ weakWitness₂ (fun _ => by simp) wf1 wf2 (by simp) (by simp)
    ⟨rfl, rfl⟩ (fun _ => e.1) (fun _ => e.2.1) (by unfold buildId; rw [e.1, e.2.1])
  exact e.2.2 this.2.1

/-- **any difference in platform, script, strong tools, strong variables, argument ids or fingerprint yields a
different Build-Id** (contrapositive of `bid_injective_partial`) -/
theorem bid_sensitive (H : Bytes → Bytes) (hl : HashLen H) (p₁ p₂ : Bytes) (d₁ d₂ : StepDesc)
    (w₁ : WF d₁) (w₂ : WF d₂) (hp₁ : (0 : UInt8) ∉ p₁) (hp₂ : (0 : UInt8) ∉ p₂)
    (ht : ToolsFramed d₁ d₂) (hf : HostFramed d₁ d₂)
    (c₁ : NoColl H (encRecipeG p₁ true d₁) (encRecipeG p₂ true d₂)) (c₂ : NoColl H (encHost d₁) (encHost d₂))
    (hne : p₁ ≠ p₂ ∨ bidSem d₁ ≠ bidSem d₂ ∨ semHost d₁ ≠ semHost d₂) : buildId H p₁ d₁ ≠ buildId H p₂ d₂ := by
  intro h
  have ⟨a, b, c⟩ := bid_injective_partial H hl p₁ p₂ d₁ d₂ w₁ w₂ hp₁ hp₂ ht hf c₁ c₂ h
  rcases hne with h1 | h1 | h1
  · exact h1 a
  · exact h1 b
  · exact h1 c

/-- … and of everything that consumes it: one changed argument Build-Id (recipe or host half) changes the Build-Id
of the consuming step, all other inputs being equal; by induction over the dependency graph (as `C02.vid_propagates`)
the change reaches every step above -/
theorem bid_propagates_arg (H : Bytes → Bytes) (hl : HashLen H) (p : Bytes) (hp : (0 : UInt8) ∉ p) (d : StepDesc)
    (pre post : List Bytes) (a a' : Bytes)
    (w : WF { d with args := pre ++ a :: post }) (w' : WF { d with args := pre ++ a' :: post })
    (hlen : (sliceHost a).length = (sliceHost a').length)
    (c₁ : NoColl H (encRecipeG p true { d with args := pre ++ a :: post }) (encRecipeG p true { d with args := pre ++ a' :: post }))
    (c₂ : NoColl H (encHost { d with args := pre ++ a :: post }) (encHost { d with args := pre ++ a' :: post }))
    (hne : a ≠ a') :
    buildId H p { d with args := pre ++ a :: post } ≠ buildId H p { d with args := pre ++ a' :: post } := by
  intro h
  have hf : HostFramed { d with args := pre ++ a :: post } { d with args := pre ++ a' :: post } := by
    refine ⟨rfl, ?_⟩
    simp only [List.map_append, List.map_cons, hlen]
  have ⟨_, e1, e2⟩ := bid_injective_partial H hl p p _ _ w w' hp hp rfl hf c₁ c₂ h
  have s1 : sliceRecipes a = sliceRecipes a' := by
    have := congrArg BidSem.args e1
    simp only [bidSem, List.map_append, List.map_cons] at this
    have := List.append_cancel_left this
    exact (List.cons.inj this).1
  have s2 : sliceHost a = sliceHost a' := by
    have := congrArg SemHost.args e2
    simp only [semHost, List.map_append, List.map_cons] at this
    have := List.append_cancel_left this
    exact (List.cons.inj this).1
  apply hne
  have e : ∀ x : Bytes, x = sliceRecipes x ++ sliceHost x := fun x => (List.take_append_drop 20 x).symm
  rw [e a, e a', s1, s2]

/-- the hypotheses of `bid_injective_partial` are satisfiable by two different descriptions with a weakly used tool,
a fingerprint and a hash that separates them -/
example : ∃ (H : Bytes → Bytes) (d₁ d₂ : StepDesc), HashLen H ∧ ToolsFramed d₁ d₂ ∧ HostFramed d₁ d₂ ∧ d₁ ≠ d₂ ∧
    NoColl H (encRecipeG [119] true d₁) (encRecipeG [119] true d₂) ∧ NoColl H (encHost d₁) (encHost d₂) ∧
    buildId H [119] d₁ ≠ buildId H [119] d₂ := by
  refine ⟨fun b => ((b.drop 21).take 20) ++ List.replicate (20 - ((b.drop 21).take 20).length) 0,
    { script := some ['a'], tools := [⟨['w'], [], [], [], true⟩], env := [], args := [], hostPrefix := List.replicate 20 7 },
    { script := some ['b'], tools := [⟨['w'], [1], ['x'], [], true⟩], env := [], args := [], hostPrefix := List.replicate 20 7 },
    ?_, ?_, ?_, ?_, ?_, ?_, ?_⟩
  · intro b
    simp only [List.length_append, List.length_take, List.length_drop, List.length_replicate]
    omega
  · unfold ToolsFramed; decide
  · exact ⟨rfl, rfl⟩
  · decide
  · intro h; revert h; decide
  · intro _; rfl
  · decide

end bid

/-! ### Build-Ids of whole projects (`Model/Download.lean`) -/

/-- **equal Build-Ids, equal results**: with an injective digest and deterministic scripts two packages (of any two
project states) with the same Build-Id have the same from-scratch result, so an honest artifact found under the
Build-Id of a package *is* the result of building it locally -/
theorem equal_bid_equal_result (E : Env) (hB : BInj E) (t t' : Pkg) (h : tb E t = tb E t') : value E t = value E t' :=
  value_of_tb E hB h

mutual
/-- a project moved to another location: every workspace path mapped by `f` -/
def relocate (f : Path → Path) : Pkg → Pkg
  | .mk i ds => .mk { i with path := f i.path } (relocateL f ds)
def relocateL (f : Path → Path) : List Pkg → List Pkg
  | [] => []
  | d :: ds => relocate f d :: relocateL f ds
end

/-- **Build-Ids and results are location free**: identical recipes, sources and fingerprint at different locations
give identical Build-Ids (and identical from-scratch results) -/
theorem bid_location_free (E : Env) (f : Path → Path) (t : Pkg) :
    tb E (relocate f t) = tb E t ∧ value E (relocate f t) = value E t :=
  Pkg.rec (motive_1 := fun t => tb E (relocate f t) = tb E t ∧ value E (relocate f t) = value E t)
    (motive_2 := fun ds => tbs E (relocateL f ds) = tbs E ds ∧ values E (relocateL f ds) = values E ds)
    (fun i ds ih => by simp only [relocate, tb, value, ih.1, ih.2, and_self])
    ⟨rfl, rfl⟩
    (fun d ds hd hds => by simp only [relocateL, tbs, values, hd.1, hd.2, hds.1, hds.2, and_self])
    t

/-! ## 2. an honest archive is transparent -/

/-- **whatever the archive contains** - honest artifacts of any project states (`Honest`: the result of a local build
of a package with that Build-Id plus its audit trail) and corrupt ones (`Corrupt`: extraction fails, no audit trail,
recorded result hash ≠ content hash) - **and whatever the workspaces were used for before** (`Inv`: any state
reachable by earlier invocations on arbitrary project states), for every download mode, depth, `--force`, upload
setting: two invocations that succeed end with the same content in the target package, namely the result of a
purely local from-scratch build.  (One of the two may be the build without archive.)  No prediction is involved
(`pred = none`); see `misprediction_restart` for predictions. -/
theorem honest_archive (E : Env) (ρ : Vid → RSig) (hB : BidSound E) (hH : Function.Injective E.H) (t : Pkg)
    (hNA : NoAlias (nodes t)) (hV : VidOK ρ (nodes t)) (hnp : ∀ u ∈ nodes t, u.info.pred = none)
    (cfg cfg' : Cfg) (s s' : St) (a a' : Archive) (hI : Inv E ρ s) (hI' : Inv E ρ s') (hA : ArchOK E a) (hA' : ArchOK E a')
    (r r' : Run) (h : cook E cfg t s a = .ok r) (h' : cook E cfg' t s' a' = .ok r') :
    r.st.disk t.path = some (value E t) ∧ r'.st.disk t.path = r.st.disk t.path := by
  have e : ∀ F, eff F t = t := fun F => eff_id F t (fun u hu => Or.inr (Or.inl (hnp u hu)))
  have h1 := (cook_spec E ρ hB hH cfg t hNA hV s a hI hA).2.2 r h
  have h2 := (cook_spec E ρ hB hH cfg' t hNA hV s' a' hI' hA').2.2 r' h'
  rw [e] at h1 h2
  exact ⟨h1, by rw [h1, h2]⟩

/-- the workspace state stays trustworthy and the archive honest after *every* invocation, also one that ends in a
`BuildError` (corrupt artifact, forced download failed): the next invocation of the edit history starts from a state
that satisfies the hypotheses of `honest_archive` again; in particular every artifact that is uploaded is honest -/
theorem invariant_preserved (E : Env) (ρ : Vid → RSig) (hB : BidSound E) (hH : Function.Injective E.H) (t : Pkg)
    (hNA : NoAlias (nodes t)) (hV : VidOK ρ (nodes t)) (cfg : Cfg) (s : St) (a : Archive) (hI : Inv E ρ s) (hA : ArchOK E a) :
    Inv E ρ (cook E cfg t s a).run.st ∧ ArchOK E (cook E cfg t s a).run.arch :=
  ⟨(cook_spec E ρ hB hH cfg t hNA hV s a hI hA).1, (cook_spec E ρ hB hH cfg t hNA hV s a hI hA).2.1⟩

/-- a fresh workspace and an empty archive satisfy the hypotheses -/
theorem fresh_ok (E : Env) (ρ : Vid → RSig) : Inv E ρ St.init ∧ ArchOK E (fun _ => none) :=
  ⟨fun _ => invLoc_of_inp_none E ρ _ rfl, fun _ _ h => by cases h⟩

/-- an environment in which results spell out what they were made of -/
def exE : Env :=
  { H := id, semB := fun rs s cs => rs ++ "|" ++ s ++ "|" ++ String.join cs, semP := fun _ c => c,
    B := fun rs s bs => rs ++ "|" ++ s ++ "|" ++ String.join bs, junk := "junk" }

theorem exE_value_eq_tb (t : Pkg) : value exE t = tb exE t :=
  Pkg.rec (motive_1 := fun t => value exE t = tb exE t) (motive_2 := fun ds => values exE ds = tbs exE ds)
    (fun i ds ih => by simp only [value, tb, exE] at ih ⊢; rw [ih])
    rfl
    (fun d ds hd hds => by simp only [values, tbs, hd, hds])
    t

def exLib : Pkg := .mk ⟨"dist/lib", "v-lib", "r-lib", "src1", none, false, none⟩ []
def exRoot : Pkg := .mk ⟨"dist/root", "v-root", "r-root", "srcR", none, false, none⟩ [exLib]
def exRho : Vid → RSig := fun v => if v = "v-lib" then "r-lib" else "r-root"

/-- the hypotheses of `honest_archive` are satisfiable: an environment with sound Build-Ids and an injective hash, a
two package project, and an archive that holds the honest artifact of the library and a corrupt one for the root -/
example : BidSound exE ∧ Function.Injective exE.H ∧ NoAlias (nodes exRoot) ∧ VidOK exRho (nodes exRoot) ∧
    (∀ u ∈ nodes exRoot, u.info.pred = none) ∧
    ArchOK exE (fun b => if b = tb exE exLib then some (.good (value exE exLib) (some (exE.H (value exE exLib))))
                          else if b = tb exE exRoot then some (.good "garbage" (some "wrong")) else none) := by
  refine ⟨?_, fun _ _ h => h, ?_, ?_, ?_, ?_⟩
  · intro t t' h; rw [exE_value_eq_tb, exE_value_eq_tb]; exact h
  · intro u hu v hv h
    simp only [nodes, nodesL, exRoot, exLib, List.mem_cons, List.mem_append, List.not_mem_nil, or_false] at hu hv
    rcases hu with rfl | rfl <;> rcases hv with rfl | rfl <;> first | rfl | (simp [Pkg.path, Pkg.info] at h)
  · intro u hu
    simp only [nodes, nodesL, exRoot, exLib, List.mem_cons, List.mem_append, List.not_mem_nil, or_false] at hu
    rcases hu with rfl | rfl <;> simp [exRho, Pkg.info]
  · intro u hu
    simp only [nodes, nodesL, exRoot, exLib, List.mem_cons, List.mem_append, List.not_mem_nil, or_false] at hu
    rcases hu with rfl | rfl <;> rfl
  · intro b x hx
    simp only at hx
    split at hx
    · rename_i hb
      simp only [Option.some.injEq] at hx
      exact Or.inl ⟨exLib, hb.symm, hx.symm⟩
    · split at hx
      · simp only [Option.some.injEq] at hx
        right
        rw [← hx]
        simp [Corrupt, exE]
      · cases hx

/-! ## 3. a download is accepted only after it is verified -/

/-- **`inputs[p] = downloaded b` is written only in a state where the audit trail of `p` is present and records the
hash of what is in the workspace** (`VerifiedLog`), in every invocation: any project, start state, archive (honest or
not), configuration, predictions, restarts -/
theorem accepted_download_verified (E : Env) (cfg : Cfg) (t : Pkg) (s : St) (a : Archive) :
    VerifiedLog E (s, a) (cook E cfg t s a).run.log ∧
    ((cook E cfg t s a).run.st, (cook E cfg t s a).run.arch) = applyOps E (s, a) (cook E cfg t s a).run.log := by
  have := rounds_runok E s a cfg t (size t + 1) { st := s, arch := a, mem := Mem.init, log := [] } ⟨rfl, trivial⟩
  exact ⟨this.2, this.1⟩

/-- the same for one call of `_downloadPackage` from an arbitrary state, in terms of its micro-operation list: the
operation is preceded by a successful extraction whose audit hash equals the content hash -/
theorem accepted_download_verified_call (E : Env) (cfg : Cfg) (depth : Nat) (i : PInfo) (b : BuildId) (l : Loc)
    (x : Option Artifact) : VLoc E l (dlOps E cfg depth i b l x).1 :=
  dlOps_verified E cfg depth i b l x

/-- a corrupt artifact is never accepted: the call ends in a `BuildError` and writes no input state -/
theorem corrupt_rejected (E : Env) (cfg : Cfg) (depth : Nat) (i : PInfo) (b : BuildId) (y : Artifact)
    (hy : Corrupt E y) (hc : cfg.canDownload = true) :
    (dlFetchOps E cfg depth i b (fetch cfg (some y))).2 = .error ∧
    ∀ op ∈ (dlFetchOps E cfg depth i b (fetch cfg (some y))).1, ∀ inp, op ≠ .setInputs i.path inp := by
  cases y with
  | broken => simp [fetch, hc, dlFetchOps]
  | good c au =>
    cases au with
    | none => simp [fetch, hc, dlFetchOps]
    | some h =>
      have hne : h ≠ E.H c := hy
      simp [fetch, hc, dlFetchOps, hne]

/-! ## 4. stale artifacts are pruned, wrong predictions are recovered -/

/-- **a changed Build-Id prunes first**: if the workspace was built, downloaded or shared under another Build-Id
(or the recorded state is unreadable) and a download may be tried, `_downloadPackage` invalidates the state, empties
the workspace, removes the audit trail and resets the state *before* anything else; afterwards the workspace is
recorded as downloaded under the *new* id or not at all -/
theorem stale_download_pruned (E : Env) (cfg : Cfg) (depth : Nat) (i : PInfo) (b : BuildId) (l : Loc)
    (x : Option Artifact) (ht : tryDownload cfg.dl depth i = true)
    (hold : (dissect l.inp).oldBid ≠ .none) (hne : (dissect l.inp).oldBid ≠ .bid b) :
    (∃ rest, (dlOps E cfg depth i b l x).1 =
      (if l.disk.isNone then [Op.mkDir i.path] else []) ++
      [.reset i.path none, .emptyDir i.path, .rmAudit i.path, .reset i.path (some i.vid)] ++ rest) ∧
    (((dlOps E cfg depth i b l x).1.foldl (locOp E) l).inp = none ∨
     ((dlOps E cfg depth i b l x).1.foldl (locOp E) l).inp = some (.downloaded b)) := by
  have hp : dlPrune cfg b (dissect l.inp) = true := by
    unfold dlPrune
    cases ho : (dissect l.inp).oldBid with
    | none => exact absurd ho hold
    | other => simp
    | bid b' =>
      have : b' ≠ b := fun e => hne (by rw [ho, e])
      simp [this]
  unfold dlOps
  simp only [ht, Bool.not_true, Bool.false_eq_true, if_false, hp, Bool.true_or, if_true]
  refine ⟨⟨_, rfl⟩, ?_⟩
  rw [List.foldl_append, List.foldl_append, foldl_mk]
  simp only [List.foldl_cons, List.foldl_nil, locOp]
  unfold dlFetchOps
  cases fetch cfg x with
  | notFound => simp [locOp]
  | failed => simp [locOp]
  | extracted c au =>
    cases au with
    | none => simp [locOp]
    | some h =>
      simp only
      split <;> simp [locOp]

/-- … and what was downloaded is never taken for built: `_cookPackageStep` on a workspace recorded as downloaded
(under whatever id) runs the package again on an emptied workspace -/
theorem downloaded_never_skipped (E : Env) (cfg : Cfg) (i : PInfo) (b b' : BuildId) (depC : List Content) (tok : Nat)
    (l : Loc) (h : l.inp = some (.downloaded b')) : (pkgOps E cfg i b depC tok l).2 = true := by
  simp [pkgOps, h, dissect]

/-- **wrong live-build-id predictions are recovered.**
(a) `__handleChangedBuildId` records the real source id, drops every derived Build-Id and forgets the executed
package steps (it does *not* forget which downloads were tried: `_clearDownloadTried` assigns an unused attribute);
(b) whatever the predictions were, however many restarts it took and whatever was fetched under wrong ids meanwhile:
a successful invocation leaves the workspace state trustworthy and the archive honest (nothing was uploaded under an
id it does not belong to), the target holds exactly the result of a local build of the project state the *final*
Build-Ids describe, and if no wrong prediction is left undetected that is the real project state. -/
theorem misprediction_restart (E : Env) (ρ : Vid → RSig) (hB : BidSound E) (hH : Function.Injective E.H) (t : Pkg)
    (hNA : NoAlias (nodes t)) (hV : VidOK ρ (nodes t)) (cfg : Cfg) (s : St) (a : Archive) (hI : Inv E ρ s) (hA : ArchOK E a) :
    (∀ (i : PInfo) (m : Mem), (handleChangedBuildId i m).fixed i.path = true ∧ (handleChangedBuildId i m).bids = (fun _ => none) ∧
      (handleChangedBuildId i m).wasRun = (fun _ => none) ∧ (handleChangedBuildId i m).tried = m.tried) ∧
    (∀ (i : PInfo) (r r5 : Run), checkSrc i r = some r5 → srcNow r.mem i ≠ i.src ∧ srcNow r5.mem i = i.src) ∧
    (∀ r', cook E cfg t s a = .ok r' →
      Inv E ρ r'.st ∧ ArchOK E r'.arch ∧ r'.st.disk t.path = some (value E (eff r'.mem.fixed t)) ∧
      (PredOK r'.mem.fixed t → r'.st.disk t.path = some (value E t))) := by
  refine ⟨?_, ?_, ?_⟩
  · intro i m
    simp [handleChangedBuildId, clearDownloadTried, upd_same]
  · intro i r r5 h
    unfold checkSrc at h
    split at h
    · rename_i hc
      simp only [decide_eq_true_eq] at hc
      simp only [Option.some.injEq] at h
      refine ⟨hc, ?_⟩
      rw [← h]
      simp [srcNow, handleChangedBuildId, clearDownloadTried, upd_same]
    · cases h
  · intro r' h
    have hs := cook_spec E ρ hB hH cfg t hNA hV s a hI hA
    rw [h] at hs
    refine ⟨hs.1, hs.2.1, hs.2.2 r' rfl, ?_⟩
    intro hp
    have := hs.2.2 r' rfl
    rw [eff_id _ t hp] at this
    exact this

/-- **the restart loop terminates**: every restart makes the real source id of one more package known, so an
invocation ends after at most (number of packages + 1) rounds in success or in a `BuildError`, never in a restart -/
theorem restart_terminates (E : Env) (cfg : Cfg) (t : Pkg) (s : St) (a : Archive) :
    (∃ r, cook E cfg t s a = .ok r) ∨ (∃ r, cook E cfg t s a = .abort r) := by
  cases h : cook E cfg t s a with
  | ok r => exact Or.inl ⟨r, rfl⟩
  | abort r => exact Or.inr ⟨r, rfl⟩
  | restart r => exact absurd h (cook_no_restart E cfg t s a r)

/-! ## 5. what was uploaded is downloaded without building -/

/-- what the upload of a freshly built package leaves in the archive under its Build-Id: an extractable artifact
whose audit trail records the hash of its content (an artifact that is already there is never overwritten) -/
theorem uploaded_artifact_consistent (E : Env) (s : St) (a : Archive) (p : Path) (b : BuildId) (c : Content)
    (haud : s.audit p = some (E.H c)) (hd : s.disk p = some c)
    (hcons : ∀ x, a b = some x → ∃ c', x = .good c' (some (E.H c'))) :
    ∃ c', (applyOp E (s, a) (.upload p b)).2 b = some (.good c' (some (E.H c'))) := by
  simp only [applyOp, haud]
  cases hb : a b with
  | none =>
    refine ⟨c, ?_⟩
    simp [upd_same, hd]
  | some x =>
    obtain ⟨c', hc'⟩ := hcons x hb
    exact ⟨c', by simp [hb, hc']⟩


theorem nodes_relocate (f : Path → Path) (t : Pkg) : nodes (relocate f t) = (nodes t).map (relocate f) :=
  Pkg.rec (motive_1 := fun t => nodes (relocate f t) = (nodes t).map (relocate f))
    (motive_2 := fun ds => nodesL (relocateL f ds) = (nodesL ds).map (relocate f))
    (fun i ds ih => by simp only [relocate, nodes, List.map_cons, ih])
    rfl
    (fun d ds hd hds => by simp only [relocateL, nodesL, List.map_append, hd, hds])
    t

/-- **an uploaded artifact is downloaded** (one call of `_downloadPackage`): where a download may be tried
(`tryDownload`: at or below the download depth, or matched by `packages=` / a layer mode), the archive can be read,
the workspace is fresh or download-only and the archive holds an extractable artifact with a matching audit trail
under the Build-Id, the call reports a download and executes nothing -/
theorem uploaded_is_downloaded (E : Env) (cfg : Cfg) (depth : Nat) (i : PInfo) (b : BuildId) (l : Loc) (c : Content)
    (ht : tryDownload cfg.dl depth i = true) (hc : cfg.canDownload = true) (hl : DLOnly l) :
    (dlOps E cfg depth i b l (some (.good c (some (E.H c))))).2 = .downloaded ∧
    (∀ op ∈ (dlOps E cfg depth i b l (some (.good c (some (E.H c))))).1, ∀ p c', op ≠ .runPackage p c') := by
  refine ⟨dl_succeeds E cfg depth i b l c ht hc hl, ?_⟩
  intro op hop p c' e
  have := dlOps_norun E cfg depth i b l _ op hop
  rw [e] at this
  simp [Op.isRun] at this

/-- **upload, then download without building - for every download mode and depth.**
`t0` is the project state the uploader cooked at its location; the downloader has the same recipes, sources and
fingerprints at another location (`relocate f t0`: same Build-Ids by `bid_location_free`), a workspace that is fresh or
was only used for downloads, and an archive that holds, for every package, what the uploader's local build put there
under its Build-Id (`Full`; every uploaded artifact is of this form and honest, see `invariant_preserved`).  Then for
every configuration that can read the archive the invocation succeeds, and the only package scripts it executes
belong to packages *above* the download depth (`shallowP`: those for which no download may be tried); everything at
or below the download depth is downloaded, and what is below a downloaded package is not touched at all.  The target
holds the result of the uploader's local build and the archive is unchanged. -/
theorem upload_then_download_no_build (E : Env) (ρ : Vid → RSig) (hB : BidSound E) (hH : Function.Injective E.H)
    (f : Path → Path) (t0 : Pkg) (cfg : Cfg) (s : St) (a : Archive)
    (hNA : NoAlias (nodes (relocate f t0))) (hV : VidOK ρ (nodes (relocate f t0))) (hAc : Acyc (nodes (relocate f t0)))
    (hnp : ∀ u ∈ nodes t0, u.info.pred = none) (hI : Inv E ρ s) (hA : ArchOK E a) (hc : cfg.canDownload = true)
    (hfull : Full E a (nodes t0))
    (hdl : ∀ u ∈ nodes (relocate f t0), DLOnly (s.loc u.path)) :
    ∃ r', cook E cfg (relocate f t0) s a = .ok r' ∧
      (∀ p c, Op.runPackage p c ∈ r'.log → p ∈ shallowP cfg.dl 0 (relocate f t0)) ∧
      r'.st.disk (relocate f t0).path = some (value E t0) ∧ r'.arch = a := by
  have hloc := bid_location_free E f t0
  have hnp' : ∀ u ∈ nodes (relocate f t0), u.info.pred = none := by
    intro u hu
    rw [nodes_relocate] at hu
    obtain ⟨v, hv, rfl⟩ := List.mem_map.mp hu
    have := hnp v hv
    cases v with
    | mk i ds => simpa [relocate, Pkg.info] using this
  have hfull' : Full E a (nodes (relocate f t0)) := by
    intro u hu
    rw [nodes_relocate] at hu
    obtain ⟨v, hv, rfl⟩ := List.mem_map.mp hu
    rw [(bid_location_free E f v).1]
    exact hfull v hv
  generalize relocate f t0 = t at hNA hV hAc hnp' hdl hloc hfull' ⊢
  have hG0 := G_init E ρ (nodes t) s a hI hA
  have hA0 : Acc (nodes t) [] { st := s, arch := a, mem := Mem.init, log := [] } := by
    intro u hu _ _
    exact ⟨rfl, hdl u hu⟩
  obtain ⟨r', hr', _, harch, hruns⟩ := nb_all E ρ (nodes t) hB hH hNA hV hAc hnp' cfg hc t 0 _ []
    (fun u hu => hu) hG0 hA0 (fun _ _ h => by cases h) hfull'
  have hcook : cook E cfg t s a = .ok r' := by
    unfold cook
    simp only [cookRounds, hr']
  refine ⟨r', hcook, ?_, ?_, harch⟩
  · intro p c hm
    rcases hruns p c hm with h | h
    · cases h
    · exact h
  · have := (cook_spec E ρ hB hH cfg t hNA hV s a hI hA).2.2 r' hcook
    rw [eff_id _ t (fun u hu => Or.inr (Or.inl (hnp' u hu))), hloc.2] at this
    exact this

/-- the download depth 0 (modes `yes`, `forced`, `forced-fallback`): no package script at all is executed -/
theorem upload_then_download_nothing_built (E : Env) (ρ : Vid → RSig) (hB : BidSound E) (hH : Function.Injective E.H)
    (f : Path → Path) (t0 : Pkg) (cfg : Cfg) (s : St) (a : Archive)
    (hNA : NoAlias (nodes (relocate f t0))) (hV : VidOK ρ (nodes (relocate f t0))) (hAc : Acyc (nodes (relocate f t0)))
    (hnp : ∀ u ∈ nodes t0, u.info.pred = none) (hI : Inv E ρ s) (hA : ArchOK E a) (hc : cfg.canDownload = true)
    (hfull : Full E a (nodes t0)) (hdl : ∀ u ∈ nodes (relocate f t0), DLOnly (s.loc u.path))
    (hd : tryDownload cfg.dl 0 (relocate f t0).info = true) :
    ∃ r', cook E cfg (relocate f t0) s a = .ok r' ∧ (∀ p c, Op.runPackage p c ∉ r'.log) := by
  obtain ⟨r', h1, h2, _, _⟩ := upload_then_download_no_build E ρ hB hH f t0 cfg s a hNA hV hAc hnp hI hA hc hfull hdl
  refine ⟨r', h1, ?_⟩
  intro p c hm
  have := h2 p c hm
  cases ht : relocate f t0 with
  | mk i ds =>
    rw [ht] at this hd
    simp [shallowP, Pkg.info] at this hd
    rw [hd] at this
    simp at this

/-- the hypotheses about the downloader's side are satisfiable: the example project at another location, a fresh
workspace, the archive the example environment's local builds fill -/
example : NoAlias (nodes (relocate (fun p => "/other/" ++ p) exRoot)) ∧
    Acyc (nodes (relocate (fun p => "/other/" ++ p) exRoot)) ∧
    Full exE (fun b => if b = tb exE exLib then some (.good (value exE exLib) (some (exE.H (value exE exLib))))
                       else if b = tb exE exRoot then some (.good (value exE exRoot) (some (exE.H (value exE exRoot)))) else none)
      (nodes exRoot) ∧
    (∀ u ∈ nodes (relocate (fun p => "/other/" ++ p) exRoot), DLOnly (St.init.loc u.path)) := by
  refine ⟨?_, ?_, ?_, ?_⟩
  · intro u hu v hv h
    simp only [relocate, relocateL, nodes, nodesL, exRoot, exLib, List.mem_cons, List.mem_append, List.not_mem_nil, or_false] at hu hv
    rcases hu with rfl | rfl <;> rcases hv with rfl | rfl <;> first | rfl | (simp [Pkg.path, Pkg.info] at h)
  · intro i ds hm u hu
    simp only [relocate, relocateL, nodes, nodesL, exRoot, exLib, List.mem_cons, List.mem_append, List.not_mem_nil, or_false] at hm
    rcases hm with h | h
    · simp only [Pkg.mk.injEq] at h
      obtain ⟨rfl, rfl⟩ := h
      simp only [nodes, nodesL, List.mem_cons, List.mem_append, List.not_mem_nil, or_false] at hu
      subst hu
      simp [Pkg.path, Pkg.info]
    · simp only [Pkg.mk.injEq] at h
      obtain ⟨rfl, rfl⟩ := h
      simp [nodesL] at hu
  · intro u hu
    simp only [nodes, nodesL, exRoot, exLib, List.mem_cons, List.mem_append, List.not_mem_nil, or_false] at hu
    rcases hu with rfl | rfl
    · refine ⟨value exE exRoot, ?_⟩
      have hne : tb exE exRoot ≠ tb exE exLib := by decide
      show (if tb exE exRoot = tb exE exLib then _ else if tb exE exRoot = tb exE exRoot then _ else none) = _
      rw [if_neg hne, if_pos rfl]
    · refine ⟨value exE exLib, ?_⟩
      show (if tb exE exLib = tb exE exLib then _ else _) = _
      rw [if_pos rfl]
  · intro u _
    left
    exact ⟨rfl, rfl⟩

end C07
