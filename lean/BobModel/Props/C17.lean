import BobModel.Model.StringParser
/-
C17 — property theorems about the model of pym/bob/stringparser.py.
Only statements that mention the property live here; helper lemmas are in Proofs/.
-/
namespace C17
open StringParser

/-- the fast-path trigger set of `parse` covers the escape character and every base delimiter:
this is what makes skipping the parser sound.  Re-checked against the constants extracted
from the current source. -/
theorem trigger_covers :
    Consts.C17.trigger.contains Consts.C17.escapeChar = true ∧
    ∀ c ∈ Consts.C17.baseDelims, Consts.C17.trigger.contains c = true := by
  decide

theorem plain_not_delim (c : Char) (hc : Consts.C17.trigger.contains c = false) :
    isDelim [] c = false ∧ c ≠ Consts.C17.escapeChar := by
  constructor
  · unfold isDelim
    cases hb : Consts.C17.baseDelims.contains c with
    | false => simp
    | true =>
      have := trigger_covers.2 c (by simpa using hb)
      rw [this] at hc; cases hc
  · intro heq
    have := trigger_covers.1
    rw [← heq, hc] at this; cases this

theorem scan_plain (text acc : Str)
    (h : ∀ c ∈ text, Consts.C17.trigger.contains c = false) :
    scan [] text acc = .ok (acc.reverse ++ text, []) := by
  induction text generalizing acc with
  | nil => simp [scan]
  | cons c rest ih =>
    have ⟨hd, he⟩ := plain_not_delim c (h c (by simp))
    rw [scan.eq_def]
    simp only [hd, he, Bool.false_eq_true, if_false]
    rw [ih (c :: acc) (fun d hd' => h d (by simp [hd']))]
    simp

/-- **fast path transparency**: on a text without trigger characters the full parser returns the
text unchanged, so the shortcut in `parse` never changes a result. -/
theorem fastpath_transparent (cfg : Cfg) (text : Str) (h : hasMeta text = false) :
    getString cfg (fuelFor text) [] true false true text = .ok (text, []) := by
  have hall : ∀ c ∈ text, Consts.C17.trigger.contains c = false := by
    intro c hc
    unfold hasMeta at h
    rw [List.any_eq_false] at h
    simpa using h c hc
  cases text with
  | nil => simp [fuelFor, getString, nextToken]
  | cons c rest =>
    have ⟨hd, _⟩ := plain_not_delim c (hall c (by simp))
    have hs := scan_plain (c :: rest) [] hall
    simp only [fuelFor, List.length_cons]
    rw [show 2 * (rest.length + 1) + 4 = (2 * rest.length + 4) + 1 + 1 by omega]
    simp only [getString, nextToken, hd, hs]
    simp

/-- a string without meta characters is returned unchanged -/
theorem no_meta_identity (cfg : Cfg) (text : Str) (h : hasMeta text = false) :
    parse cfg text = .ok text := by
  simp [parse, h]

end C17
