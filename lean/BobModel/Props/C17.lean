import BobModel.Model.StringParser
import BobModel.Model.SubstSpec
import BobModel.Proofs.C17Fuel
import BobModel.Proofs.C17Sem
import BobModel.Proofs.C17Main
import BobModel.Proofs.C17Cond
/-
C17 — property theorems about the model of pym/bob/stringparser.py.
Only statements that mention the property live here; helper lemmas are in Proofs/C17*.lean.

`StringParser` (Model/StringParser.lean) is the transliterated parser, `SubstSpec`
(Model/SubstSpec.lean) the documented language as a tree with `render` and `eval`.
-/
namespace C17
open StringParser SubstSpec

/-! ### fast path -/

/-- the fast-path trigger set of `parse` covers the escape character and every base delimiter:
this is what makes skipping the parser sound.  Re-checked against the constants extracted
from the current source. -/
theorem trigger_covers :
    Consts.C17.trigger.contains Consts.C17.escapeChar = true ∧
    ∀ c ∈ Consts.C17.baseDelims, Consts.C17.trigger.contains c = true :=
  trigger_covers'

/-- **fast path transparency**: on a text without trigger characters the full parser returns the
text unchanged, so the shortcut in `parse` never changes a result. -/
theorem fastpath_transparent (cfg : Cfg) (text : Str) (h : hasMeta text = false) :
    getString cfg (fuelFor text) [] true false true text = .ok (text, []) :=
  getString_plain cfg text h

/-- a string without meta characters is returned unchanged -/
theorem no_meta_identity (cfg : Cfg) (text : Str) (h : hasMeta text = false) :
    parse cfg text = .ok text := by
  simp [parse, h]

/-! ### text protected by the documented quoting rules comes back unchanged -/

/-- single quotes protect everything except a single quote -/
theorem protect_single (cfg : Cfg) (s : Str) (h : '\'' ∉ s) :
    parse cfg ('\'' :: s ++ ['\'']) = .ok s := by
  have hs : s.contains '\'' = false := by simpa using h
  have := GS_sq cfg [] true false true s [] (by decide) hs _ (GS_eos cfg [] false true)
  rw [parse_of_eventually cfg _ _ this]
  simp [valOf]

/-- a backslash in front of every character protects any text -/
theorem protect_backslash (cfg : Cfg) (s : Str) :
    parse cfg (s.flatMap fun c => ['\\', c]) = .ok s := by
  have := parse_of_eventually cfg _ _ (GS_escAll cfg s)
  simpa [escAll, valOf] using this

/-- double quotes protect any text once each of `\ " ' $` in it carries a backslash -/
theorem protect_double (cfg : Cfg) (s : Str) :
    parse cfg ('"' :: escMeta s ++ ['"']) = .ok s := by
  have h1 := GS_escMeta cfg true s []
  have := GS_dq_ok cfg [] true false true _ s [] (by decide) _ h1 (GS_eos cfg [] false true)
  rw [List.cons_append, parse_of_eventually cfg _ _ this]
  simp [valOf]

/-! ### conditions: boolean interpretation, infix form = function-call form -/

/-- `isFalse v` iff the stripped, lower-cased value is one of the documented false strings
(`Consts.C17.falsy` is extracted from the current source) -/
theorem isFalse_spec (v : Str) :
    isFalse v = true ↔ (strip v).map asciiLower ∈ Consts.C17.falsy.map String.toList := by
  rw [falsy_table]
  unfold StringParser.isFalse
  simp only [Bool.or_eq_true, decide_eq_true_eq, List.mem_cons, List.not_mem_nil, or_false, or_assoc]

/-- `l == r` has the truth value of `$(eq,l,r)` -/
theorem infix_eq_funcall (cfg : Cfg) (l r : IfExpr) (a b : Str)
    (hl : l.evalStr cfg = .ok a) (hr : r.evalStr cfg = .ok b) :
    (IfExpr.strOp "==" l r).eval cfg = (callFun cfg "eq".toList [a, b]).map isTrue := by
  have hc : callFun cfg "eq".toList [a, b] = .ok (boolStr (a = b)) := rfl
  rw [IfExpr.eval, hl, hr, hc]
  simp [strCmp, Except.map, isTrue_boolStr]

/-- `l != r` has the truth value of `$(ne,l,r)` -/
theorem infix_ne_funcall (cfg : Cfg) (l r : IfExpr) (a b : Str)
    (hl : l.evalStr cfg = .ok a) (hr : r.evalStr cfg = .ok b) :
    (IfExpr.strOp "!=" l r).eval cfg = (callFun cfg "ne".toList [a, b]).map isTrue := by
  have hc : callFun cfg "ne".toList [a, b] = .ok (boolStr (a ≠ b)) := rfl
  rw [IfExpr.eval, hl, hr, hc]
  simp [strCmp, Except.map, isTrue_boolStr]

/-- `!e` has the truth value of `$(not,e)` -/
theorem infix_not_funcall (cfg : Cfg) (e : IfExpr) (a : Str) (he : e.evalStr cfg = .ok a) :
    (IfExpr.not e).eval cfg = (callFun cfg "not".toList [a]).map isTrue := by
  have hc : callFun cfg "not".toList [a] = .ok (boolStr (isFalse a)) := rfl
  rw [IfExpr.eval, eval_of_evalStr cfg e a he, hc]
  simp [Except.map, StringParser.isTrue, isFalse_boolStr]

/-- `l && r` has the truth value of `$(and,l,r)` -/
theorem infix_and_funcall (cfg : Cfg) (l r : IfExpr) (a b : Str)
    (hl : l.evalStr cfg = .ok a) (hr : r.evalStr cfg = .ok b) :
    (IfExpr.boolOp "&&" l r).eval cfg = (callFun cfg "and".toList [a, b]).map isTrue := by
  have hc : callFun cfg "and".toList [a, b] = .ok (boolStr ([a, b].all isTrue)) := rfl
  rw [IfExpr.eval, eval_of_evalStr cfg l a hl, eval_of_evalStr cfg r b hr, hc]
  simp [Except.map, isTrue_boolStr]

/-- `l || r` has the truth value of `$(or,l,r)` -/
theorem infix_or_funcall (cfg : Cfg) (l r : IfExpr) (a b : Str)
    (hl : l.evalStr cfg = .ok a) (hr : r.evalStr cfg = .ok b) :
    (IfExpr.boolOp "||" l r).eval cfg = (callFun cfg "or".toList [a, b]).map isTrue := by
  have hc : callFun cfg "or".toList [a, b] = .ok (boolStr ([a, b].any isTrue)) := rfl
  rw [IfExpr.eval, eval_of_evalStr cfg l a hl, eval_of_evalStr cfg r b hr, hc]
  simp [Except.map, isTrue_boolStr]

/-! ### termination: the fuel of the model is never exhausted -/

/-- an `.ok` result never returns more input than it was given (any fuel) -/
theorem rest_not_longer (cfg : Cfg) (n : Nat) (extra : List Char) (eosOk keep subst : Bool)
    (inp s rest : Str) (h : getString cfg n extra eosOk keep subst inp = .ok (s, rest)) :
    rest.length ≤ inp.length :=
  getString_rest_le cfg n extra eosOk keep subst inp s rest h

/-- more fuel never changes a result that was not `outOfFuel` -/
theorem fuel_monotone (cfg : Cfg) (n m : Nat) (hnm : n ≤ m) (extra : List Char)
    (eosOk keep subst : Bool) (inp : Str)
    (h : getString cfg n extra eosOk keep subst inp ≠ .error .outOfFuel) :
    getString cfg m extra eosOk keep subst inp = getString cfg n extra eosOk keep subst inp :=
  mono_le cfg hnm extra eosOk keep subst inp h

/-- **the parser terminates**: with the fuel `2 * length + 4` that `parse` provides, `outOfFuel` is
unreachable for every text, environment and flag: every path of the recursive descent ends in a
value or one of the declared parse errors. -/
theorem parse_total (cfg : Cfg) (text : Str) : parse cfg text ≠ .error .outOfFuel := by
  rw [parse_eq]
  have ht := getString_total cfg (fuelFor text) [] true false true text (by unfold fuelFor; omega)
  intro h
  apply ht
  cases hg : getString cfg (fuelFor text) [] true false true text with
  | error e =>
    rw [hg] at h
    simp only [valOf, Except.error.injEq] at h
    rw [h]
  | ok p =>
    rw [hg] at h
    obtain ⟨s, r⟩ := p
    simp [valOf] at h

/-! ### the main theorem: the parser computes the documented value -/

/-- **`parse (render t) = eval t`** for every well-formed fragment tree `t` of the documented
grammar (all forms, arbitrary nesting), every environment and both `nounset` settings — values
*and* error kinds.  `WF` only excludes trees that have no concrete syntax (see Model/SubstSpec.lean). -/
theorem subst_render_eval (fs : List Frag) (cfg : Cfg) (h : WF fs) :
    parse cfg (render fs) = eval cfg fs :=
  parse_render cfg fs h

/-- with substitution switched off (which is how an untaken branch is evaluated) nothing raises -/
theorem untaken_never_raises (cfg : Cfg) (fs : List Frag) : ∃ v, evalL cfg false fs = .ok v :=
  evalL_off cfg fs

/-- **laziness of `${name:-default}`**: if the variable counts as set, the result is its value —
whatever the default contains (unset variables under `nounset`, unknown functions, wrong arity …) -/
theorem lazy_untaken (cfg : Cfg) (name d : List Frag) (colon : Bool) (n : Str)
    (hwf : WF [.dflt name colon d]) (hn : evalL cfg true name = .ok n)
    (hset : isUnset cfg colon n = false) :
    parse cfg (render [.dflt name colon d]) = .ok ((lookup cfg.env n).getD []) := by
  rw [subst_render_eval _ cfg hwf]
  obtain ⟨dv, hd⟩ := evalL_off cfg d
  simp [eval, evalL, Frag.eval, hn, hset, hd]

/-- **laziness of `${name:+alternate}`**: if the variable counts as unset, the result is empty —
whatever the alternate contains -/
theorem lazy_untaken_alt (cfg : Cfg) (name a : List Frag) (colon : Bool) (n : Str)
    (hwf : WF [.altv name colon a]) (hn : evalL cfg true name = .ok n)
    (hunset : isUnset cfg colon n = true) :
    parse cfg (render [.altv name colon a]) = .ok [] := by
  rw [subst_render_eval _ cfg hwf]
  obtain ⟨av, ha⟩ := evalL_off cfg a
  simp [eval, evalL, Frag.eval, hn, hunset, ha]

/-! ### non-vacuity: the hypotheses are satisfiable by non-trivial instances -/

-- a three-level nested tree is well-formed and has the expected concrete syntax
example : WF exTree := by decide
example : render exTree = "\"${A:-$(if-then-else,${B},'x,y',\\))}\"".toList := by decide

-- `subst_render_eval` on it: A empty (default taken, B true / B false), A set, everything unset
example : parse (exCfg [(['A'], []), (['B'], ['1'])]) (render exTree) = .ok ['x', ',', 'y'] := by
  rw [subst_render_eval _ _ (by decide)]; rfl
example : parse (exCfg [(['B'], ['0'])]) (render exTree) = .ok [')'] := by
  rw [subst_render_eval _ _ (by decide)]; rfl
example : parse (exCfg [(['A'], ['v']), (['B'], ['1'])]) (render exTree) = .ok ['v'] := by
  rw [subst_render_eval _ _ (by decide)]; rfl
example : parse (exCfg []) (render exTree) = .error .unsetVar := by
  rw [subst_render_eval _ _ (by decide)]; rfl

-- `lazy_untaken`: `${A:-$U$(nofun,x)}` with A set gives A although `$U` is unset under `nounset`
-- and `nofun` does not exist; with A unset the very same default does raise
example : parse (exCfg [(['A'], ['v'])]) (render exLazy) = .ok ['v'] :=
  lazy_untaken _ (lits ['A']) _ true ['A'] (by decide) rfl rfl
example : parse (exCfg []) (render exLazy) = .error .unsetVar := by
  rw [subst_render_eval _ _ (by decide)]; rfl
example : parse (exCfg [(['U'], ['u'])]) (render exLazy) = .error .unknownFun := by
  rw [subst_render_eval _ _ (by decide)]; rfl

-- `lazy_untaken_alt`: `${A:+$U}` with A unset is empty although `$U` is unset under `nounset`
example : parse (exCfg []) (render [.altv (lits ['A']) true [.bare ['U']]]) = .ok [] :=
  lazy_untaken_alt _ (lits ['A']) _ true ['A'] (by decide) rfl rfl

-- `infix_eq_funcall` / `infix_and_funcall`: operands with a string value exist
example : (IfExpr.strOp "==" (.lit ['a'] false) (.lit ['a'] false)).eval (exCfg []) = .ok true := by
  rw [infix_eq_funcall (exCfg []) _ _ ['a'] ['a'] rfl rfl]; rfl
example : (IfExpr.boolOp "&&" (.lit ['1'] false) (.lit ['0'] false)).eval (exCfg []) = .ok false := by
  rw [infix_and_funcall (exCfg []) _ _ ['1'] ['0'] rfl rfl]; rfl

-- the protection theorems on a text consisting only of special characters
example : parse (exCfg []) ("'\\\"$'".toList) = .ok ("\\\"$".toList) :=
  protect_single _ ['\\', '"', '$'] (by decide)
example : parse (exCfg []) (escAll ['\\', '"', '\'', '$']) = .ok ['\\', '"', '\'', '$'] :=
  protect_backslash _ _

end C17
