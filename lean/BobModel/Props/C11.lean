import BobModel.Proofs.C11Examples
/-
C11 — directory hashes are content exact and cache transparent.
Property theorems about the model of `DirHasher` / `DirHasher.FileIndex` (pym/bob/utils.py).
Only statements that mention the property live here; definitions and helper lemmas are in
Model/DirHash.lean, Model/FileIndex.lean and Proofs/C11*.lean.

`H` is the hash function (SHA-1 in the implementation and in the driver).  Because no function
into 20 byte strings is injective, "collision freedom" is stated for the strings that are actually
hashed for the two trees under comparison (`CollisionFree H S`); every "equal inputs ⇒ equal hash"
direction and every cache theorem needs no assumption on `H` at all.
-/
namespace C11
open DirHash

/-! ### ties to the constants of the current source -/

/-- the formats that the theorems below reason about are the ones in the source: `st_mode` and
`st_rdev` are packed as 4 byte little-endian words -/
theorem formats_tie :
    parseFmt Consts.C11.dirModeFmt = [.int 4 false] ∧ parseFmt Consts.C11.devFmt = [.int 4 false] ∧
    Consts.C11.pathSep = [47] := by decide

/-- the index compares the name and all six stat fields it stores, and stores what it compares
(the model's `Stat` equality is exactly this list) -/
theorem index_fields_tie :
    Consts.C11.matchedFields =
      ["name=name", "ctime=st_ctime_ns", "mtime=st_mtime_ns", "dev=st_dev", "ino=st_ino", "mode=st_mode", "size=st_size"] ∧
    Consts.C11.writtenFields =
      ["st_ctime_ns", "st_mtime_ns", "st_dev", "st_ino", "st_mode", "st_size", "digest", "len"] ∧
    parseFmt Consts.C11.cacheEntryFmt =
      [.int 8 true, .int 8 true, .int 8 false, .int 8 false, .int 4 false, .int 8 false, .bytes 20, .int 2 false] ∧
    Consts.C11.cacheEntrySize = 66 := by decide

/-- the ignore lists are applied by name, to directories resp. non-directories only, and no ignored
name is in both lists -/
theorem ignore_lists_disjoint : ∀ n ∈ Consts.C11.ignoreDirs, Consts.C11.ignoreFiles.contains n = false := by decide

/-! ### 1. the un-delimited directory blob is uniquely decodable -/

/-- **dirBlob_decodable**: the concatenation `mode ‖ digest ‖ name` over the entries of one directory
determines the list of `(mode, digest, sort name)` triples.  (Names are NUL free and the two high
bytes of the packed mode are zero while its second byte is not, so a name ends exactly where a
packed mode can start; the digest length follows from the file type bits.) -/
theorem dirBlob_decodable (H : Bytes → Bytes) (hlen : ∀ b, (H b).length = 20) (f1 f2 : Forest)
    (w1 : f1.WF) (w2 : f2.WF) (h : f1.blob H = f2.blob H) : f1.entries H = f2.entries H := by
  rw [blob_eq_flatMap, blob_eq_flatMap] at h
  exact entries_decodable _ _ (entries_good H hlen f1 w1) (entries_good H hlen f2 w2) h

/-- the same on the level of byte strings: no assumption on where the triples come from -/
theorem dirBlob_decodable_raw (l1 l2 : List (Nat × Bytes × Bytes))
    (h1 : ∀ e ∈ l1, GoodEntry e) (h2 : ∀ e ∈ l2, GoodEntry e)
    (h : l1.flatMap encEntry = l2.flatMap encEntry) : l1 = l2 :=
  entries_decodable l1 l2 h1 h2 h

/-! ### 2. content exactness -/

/-- the hash is a function of the canonical tree: listing order, ignored entries and everything
that is not part of a `Tree` (time stamps, owners, inode numbers) cannot influence it -/
theorem hashDir_of_canon_eq (H : Bytes → Bytes) (es1 es2 : Forest) (h : es1.canon = es2.canon) :
    hashDir H es1 = hashDir H es2 := by
  unfold hashDir; rw [h]

/-- **hashDir_iff**: two directory listings have the same hash iff their canonical trees (ignored
entries dropped, sorted, on every level) are equal — i.e. iff they agree in names, file types,
permission bits, contents, link targets and device numbers.  `⇒` needs collision freedom of `H` on
the strings hashed for these two trees; neither distinctness nor slash-freedom of names is needed. -/
theorem hashDir_iff (H : Bytes → Bytes) (hlen : ∀ b, (H b).length = 20) (es1 es2 : Forest)
    (w1 : es1.WF) (w2 : es2.WF)
    (hcf : CollisionFree H (fun x => x ∈ hashInputs H es1 ∨ x ∈ hashInputs H es2)) :
    hashDir H es1 = hashDir H es2 ↔ es1.canon = es2.canon := by
  constructor
  · intro h
    have hb : es1.canon.blob H = es2.canon.blob H :=
      hcf _ _ (Or.inl (by simp [hashInputs])) (Or.inr (by simp [hashInputs])) h
    exact Forest.eq_of_blob H hlen _ hcf es1.canon es2.canon (Forest.canon_WF es1 w1) (Forest.canon_WF es2 w2)
      (fun x hx => Or.inl (by simp [hashInputs, hx])) (fun x hx => Or.inr (by simp [hashInputs, hx])) hb
  · exact hashDir_of_canon_eq H es1 es2

/-- what equality of canonical trees means, free of any order: two listings (of real directories:
non-empty, slash free, pairwise different names) have the same canonical form iff they have the same
set of `(name, canonical subtree)` pairs among their entries that are not ignored.  Unfolded
recursively (`Tree.canon` is the identity on everything but directories) this is "the trees agree in
names, file types, permission bits, contents and link targets". -/
theorem canon_eq_iff (f1 f2 : Forest) (w1 : f1.Names) (w2 : f2.Names) :
    f1.canon = f2.canon ↔
    ∀ n c, (∃ t, (n, t) ∈ f1.toList ∧ ignored n t = false ∧ t.canon = c) ↔
           (∃ t, (n, t) ∈ f2.toList ∧ ignored n t = false ∧ t.canon = c) := by
  constructor
  · intro h n c
    rw [← Forest.mem_canon_iff f1 (n, c), ← Forest.mem_canon_iff f2 (n, c), h]
  · intro h
    apply Forest.strict_ext _ _ (Forest.canon_strict f1 w1) (Forest.canon_strict f2 w2)
    intro e
    rw [Forest.mem_canon_iff, Forest.mem_canon_iff]
    exact h e.1 e.2

/-- `hashDirectory(path)` as computed through the `NullIndex` object is the pure `hashDir` -/
theorem nullIndex_eq_hashDir (H : Bytes → Bytes) (statOf : Bytes → Stat) (es : Forest) :
    H (es.canon.walk H nullCheck statOf [] ()).1 = hashDir H es :=
  walk_null H statOf es

/-! ### 3. visit order -/

/-- **visit_order_ascending**: on a real directory tree (names non-empty, without `/`, pairwise
different in each directory) the index names — the paths relative to the hashed directory of all
regular files and symlinks that are not ignored — are visited in strictly ascending byte order.
This is what the merge walk over the sorted old index relies on, and it is the reason for the
`name + "/"` sort key of directories. -/
theorem visit_order_ascending (es : Forest) (w : es.Names) :
    ((visited es).map Prod.fst).Pairwise (fun a b => bytesLt a b = true) := by
  rw [List.pairwise_map]
  exact visited_sorted es w

/-- in particular no two hashed files share an index name, so the digest of a hashed file is a
function of its index name: every single state is `Coherent` -/
theorem coherent_of_distinct (H : Bytes → Bytes) (statOf : Bytes → Stat) (es : Forest) (w : es.Names) :
    ∃ D, Coherent H D ⟨es, statOf⟩ :=
  ⟨digestAt H es, coherent_of_names H statOf es w⟩

/-- every directory of the canonical tree is strictly sorted by the sort key -/
theorem canon_sorted (es : Forest) (w : es.Names) : es.canon.Strict :=
  Forest.canon_strict es w

/-! ### 4. cache transparency -/

/-- **cached_eq_uncached**: for *every* old index that is sound for the current tree — sorted or not,
with stale, duplicate, missing or foreign records, no file / wrong signature (`none`), truncated
(any parsed prefix) — the cached hash is the uncached hash. -/
theorem cached_eq_uncached (H : Bytes → Bytes) (statOf : Bytes → Stat) (es : Forest) (ix : Option (List Rec))
    (hs : Sound H statOf es ix) :
    (hashDirCached H statOf ix es).1 = hashDir H es :=
  (hashDirCached_spec H statOf es ix hs).1

/-- … and the index left behind is sound for the current tree again (here the digest of a hashed
file has to be a function of its index name and stat data, which holds as soon as no two hashed
files have the same index name, see `coherent_of_distinct`). -/
theorem new_index_sound (H : Bytes → Bytes) (statOf : Bytes → Stat) (es : Forest) (ix : Option (List Rec))
    (hs : Sound H statOf es ix) (D : Bytes → Stat → Bytes) (hD : Coherent H D ⟨es, statOf⟩) :
    Sound H statOf es (newIndex ix (hashDirCached H statOf ix es).2) := by
  intro r hr p t hp hn hst
  rcases (hashDirCached_spec H statOf es ix hs).2 r hr with hold | hfresh
  · exact hs r hold p t hp hn hst
  · rw [fresh_sound H statOf es r hfresh D hD, hn, hst]
    exact (hD p t hp).symm

/-- the same for the bytes of `cache.bin`, whatever they are -/
theorem cached_eq_uncached_bytes (H : Bytes → Bytes) (statOf : Bytes → Stat) (es : Forest) (raw : Option Bytes)
    (hs : Sound H statOf es (parseIndex raw)) :
    (hashDirCached H statOf (parseIndex raw) es).1 = hashDir H es :=
  cached_eq_uncached H statOf es _ hs

/-- without a usable cache file everything is hashed -/
theorem no_index_sound (H : Bytes → Bytes) (statOf : Bytes → Stat) (es : Forest) : Sound H statOf es none := by
  intro r hr; simp [recsOf] at hr

/-- **cache_history**: for any sequence of file system states (= any history of modifications) in
which the digest of a hashed file is determined by its index name and stat data (`Coherent`: a
modification changes the stat data), and any initial index that is sound for these states,
hashing every state with the cache that the previous run left behind gives the uncached hashes. -/
theorem cache_history (H : Bytes → Bytes) (D : Bytes → Stat → Bytes) (hist : List FsState)
    (ix0 : Option (List Rec)) (hco : ∀ st ∈ hist, Coherent H D st)
    (hs0 : ∀ st ∈ hist, Sound H st.statOf st.es ix0) :
    runHistory H ix0 hist = hist.map (fun st => hashDir H st.es) :=
  runHistory_spec H D hist ix0 hco hs0

/-- the usual case: the history starts without `cache.bin` -/
theorem cache_history_from_scratch (H : Bytes → Bytes) (D : Bytes → Stat → Bytes) (hist : List FsState)
    (hco : ∀ st ∈ hist, Coherent H D st) :
    runHistory H none hist = hist.map (fun st => hashDir H st.es) :=
  cache_history H D hist none hco (fun st _ => no_index_sound H st.statOf st.es)

/-! ### non-vacuity: concrete instances of the hypotheses (definitions in Proofs/C11Examples.lean) -/

section examples
open DirHash.Ex

/-- non-vacuity of `hashDir_iff`: well-formed trees, a length-20 hash without collision on the hashed
strings, different canonical trees - and therefore different hashes -/
example : exA.WF ∧ exB.WF ∧ CollisionFree exH (fun x => x ∈ hashInputs exH exA ∨ x ∈ hashInputs exH exB) ∧
    exA.canon ≠ exB.canon ∧ hashDir exH exA ≠ hashDir exH exB := by
  have wA : exA.WF := by simp [exA, Forest.WF, Tree.WF, NulFree]
  have wB : exB.WF := by simp [exB, Forest.WF, Tree.WF, NulFree]
  have hcf : CollisionFree exH (fun x => x ∈ hashInputs exH exA ∨ x ∈ hashInputs exH exB) := by
    intro a b ha hb hab
    simp only [exA_inputs, exB_inputs, List.mem_cons, List.not_mem_nil, or_false] at ha hb
    rcases ha with (rfl | rfl) | (rfl | rfl) <;> rcases hb with (rfl | rfl) | (rfl | rfl) <;>
      first | rfl | (exfalso; revert hab; decide)
  have hne : exA.canon ≠ exB.canon := by
    simp [exA, exB, Forest.canon, Tree.canon, ignored, Tree.isDir, Forest.insert, Consts.C11.ignoreDirs, Consts.C11.ignoreFiles]
  refine ⟨wA, wB, hcf, hne, ?_⟩
  intro h
  exact hne ((hashDir_iff exH exH_len exA exB wA wB hcf).mp h)

/-- an ignored directory and the listing order do not matter -/
example : hashDir exH exB = hashDir exH (.cons [46, 103, 105, 116] (.dir 0o700 .nil) (.cons [97] (.file 0o755 [1]) .nil)) :=
  hashDir_of_canon_eq _ _ _ (by rfl)

/-- non-vacuity of `cached_eq_uncached`: a sound index that is neither sorted nor fresh -/
example : Sound exH exStat exTree exIx ∧ (hashDirCached exH exStat exIx exTree).1 = hashDir exH exTree := by
  have hs : Sound exH exStat exTree exIx := by
    intro r hr p t hp hn hst
    rw [exTree_visited] at hp
    simp only [exIx, recsOf, Option.getD_some, List.mem_cons, List.not_mem_nil, or_false] at hr
    simp only [List.mem_cons, Prod.mk.injEq, List.not_mem_nil, or_false] at hp
    rcases hr with rfl | rfl | rfl <;> rcases hp with ⟨rfl, rfl⟩ | ⟨rfl, rfl⟩ <;>
      first | rfl | (exfalso; revert hn; decide) | (exfalso; revert hst; decide)
  exact ⟨hs, cached_eq_uncached exH exStat exTree exIx hs⟩

/-- non-vacuity of `cache_history` -/
example : (∀ st ∈ [exS1, exS2], Coherent exH exD st) ∧
    runHistory exH none [exS1, exS2] = [hashDir exH exS1.es, hashDir exH exS2.es] ∧
    hashDir exH exS1.es ≠ hashDir exH exS2.es := by
  have hco : ∀ st ∈ [exS1, exS2], Coherent exH exD st := by
    intro st hst p t hp
    simp only [List.mem_cons, List.not_mem_nil, or_false] at hst
    rcases hst with rfl | rfl
    · have hv : visited exS1.es = [([97], .file 0o644 [1])] := by rfl
      rw [hv] at hp
      simp only [List.mem_singleton, Prod.mk.injEq] at hp
      obtain ⟨rfl, rfl⟩ := hp
      rfl
    · have hv : visited exS2.es = [([97], .file 0o644 [2])] := by rfl
      rw [hv] at hp
      simp only [List.mem_singleton, Prod.mk.injEq] at hp
      obtain ⟨rfl, rfl⟩ := hp
      rfl
  refine ⟨hco, cache_history_from_scratch exH exD _ hco, by decide⟩

/-- non-vacuity of `visit_order_ascending`: `a.b` is visited before `a/x` -/
example : exO.Names ∧ (visited exO).map Prod.fst = [[97, 46, 98], [97, 47, 120]] := by
  refine ⟨?_, by rfl⟩
  simp [exO, Forest.Names, Tree.Names, SlashFree, Forest.toList]

/-- non-vacuity of `dirBlob_decodable`: the blob of `exTree`'s canonical listing -/
example : (exTree.canon).WF ∧ (exTree.canon.entries exH).length = 2 := by
  refine ⟨Forest.canon_WF _ (by simp [exTree, Forest.WF, Tree.WF, NulFree]), by rfl⟩

end examples

end C11
