import BobModel.Proofs.C04Memo
import BobModel.Proofs.C04Key
/-
C04 — package graph caches are transparent.  Property theorems about `Model/Memo.lean`
(helper lemmas: `Proofs/C04Memo.lean`, `Proofs/C04Key.lean`).

  memo_sound, memo_sound_nested     equal inputs on the touched keys ⇒ same result, same touched keys
  matcher_hit_sound                 a `PackageMatcher.matches` hit returns what a fresh computation returns
  touch_propagation (+ sharing)     a touch through any copy reaches every set of the caller's stack;
  hit_touch_propagation             the memoised evaluator adds the keys of a hit matcher to the caller
  memo_table_transparent (+ _eq,    ANY sequence of prepare calls: memoised evaluator = unmemoised evaluator
   memo_table_complete)             (soundness, determinism, completeness)
  yaml_cache_transparent            ANY history of invocations, under StatChanges
  cachekey_injective (+ contents)   equal key ⇒ same Bob, same files with the same contents, same root env, same flag
  persisted_transparent             a value stored under an injective key is what a fresh computation gives
-/
namespace C04
open Memo

/-! ### (a) tracked computations -/

/-- **memo soundness**: if two environments agree on the keys touched by a run, the run yields the same result and
the same touched keys in the other one. -/
theorem memo_sound {K V R : Type} (c : Comp K V R) (e1 e2 : Envf K V)
    (h : ∀ k ∈ (c.run e1).2, e1 k = e2 k) : c.run e2 = c.run e1 :=
  Comp.run_agree c e1 e2 h

/-- the same for `Recipe.prepare` bodies that call the `prepare` of dependencies -/
theorem memo_sound_nested {K V X R : Type} (prog : Prog K V X R) (n : Nat) (c : PComp K V X R) (e1 e2 : Envf K V)
    (r : R) (t : List K) (h : evalU prog n c e1 = some (r, t)) (hag : ∀ k ∈ t, e1 k = e2 k) :
    evalU prog n c e2 = some (r, t) :=
  evalU_agree prog n c e1 e2 r t h hag

/-- non-trivial instance: a computation that reads `B` only if `A` is set; inputs differing in the unread `B` -/
example :
    let c : Comp Nat Nat Nat := .get 0 fun a => match a with
      | none => .ret 7
      | some _ => .get 1 fun b => .ret (b.getD 0)
    let e1 : Envf Nat Nat := fun k => if k = 1 then some 5 else none
    let e2 : Envf Nat Nat := fun k => if k = 1 then some 6 else none
    (c.run e1).2 = [0] ∧ (∀ k ∈ (c.run e1).2, e1 k = e2 k) ∧ e1 1 ≠ e2 1 ∧ c.run e2 = c.run e1 := by
  decide

/-- **a matcher hit is sound**: the matcher built from a run in `e0` matches `e` only if a fresh run in `e` returns the
stored result (and touches the same keys); "absent" is a value of its own. -/
theorem matcher_hit_sound {K V W X R : Type} [DecidableEq K] [DecidableEq W] [DecidableEq X]
    (proj : V → W) (hproj : Function.Injective proj) (c : Comp K V R) (e0 e : Envf K V) (x x' : X)
    (h : (Matcher.make proj e0 (c.run e0).2 x (c.run e0).1).matches proj e x' = true) :
    (c.run e).1 = (Matcher.make proj e0 (c.run e0).2 x (c.run e0).1).result ∧
    (c.run e).2 = (Matcher.make proj e0 (c.run e0).2 x (c.run e0).1).touchKeys ∧ x = x' := by
  obtain ⟨hag, hx⟩ := make_matches proj hproj e0 e _ x x' _ h
  have := Comp.run_agree c e0 e hag
  rw [make_touchKeys]
  exact ⟨by rw [this]; rfl, by rw [this], hx⟩

/-- a matcher distinguishes an absent key from an empty value and from any other value -/
example :
    let m : Matcher Nat String Nat Nat := Matcher.make id (fun _ => none) [0] 0 1
    m.matches id (fun _ => (none : Option String)) 0 = true ∧
    m.matches id (fun k => if k = 0 then some "" else none) 0 = false ∧
    m.matches id (fun _ => (none : Option String)) 1 = false := by
  decide

/-! ### (a') the stack of shared touched sets -/

section Sharing
variable {K V : Type} [DecidableEq K]

/-- `copy`, `derive`, `prune`, `filter` share the stack of the original -/
theorem copies_share_stack (e : TEnv K V) (ov : List (K × V)) (a : Option (List K)) (g : Option (List (Bool × K))) :
    e.copy.touched = e.touched ∧ (e.derive ov).touched = e.touched ∧ (e.prune a).touched = e.touched ∧
    (e.filter g).touched = e.touched := by
  refine ⟨rfl, rfl, ?_, ?_⟩
  · cases a <;> rfl
  · cases g <;> rfl

/-- `touchReset` pushes a fresh, empty set and keeps every older set in the stack -/
theorem touchReset_extends (h : Heap K) (e : TEnv K V) :
    (e.touchReset h).2.touched = e.touched ++ [h.sets.length] ∧
    (e.touchReset h).1.sets = h.sets ++ [[]] ∧ e.touched <+: (e.touchReset h).2.touched := by
  refine ⟨rfl, rfl, ?_⟩
  exact ⟨[h.sets.length], rfl⟩

/-- **touch propagation**: whenever the stack of `c` extends the stack of `p` (c was obtained from p by any chain
of copy/derive/prune/filter/touchReset), a touch through `c` — a tracked read in the callee, or
`PackageMatcher.touch` on the environment the caller passed in — puts the keys into every set of `p`'s stack. -/
theorem touch_propagation (h : Heap K) (p c : TEnv K V) (hshare : p.touched <+: c.touched)
    (hvalid : ∀ i ∈ p.touched, i < h.sets.length) (keys : List K) :
    ∀ i ∈ p.touched, ∀ k ∈ keys, k ∈ (c.touch h keys).sets.getD i [] := by
  intro i hi k hk
  exact touch_mem h c keys i (hshare.subset hi) (hvalid i hi) k hk

/-- a tracked read is a touch of that key -/
theorem get_touches (h : Heap K) (p c : TEnv K V) (hshare : p.touched <+: c.touched)
    (hvalid : ∀ i ∈ p.touched, i < h.sets.length) (k : K) :
    ∀ i ∈ p.touched, k ∈ (c.get h k).1.sets.getD i [] := by
  intro i hi
  exact touch_propagation h p c hshare hvalid [k] i hi k (by simp)

/-- touches are never lost -/
theorem touch_monotone (h : Heap K) (c : TEnv K V) (keys : List K) (i : Nat) (hv : i < h.sets.length) (k : K)
    (hk : k ∈ h.sets.getD i []) : k ∈ (c.touch h keys).sets.getD i [] :=
  touch_mono h c keys i hv k hk

/-- running a `Comp` against a real `Env` touches (at least) the keys of `Comp.run` in every set of its stack and
returns the same result -/
theorem runT_refines {R : Type} (c : Comp K V R) : ∀ (h : Heap K) (e : TEnv K V)
    (_ : ∀ i ∈ e.touched, i < h.sets.length),
    (c.runT h e).2 = (c.run (dlookup e.data)).1 ∧ (c.runT h e).1.sets.length = h.sets.length ∧
    ∀ i ∈ e.touched, (∀ k ∈ (c.run (dlookup e.data)).2, k ∈ (c.runT h e).1.sets.getD i []) ∧
      (∀ k ∈ h.sets.getD i [], k ∈ (c.runT h e).1.sets.getD i []) := by
  induction c with
  | ret r => intro h e _; exact ⟨rfl, rfl, fun i _ => ⟨by simp [Comp.run], fun k hk => hk⟩⟩
  | get k f ih =>
    intro h e hv
    have hv' : ∀ i ∈ e.touched, i < (e.get h k).1.sets.length := by
      intro i hi; simp only [TEnv.get, addTo_length]; exact hv i hi
    obtain ⟨h1, h2, h3⟩ := ih (dlookup e.data k) (e.get h k).1 e hv'
    have hlen : (Comp.runT (Comp.get k f) h e).1.sets.length = h.sets.length := by
      show ((f (dlookup e.data k)).runT (e.get h k).1 e).1.sets.length = _
      rw [h2]; simp [TEnv.get, addTo_length]
    refine ⟨h1, hlen, ?_⟩
    intro i hi
    obtain ⟨a, b⟩ := h3 i hi
    constructor
    · intro k' hk'
      simp only [Comp.run, List.mem_cons] at hk'
      rcases hk' with rfl | hk'
      · exact b _ (get_touches h e e (List.prefix_refl _) hv k' i hi)
      · exact a k' hk'
    · intro k' hk'
      exact b k' (touch_mono h e [k] i (hv i hi) k' hk')
  | has k f ih =>
    intro h e hv
    have hv' : ∀ i ∈ e.touched, i < (e.contains h k).1.sets.length := by
      intro i hi; simp only [TEnv.contains, addTo_length]; exact hv i hi
    obtain ⟨h1, h2, h3⟩ := ih (dlookup e.data k).isSome (e.contains h k).1 e hv'
    have hlen : (Comp.runT (Comp.has k f) h e).1.sets.length = h.sets.length := by
      show ((f (dlookup e.data k).isSome).runT (e.contains h k).1 e).1.sets.length = _
      rw [h2]; simp [TEnv.contains, addTo_length]
    refine ⟨h1, hlen, ?_⟩
    intro i hi
    obtain ⟨a, b⟩ := h3 i hi
    constructor
    · intro k' hk'
      simp only [Comp.run, List.mem_cons] at hk'
      rcases hk' with rfl | hk'
      · exact b _ (get_touches h e e (List.prefix_refl _) hv k' i hi)
      · exact a k' hk'
    · intro k' hk'
      exact b k' (touch_mono h e [k] i (hv i hi) k' hk')

end Sharing

/-! ### (b) the memo table -/

section Table
variable {K V W X R I : Type} [DecidableEq K] [DecidableEq W] [DecidableEq X] [DecidableEq I]

/-- after a memo hit on an inheriting dependency the caller's touched keys contain the keys of the matcher -/
theorem hit_touch_propagation (prog : Prog K V X R) (proj : V → W) (rid : R → I) (n : Nat) (tb : Tbl K W X R I)
    (rc : Nat) (x : X) (ov : Envf K V) (cont : R → PComp K V X R) (e : Envf K V) (m : Matcher K W X R)
    (hhit : findHit proj (tb.byMatch rc) (overlay ov e) x = some m) (r : R) (t : List K) (tb' : Tbl K W X R I)
    (h : evalM prog proj rid (n + 1) tb (.call rc x true ov cont) e = some (r, t, tb')) :
    ∀ k ∈ m.touchKeys, k ∈ t := by
  rw [evalM] at h
  simp only [calleeEnv, if_true, callSub, hhit] at h
  cases h2 : evalM prog proj rid n tb (cont m.result) e with
  | none => rw [h2] at h; cases h
  | some q =>
    rw [h2] at h
    simp only [Option.some.injEq, Prod.mk.injEq] at h
    obtain ⟨_, rfl, _⟩ := h
    intro k hk
    simp [hk]

/-- **memo table transparency**: for ANY sequence of `prepare` calls against ANY correct memo state (in particular
the empty one), under an injective value projection (tools are compared by `resultId`) and an injective result id
(`__corePackagesById`), whatever the memoised evaluator returns is what the evaluator without memo returns. -/
theorem memo_table_transparent (prog : Prog K V X R) (proj : V → W) (rid : R → I)
    (hproj : Function.Injective proj) (hrid : Function.Injective rid) (calls : List (Nat × X × Envf K V)) :
    ∀ (n : Nat) (tb : Tbl K W X R I) (rs : List R) (tb' : Tbl K W X R I), TblOK prog proj rid tb →
      runCallsM prog proj rid n tb calls = some (rs, tb') →
      (∃ m, runCallsU prog m calls = some rs) ∧ TblOK prog proj rid tb' := by
  induction calls with
  | nil =>
    intro n tb rs tb' htb h
    simp only [runCallsM, Option.some.injEq, Prod.mk.injEq] at h
    obtain ⟨rfl, rfl⟩ := h
    exact ⟨⟨0, rfl⟩, htb⟩
  | cons c rest ih =>
    intro n tb rs tb' htb h
    obtain ⟨rc, x, e⟩ := c
    rw [runCallsM] at h
    cases h1 : evalM prog proj rid n tb (.call rc x true (fun _ => none) .ret) e with
    | none => rw [h1] at h; cases h
    | some p =>
      rw [h1] at h
      obtain ⟨r, t, tb1⟩ := p
      simp only at h
      obtain ⟨⟨m1, t', hu, _⟩, hok1⟩ := evalM_sound prog proj rid hproj hrid n tb _ e r t tb1 htb h1
      cases h2 : runCallsM prog proj rid n tb1 rest with
      | none => rw [h2] at h; cases h
      | some q =>
        rw [h2] at h
        obtain ⟨rs', tb2⟩ := q
        simp only [Option.some.injEq, Prod.mk.injEq] at h
        obtain ⟨rfl, rfl⟩ := h
        obtain ⟨⟨m2, hu2⟩, hok2⟩ := ih n tb1 rs' tb2 hok1 h2
        refine ⟨⟨max m1 m2, ?_⟩, hok2⟩
        rw [runCallsU, evalU_mono_le prog m1 (max m1 m2) (Nat.le_max_left _ _) _ _ _ hu]
        simp only
        rw [runCallsU_mono_le prog m2 (max m1 m2) (Nat.le_max_right _ _) _ _ hu2]

/-- ... and therefore equals every result the unmemoised evaluator can return, starting from the empty memo -/
theorem memo_table_transparent_eq (prog : Prog K V X R) (proj : V → W) (rid : R → I)
    (hproj : Function.Injective proj) (hrid : Function.Injective rid) (calls : List (Nat × X × Envf K V))
    (n m : Nat) (rs rs' : List R) (tb' : Tbl K W X R I)
    (hM : runCallsM prog proj rid n Tbl.empty calls = some (rs, tb')) (hU : runCallsU prog m calls = some rs') :
    rs = rs' := by
  obtain ⟨⟨m0, h0⟩, _⟩ := memo_table_transparent prog proj rid hproj hrid calls n _ rs tb'
    (TblOK_empty prog proj rid) hM
  have a := runCallsU_mono_le prog m0 (max m0 m) (Nat.le_max_left _ _) _ _ h0
  have b := runCallsU_mono_le prog m (max m0 m) (Nat.le_max_right _ _) _ _ hU
  rw [a] at b
  exact Option.some.inj b

/-- **completeness**: whenever the evaluator without memo returns for the whole sequence, the memoised evaluator
(from any correct memo state, with enough fuel) returns exactly the same results.  Together with
`memo_table_transparent` this is: memoised evaluator = unmemoised evaluator. -/
theorem memo_table_complete (prog : Prog K V X R) (proj : V → W) (rid : R → I)
    (hproj : Function.Injective proj) (hrid : Function.Injective rid) (calls : List (Nat × X × Envf K V)) :
    ∀ (m : Nat) (tb : Tbl K W X R I) (rs : List R), TblOK prog proj rid tb → runCallsU prog m calls = some rs →
      ∃ n tb', runCallsM prog proj rid n tb calls = some (rs, tb') := by
  induction calls with
  | nil =>
    intro m tb rs _ h
    simp only [runCallsU, Option.some.injEq] at h
    exact ⟨0, tb, by simp [runCallsM, h]⟩
  | cons c rest ih =>
    intro m tb rs htb h
    obtain ⟨rc, x, e⟩ := c
    rw [runCallsU] at h
    cases h1 : evalU prog m (.call rc x true (fun _ => none) .ret) e with
    | none => rw [h1] at h; cases h
    | some p =>
      rw [h1] at h
      obtain ⟨r, t⟩ := p
      simp only at h
      cases h2 : runCallsU prog m rest with
      | none => rw [h2] at h; cases h
      | some rs' =>
        rw [h2] at h
        simp only [Option.some.injEq] at h
        subst h
        obtain ⟨n1, t', tb1, hm1⟩ := evalM_complete prog proj rid hproj hrid m _ e r t tb htb h1
        obtain ⟨_, hok1⟩ := evalM_sound prog proj rid hproj hrid n1 tb _ e r t' tb1 htb hm1
        obtain ⟨n2, tb2, hm2⟩ := ih m tb1 rs' hok1 h2
        refine ⟨max n1 n2, tb2, ?_⟩
        rw [runCallsM, evalM_mono_le prog proj rid n1 _ (Nat.le_max_left _ _) _ _ _ _ hm1]
        simp only
        rw [runCallsM_mono_le prog proj rid n2 _ (Nat.le_max_right _ _) _ _ _ hm2]

end Table

/-- non-trivial instance: recipe 1 reads key 0; recipe 0 depends twice on recipe 1, the second time under an
environment that differs only in the unread key 1: the second call is a memo hit, the results are the
unmemoised ones, and a third call that differs in the read key 0 is a miss. -/
example :
    let prog : Prog Nat Nat Unit Nat := fun r _ => match r with
      | 0 => .call 1 () true (fun k => if k = 1 then some 10 else none) fun a =>
             .call 1 () true (fun k => if k = 1 then some 11 else none) fun b =>
             .call 1 () true (fun k => if k = 0 then some 12 else none) fun c => .ret (a + 100 * b + 10000 * c)
      | _ => .get 0 fun v => .ret (v.getD 0)
    let e : Envf Nat Nat := fun k => if k = 0 then some 3 else none
    let rM := runCallsM prog (W := Nat) (I := Nat) id id 10 Tbl.empty [(0, (), e)]
    (rM.map (·.1)) = some [120303] ∧ (rM.map fun p => (p.2.byMatch 1).length) = some 2 ∧
    runCallsU prog 10 [(0, (), e)] = some [120303] := by
  decide

/-! ### (c) YAML cache -/

/-- **YAML cache transparency** under `StatChanges` (a file whose (ctime, mtime, dev, ino, mode, size) record is
unchanged has unchanged content — `hStat`; all observed file states of the history are collected in `Obs`): for
ANY history of Bob invocations against one persistent `.bob-cache.sqlite3`, starting from any cache whose rows came
from observed file states (e.g. the empty one), every load returns what parsing the file would return, and the
recorded `(name, digest)` dict — the input of the package cache key — is the one of an uncached run. -/
theorem yaml_cache_transparent {D E : Type} (H : Bytes → Bytes) (parse : Bytes → Bytes → Except E D)
    (Obs : Str → Bytes → Bytes → Prop) (hStat : ∀ n st c1 c2, Obs n st c1 → Obs n st c2 → c1 = c2) :
    ∀ (hist : List Invocation)
      (_ : ∀ inv ∈ hist, ∀ n st c, inv.fs n = some (st, c) → Obs n st c ∧ st.length = Consts.C04.statLen)
      (c0 : YCache D) (_ : RowsOK H parse Obs c0.rows),
      runHist H parse c0 hist = runHistU H parse hist := by
  intro hist
  induction hist with
  | nil => intro _ c0 _; rfl
  | cons inv rest ih =>
    intro hObs c0 hc0
    have hopen : RowsOK H parse Obs (c0.openSession inv.inputHash).1.rows ∧
        (c0.openSession inv.inputHash).2.files = [] := by
      unfold YCache.openSession
      split
      · exact ⟨hc0, rfl⟩
      · exact ⟨fun row hrow => by simp at hrow, rfl⟩
    obtain ⟨h1, h2, h3⟩ := runLoads_eq H parse Obs hStat inv.fs (hObs inv (by simp)) inv.loads
      (c0.openSession inv.inputHash).1 hopen.1 (c0.openSession inv.inputHash).2 ⟨false, []⟩ hopen.2
    simp only [runHist, runHistU]
    rw [h1, h2, ih (fun i hi => hObs i (by simp [hi])) _ h3]

theorem yaml_cache_transparent_empty {D E : Type} (H : Bytes → Bytes) (parse : Bytes → Bytes → Except E D)
    (Obs : Str → Bytes → Bytes → Prop) (hStat : ∀ n st c1 c2, Obs n st c1 → Obs n st c2 → c1 = c2)
    (hist : List Invocation)
    (hObs : ∀ inv ∈ hist, ∀ n st c, inv.fs n = some (st, c) → Obs n st c ∧ st.length = Consts.C04.statLen) :
    runHist H parse (⟨[], none⟩ : YCache D) hist = runHistU H parse hist :=
  yaml_cache_transparent H parse Obs hStat hist hObs _ (fun row hrow => by simp at hrow)

/-! ### (c') package cache key -/

/-- the hash does not collide on this pair of inputs -/
def NoCollision (H : Bytes → Bytes) (a b : Bytes) : Prop := H a = H b → a = b

/-- the flag bytes of the current source differ -/
theorem flag_bytes_differ : Consts.C04.flagTrue ≠ Consts.C04.flagFalse := by decide

/-- **the package cache key is injective** (collision freedom of `H` on the two pairs of hashed inputs): equal keys
of two project states imply the same `BOB_INPUT_HASH`, the same sorted `(file name, digest)` list, the same sorted
root environment and the same sandbox flag.  Side conditions are those under which the real code does not raise
`struct.error` (lengths < 2³²) and that digests have one fixed length. -/
theorem cachekey_injective (H : Bytes → Bytes) (enc : Str → Bytes) (henc : PrefixDec enc) (dl : Nat)
    (ih1 ih2 : Bytes) (f1 f2 : List (Str × Bytes)) (e1 e2 : List (Str × Str)) (s1 s2 : Bool)
    (hih : ih1.length = ih2.length)
    (hdl : (filesDigest H enc f1).length = (filesDigest H enc f2).length)
    (hcolKey : NoCollision H (cacheKeyInput H enc ih1 f1 e1 s1) (cacheKeyInput H enc ih2 f2 e2 s2))
    (hcolFiles : NoCollision H (filesBlob enc (sortItems f1)) (filesBlob enc (sortItems f2)))
    (hf1 : ∀ p ∈ f1, p.1.length < 2 ^ 32 ∧ p.2.length = dl) (hf2 : ∀ p ∈ f2, p.1.length < 2 ^ 32 ∧ p.2.length = dl)
    (he1 : e1.length < 2 ^ 32 ∧ ∀ p ∈ e1, p.1.length < 2 ^ 32 ∧ p.2.length < 2 ^ 32)
    (he2 : e2.length < 2 ^ 32 ∧ ∀ p ∈ e2, p.1.length < 2 ^ 32 ∧ p.2.length < 2 ^ 32)
    (h : cacheKey H enc ih1 f1 e1 s1 = cacheKey H enc ih2 f2 e2 s2) :
    ih1 = ih2 ∧ sortItems f1 = sortItems f2 ∧ sortItems e1 = sortItems e2 ∧ s1 = s2 := by
  have hin := hcolKey h
  unfold cacheKeyInput at hin
  simp only [List.append_assoc] at hin
  obtain ⟨h1, hin⟩ := append_split hih hin
  obtain ⟨h2, hin⟩ := append_split hdl hin
  have hfiles := filesBlob_inj enc henc dl _ _
    (fun p hp => hf1 p ((mem_sortItems p f1).1 hp)) (fun p hp => hf2 p ((mem_sortItems p f2).1 hp)) (hcolFiles h2)
  unfold envBlob at hin
  simp only [List.append_assoc] at hin
  obtain ⟨h3, hin⟩ := append_split (by rw [le32_length, le32_length]) hin
  have hlen := le32_inj _ _ (by rw [length_sortItems]; exact he1.1) (by rw [length_sortItems]; exact he2.1) h3
  obtain ⟨h4, h5⟩ := envEntries_inj enc henc _ _ _ _ hlen
    (fun p hp => he1.2 p ((mem_sortItems p e1).1 hp)) (fun p hp => he2.2 p ((mem_sortItems p e2).1 hp)) hin
  refine ⟨h1, hfiles, h4, ?_⟩
  simp only [List.cons.injEq, and_true] at h5
  cases s1 <;> cases s2 <;> simp_all [flagByte, Consts.C04.flagTrue, Consts.C04.flagFalse]

/-- ... hence the same set of loaded files with the same contents (collision freedom on the file contents) -/
theorem cachekey_same_contents (H : Bytes → Bytes) (fc1 fc2 : List (Str × Bytes))
    (hcol : ∀ p ∈ fc1, ∀ q ∈ fc2, NoCollision H p.2 q.2)
    (hsorted : sortItems (fc1.map fun p => (p.1, H p.2)) = sortItems (fc2.map fun p => (p.1, H p.2))) :
    ∀ p ∈ fc1, p ∈ fc2 := by
  intro p hp
  have : (p.1, H p.2) ∈ sortItems (fc1.map fun p => (p.1, H p.2)) := by
    rw [mem_sortItems]; exact List.mem_map.2 ⟨p, hp, rfl⟩
  rw [hsorted, mem_sortItems] at this
  obtain ⟨q, hq, heq⟩ := List.mem_map.1 this
  simp only [Prod.mk.injEq] at heq
  have hc := hcol p hp q hq heq.2.symm
  have : p = q := Prod.ext heq.1.symm hc
  rw [this]; exact hq

/-- the concrete UTF-8 encoding is prefix decodable, so the theorem applies to the encoder of the implementation -/
theorem utf8_prefix_decodable : PrefixDec utf8 := utf8_prefixDec

/-- non-trivial instance of the hypotheses: two states whose dicts were filled in different orders -/
example :
    let H : Bytes → Bytes := fun b => Bytes.le 20 b.length
    let f1 : List (Str × Bytes) := [("b.yaml".toList, Bytes.le 20 1), ("a.yaml".toList, Bytes.le 20 2)]
    let f2 : List (Str × Bytes) := [("a.yaml".toList, Bytes.le 20 2), ("b.yaml".toList, Bytes.le 20 1)]
    let e1 : List (Str × Str) := [("X".toList, "1".toList), ("A".toList, "ä".toList)]
    let e2 : List (Str × Str) := [("A".toList, "ä".toList), ("X".toList, "1".toList)]
    f1 ≠ f2 ∧ cacheKey H utf8 (Bytes.le 20 9) f1 e1 true = cacheKey H utf8 (Bytes.le 20 9) f2 e2 true ∧
    sortItems f1 = sortItems f2 ∧ sortItems e1 = sortItems e2 ∧
    cacheKeyInput H utf8 (Bytes.le 20 9) f1 e1 true ≠ cacheKeyInput H utf8 (Bytes.le 20 9) f1 e1 false := by
  decide

/-- **persisted values are transparent**: `.bob-packages*.pickle` / `.bob-tree.sqlite3` hold (key, value); if the
key separates everything the value depends on (`hkey`, discharged by `cachekey_injective`), using the stored
value on a key match returns what a fresh computation returns, and the invariant is kept. -/
theorem persisted_transparent {A Inp : Type} (key : Inp → Bytes) (G : Inp → A)
    (hkey : ∀ i j, key i = key j → G i = G j) (stored : Option (Bytes × A))
    (hst : ∀ k a, stored = some (k, a) → ∃ i0, k = key i0 ∧ a = G i0) (i : Inp) :
    (persistedLookup stored (key i) (fun _ => G i)).1 = G i ∧
    ∀ k a, (persistedLookup stored (key i) (fun _ => G i)).2 = some (k, a) → ∃ i0, k = key i0 ∧ a = G i0 := by
  unfold persistedLookup
  cases stored with
  | none =>
    refine ⟨rfl, fun k a h => ?_⟩
    simp only [Option.some.injEq, Prod.mk.injEq] at h
    exact ⟨i, h.1.symm, h.2.symm⟩
  | some p =>
    obtain ⟨k0, a0⟩ := p
    obtain ⟨i0, hk0, ha0⟩ := hst k0 a0 rfl
    simp only
    split
    · next heq =>
      refine ⟨?_, fun k a h => hst k a h⟩
      rw [ha0]; exact hkey _ _ (by rw [← hk0, heq])
    · refine ⟨rfl, fun k a h => ?_⟩
      simp only [Option.some.injEq, Prod.mk.injEq] at h
      exact ⟨i, h.1.symm, h.2.symm⟩

end C04
