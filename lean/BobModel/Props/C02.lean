import BobModel.Proofs.C02Inj
import BobModel.Proofs.C02Scripts
import BobModel.Model.PrepareTail
/-
C02 — Variant-Id separates exactly what a step executes and consumes.

Theorems about the models `Model/Digest.lean` (DigestHasher, CoreStep.getDigest, StepIR.getDigestCoro),
`Model/Scripts.lean` (joinScripts, mergeScripts) and `Model/PrepareTail.lean` (weak/strong split).
`H` is the hash function; `HashLen H` says its values have 20 bytes, `NoColl H a b` that it does not collide
on the two byte strings that are compared (collision freedom of SHA-1 *on the inputs that occur*; a global
injectivity hypothesis would be unsatisfiable for a fixed-length hash).
-/
namespace C02
open Digest

/-! ## 1. strings -/

/-- **code-point counted UTF-8 is self-delimiting.** Bob writes `len(str)` (code points), not the byte length,
in front of the UTF-8 bytes; the pair still determines the string and where it ends. -/
theorem utf8_charcount_decodable (s s' : Str) (r r' : Bytes) (hs : s.length < 2 ^ 32) (hs' : s'.length < 2 ^ 32)
    (h : le4 s.length ++ utf8 s ++ r = le4 s'.length ++ utf8 s' ++ r') : s = s' ∧ r = r' :=
  encStr_pf hs hs' h

example : le4 1 ++ utf8 ['ä'] = [1, 0, 0, 0, 195, 164] := by decide

/-! ## 2. the recipe part is injective -/

/-- **no two different executions share a pre-image**: equal recipe encodings imply the same script, the same
tool values in name order (provider recipe slice, path, every library path), the same strong variables and
values, the same sequence of valid argument recipe slices. -/
theorem encRecipe_injective (d₁ d₂ : StepDesc) (w₁ : WF d₁) (w₂ : WF d₂)
    (h : encRecipe d₁ = encRecipe d₂) : semRecipe d₁ = semRecipe d₂ := by
  rw [encRecipe_eq_encOfSem, encRecipe_eq_encOfSem] at h
  exact encOfSem_inj (semWF_of_WF w₁) (semWF_of_WF w₂) h

/-- the constants the encoder was extracted with are the modelled ones: the sequence of counters (script length,
tool count, (path, libs), lib length, env count, (key, value), argument count) are little-endian 32-bit
integers, the pad has the width of a digest slice, "no script" is the count zero -/
theorem consts_as_modelled :
    Consts.C02.fmts = ["<I", "<I", "<II", "<I", "<I", "<II", "<I"] ∧ Consts.C02.intWidth = 4 ∧
    Consts.C02.pad.length = Consts.C02.sliceLen ∧ Consts.C02.sliceLen = Consts.C02.hostFrom ∧
    Consts.C02.emptyScript.map UInt8.ofNat = le4 0 := by
  decide

/-! ## 3. equal ids ⇔ equal meaning -/

/-- the id is a function of the meaning only: whatever is not in `semRecipe`/`semHost` (tool names beyond
their order, association list order, weak variables, paths, time, …) cannot influence it; in particular
reverting an edit restores the id. No hypothesis on `H`. -/
theorem vid_pure (H : Bytes → Bytes) (d₁ d₂ : StepDesc)
    (hr : semRecipe d₁ = semRecipe d₂) (hh : semHost d₁ = semHost d₂) : variantId H d₁ = variantId H d₂ := by
  unfold variantId
  rw [encRecipe_eq_encOfSem, encRecipe_eq_encOfSem, encHost_eq_hostOfSem, encHost_eq_hostOfSem, hr, hh]

/-- full statement of "equal ids iff equal meaning" (not asserted: it is false of model and code, see
`vid_iff_sem_goal_false`) -/
def vid_iff_sem_goal : Prop :=
  ∀ (H : Bytes → Bytes) (d₁ d₂ : StepDesc), HashLen H → WF d₁ → WF d₂ →
    NoColl H (encRecipe d₁) (encRecipe d₂) → NoColl H (encHost d₁) (encHost d₂) →
    (variantId H d₁ = variantId H d₂ ↔ semRecipe d₁ = semRecipe d₂ ∧ semHost d₁ = semHost d₂)

/-- **equal ids iff equal meaning**, under `HostFramed`: the host contributions sit at the same positions
(the host part is an undelimited concatenation of 0/20/40 byte slices). -/
theorem vid_iff_sem_partial (H : Bytes → Bytes) (d₁ d₂ : StepDesc) (hl : HashLen H) (w₁ : WF d₁) (w₂ : WF d₂)
    (hf : HostFramed d₁ d₂)
    (c₁ : NoColl H (encRecipe d₁) (encRecipe d₂)) (c₂ : NoColl H (encHost d₁) (encHost d₂)) :
    variantId H d₁ = variantId H d₂ ↔ semRecipe d₁ = semRecipe d₂ ∧ semHost d₁ = semHost d₂ := by
  constructor
  · intro h
    unfold variantId at h
    rw [digest_eq_iff hl] at h
    obtain ⟨hr, hh⟩ := h
    have e1 := encRecipe_injective d₁ d₂ w₁ w₂ (c₁ hr)
    have e2 : encHost d₁ = encHost d₂ := by
      rcases hh with ⟨a, b⟩ | ⟨_, _, c⟩
      · rw [a, b]
      · exact c₂ c
    refine ⟨e1, ?_⟩
    rw [encHost_eq_hostOfSem, encHost_eq_hostOfSem] at e2
    apply hostOfSem_inj _ _ e2
    · exact hf.1
    · have := hf.2
      simpa [semHost, List.map_map, Function.comp_def] using this
  · rintro ⟨a, b⟩
    exact vid_pure H d₁ d₂ a b

/-- the witness of candidate F-C02-1: arguments (A with host slice h, B) versus (A, B with host slice h) -/
def hostWitness₁ : StepDesc :=
  { script := none, tools := [], env := [],
    args := [List.replicate 20 1 ++ List.replicate 20 7, List.replicate 20 2], hostPrefix := [] }
def hostWitness₂ : StepDesc :=
  { script := none, tools := [], env := [],
    args := [List.replicate 20 1, List.replicate 20 2 ++ List.replicate 20 7], hostPrefix := [] }

theorem hostWitness_same_encoding :
    encRecipe hostWitness₁ = encRecipe hostWitness₂ ∧ encHost hostWitness₁ = encHost hostWitness₂ ∧
    semHost hostWitness₁ ≠ semHost hostWitness₂ := by
  decide

/-- **F-C02-1 decided**: without the framing hypothesis the statement is false — two argument lists whose
fingerprint contribution sits at different positions get the same id for *every* hash function.
(Replayed on real recipes by the oracle; see known finding F-C02-1.) -/
theorem vid_iff_sem_goal_false : ¬ vid_iff_sem_goal := by
  intro goal
  have e := hostWitness_same_encoding
  have wf1 : WF hostWitness₁ :=
    { script := (by simp [hostWitness₁, lenOk]), ntools := (by simp [hostWitness₁]),
      tools := (by intro t ht; simp [hostWitness₁] at ht), nenv := (by simp [hostWitness₁]),
      env := (by intro t ht; simp [hostWitness₁] at ht), nargs := (by simp [hostWitness₁]),
      args := (by intro a ha; simp [hostWitness₁] at ha; rcases ha with rfl | rfl <;> simp) }
  have wf2 : WF hostWitness₂ :=
    { script := (by simp [hostWitness₂, lenOk]), ntools := (by simp [hostWitness₂]),
      tools := (by intro t ht; simp [hostWitness₂] at ht), nenv := (by simp [hostWitness₂]),
      env := (by intro t ht; simp [hostWitness₂] at ht), nargs := (by simp [hostWitness₂]),
      args := (by intro a ha; simp [hostWitness₂] at ha; rcases ha with rfl | rfl <;> simp) }
  have := (goal (fun _ => List.replicate 20 0) hostWitness₁ hostWitness₂ (fun _ => by simp) wf1 wf2
    (fun _ => e.1) (fun _ => e.2.1)).mp (by unfold variantId; rw [e.1, e.2.1])
  exact e.2.2 this.2

/-- the hypotheses of `vid_iff_sem_partial` are satisfiable by two different framed descriptions and a
hash that separates them -/
example : ∃ (H : Bytes → Bytes) (d₁ d₂ : StepDesc), HashLen H ∧ HostFramed d₁ d₂ ∧ d₁ ≠ d₂ ∧
    NoColl H (encRecipe d₁) (encRecipe d₂) ∧ NoColl H (encHost d₁) (encHost d₂) ∧
    variantId H d₁ ≠ variantId H d₂ := by
  refine ⟨fun b => ((b.drop 20).take 20) ++ List.replicate (20 - ((b.drop 20).take 20).length) 0,
    { script := some ['a'], tools := [], env := [], args := [], hostPrefix := [] },
    { script := some ['b'], tools := [], env := [], args := [], hostPrefix := [] }, ?_, ?_, ?_, ?_, ?_, ?_⟩
  · intro b
    simp only [List.length_append, List.length_take, List.length_drop, List.length_replicate]
    omega
  · exact ⟨rfl, rfl⟩
  · decide
  · intro h; revert h; decide
  · intro _; rfl
  · decide

/-- **F-C02-3 in the model**: only the recipe half of a tool provider's id is hashed; whatever else changes in
the provider ids (their host / fingerprint halves) leaves the Variant-Id of the user unchanged, for every `H`.
(`semRecipe` therefore lists tools by the recipe half of their provider; replayed on real recipes by the oracle.) -/
theorem tool_host_not_in_vid (H : Bytes → Bytes) (d : StepDesc) (g : Tool → Bytes)
    (hg : ∀ t, sliceRecipes (g t) = sliceRecipes t.prov) :
    variantId H { d with tools := d.tools.map fun t => { t with prov := g t } } = variantId H d := by
  apply vid_pure
  · simp only [semRecipe]
    rw [sortBy_map toolLe toolLe (fun t => { t with prov := g t }) (fun a b => rfl)]
    simp [List.map_map, Function.comp_def, hg]
  · rfl

/-! ## 4. propagation -/

/-- **a changed dependency changes every dependent id** (induction over the step graph).
Two graphs that differ only in node `j`, each with consistently stored ids: if the recipe half of `j`'s id
differs, so does the recipe half of every step that reaches `j` through valid arguments and tools. -/
theorem vid_propagates (H : Bytes → Bytes) (hl : HashLen H) (g g' : Nat → Node) (ids ids' : Nat → Bytes)
    (hc : Consistent H g ids) (hc' : Consistent H g' ids')
    (wf : ∀ i, WF ((g i).desc ids)) (wf' : ∀ i, WF ((g' i).desc ids'))
    (hH : ∀ i, NoColl H (encRecipe ((g i).desc ids)) (encRecipe ((g' i).desc ids')))
    (j : Nat) (same : ∀ i, i ≠ j → g i = g' i)
    (hj : sliceRecipes (ids j) ≠ sliceRecipes (ids' j)) :
    ∀ i, Reach g j i → sliceRecipes (ids i) ≠ sliceRecipes (ids' i) := by
  intro i hr
  induction hr with
  | refl => exact hj
  | @step k i _ dep ih =>
    by_cases hij : i = j
    · rw [hij]; exact hj
    · intro heq
      rw [hc i, hc' i] at heq
      unfold variantId at heq
      rw [sliceRecipes_digest hl, sliceRecipes_digest hl] at heq
      have hs := encRecipe_injective _ _ (wf i) (wf' i) (hH i heq)
      rw [← same i hij] at hs
      rcases dep with ha | ⟨t, ht, hk⟩
      · have : (g i).args.map (fun r => sliceRecipes (ids r)) = (g i).args.map (fun r => sliceRecipes (ids' r)) := by
          have := congrArg SemRecipe.args hs
          simpa [semRecipe, Node.desc, List.map_map, Function.comp_def] using this
        exact ih ((List.map_inj_left.mp this) k ha)
      · have e := congrArg SemRecipe.tools hs
        simp only [semRecipe, Node.desc] at e
        rw [sortBy_map (fun a b : NTool => strLe a.name b.name) toolLe _ (fun a b => rfl),
            sortBy_map (fun a b : NTool => strLe a.name b.name) toolLe _ (fun a b => rfl)] at e
        simp only [List.map_map] at e
        have ht' : t ∈ sortBy (fun a b : NTool => strLe a.name b.name) (g i).tools := (mem_sortBy _ _ _).mpr ht
        have := (List.map_inj_left.mp e) t ht'
        simp only [Function.comp_def, SemTool.mk.injEq] at this
        rw [hk] at this
        exact ih this.1

/-- one changed argument changes the *whole* id (recipe or host half), all other inputs being equal -/
theorem vid_propagates_arg (H : Bytes → Bytes) (hl : HashLen H) (d : StepDesc) (pre post : List Bytes) (a a' : Bytes)
    (w : WF { d with args := pre ++ a :: post }) (w' : WF { d with args := pre ++ a' :: post })
    (c₁ : NoColl H (encRecipe { d with args := pre ++ a :: post }) (encRecipe { d with args := pre ++ a' :: post }))
    (c₂ : NoColl H (encHost { d with args := pre ++ a :: post }) (encHost { d with args := pre ++ a' :: post }))
    (hne : a ≠ a') :
    variantId H { d with args := pre ++ a :: post } ≠ variantId H { d with args := pre ++ a' :: post } := by
  intro h
  unfold variantId at h
  rw [digest_eq_iff hl] at h
  obtain ⟨hr, hh⟩ := h
  have e1 := congrArg SemRecipe.args (encRecipe_injective _ _ w w' (c₁ hr))
  have e2 : encHost { d with args := pre ++ a :: post } = encHost { d with args := pre ++ a' :: post } := by
    rcases hh with ⟨x, y⟩ | ⟨_, _, z⟩
    · rw [x, y]
    · exact c₂ z
  simp only [semRecipe, List.map_append, List.map_cons] at e1
  have s1 : sliceRecipes a = sliceRecipes a' := by
    have := List.append_cancel_left e1
    simpa using (List.cons.inj this).1
  simp only [encHost, List.flatMap_append, List.flatMap_cons] at e2
  have s2 : sliceHost a = sliceHost a' :=
    List.append_cancel_right (List.append_cancel_left (List.append_cancel_left e2))
  apply hne
  have e : ∀ x : Bytes, x = sliceRecipes x ++ sliceHost x := fun x => (List.take_append_drop 20 x).symm
  rw [e a, e a', s1, s2]

/-- a changed sandbox changes the id of a step that is fingerprinted inside it -/
theorem vid_propagates_sandbox (H : Bytes → Bytes) (hl : HashLen H) (d : StepDesc) (p p' : Bytes)
    (c₂ : NoColl H (encHost { d with hostPrefix := p }) (encHost { d with hostPrefix := p' })) (hne : p ≠ p') :
    variantId H { d with hostPrefix := p } ≠ variantId H { d with hostPrefix := p' } := by
  intro h
  unfold variantId at h
  rw [digest_eq_iff hl] at h
  have e2 : encHost { d with hostPrefix := p } = encHost { d with hostPrefix := p' } := by
    rcases h.2 with ⟨x, y⟩ | ⟨_, _, z⟩
    · rw [x, y]
    · exact c₂ z
  exact hne (List.append_cancel_right e2)

/-! ## 5. weak and strong variables -/
open PrepareTail in
/-- a variable that is not declared strong for the stage never enters the digest environment: its value
cannot influence the Variant-Id -/
theorem weak_not_in_vid (self : Decl) (inherit : List Decl) (env : Env) (s : Stage) (k v : PrepareTail.Str)
    (hk : k ∉ (resolveDecl self inherit).strong s) :
    (stepEnv self inherit (setVal env k v) s).digestEnv = (stepEnv self inherit env s).digestEnv := by
  simp only [stepEnv, stageEnv, prune, setVal]
  have hk' : ((resolveDecl self inherit).strong s).contains k = false := by simpa using hk
  induction env with
  | nil => rfl
  | cons kv rest ih =>
    by_cases e : kv.1 = k
    · have e1 : ((resolveDecl self inherit).strong s).contains kv.1 = false := by rw [e]; exact hk'
      rw [List.map_cons, if_pos e, List.filter_cons_of_neg (by simpa using hk), List.filter_cons_of_neg (by rw [e]; simpa using hk)]
      exact ih
    · rw [List.map_cons, if_neg e]
      by_cases p : ((resolveDecl self inherit).strong s).contains kv.1 = true
      · rw [List.filter_cons_of_pos (by simpa using p), List.filter_cons_of_pos (by simpa using p), ih]
      · rw [List.filter_cons_of_neg (by simpa using p), List.filter_cons_of_neg (by simpa using p), ih]

open PrepareTail in
/-- a declared variable (weak or strong) that is defined reaches the execution environment -/
theorem weak_in_env (self : Decl) (inherit : List Decl) (env : Env) (s : Stage) (kv : PrepareTail.Str × PrepareTail.Str)
    (hd : kv.1 ∈ (resolveDecl self inherit).weak s ∨ kv.1 ∈ (resolveDecl self inherit).strong s)
    (he : kv ∈ env) : kv ∈ (stepEnv self inherit env s).env := by
  simp only [stepEnv, stageEnv, prune]
  split
  · rename_i hw
    have hw' : (resolveDecl self inherit).weak s = [] := by simpa using hw
    rcases hd with h | h
    · rw [hw'] at h; cases h
    · simp [List.mem_filter, he, h]
  · rcases hd with h | h <;> simp [List.mem_filter, he, h]

open PrepareTail in
/-- declared both strong and weak counts as strong: the variable is in the digest environment -/
theorem strong_wins (self : Decl) (inherit : List Decl) (env : Env) (s : Stage) (kv : PrepareTail.Str × PrepareTail.Str)
    (hs : kv.1 ∈ (resolveDecl self inherit).strong s) (he : kv ∈ env) :
    kv ∈ (stepEnv self inherit env s).digestEnv ∧ kv.1 ∉ weakOnly (resolveDecl self inherit) s := by
  constructor
  · simp [stepEnv, stageEnv, prune, List.mem_filter, he, hs]
  · simp [weakOnly, List.mem_filter, hs]

open PrepareTail in
theorem initDecl_accumulates (r : Decl) :
    (∀ k, k ∈ (initDecl r).coS → k ∈ (initDecl r).buS) ∧ (∀ k, k ∈ (initDecl r).buS → k ∈ (initDecl r).paS) ∧
    (∀ k, k ∈ (initDecl r).coW → k ∈ (initDecl r).buW) ∧ (∀ k, k ∈ (initDecl r).buW → k ∈ (initDecl r).paW) := by
  simp only [initDecl]
  refine ⟨?_, ?_, ?_, ?_⟩ <;> intro k hk <;> simp [hk]

open PrepareTail in
/-- declarations accumulate over the stages: checkout ⊆ build ⊆ package, for the strong and the weak lists,
for a recipe with any number of classes -/
theorem decl_accumulates (self : Decl) (inherit : List Decl) :
    let d := resolveDecl self inherit
    (∀ k, k ∈ d.coS → k ∈ d.buS) ∧ (∀ k, k ∈ d.buS → k ∈ d.paS) ∧
    (∀ k, k ∈ d.coW → k ∈ d.buW) ∧ (∀ k, k ∈ d.buW → k ∈ d.paW) := by
  have key : ∀ (l : List Decl) (acc : Decl),
      ((∀ k, k ∈ acc.coS → k ∈ acc.buS) ∧ (∀ k, k ∈ acc.buS → k ∈ acc.paS) ∧
       (∀ k, k ∈ acc.coW → k ∈ acc.buW) ∧ (∀ k, k ∈ acc.buW → k ∈ acc.paW)) →
      let d := (l.map initDecl).foldl inheritDecl acc
      (∀ k, k ∈ d.coS → k ∈ d.buS) ∧ (∀ k, k ∈ d.buS → k ∈ d.paS) ∧
      (∀ k, k ∈ d.coW → k ∈ d.buW) ∧ (∀ k, k ∈ d.buW → k ∈ d.paW) := by
    intro l
    induction l with
    | nil => intro acc h; exact h
    | cons c cs ih =>
      intro acc h
      simp only [List.map_cons, List.foldl_cons]
      apply ih
      have hc := initDecl_accumulates c
      simp only [inheritDecl]
      refine ⟨?_, ?_, ?_, ?_⟩ <;> intro k hk <;> rw [List.mem_append] at hk ⊢ <;> rcases hk with hk | hk
      · exact Or.inl (h.1 k hk)
      · exact Or.inr (hc.1 k hk)
      · exact Or.inl (h.2.1 k hk)
      · exact Or.inr (hc.2.1 k hk)
      · exact Or.inl (h.2.2.1 k hk)
      · exact Or.inr (hc.2.2.1 k hk)
      · exact Or.inl (h.2.2.2 k hk)
      · exact Or.inr (hc.2.2.2 k hk)
  have := key inherit.reverse (initDecl self) (initDecl_accumulates self)
  simpa [resolveDecl, List.map_reverse] using this

open PrepareTail in
example : (stepEnv ⟨[], [], [['A']], [['W']], [], []⟩ [] [(['A'], ['1']), (['W'], ['2']), (['X'], ['3'])] .build)
    = ⟨[(['A'], ['1'])], [(['A'], ['1']), (['W'], ['2'])]⟩ := by decide

/-! ## 6. script fragments -/
open Scripts

/-- **what is executed**: the setup script glued to the main script is the glue-join of all non-empty Setup
fragments (class order), all Script fragments (class order) and all Finalize fragments in *reverse* class
order -/
theorem mergeScripts_order (fr : List Frag) (glue : Scripts.Str) :
    stepScript (mergeScripts fr glue).1 (mergeScripts fr glue).2.1 glue = join glue (execSeq fr) := by
  simp only [mergeScripts, stepScript, execSeq]
  rw [joinScripts_two, joinScripts_eq, ← List.append_assoc]
  cases present (List.map (fun x => x.setup.text) fr ++ List.map (fun x => x.script.text) fr
      ++ List.map (fun x => x.final.text) fr.reverse) <;> simp [joinP, join]

/-- **what is hashed**: the digest script is the line-join of the fragment digests in the order Setup*,
Script*, Finalize* — all in class order, without any group separator -/
theorem mergeScripts_digest (fr : List Frag) (glue : Scripts.Str) :
    (mergeScripts fr glue).2.2 = joinP nl (digestSeq fr) := by
  simp only [mergeScripts, digestSeq]
  rw [joinScripts_three, joinScripts_eq]

/-- fragments built from their sources by a fragment digest function `dg` -/
def mkFrag (dg : Scripts.Str → Scripts.Str) (s : Option Scripts.Str × Option Scripts.Str × Option Scripts.Str) : Frag :=
  { setup := ⟨s.1, s.1.map dg⟩, script := ⟨s.2.1, s.2.1.map dg⟩, final := ⟨s.2.2, s.2.2.map dg⟩ }

/-- equal digest scripts have equal digest sequences (fragment digests are single non-empty lines) -/
theorem digestScript_inj (fr fr' : List Frag) (glue glue' : Scripts.Str)
    (ha : ∀ t ∈ digestSeq fr, Atomic t) (ha' : ∀ t ∈ digestSeq fr', Atomic t)
    (h : (mergeScripts fr glue).2.2 = (mergeScripts fr' glue').2.2) : digestSeq fr = digestSeq fr' := by
  rw [mergeScripts_digest, mergeScripts_digest] at h
  cases h1 : digestSeq fr with
  | nil =>
    cases h2 : digestSeq fr' with
    | nil => rfl
    | cons s r => rw [h1, h2] at h; simp [joinP] at h
  | cons s r =>
    cases h2 : digestSeq fr' with
    | nil => rw [h1, h2] at h; simp [joinP] at h
    | cons s' r' =>
      rw [h1, h2] at h
      simp only [joinP, Option.some.injEq] at h
      exact join_nl_inj (by rw [← h1]; exact ha) (by rw [← h2]; exact ha') h

/-- full statement (not asserted, false of model and code): the digest script separates exactly the
executed fragment sequences -/
def digestScript_iff_exec_goal : Prop :=
  ∀ (dg : Scripts.Str → Scripts.Str) (src src' : List (Option Scripts.Str × Option Scripts.Str × Option Scripts.Str)),
    Function.Injective dg →
    (digestSeq (src.map (mkFrag dg)) = digestSeq (src'.map (mkFrag dg)) ↔
     execSeq (src.map (mkFrag dg)) = execSeq (src'.map (mkFrag dg)))

/-- the witness of F-C02-2: class `echo P` + recipe `echo Q` once as Script, once as Finalize -/
theorem digestScript_iff_exec_goal_false : ¬ digestScript_iff_exec_goal := by
  intro goal
  have := (goal (fun t => 'd' :: t)
    [(none, some ['P'], none), (none, some ['Q'], none)]
    [(none, none, some ['P']), (none, none, some ['Q'])]
    (fun a b h => by simpa using h)).mp (by decide)
  revert this
  decide

/-- all fragment texts that are present are non-empty (true of `IncludeHelper.resolve`: a resolved fragment
always carries its `_BOB_SOURCES` marker line) -/
def SrcOk (src : List (Option Scripts.Str × Option Scripts.Str × Option Scripts.Str)) : Prop :=
  ∀ s ∈ src, s.1 ≠ some [] ∧ s.2.1 ≠ some [] ∧ s.2.2 ≠ some []

/-- **the digest script separates exactly the executed fragment sequences** when both recipes have the same
number of Finalize fragments (injective, non-empty fragment digests). -/
theorem digestScript_iff_exec_partial (dg : Scripts.Str → Scripts.Str) (hinj : Function.Injective dg) (hne : ∀ t, dg t ≠ [])
    (src src' : List (Option Scripts.Str × Option Scripts.Str × Option Scripts.Str)) (ok : SrcOk src) (ok' : SrcOk src')
    (hn : (present (src.map (·.2.2))).length = (present (src'.map (·.2.2))).length) :
    digestSeq (src.map (mkFrag dg)) = digestSeq (src'.map (mkFrag dg)) ↔
    execSeq (src.map (mkFrag dg)) = execSeq (src'.map (mkFrag dg)) := by
  have hd : ∀ (s : List (Option Scripts.Str × Option Scripts.Str × Option Scripts.Str)), SrcOk s →
      digestSeq (s.map (mkFrag dg)) =
        (present (s.map (·.1)) ++ present (s.map (·.2.1)) ++ present (s.map (·.2.2))).map dg := by
    intro s hs
    simp only [digestSeq, mkFrag, List.map_map, Function.comp_def, present_append, List.map_append]
    have e : ∀ (f : (Option Scripts.Str × Option Scripts.Str × Option Scripts.Str) → Option Scripts.Str),
        (∀ x ∈ s, f x ≠ some []) →
        present (s.map fun x => Option.map dg (f x)) = (present (s.map f)).map dg := by
      intro f hf
      have := present_map_digest dg hne (s.map f) (by
        intro x hx
        obtain ⟨y, hy, rfl⟩ := List.mem_map.mp hx
        exact hf y hy)
      simpa [List.map_map, Function.comp_def] using this
    rw [e (·.1) (fun x hx => (hs x hx).1), e (·.2.1) (fun x hx => (hs x hx).2.1), e (·.2.2) (fun x hx => (hs x hx).2.2)]
  have he : ∀ (s : List (Option Scripts.Str × Option Scripts.Str × Option Scripts.Str)),
      execSeq (s.map (mkFrag dg)) =
        present (s.map (·.1)) ++ present (s.map (·.2.1)) ++ (present (s.map (·.2.2))).reverse := by
    intro s
    simp only [execSeq, present_append]
    rw [List.map_reverse, present_reverse]
    simp only [mkFrag, List.map_map, Function.comp_def]
  rw [hd src ok, hd src' ok', he, he]
  constructor
  · intro h
    have h' := (List.map_inj_right (fun _ _ hh => hinj hh)).mp h
    have ⟨a, b⟩ := List.append_inj' h' hn
    rw [a, b]
  · intro h
    have ⟨a, b⟩ := List.append_inj' h (by simpa using hn)
    rw [a, List.reverse_inj.mp b]

/-! ## 7. checkout steps: SCM descriptions and assertions -/

/-- the recipe's own checkout digest script as lines (hex digests), `None` when there is no script -/
def digOf (digLines : List Scripts.Str) : Option Scripts.Str :=
  if digLines = [] then none else some (join nl digLines)

/-- the lines it contributes to the checkout digest script: its lines, or one empty line -/
def digMiddle (digLines : List Scripts.Str) : List Scripts.Str :=
  if digLines = [] then [[]] else digLines

theorem checkoutDigestScript_lines (scms digLines asserts : List Scripts.Str) :
    checkoutDigestScript scms (digOf digLines) asserts = join nl (scms ++ digMiddle digLines ++ asserts) := by
  unfold checkoutDigestScript digOf digMiddle
  by_cases h : digLines = []
  · simp [h]
  · simp only [h, if_false, Option.getD_some]
    have := join_mid nl scms digLines asserts h
    simpa [List.append_assoc] using this

/-- **the digest script of a checkout step determines the SCM descriptions, the recipe's script digests and
the assertions** — provided SCM and assertion lines contain a blank (all `asDigestScript` formats do:
"url rev dir", "digest path extract", "url dir", "file digest start end") and no line break, and the script
digests are non-empty, blank free lines (hex). -/
theorem checkoutDigestScript_inj (scms scms' digLines digLines' asserts asserts' : List Scripts.Str)
    (hs : ∀ t, t ∈ scms ∨ t ∈ asserts ∨ t ∈ scms' ∨ t ∈ asserts' → ' ' ∈ t ∧ '\n' ∉ t)
    (hd : ∀ t, t ∈ digLines ∨ t ∈ digLines' → t ≠ [] ∧ ' ' ∉ t ∧ '\n' ∉ t)
    (h : checkoutDigestScript scms (digOf digLines) asserts = checkoutDigestScript scms' (digOf digLines') asserts') :
    scms = scms' ∧ digLines = digLines' ∧ asserts = asserts' := by
  rw [checkoutDigestScript_lines, checkoutDigestScript_lines] at h
  have mid : ∀ L : List Scripts.Str, (∀ t ∈ L, t ≠ [] ∧ ' ' ∉ t ∧ '\n' ∉ t) →
      digMiddle L ≠ [] ∧ (∀ t ∈ digMiddle L, ' ' ∉ t ∧ '\n' ∉ t) := by
    intro L hL
    unfold digMiddle
    by_cases e : L = []
    · simp [e]
    · simp only [e, if_false]
      exact ⟨e, fun t ht => (hL t ht).2⟩
  have m1 := mid digLines (fun t ht => hd t (Or.inl ht))
  have m2 := mid digLines' (fun t ht => hd t (Or.inr ht))
  have hlines := join_nl_inj_ne (l := scms ++ digMiddle digLines ++ asserts) (l' := scms' ++ digMiddle digLines' ++ asserts')
    (by
      intro t ht
      simp only [List.mem_append] at ht
      rcases ht with (ht | ht) | ht
      · exact (hs t (Or.inl ht)).2
      · exact (m1.2 t ht).2
      · exact (hs t (Or.inr (Or.inl ht))).2)
    (by
      intro t ht
      simp only [List.mem_append] at ht
      rcases ht with (ht | ht) | ht
      · exact (hs t (Or.inr (Or.inr (Or.inl ht)))).2
      · exact (m2.2 t ht).2
      · exact (hs t (Or.inr (Or.inr (Or.inr ht)))).2)
    (by simp [m1.1]) (by simp [m2.1]) h
  rw [List.append_assoc, List.append_assoc] at hlines
  have headMid : ∀ (L : List Scripts.Str) (B : List Scripts.Str), digMiddle L ≠ [] → (∀ t ∈ digMiddle L, ' ' ∉ t ∧ '\n' ∉ t) →
      ∀ x, (digMiddle L ++ B).head? = some x → ¬ (' ' ∈ x) := by
    intro L B hne hall x hx
    cases hm : digMiddle L with
    | nil => exact absurd hm hne
    | cons y ys =>
      rw [hm] at hx hall
      simp only [List.cons_append, List.head?_cons, Option.some.injEq] at hx
      rw [← hx]
      exact (hall y (by simp)).1
  have ⟨e1, r1⟩ := span_unique (fun t : Scripts.Str => ' ' ∈ t)
    (fun x hx => (hs x (Or.inl hx)).1) (fun x hx => (hs x (Or.inr (Or.inr (Or.inl hx)))).1)
    (headMid digLines asserts m1.1 m1.2) (headMid digLines' asserts' m2.1 m2.2) hlines
  have ⟨e2, e3⟩ := span_unique (fun t : Scripts.Str => ' ' ∉ t)
    (fun x hx => (m1.2 x hx).1) (fun x hx => (m2.2 x hx).1)
    (by
      intro x hx hn
      cases asserts with
      | nil => simp at hx
      | cons a as =>
        simp only [List.head?_cons, Option.some.injEq] at hx
        exact hn (hx ▸ (hs a (Or.inr (Or.inl (by simp)))).1))
    (by
      intro x hx hn
      cases asserts' with
      | nil => simp at hx
      | cons a as =>
        simp only [List.head?_cons, Option.some.injEq] at hx
        exact hn (hx ▸ (hs a (Or.inr (Or.inr (Or.inr (by simp))))).1))
    r1
  refine ⟨e1, ?_, e3⟩
  unfold digMiddle at e2
  by_cases a : digLines = [] <;> by_cases b : digLines' = []
  · rw [a, b]
  · simp only [a, b, if_true, if_false] at e2
    have : ([] : Scripts.Str) ∈ digLines' := by rw [← e2]; simp
    exact absurd rfl (hd [] (Or.inr this)).1
  · simp only [a, b, if_true, if_false] at e2
    have : ([] : Scripts.Str) ∈ digLines := by rw [e2]; simp
    exact absurd rfl (hd [] (Or.inl this)).1
  · simpa [a, b] using e2

example : checkoutDigestScript ["https://git.test/a.git refs/heads/main s0".toList] (digOf ["da39a3ee".toList])
      ["s0/x.txt da39 1 4294967295".toList]
    = "https://git.test/a.git refs/heads/main s0\nda39a3ee\ns0/x.txt da39 1 4294967295".toList := by
  decide

/-- the hypotheses of `vid_propagates` are satisfiable: a leaf `0`, a step `1` that takes it as argument, a toy
hash that is collision free on the encodings that occur; editing the leaf's script changes the id of step `1` -/
def toyHash (b : Bytes) : Bytes :=
  let t := (b.reverse.take 20).reverse
  List.replicate (20 - t.length) 0 ++ t
def toyLeaf (c : Char) : Node := { script := some [c], tools := [], env := [], args := [], sandbox := none }
def toyG : Nat → Node
  | 0 => toyLeaf 'a'
  | 1 => { script := some ['x'], tools := [], env := [], args := [0], sandbox := none }
  | _ => toyLeaf 'z'
def toyG' : Nat → Node
  | 0 => toyLeaf 'b'
  | n => toyG n
def toyIds (g : Nat → Node) : Nat → Bytes
  | 0 => variantId toyHash ((g 0).desc (fun _ => []))
  | 1 => variantId toyHash ((g 1).desc (fun _ => variantId toyHash ((g 0).desc (fun _ => []))))
  | _ => variantId toyHash ((toyLeaf 'z').desc (fun _ => []))

example : HashLen toyHash ∧ Consistent toyHash toyG (toyIds toyG) ∧ Consistent toyHash toyG' (toyIds toyG') ∧
    (∀ i, i ≠ 0 → toyG i = toyG' i) ∧
    (∀ i, NoColl toyHash (encRecipe ((toyG i).desc (toyIds toyG))) (encRecipe ((toyG' i).desc (toyIds toyG')))) ∧
    sliceRecipes (toyIds toyG 0) ≠ sliceRecipes (toyIds toyG' 0) ∧ Reach toyG 0 1 ∧
    sliceRecipes (toyIds toyG 1) ≠ sliceRecipes (toyIds toyG' 1) := by
  refine ⟨?_, ?_, ?_, ?_, ?_, by decide, Reach.step Reach.refl (Or.inl (by decide)), by decide⟩
  · intro b
    simp only [toyHash, List.length_append, List.length_replicate, List.length_reverse, List.length_take]
    omega
  · intro i
    match i with
    | 0 => rfl
    | 1 => rfl
    | n + 2 => rfl
  · intro i
    match i with
    | 0 => rfl
    | 1 => rfl
    | n + 2 => rfl
  · intro i hi
    match i with
    | 0 => exact absurd rfl hi
    | n + 1 => rfl
  · intro i
    match i with
    | 0 => intro h; exact absurd h (by decide)
    | 1 => intro h; exact absurd h (by decide)
    | n + 2 => intro _; rfl

end C02
