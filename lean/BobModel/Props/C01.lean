import BobModel.Proofs.C01Noop
/-
C01 — incremental build equals clean build: property theorems about the builder model
(Model/Builder.lean).  Definitions and lemmas live in Proofs/C01*.lean:

* `Truthful E dev Γ st` ("Bob's state never claims more than the disk holds", `Proofs/C01Base.lean`),
* `AllWF Γ T` / `TreeWF Γ T`: well-formedness of a project (workspace paths identify steps, a step
  does not share its workspace with its own dependencies, the SCM layout `Γ` of a checkout path is
  stable, SCM-only checkouts have no dependencies),
* `SemHyp E dev T`: "deterministic scripts assumed" made precise (`obl`: no dependence on stale
  workspace content where Bob does not clean, `world`: only checkouts read the external world,
  `det`: checkouts declared deterministic are),
* `value E s`: the unique solution of the data-flow equations, `reach T`: the steps `cook` visits.

`invoke E cfg T fuel st` is one invocation of `bob dev` / `bob build` (flags `cfg`) on project state
`T` in workspace state `st`; it returns `.ok` iff no script failed and `fuel` sufficed.
-/
namespace C01
open Builder

/-- the cook functions of the current source perform their state updates and workspace operations in
the order the model was transcribed from -/
theorem source_order_matches :
    Consts.C01.buildCalls = expectedBuildCalls ∧ Consts.C01.prepareCalls = expectedPrepareCalls ∧
    Consts.C01.packageCalls = expectedPackageCalls ∧ Consts.C01.checkoutCalls = expectedCheckoutCalls := by
  decide

theorem prune_invalidates_first :
    Consts.C01.buildPruneInvalidatesFirst = true ∧ Consts.C01.packagePruneInvalidatesFirst = true := by
  decide

/-- **cook preserves Truthful** (every flag combination, successful or not) -/
theorem cook_preserves_truthful (E : Env) (dev : Bool) (Γ : Path → List (Dir × Digest)) (cfg : Cfg) (T : Step)
    (hinj : Function.Injective E.H) (hdev : cfg.cleanBuild = false → dev = true) (hwf : AllWF Γ T)
    (st : St) (h : Truthful E dev Γ st) (fuel : Nat) :
    Truthful E dev Γ (invoke E cfg T fuel st).st := by
  have hy : Hyp E dev cfg := ⟨prune_invalidates_first.1, prune_invalidates_first.2, hinj, hdev⟩
  have hk := ((kstep_all (Γ := Γ) hy T) hwf).1 cfg.checkoutOnly
    { st := st, mem := Mem.init, fuel := fuel, log := [] } h
  unfold invoke cook
  unfold wp at hk
  cases hr : cookStep E cfg cfg.checkoutOnly T { st := st, mem := Mem.init, fuel := fuel, log := [] } with
  | ok a r' => rw [hr] at hk; exact hk.1
  | abort r' => rw [hr] at hk; exact hk

/-- **the result of a successful cook is the data-flow solution**: from any `Truthful` workspace
state, for every flag combination without `--no-deps` / `--checkout-only`, every reachable step's
workspace holds exactly what a from-scratch build produces. -/
theorem cook_result_is_dataflow (E : Env) (dev : Bool) (Γ : Path → List (Dir × Digest)) (cfg : Cfg) (T : Step)
    (hinj : Function.Injective E.H) (hdev : cfg.cleanBuild = false → dev = true)
    (hsem : SemHyp E dev T) (hwf : TreeWF Γ T) (hnd : cfg.noDeps = false) (hco : cfg.checkoutOnly = false)
    (st : St) (h : Truthful E dev Γ st) (fuel : Nat) (r' : Run) (hok : invoke E cfg T fuel st = .ok () r') :
    Truthful E dev Γ r'.st ∧ ∀ u ∈ reach T, r'.st.disk u.path = some (value E u) := by
  have H : DHyp E dev Γ cfg T :=
    ⟨⟨prune_invalidates_first.1, prune_invalidates_first.2, hinj, hdev⟩, hsem, hwf, hnd⟩
  have hi : DInv E dev Γ T { st := st, mem := Mem.init, fuel := fuel, log := [] } :=
    ⟨h, by intro u _ x hx; simp [Mem.init] at hx, by intro u _ hr; simp [Ran, Mem.init] at hr⟩
  have hk := ((cstep_all H T) (fun _ hu => hu)).1 _ hi
  unfold invoke cook at hok
  rw [hco] at hok
  unfold wp at hk
  rw [hok] at hk
  refine ⟨hk.inv.truthful, ?_⟩
  intro u hu
  exact (done_of_ran hk.inv ((reach_sub_subtrees T).1 u hu) (hk.ran u hu)).1

/-- a history of invocations (flags, project state, fuel) in one workspace, each of which must
succeed -/
def runHistory (E : Env) : List (Cfg × Step × Nat) → St → Option St
  | [], st => some st
  | (cfg, T, fuel) :: rest, st =>
    match invoke E cfg T fuel st with
    | .ok _ r => runHistory E rest r.st
    | .abort _ => none

theorem history_truthful (E : Env) (dev : Bool) (Γ : Path → List (Dir × Digest)) (hinj : Function.Injective E.H)
    (hist : List (Cfg × Step × Nat))
    (hall : ∀ x ∈ hist, (x.1.cleanBuild = false → dev = true) ∧ AllWF Γ x.2.1)
    (st st' : St) (h : Truthful E dev Γ st) (hrun : runHistory E hist st = some st') : Truthful E dev Γ st' := by
  induction hist generalizing st with
  | nil => simp [runHistory] at hrun; rw [← hrun]; exact h
  | cons x rest ih =>
    obtain ⟨cfg, T, fuel⟩ := x
    simp only [runHistory] at hrun
    have hx := hall (cfg, T, fuel) (by simp)
    have ht := cook_preserves_truthful E dev Γ cfg T hinj hx.1 hx.2 st h fuel
    cases hr : invoke E cfg T fuel st with
    | ok a r =>
      rw [hr] at hrun ht
      exact ih (fun y hy => hall y (by simp [hy])) r.st ht hrun
    | abort r => rw [hr] at hrun; cases hrun

/-- **incremental build equals clean build** (the property): after every finite history of
arbitrary project states and flags - which subsumes every edit kind: scripts, variables, variable
lists, dependencies, provided variables / tools, sources, reverts - each built successfully in one
workspace starting from the empty one, the content of every reachable step of the final project
state (in particular every package result) equals that of a from-scratch build in an empty workspace. -/
theorem incremental_eq_clean (E : Env) (dev : Bool) (Γ : Path → List (Dir × Digest)) (hinj : Function.Injective E.H)
    (hist : List (Cfg × Step × Nat))
    (hall : ∀ x ∈ hist, (x.1.cleanBuild = false → dev = true) ∧ AllWF Γ x.2.1)
    (cfg : Cfg) (T : Step) (fuel : Nat)
    (hdev : cfg.cleanBuild = false → dev = true) (hsem : SemHyp E dev T) (hwf : TreeWF Γ T)
    (hnd : cfg.noDeps = false) (hco : cfg.checkoutOnly = false)
    (stA : St) (hA : runHistory E (hist ++ [(cfg, T, fuel)]) St.init = some stA)
    (cfgB : Cfg) (fuelB : Nat) (rB : Run) (hdevB : cfgB.cleanBuild = false → dev = true)
    (hndB : cfgB.noDeps = false) (hcoB : cfgB.checkoutOnly = false)
    (hB : invoke E cfgB T fuelB St.init = .ok () rB) :
    ∀ u ∈ reach T, stA.disk u.path = rB.st.disk u.path := by
  -- split the incremental history into the prefix and the last invocation
  have split : ∀ (l : List (Cfg × Step × Nat)) (s : St), runHistory E (l ++ [(cfg, T, fuel)]) s = some stA →
      ∃ s1, runHistory E l s = some s1 ∧ runHistory E [(cfg, T, fuel)] s1 = some stA := by
    intro l
    induction l with
    | nil => intro s hs; exact ⟨s, by simp [runHistory], by simpa using hs⟩
    | cons x rest ih =>
      intro s hs
      obtain ⟨c, t, f⟩ := x
      simp only [List.cons_append, runHistory] at hs ⊢
      cases hr : invoke E c t f s with
      | ok a r => rw [hr] at hs; simp only []; exact ih r.st hs
      | abort r => rw [hr] at hs; cases hs
  obtain ⟨s1, h1, h2⟩ := split hist St.init hA
  have ht1 : Truthful E dev Γ s1 := history_truthful E dev Γ hinj hist hall St.init s1 (truthful_init E dev Γ) h1
  simp only [runHistory] at h2
  cases hr : invoke E cfg T fuel s1 with
  | abort r => rw [hr] at h2; cases h2
  | ok a rA =>
    rw [hr] at h2
    simp only [Option.some.injEq] at h2
    have dA := (cook_result_is_dataflow E dev Γ cfg T hinj hdev hsem hwf hnd hco s1 ht1 fuel rA hr).2
    have dB := (cook_result_is_dataflow E dev Γ cfgB T hinj hdevB hsem hwf hndB hcoB St.init (truthful_init E dev Γ)
      fuelB rB hB).2
    intro u hu
    rw [← h2, dA u hu, dB u hu]

/-- **a repeated build is a no-op**: an invocation that immediately follows a successful one (same
project state, same flags, no `--force`) creates and prunes nothing, moves nothing to the attic and
starts no script except those of indeterministic checkouts - in develop and in release mode
(`QuietOp`, `Proofs/C01Noop.lean`). -/
theorem rebuild_is_noop (E : Env) (dev : Bool) (Γ : Path → List (Dir × Digest)) (cfg : Cfg) (T : Step)
    (hinj : Function.Injective E.H) (hdev : cfg.cleanBuild = false → dev = true)
    (hsem : SemHyp E dev T) (hwf : TreeWF Γ T) (hnd : cfg.noDeps = false) (hco : cfg.checkoutOnly = false)
    (hforce : cfg.force = false)
    (st : St) (h : Truthful E dev Γ st) (fuel1 : Nat) (r1 : Run) (hok1 : invoke E cfg T fuel1 st = .ok () r1)
    (fuel2 : Nat) (r2 : Run) (hok2 : invoke E cfg T fuel2 r1.st = .ok () r2) :
    ∀ op ∈ r2.log, QuietOp T op := by
  have H : DHyp E dev Γ cfg T :=
    ⟨⟨prune_invalidates_first.1, prune_invalidates_first.2, hinj, hdev⟩, hsem, hwf, hnd⟩
  have hi : DInv E dev Γ T { st := st, mem := Mem.init, fuel := fuel1, log := [] } :=
    ⟨h, by intro u _ x hx; simp [Mem.init] at hx, by intro u _ hr; simp [Ran, Mem.init] at hr⟩
  have hk := ((cstep_all H T) (fun _ hu => hu)).1 _ hi
  unfold invoke cook at hok1 hok2
  rw [hco] at hok1 hok2
  unfold wp at hk
  rw [hok1] at hk
  have hstable : Stable E T r1.st := by
    intro u hu
    have hu' := (reach_sub_subtrees T).1 u hu
    exact ⟨done_of_ran hk.inv hu' (hk.ran u hu), settled_of_ran hk.inv hu' (hk.ran u hu)⟩
  have N : NHyp E dev Γ cfg T r1.st := ⟨hsem, hwf, hforce, hstable⟩
  have h2 := ((nstep_all N T) (fun _ hu => hu)).1 { st := r1.st, mem := Mem.init, fuel := fuel2, log := [] }
    ⟨Same.refl _, by intro op hop; cases hop⟩
  unfold wp at h2
  rw [hok2] at h2
  exact h2.quiet

/-! ## non-vacuity: a concrete project satisfying every hypothesis

`app` (import-SCM checkout with sources `world`, build, package) depends on `lib` (deterministic
checkout script, build, package) and uses the tool package `tool` (not relocatable); the package
steps of `app` and `lib` also read their own checkout step. -/
namespace Example

def mkInfo (k : Kind) (tag path pkg : String) (det : Bool) (scms : List (Dir × Digest)) (world : World) (fp : Bool) : Info :=
  { sig := ⟨k, tag⟩, path := path, execPath := path, pkg := pkg, det := det, hasScript := true, scms := scms,
    boLoc := "", boUpd := "", world := world, fp := fp }

def cApp (w : World) : Step := .mk (mkInfo .checkout "co-app" "src/app" "app" false [(".", "g1")] w false) [] []
def cLib : Step := .mk (mkInfo .checkout "co-lib" "src/lib" "lib" true [] "" false) [] []
def bTool : Step := .mk (mkInfo .build "b-tool" "build/tool" "tool" true [] "" false) [] []
def pTool : Step := .mk (mkInfo .package "p-tool" "dist/tool" "tool" true [] "" true) [] [bTool]
def bLib : Step := .mk (mkInfo .build "b-lib" "build/lib" "lib" true [] "" false) [] [cLib]
def pLib : Step := .mk (mkInfo .package "p-lib" "dist/lib" "lib" true [] "" false) [cLib] [bLib]
def bApp (w : World) (script : String) : Step :=
  .mk (mkInfo .build script "build/app" "app" false [] "" false) [] [cApp w, pLib, pTool]
/-- the project state: sources `w` of `app`, build script `script` of `app` -/
def pApp (w : World) (script : String) : Step :=
  .mk (mkInfo .package "p-app" "dist/app" "app" false [] "" false) [cApp w] [bApp w script]

def exE : Env :=
  { H := fun c => c,
    sem := fun sig w _ ins => .ok (sig.tag ++ "[" ++ (if sig.kind = .checkout ∧ sig.tag = "co-app" then w else "") ++ "]("
      ++ ",".intercalate ins ++ ")"),
    junk := "junk", rmDir := fun _ c => c, hasDir := fun _ _ => false }

def exΓ : Path → List (Dir × Digest) := fun p => if p = "src/app" then [(".", "g1")] else []

theorem ex_subtrees (w : World) (s : String) : subtrees (pApp w s) =
    [pApp w s, cApp w, bApp w s, cApp w, pLib, cLib, bLib, cLib, pTool, bTool] := by
  simp [pApp, bApp, pLib, bLib, pTool, bTool, cApp, cLib, subtrees, subtreesL]

theorem ex_wf (w : World) (s : String) : TreeWF exΓ (pApp w s) := by
  refine ⟨?_, ?_, ?_⟩
  · intro u hu
    rw [ex_subtrees] at hu
    simp only [List.mem_cons, List.mem_nil_iff, or_false] at hu
    rcases hu with rfl | rfl | rfl | rfl | rfl | rfl | rfl | rfl | rfl | rfl <;>
      refine ⟨fun hk => ?_, ?_⟩
    all_goals first
      | (exfalso; simp [Step.kind, Step.info, pApp, bApp, pLib, bLib, pTool, bTool, mkInfo] at hk; done)
      | (exact ⟨by simp [cApp, cLib, Step.info, mkInfo, exΓ], by
            intro d g g' h1 h2; simp_all [cApp, cLib, Step.info, mkInfo, exΓ],
            by intro h; simp [cApp, cLib, Step.info, mkInfo] at h⟩)
      | (simp [pathsL, subtreesL, subtrees, Step.path, Step.info, Step.deps, pApp, bApp, pLib, bLib, pTool, bTool,
          cApp, cLib, mkInfo]; done)
  · rw [ex_subtrees]
    intro u hu v hv h
    simp only [List.mem_cons, List.mem_nil_iff, or_false] at hu hv
    rcases hu with rfl | rfl | rfl | rfl | rfl | rfl | rfl | rfl | rfl | rfl <;>
      rcases hv with rfl | rfl | rfl | rfl | rfl | rfl | rfl | rfl | rfl | rfl <;>
      first | rfl | (exfalso; simp [Step.path, Step.info, pApp, bApp, pLib, bLib, pTool, bTool, cApp, cLib, mkInfo] at h)
  · intro u hu
    rw [ex_subtrees] at hu
    simp only [List.mem_cons, List.mem_nil_iff, or_false] at hu
    rcases hu with rfl | rfl | rfl | rfl | rfl | rfl | rfl | rfl | rfl | rfl <;>
      simp [Step.kind, Step.info, Step.pre, Step.deps, pApp, bApp, pLib, bLib, pTool, bTool, cApp, cLib, mkInfo,
        reachL, reach]

theorem ex_sem (w : World) (s : String) : SemHyp exE true (pApp w s) := by
  refine ⟨?_, ?_, ?_⟩
  · intro sig w old cs _; rfl
  · intro sig w w' old cs hk
    simp [exE, hk]
  · intro u hu hk hdet
    rw [ex_subtrees] at hu
    simp only [List.mem_cons, List.mem_nil_iff, or_false] at hu
    rcases hu with rfl | rfl | rfl | rfl | rfl | rfl | rfl | rfl | rfl | rfl <;>
      first
      | (simp [Step.kind, Step.info, pApp, bApp, pLib, bLib, pTool, bTool, mkInfo] at hk; done)
      | (simp [Step.info, cApp, mkInfo] at hdet; done)
      | (intro w w' old cs; simp [exE, Step.info, cLib, mkInfo]; done)

theorem ex_inj : Function.Injective exE.H := fun _ _ h => h

/-- a history: build, edit the sources, build, edit the build script, build (all in develop mode);
compared with a from-scratch release build of the final project state -/
def devCfg : Cfg := {}

def exHist : List (Cfg × Step × Nat) :=
  [(devCfg, pApp "sources-v1" "b-app-1", 1000), ({ force := true }, pApp "sources-v2" "b-app-1", 1000)]

/-- the hypotheses of `incremental_eq_clean` are satisfiable by this non-trivial instance -/
example : ∃ stA rB, runHistory exE (exHist ++ [(devCfg, pApp "sources-v2" "b-app-2", 1000)]) St.init = some stA ∧
    invoke exE { cleanBuild := true } (pApp "sources-v2" "b-app-2") 1000 St.init = .ok () rB ∧
    ∀ u ∈ reach (pApp "sources-v2" "b-app-2"), stA.disk u.path = rB.st.disk u.path := by
  have h1 : (runHistory exE (exHist ++ [(devCfg, pApp "sources-v2" "b-app-2", 1000)]) St.init).isSome = true := by
    decide +kernel
  have h2 : (invoke exE { cleanBuild := true } (pApp "sources-v2" "b-app-2") 1000 St.init).isOk = true := by
    decide +kernel
  obtain ⟨stA, hA⟩ := Option.isSome_iff_exists.mp h1
  cases hB : invoke exE { cleanBuild := true } (pApp "sources-v2" "b-app-2") 1000 St.init with
  | abort r => rw [hB] at h2; cases h2
  | ok a rB =>
    refine ⟨stA, rB, hA, rfl, ?_⟩
    apply incremental_eq_clean exE true exΓ ex_inj exHist _ devCfg (pApp "sources-v2" "b-app-2") 1000
      (fun _ => rfl) (ex_sem _ _) (ex_wf _ _) rfl rfl stA hA { cleanBuild := true } 1000 rB (fun h => by cases h) rfl rfl hB
    intro x hx
    simp only [exHist, List.mem_cons, List.mem_nil_iff, or_false] at hx
    rcases hx with rfl | rfl
    · exact ⟨fun _ => rfl, (ex_wf _ _).wf⟩
    · exact ⟨fun _ => rfl, (ex_wf _ _).wf⟩

/-- the same environment, except that the build script of `app` appends to what it finds in its
workspace (an incremental build that depends on stale content) -/
def exStateful : Env :=
  { exE with sem := fun sig w old ins =>
      if sig.tag = "b-app-1" then .ok (old ++ "+" ++ ",".intercalate ins) else exE.sem sig w old ins }

/-- **`Oblivious` is needed** ("deterministic scripts assumed" must include independence from stale
workspace content in develop mode): with a build script that depends on the old workspace content,
rebuilding after a source edit in the develop-mode workspace gives a different build result than a
from-scratch build - although every other hypothesis of `incremental_eq_clean` holds.  True of the
model and of the implementation alike (incremental build directories are a feature of `bob dev`). -/
theorem oblivious_needed :
    ((runHistory exStateful [(devCfg, pApp "sources-v1" "b-app-1", 1000), (devCfg, pApp "sources-v2" "b-app-1", 1000)]
        St.init).bind fun st => st.disk "build/app") ≠
    (invoke exStateful devCfg (pApp "sources-v2" "b-app-1") 1000 St.init).st.disk "build/app" := by
  decide +kernel

/-- ... and in release mode (`cleanBuild`) the same script is harmless: Bob empties the workspace -/
theorem clean_build_needs_no_oblivious :
    ((runHistory exStateful [({ cleanBuild := true }, pApp "sources-v1" "b-app-1", 1000),
        ({ cleanBuild := true }, pApp "sources-v2" "b-app-1", 1000)] St.init).bind fun st => st.disk "build/app") =
    (invoke exStateful { cleanBuild := true } (pApp "sources-v2" "b-app-1") 1000 St.init).st.disk "build/app" := by
  decide +kernel

end Example

end C01
