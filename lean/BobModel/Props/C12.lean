import BobModel.Proofs.C12Events
import BobModel.Proofs.C12Ops
import BobModel.Proofs.C12Conv
import BobModel.Proofs.C12Order
/-
C12 — Checkouts converge to the recipe and never destroy user work.

Property theorems about `Model/Checkout.lean` (directory level logic of `_cookCheckoutStep`,
`bob clean -s`, `bob clean --attic`) and `Model/GitSwitch.lean` (abstract git, `GitScm.switch/invoke/status`).
Helper lemmas are in `Proofs/C12*.lean`.
-/
namespace C12
open Checkout GitSwitch

variable {σ κ ι : Type}

/-! ## 1. no_delete_in_checkout -/

/-- **A checkout run never deletes.**  Whatever the old state, the new SCM list, the flags and the
SCM behaviour: the micro-ops a run of `_cookCheckoutStep` adds to the log are only `scmSwitch`,
`moveToAttic` to attic numbers of this run (`st0.nextAttic ≤ n < st'.nextAttic`), `regAttic`,
`setDirState`, `invoke`, and `emptyDir p` solely for the directory of an import SCM with `prune`
of the new list - never `rmAttic`/`rmWorkspace`.  The set of existing SCM directories after the run
is exactly the replay of these ops on the directories before (`emit`/`emitSet` are the only writers),
and attic numbers stay fresh. -/
theorem no_delete_in_checkout (sem : ScmSem σ κ) (fl : Flags) (indet : Bool) (new : List (NewEntry σ))
    (st0 : St σ κ) :
    st0.nextAttic ≤ (cook sem fl indet new st0).1.nextAttic ∧
    (AtticBelow st0 → AtticBelow (cook sem fl indet new st0).1) ∧
    ∃ added, (cook sem fl indet new st0).1.ops = added ++ st0.ops ∧
      locs (cook sem fl indet new st0).1.fs = replay added (locs st0.fs) ∧
      ∀ op, op ∈ added → Allowed sem new st0.nextAttic (cook sem fl indet new st0).1.nextAttic op :=
  ext_cook sem fl indet new st0

/-- the attic directory a move targets does not exist yet: the move is a rename to a fresh name -/
theorem attic_target_fresh (st : St σ κ) (hb : AtticBelow st) (e : Loc × κ) (he : e ∈ st.fs) :
    e.1.under (.attic st.nextAttic []) = false := by
  obtain ⟨l, k⟩ := e
  cases l with
  | ws p => rfl
  | attic n p =>
    have := hb n p k he
    simp only [Loc.under, Bool.and_eq_false_imp, beq_iff_eq]
    intro h; omega

/-- new checkouts go to paths that do not exist: when the collision check passes, the directory of
every new SCM that the old state does not know (other than ".") is absent from the workspace -/
theorem fresh_checkout_path_free (new : List (NewEntry σ)) (st : St σ κ) (h : collision new st = none)
    (n : NewEntry σ) (hn : n ∈ new) (hdot : n.dir ≠ ".") (hold : ∀ e, e ∈ st.old → e.dir ≠ n.dir) :
    existsWs st (normComps n.dir) = false := by
  unfold collision at h
  rw [List.find?_eq_none] at h
  have hmem : n.dir ∈ sortedNewDirs new := by
    unfold sortedNewDirs
    exact (List.mergeSort_perm _ _).mem_iff.mpr (List.mem_map.mpr ⟨n, hn, rfl⟩)
  have := h n.dir hmem
  simp only [Bool.and_eq_true, bne_iff_ne, ne_eq, Bool.not_eq_true', List.any_eq_false, beq_iff_eq,
    not_and, Bool.not_eq_true] at this
  exact this ⟨hdot, fun e he => hold e he⟩

/-- **The loop is top-down**: `checkoutsFromState` orders by path components, so no SCM directory is
visited before a directory it is nested in - whatever the names (fixed finding F-C12-3). -/
theorem checkouts_top_down (old : List (OldEntry σ)) :
    (sortedOld old).Pairwise (fun x y =>
      ¬ (isPrefix (normComps y.dir) (normComps x.dir) = true ∧ normComps y.dir ≠ normComps x.dir)) :=
  sortedOld_topdown old

/-- once a directory was moved to the attic, every directory at or below it is recognised as affected
(`AtticTracker`), so nested SCMs are dropped from the state and registered with their parent -/
theorem tracker_catches_nested (tr : List (Comps × Nat)) (p q : Comps) (n : Nat) (h : isPrefix p q = true) :
    (trackerMatch (trackerAdd tr p n) q).isSome = true := by
  unfold trackerMatch
  rw [List.find?_isSome]
  unfold trackerAdd
  split
  · rename_i hany
    rw [List.any_eq_true] at hany
    obtain ⟨e, he, hep⟩ := hany
    refine ⟨(p, n), List.mem_map.mpr ⟨e, he, by simp [hep]⟩, h⟩
  · exact ⟨(p, n), List.mem_append_right _ (List.mem_singleton.mpr rfl), h⟩

/-- the moved directory keeps every nested SCM directory: the contents are the same, only the
location changes (`os.rename`) -/
theorem move_keeps_contents (p : Comps) (n : Nat) (fs : List (Loc × κ)) :
    (applyOp fs (.moveToAttic p n : Op σ)).map (·.2) = fs.map (·.2) := by
  simp [applyOp, List.map_map, Function.comp_def]

example : ∃ (st : St Unit Nat), AtticBelow st ∧ st.fs ≠ [] :=
  ⟨{ fs := [(.attic 0 [], 7), (.ws ["a"], 1)], plain := [], wsMissing := false, old := [], atticReg := [],
     nextAttic := 1, ops := [] }, by
    intro n p k hm
    simp only [List.mem_cons, Prod.mk.injEq, Loc.attic.injEq, reduceCtorEq, false_and, List.mem_nil_iff,
      or_false] at hm
    show n < 1
    omega, by simp⟩

/-! ## 2. user_work_preserved -/

/-- **One checkout run keeps every work item**, for every old state, new SCM list, flag
combination and SCM outcome (switch succeeds, fails half way, is impossible, attic ...), given only
that SCM runs keep the items of a content (`SemKeeps`; proved for git below).  The single
exception is stated exactly: the item lay strictly below the directory of an import SCM with
`prune` (which empties its directory by design; the recipe parser rejects git SCMs there). -/
theorem build_preserves_user_work (sem : ScmSem σ κ) (work : κ → ι → Prop) (hs : SemKeeps sem work)
    (fl : Flags) (indet : Bool) (new : List (NewEntry σ)) (st0 : St σ κ) (i : ι)
    (h : Present work st0.fs i) :
    Present work (cook sem fl indet new st0).1.fs i ∨ PrunedBelow sem work new st0.fs i :=
  Present_of_J _ (J_cook hs fl indet st0 (J_init st0 h))

/-- without pruning import SCMs nothing is ever lost by a checkout run -/
theorem build_preserves_user_work_noprune (sem : ScmSem σ κ) (work : κ → ι → Prop) (hs : SemKeeps sem work)
    (fl : Flags) (indet : Bool) (new : List (NewEntry σ)) (st0 : St σ κ) (i : ι)
    (hp : ∀ n, n ∈ new → sem.prunes n.spec = false)
    (h : Present work st0.fs i) : Present work (cook sem fl indet new st0).1.fs i := by
  rcases build_preserves_user_work sem work hs fl indet new st0 i h with h1 | ⟨n, hn, hpr, _⟩
  · exact h1
  · rw [hp n hn] at hpr; cases hpr

/-- The property as stated: after any history of builds (each with its own recipe SCM list, flags
and SCM/upstream behaviour), `bob clean -s`, `bob clean --attic` and other actions that do not
remove the item themselves, every work item is still present.  NOT asserted in this generality: the
model's file system may hold checkouts that Bob has no record of (see `user_work_preserved_partial`). -/
def user_work_preserved_goal (work : κ → ι → Prop) : Prop :=
  ∀ (h : List (Event σ κ)) (st : St σ κ) (i : ι), (∀ ev, ev ∈ h → EvOk work ev) →
    (∀ f st', Event.other f ∈ h → Present work st'.fs i → Present work (f st').fs i) →
    Present work st.fs i → Present work (run h st).fs i

/-- **User work survives every history** of recipe SCM edits and upstream moves (both are the
parameters of the following `build` events), user actions (`other`), `bob dev [--clean-checkout]
[--no-attic]`, `bob clean -s [--dry-run]`, `bob clean --attic [--dry-run]`.
Added hypothesis `NoLoss`: at no event of the history one of the three exactly described loss
conditions holds (`Lost`): item below a pruning import SCM (`PrunedBelow`); the item lies below an
attic directory selected by `bob clean --attic` in a directory that is not a registered attic SCM
(`UnregisteredInDeletable`); `bob clean -s` on a workspace with a checkout outside the directory
state (`UntrackedWs`); or the user removes the item.  Registered SCM directories - in the workspace or
in the attic, nested or not - never lose anything. -/
theorem user_work_preserved_partial (work : κ → ι → Prop) (h : List (Event σ κ)) (st : St σ κ) (i : ι)
    (hok : ∀ ev, ev ∈ h → EvOk work ev) (hnl : NoLoss work h st i) (hp : Present work st.fs i) :
    Present work (run h st).fs i :=
  history_present work h st i hok hnl hp

/-- every single event either keeps the item or its loss condition holds (no other way to lose) -/
theorem event_preserves_or_lost (work : κ → ι → Prop) (ev : Event σ κ) (hok : EvOk work ev) (st : St σ κ)
    (i : ι) (h : Present work st.fs i) : Present work (runEv ev st).fs i ∨ Lost work ev st i :=
  step_present work ev hok st i h

/-! ### the git instance: `SemKeeps` and `ExpClean` hold under `GitContract` -/

/-- what a user can make in a clone -/
inductive Item
  | dirty (p : GitSwitch.Path) (b : Blob)
  | untracked (p : GitSwitch.Path) (b : Blob)
  | commit (c : Commit)

def repoWork (D : Dag) (U : Commit → Prop) (r : Repo) : Item → Prop
  | .dirty p b => (p, b) ∈ r.dirty
  | .untracked p b => (p, b) ∈ r.untracked
  | .commit c => U c ∧ LocalHeld D r c

theorem safe_work {D : Dag} {U : Commit → Prop} {r r' : Repo} (h : Safe D U r r') (i : Item)
    (hw : repoWork D U r i) : repoWork D U r' i := by
  cases i with
  | dirty p b => simp only [repoWork] at hw ⊢; rw [h.1]; exact hw
  | untracked p b => simp only [repoWork] at hw ⊢; rw [h.2.1]; exact hw
  | commit c => exact ⟨hw.1, h.2.2 c hw.1 hw.2⟩

/-- **`GitScm.switch` keeps user work** - dirty and untracked paths and every user-created commit
held by a local branch or the detached HEAD - whether it succeeds or fails half way (then the
directory goes to the attic as it is).  In particular it never resets over an unpushed commit. -/
theorem git_switch_preserves_work {D : Dag} {U : Commit → Prop} {ops : GitOps} (hc : GitContract D U ops)
    (hU : UpClosed D U) (old new : GitSpec) (r : Repo) (ho : SpecUp U old) (hn : SpecUp U new)
    (hup : RefsUpstream U r) (i : Item) (hw : repoWork D U r i) :
    repoWork D U (switchAct ops old new r).1 i ∧ RefsUpstream U (switchAct ops old new r).1 :=
  ⟨safe_work (good_switchAct hc hU old new r ho hn hup).1 i hw, (good_switchAct hc hU old new r ho hn hup).2 hup⟩

/-- **`GitScm.invoke` on an existing clone keeps user work** (the update of an unchanged SCM) -/
theorem git_update_preserves_work {D : Dag} {U : Commit → Prop} {ops : GitOps} (hc : GitContract D U ops)
    (hU : UpClosed D U) (s : GitSpec) (r : Repo) (hup : RefsUpstream U r) (i : Item) (hw : repoWork D U r i) :
    repoWork D U (invokeAct ops s false r).1 i ∧ RefsUpstream U (invokeAct ops s false r).1 :=
  ⟨safe_work (good_updateAct hc hU s r hup).1 i hw, (good_updateAct hc hU s r hup).2 hup⟩

/-- the "Current state would be lost" guard is what makes `reset --keep` safe: with the guard
passed, the reset keeps every user commit -/
theorem git_guarded_reset_safe {D : Dag} {U : Commit → Prop} {ops : GitOps} (hc : GitContract D U ops)
    (hU : UpClosed D U) (b : Name) (c : Commit) (r : Repo) (hb : r.head = .branch b)
    (hup : RefsUpstream U r) (hg : guardOk ops b r = true) (i : Item) (hw : repoWork D U r i) :
    repoWork D U ((lift (ops.resetKeep c)) r).1 i :=
  safe_work (good_reset hc hU b c r hb hup hg).1 i hw

/-- the contract is satisfiable: the executable git model that the harness compares with git 2.39
satisfies it (for every universe whose upstream refs name upstream commits) -/
theorem model_git_satisfies_contract (D : Dag) (U : Commit → Prop) (univ : List (String × Upstream))
    (hu : UnivUp U univ) : GitContract D U (modelOps D univ) :=
  modelOps_contract univ hu

/-- git clones whose remote refs and tags name upstream commits / specs that name upstream commits -/
abbrev GoodRepo (U : Commit → Prop) := { r : Repo // RefsUpstream U r }
abbrev GoodSpec (U : Commit → Prop) := { s : GitSpec // SpecUp U s }

theorem refs_init (U : Commit → Prop) : RefsUpstream U Repo.init := by
  constructor <;> intro n c h <;> simp [Repo.init] at h

/-- the git SCM as the builder sees it -/
def gitSem (D : Dag) (U : Commit → Prop) (ops : GitOps) (hc : GitContract D U ops) (hU : UpClosed D U) :
    ScmSem (GoodSpec U) (GoodRepo U) where
  canSwitch o n := canSwitch o.1 n.1
  switch o n k := (⟨(switchAct ops o.1 n.1 k.1).1, (good_switchAct hc hU o.1 n.1 k.1 o.2 n.2 k.2).2 k.2⟩,
                   (switchAct ops o.1 n.1 k.1).2)
  invoke s k :=
    match k with
    | some k => (⟨(invokeAct ops s.1 false k.1).1, (good_updateAct hc hU s.1 k.1 k.2).2 k.2⟩,
                 (invokeAct ops s.1 false k.1).2)
    | none => (⟨(invokeAct ops s.1 false Repo.init).1,
                 (good_updateAct hc hU s.1 Repo.init (refs_init U)).2 (refs_init U)⟩,
               (invokeAct ops s.1 false Repo.init).2)
  dirty s k := match k with | some k => (status D s.1 false k.1).dirty | none => true
  expendable s k := match k with | some k => (status D s.1 false k.1).expendable | none => false
  prunes _ := false

theorem gitSem_keeps (D : Dag) (U : Commit → Prop) (ops : GitOps) (hc : GitContract D U ops) (hU : UpClosed D U) :
    SemKeeps (gitSem D U ops hc hU) (fun k i => repoWork D U k.1 i) where
  switch_keeps := fun o n k i hw => safe_work (good_switchAct hc hU o.1 n.1 k.1 o.2 n.2 k.2).1 i hw
  invoke_keeps := fun s k i hw => safe_work (good_updateAct hc hU s.1 k.1 k.2).1 i hw

theorem gitSem_expClean (D : Dag) (U : Commit → Prop) (ops : GitOps) (hc : GitContract D U ops) (hU : UpClosed D U) :
    ExpClean (gitSem D U ops hc hU) (fun k i => repoWork D U k.1 i) := by
  intro s k i he hw
  simp only [gitSem] at he
  obtain ⟨hd, hu, hc'⟩ := expendable_no_work hU s.1 false k.1 k.2 he
  cases i with
  | dirty p b => simp [repoWork, hd] at hw
  | untracked p b => simp [repoWork, hu] at hw
  | commit c => exact hc' c hw.2 hw.1

/-- **user work in git source workspaces survives a build**, under `GitContract`: dirty files,
untracked files and user-created commits held by a local ref are afterwards in the workspace or in
an attic directory (git SCMs never prune) -/
theorem git_build_preserves_user_work (D : Dag) (U : Commit → Prop) (ops : GitOps) (hc : GitContract D U ops)
    (hU : UpClosed D U) (fl : Flags) (indet : Bool) (new : List (NewEntry (GoodSpec U)))
    (st0 : St (GoodSpec U) (GoodRepo U)) (i : Item)
    (h : Present (fun k i => repoWork D U k.1 i) st0.fs i) :
    Present (fun k i => repoWork D U k.1 i) (cook (gitSem D U ops hc hU) fl indet new st0).1.fs i :=
  build_preserves_user_work_noprune _ _ (gitSem_keeps D U ops hc hU) fl indet new st0 i (fun _ _ => rfl) h

/-! ## 3. converges -/

/-- **A successful run of the checkout step converges.**  SCM contract `ScmConv`: running an SCM on
nothing or on an untouched checkout yields the fresh checkout of its spec (the identity or a fast
forward to upstream); a successful inline switch of an untouched checkout yields the fresh checkout of
the new spec.  Hypotheses: equal digests mean that an untouched checkout of the old spec is one of the
new spec; the new SCM directories are pairwise different; an import SCM with `prune` has no SCM below
it; deterministic SCMs are immutable (`hdet`: an untouched checkout is the fresh one - needed only
when the step is skipped).  Then from any consistent untouched workspace (`WsGood`, every state entry
has its directory) with whatever old state - changed, removed, nested, moved, `--clean-checkout`
invalidated SCMs, attic moves, failed switches - a run that reports no error leaves: every SCM
directory of the new list with exactly the fresh checkout of its spec, no other SCM directory in the
workspace proper (removed SCMs are gone), a state that records the new list, and again a consistent
untouched workspace. -/
theorem converges {Unt : σ → κ → Prop} {fresh : σ → κ} {sem : ScmSem σ κ} {new : List (NewEntry σ)}
    (hc : ScmConv sem fresh Unt)
    (hdig : ∀ (e : OldEntry σ) n, n ∈ new → e.dir = n.dir → e.digest = some n.digest →
      ∀ s k, e.spec = some s → Unt s k → Unt n.spec k)
    (hpw : new.Pairwise (fun a b => normComps a.dir ≠ normComps b.dir))
    (hprune : ∀ n, n ∈ new → sem.prunes n.spec = true → ∀ m, m ∈ new →
      isPrefix (normComps n.dir) (normComps m.dir) = true → m = n)
    (fl : Flags) (indet : Bool) (hdet : indet = false → ∀ s k, Unt s k → k = fresh s)
    (st0 : St σ κ) (hW : WsGood Unt st0)
    (hfull : ∀ e, e ∈ st0.old → ∃ k, (Loc.ws (normComps e.dir), k) ∈ st0.fs)
    (hok : (cook sem fl indet new st0).2 = none) :
    (∀ n, n ∈ new → contentAt (cook sem fl indet new st0).1.fs (.ws (normComps n.dir)) = some (fresh n.spec)) ∧
    (∀ p k, (Loc.ws p, k) ∈ (cook sem fl indet new st0).1.fs → ∃ n, n ∈ new ∧ normComps n.dir = p) ∧
    (∀ e, e ∈ (cook sem fl indet new st0).1.old → ∃ n, n ∈ new ∧ e.dir = n.dir ∧ e.digest = some n.digest) ∧
    WsGood Unt (cook sem fl indet new st0).1 :=
  let h := cook_converges hc hdig hpw hprune fl indet hdet st0 hW hfull hok
  ⟨h.contents, h.only, h.state, h.good⟩

/-- **After any history** of recipe SCM edits and upstream moves (each build has its own SCM list,
flags, SCM behaviour and notion of "fresh") with successful builds in between, an untouched source
workspace equals a fresh checkout of the final specification: every SCM directory of the last list
holds the fresh checkout (as of the last build), and no directory of a removed SCM remains. -/
theorem converges_history {Unt : σ → κ → Prop} (bs : List (Build σ κ)) (st : St σ κ) (hW : WsGood Unt st)
    (hfull : ∀ e, e ∈ st.old → ∃ k, (Loc.ws (normComps e.dir), k) ∈ st.fs)
    (hok : ∀ b, b ∈ bs → BuildOk Unt b) (hall : AllOk bs st) (b : Build σ κ) (hb : bs.getLast? = some b) :
    (∀ n, n ∈ b.new → contentAt (runBuilds bs st).fs (.ws (normComps n.dir)) = some (b.fresh n.spec)) ∧
    (∀ p k, (Loc.ws p, k) ∈ (runBuilds bs st).fs → ∃ n, n ∈ b.new ∧ normComps n.dir = p) :=
  let h := builds_converge bs st hW hfull hok hall b hb
  ⟨h.contents, h.only⟩

/-- the hypotheses are satisfiable: contents = the spec they were checked out from, starting from
the project before the first build (no workspace yet, one attic directory left from earlier) -/
example : ∃ (sem : ScmSem Nat Nat) (fresh : Nat → Nat) (Unt : Nat → Nat → Prop),
    ScmConv sem fresh Unt ∧ WsGood Unt (σ := Nat)
      { fs := [(.attic 0 [], 3)], plain := [], wsMissing := true, old := [],
        atticReg := [((0, []), some 3)], nextAttic := 1, ops := [] } :=
  ⟨{ canSwitch := fun _ _ => true, switch := fun _ n _ => (n, true), invoke := fun s _ => (s, true),
     dirty := fun _ _ => false, expendable := fun _ _ => true, prunes := fun _ => false },
   id, fun s k => k = s,
   ⟨fun _ => rfl, fun _ => rfl, fun _ _ _ => rfl, fun _ _ _ _ _ => rfl⟩,
   ⟨(by intro p k hm; simp at hm), (by simp [locs]), (by intro _ p k hm; simp at hm), (by simp),
    (by
      intro n p k hm
      simp only [List.mem_singleton, Prod.mk.injEq, Loc.attic.injEq] at hm
      show n < 1
      omega)⟩⟩

/-! ## 4. clean_src_expendable_only -/

/-- `--dry-run` removes nothing -/
theorem clean_dry_run (sem : ScmSem σ κ) (st : St σ κ) :
    cleanSrc sem true st = st ∧ cleanAttic sem true st = st :=
  ⟨cleanSrc_unchanged sem true st (Or.inl rfl), rfl⟩

/-- **`bob clean -s` without `--force` removes a source workspace only if every SCM of its
directory state reports `expendable`** (status known, spec known); otherwise nothing changes -/
theorem clean_src_expendable_only (sem : ScmSem σ κ) (dry : Bool) (st : St σ κ)
    (h : cleanSrc sem dry st ≠ st) :
    dry = false ∧ ∀ e, e ∈ st.old → ∃ s, e.spec = some s ∧
      sem.expendable s (contentAt st.fs (.ws (normComps e.dir))) = true := by
  have hd : dry = false := by
    cases dry with
    | false => rfl
    | true => exact absurd (cleanSrc_unchanged sem true st (Or.inl rfl)) h
  have he : srcExpendable sem st = true := by
    cases hs : srcExpendable sem st with
    | true => rfl
    | false => exact absurd (cleanSrc_unchanged sem dry st (Or.inr hs)) h
  refine ⟨hd, ?_⟩
  intro e hm
  unfold srcExpendable at he
  rw [List.all_eq_true] at he
  have := he e hm
  cases hsp : e.spec with
  | none => simp [hsp] at this
  | some s => exact ⟨s, rfl, by simpa [hsp] using this⟩

/-- with git: an expendable clone holds no user work, so `bob clean -s` only removes workspaces
whose registered git SCMs are free of dirty/untracked paths and locally held user commits -/
theorem git_expendable_no_work {D : Dag} {U : Commit → Prop} (hU : UpClosed D U) (s : GitSpec) (extra : Bool)
    (r : Repo) (hup : RefsUpstream U r) (h : (status D s extra r).expendable = true) (i : Item) :
    ¬ repoWork D U r i := by
  obtain ⟨hd, hu, hc⟩ := expendable_no_work hU s extra r hup h
  cases i with
  | dirty p b => simp [repoWork, hd]
  | untracked p b => simp [repoWork, hu]
  | commit c => exact fun hw => hc c hw.2 hw.1

/-- the `ScmStatus.expendable` table: expendable iff none of modified, error, switched,
unpushed_main, unpushed_local, unknown is set -/
theorem expendable_table (t : Taints) :
    t.expendable = true ↔ (t.modified = false ∧ t.error = false ∧ t.switched = false ∧
      t.unpushedMain = false ∧ t.unpushedLocal = false ∧ t.unknown = false) := by
  cases t with
  | mk m e s um ul uk =>
    cases m <;> cases e <;> cases s <;> cases um <;> cases ul <;> cases uk <;>
      simp [Taints.expendable, Taints.dirty, Taints.has, Consts.C12.dirtyTaints, Consts.C12.notExpendableTaints]

/-- an inline switch never changes the directory of an SCM: `dir` is not among the properties
`GitScm.canSwitch` accepts (re-checked against the sets extracted from the current source) -/
theorem canSwitch_keeps_dir (old new : GitSpec) (h : GitSwitch.canSwitch old new = true) : old.dir = new.dir := by
  by_contra hne
  have hd : (old.dir != new.dir) = true := by simpa using hne
  unfold GitSwitch.canSwitch at h
  simp only [hd, if_true] at h
  revert h
  cases (old.url != new.url) <;> cases (old.branch != new.branch) <;> cases (old.tag != new.tag) <;>
    cases (old.commit != new.commit) <;> cases (old.useBranchAndCommit != new.useBranchAndCommit) <;>
    cases (old.submodules != new.submodules && !(!old.submodules && new.submodules)) <;>
    simp [Consts.C12.gitIgnoredProps, Consts.C12.gitSwitchable]

/-- the git commands that move a branch or HEAD of an existing clone are the ones the model
(`GitOps`) talks about: `reset --keep` behind the "would be lost" guard, `merge --ff-only`, plain
`checkout` / `checkout -b` (no `--force`, no `--hard`, no `clean`), and `switch` refuses a moved
detached HEAD.  Extracted from the current source on every run. -/
theorem git_commands_as_modelled :
    Consts.C12.resetCmd = ["git", "reset", "--keep"] ∧
    Consts.C12.forwardCmd = ["git", "merge", "--ff-only", "refs/remotes/origin/"] ∧
    Consts.C12.moverWords = ["--ff-only", "--keep", "--no-recurse-submodules", "--onto", "-b", "-c", "-q",
      "checkout", "merge", "rebase", "reset"] ∧
    Consts.C12.lostGuard = true ∧ Consts.C12.switchRefusals.length = 2 := by
  decide

/-- **`bob clean --attic` without `--force` removes a registered attic SCM directory only if the
SCM it is registered with reports `expendable`** - also when it is removed as part of a parent
attic directory (nested SCMs go to the attic with their parent and are registered separately;
fixed findings F-C12-1, F-C12-2). -/
theorem clean_attic_expendable_only (sem : ScmSem σ κ) (st : St σ κ) (n : Nat) (sub : Comps) (s : σ) (k : κ)
    (hreg : ((n, sub), some s) ∈ st.atticReg) (hm : (Loc.attic n sub, k) ∈ st.fs)
    (hrm : (Loc.attic n sub, k) ∉ (cleanAttic sem false st).fs) :
    sem.expendable s (contentAt st.fs (.attic n sub)) = true := by
  by_cases hcov : ∃ key, key ∈ atticDeletable sem st ∧ (Loc.attic n sub).under (.attic key.1 key.2) = true
  · obtain ⟨key, hkey, hu⟩ := hcov
    have hpres : atticPresent st (n, sub) = true := by
      unfold atticPresent
      rw [List.any_eq_true]
      exact ⟨(.attic n sub, k), hm, under_refl _⟩
    have hbel : regBelow key (n, sub) = true := by simpa [regBelow, Loc.under] using hu
    have := atticDeletable_expendable sem st key hkey ((n, sub), some s) hreg hpres hbel
    simpa [regExpendable] using this
  · exfalso
    apply hrm
    apply cleanAttic_keeps sem st _ hm
    intro key hkey
    cases hu : (Loc.attic n sub).under (.attic key.1 key.2) with
    | false => rfl
    | true => exact absurd ⟨key, hkey, hu⟩ hcov

/-- whatever `bob clean --attic` removes lies at or below a selected attic directory, and everything
registered at or below a selected directory is expendable -/
theorem clean_attic_selection (sem : ScmSem σ κ) (st : St σ κ) :
    (∀ e, e ∈ st.fs → (∀ k, k ∈ atticDeletable sem st → e.1.under (.attic k.1 k.2) = false) →
        e ∈ (cleanAttic sem false st).fs) ∧
    (∀ k, k ∈ atticDeletable sem st → ∀ e', e' ∈ st.atticReg → atticPresent st e'.1 = true →
        regBelow k e'.1 = true → regExpendable sem st e' = true) :=
  ⟨fun e he hk => cleanAttic_keeps sem st e he hk, fun k hk => atticDeletable_expendable sem st k hk⟩

end C12
