import BobModel.Proofs.C16Dirs
import BobModel.Proofs.C16Clean
/-
C16 — Workspace directories separate variants; clean removes only garbage.

Theorems about the models `Model/Dirs.lean` (DevelopDirOracle, by-name counters) and
`Model/Clean.lean` (collectPaths, doClean, the prune decision of the builder).
Only statements that mention the property live here; helper lemmas are in Proofs/C16*.lean.
-/
namespace C16
open BobDirs BobClean

/-! ## develop mode: `DevelopDirOracle` -/

/-- The key `recipeName ++ variantId` identifies recipe and variant: variant ids have a fixed
length (20 bytes), so the undelimited concatenation is uniquely decodable. -/
theorem key_injective {α : Type} (r r' v v' : List α) (hlen : v.length = v'.length)
    (h : mkKey r v = mkKey r' v') : r = r' ∧ v = v' :=
  List.append_inj' h hlen

/-- `__writeBack` always terminates and never fails: the model's fuel for the `while True` loop is
sufficient, so every history of refreshes produces a table. -/
theorem refresh_total (t0 : Table) (hist : List (List (Key × Str))) : ∃ t, run t0 hist = some t := by
  have := run_isSome t0 hist
  cases h : run t0 hist with
  | none => rw [h] at this; cases this
  | some t => exact ⟨t, rfl⟩

/-- **dirs_injective**: after ANY sequence of refreshes starting from the empty table no two keys
map to the same directory (and the table is a function, i.e. no `INSERT` hits the primary key).
The only hypothesis: within one refresh no two base directories differ just by a trailing `/`
(`os.path.join` would identify them). -/
theorem dirs_injective (hist : List (List (Key × Str))) (t : Table)
    (htwin : ∀ v ∈ hist, NoTwin (v.map (·.2))) (h : run [] hist = some t)
    (k k' : Key) (p : Str) (hk : fmtReady t k = some p) (hk' : fmtReady t k' = some p) : k = k' := by
  have wf := run_wf wf_nil htwin h
  have e := List.inj_on_of_nodup_map wf.2 (lookup_some_mem hk) (lookup_some_mem hk') rfl
  exact congrArg Prod.fst e

/-- the same for the table as stored: keys and directories are both duplicate free -/
theorem dirs_table_wellformed (hist : List (List (Key × Str))) (t : Table)
    (htwin : ∀ v ∈ hist, NoTwin (v.map (·.2))) (h : run [] hist = some t) :
    (t.map (·.1)).Nodup ∧ (t.map (·.2)).Nodup :=
  run_wf wf_nil htwin h

/-- **two steps share a directory only if recipe name and Variant-Id agree** (develop mode),
for every history of recipe edits. -/
theorem develop_same_dir_same_variant (hist : List (List (Key × Str))) (t : Table)
    (htwin : ∀ v ∈ hist, NoTwin (v.map (·.2))) (h : run [] hist = some t)
    (recipe recipe' vid vid' : Str) (hlen : vid.length = vid'.length) (p : Str)
    (hk : runnable (fmtReady t (mkKey recipe vid)) = some p)
    (hk' : runnable (fmtReady t (mkKey recipe' vid')) = some p) : recipe = recipe' ∧ vid = vid' := by
  unfold runnable at hk hk'
  simp only [Option.map_eq_some_iff] at hk hk'
  obtain ⟨d, hd, hp⟩ := hk
  obtain ⟨d', hd', hp'⟩ := hk'
  have hsh := run_shaped (t0 := []) (by intro x hx; cases hx) h
  obtain ⟨b1, n1, e1⟩ := hsh _ (lookup_some_mem hd)
  obtain ⟨b2, n2, e2⟩ := hsh _ (lookup_some_mem hd')
  simp only at e1 e2
  have hdd : d = d' := by
    rw [e1, e2]
    apply workspace_inj
    rw [← e1, ← e2]
    exact hp.trans hp'.symm
  subst hdd
  exact key_injective _ _ _ _ hlen (dirs_injective hist t htwin h _ _ d hd hd')

/-- every step that was visited by the traversal has a directory once the oracle is ready
(the `assert path is not None` of `__fmt` cannot fire for a visited step) -/
theorem visited_has_dir (old : Table) (visits : List (Key × Str)) (t : Table)
    (h : refresh old visits = some t) (v : Key × Str) (hv : v ∈ visits) : (fmtReady t v.1).isSome :=
  lookup_isSome_of_mem (refresh_visited h hv)

/-- the base directory with which a key is seen first in the traversal -/
def firstBase (visits : List (Key × Str)) (k : Key) : Option Str :=
  (visits.find? (fun v => v.1 == k)).map (·.2)

/-- **existing_keeps_dir**: across every refresh (hence along every history) a key that is still
visited and whose stored directory still starts with its base directory keeps its directory. -/
theorem existing_keeps_dir (hist : List (List (Key × Str))) (visits : List (Key × Str)) (old t : Table)
    (htwin : ∀ v ∈ hist, NoTwin (v.map (·.2))) (hold : run [] hist = some old)
    (h : refresh old visits = some t)
    (k : Key) (p b : Str) (hk : fmtReady old k = some p) (hb : firstBase visits k = some b)
    (hpre : b.isPrefixOf p = true) : fmtReady t k = some p := by
  have wfold := run_wf wf_nil htwin hold
  unfold firstBase at hb
  simp only [Option.map_eq_some_iff] at hb
  obtain ⟨⟨k0, b0⟩, hfind, hb0⟩ := hb
  simp only at hb0; subst hb0
  obtain ⟨hk0, pre, post, hsplit, hnot⟩ := List.find?_eq_some_iff_append.mp hfind
  have hk0' : k0 = k := by simpa using hk0
  subst hk0'
  have hpre' : k0 ∉ pre.map (·.1) := by
    intro hm
    obtain ⟨x, hx, hxe⟩ := List.mem_map.mp hm
    have := hnot x hx
    simp [hxe] at this
  have hmem := first_visit_kept old pre post k0 b0 p hpre' hk hpre
  rw [← hsplit] at hmem
  obtain ⟨r, _, rfl⟩ := refresh_shape h
  -- keys of the new table are duplicate free without any hypothesis on the base directories
  have inv := collInv_collect old visits
  obtain ⟨r', hr', e⟩ := refresh_shape h
  have hkeys : (((collect old visits).known ++ r).map (·.1)).Nodup := by
    have e' : r = r' := List.append_cancel_left e
    rw [List.map_append, e', numberAll_keys hr']
    exact inv.keysNodup
  exact lookup_of_mem_nodup hkeys (List.mem_append_left _ hmem)

/-- hypotheses of the theorems above are satisfiable by a non-trivial history: two recipes with
an identical step (same variant id `ff`), a re-added variant, a virtual root whose base directory
ends in `/`, and a kept entry next to a newly numbered one. -/
example :
    let v1 : List (Key × Str) := [("libaa".toList, "dev/build/lib".toList), ("libbb".toList, "dev/build/lib".toList),
      ("toolaa".toList, "dev/build/tool".toList), ("cc".toList, "dev/dist/".toList)]
    let v2 : List (Key × Str) := [("libbb".toList, "dev/build/lib".toList), ("libcc".toList, "dev/build/lib".toList),
      ("cc".toList, "dev/dist/".toList)]
    (∀ v ∈ [v1, v2], NoTwin (v.map (·.2))) ∧
    run [] [v1, v2] = some [("libbb".toList, "dev/build/lib/2".toList), ("cc".toList, "dev/dist/1".toList),
      ("libcc".toList, "dev/build/lib/1".toList)] := by
  refine ⟨?_, by decide⟩
  intro v hv
  simp only [List.mem_cons, List.not_mem_nil, or_false] at hv
  rcases hv with rfl | rfl <;> (intro b hb b' hb' e; revert e; revert hb' b'; revert hb b; decide)

/-! ## release mode: the by-name counters of `BobState` -/

/-- digests are no base directory names (hex digests contain no `/`, base directories start with `work/`) -/
def Separated (calls : List Call) : Prop := ∀ c ∈ calls, ∀ c' ∈ calls, c.digest ≠ c'.base

/-- with separated digests/base directories no `getByNameDirectory` call can fail -/
theorem byname_total (calls : List Call) (hsep : Separated calls)
    (htwin : NoTwin (calls.map (·.base))) : ∃ s ps, runCalls [] calls = .ok (s, ps) := by
  obtain ⟨s, ps, h, _⟩ := runCalls_binv (B := calls.map (·.base)) (D := calls.map (·.digest)) htwin
    (by
      intro d hd hb
      obtain ⟨c, hc, rfl⟩ := List.mem_map.mp hd
      obtain ⟨c', hc', e⟩ := List.mem_map.mp hb
      exact hsep c hc c' hc' e.symm)
    (fun c hc => List.mem_map_of_mem hc) (fun c hc => List.mem_map_of_mem hc) (binv_nil _ _)
  exact ⟨s, ps, h⟩

/-- **byname_injective**: after any sequence of `getByNameDirectory` calls from the empty state two
digests (Variant-Ids) that own the same directory are equal — release mode shares a workspace
only between steps with the same Variant-Id. -/
theorem byname_injective (calls : List Call) (hsep : Separated calls)
    (htwin : NoTwin (calls.map (·.base))) (s : ByName) (ps : List Str)
    (h : runCalls [] calls = .ok (s, ps)) (d d' p : Str)
    (hd : getExisting s d = .ok (some p)) (hd' : getExisting s d' = .ok (some p)) : d = d' := by
  obtain ⟨s', ps', h', inv⟩ := runCalls_binv (B := calls.map (·.base)) (D := calls.map (·.digest)) htwin
    (by
      intro d hd hb
      obtain ⟨c, hc, rfl⟩ := List.mem_map.mp hd
      obtain ⟨c', hc', e⟩ := List.mem_map.mp hb
      exact hsep c hc c' hc' e.symm)
    (fun c hc => List.mem_map_of_mem hc) (fun c hc => List.mem_map_of_mem hc) (binv_nil _ _)
  rw [h] at h'; cases h'
  unfold getExisting at hd hd'
  split at hd <;> try cases hd
  split at hd' <;> try cases hd'
  rename_i f1 h1 _ f2 h2
  exact inv.inj d d' p f1 f2 h1 h2

/-- the directory returned by a call is the one recorded for its digest -/
theorem byname_returns (s s' : ByName) (c : Call) (q : Str)
    (h : getByName s c.base c.digest c.isSrc = .ok (s', q)) : getExisting s' c.digest = .ok (some q) := by
  obtain ⟨f, hf⟩ := getByName_returns h
  simp [getExisting, hf]

/-- **byname_stable**: once a Variant-Id has a directory it keeps it over every later sequence of
calls (for arbitrary other digests and base directories that are not that digest string). -/
theorem byname_stable (s s' : ByName) (calls : List Call) (ps : List Str) (d p : Str)
    (hd : getExisting s d = .ok (some p)) (hbase : ∀ c ∈ calls, c.base ≠ d)
    (h : runCalls s calls = .ok (s', ps)) : getExisting s' d = .ok (some p) := by
  unfold getExisting at hd
  split at hd <;> try cases hd
  rename_i f hl
  have := runCalls_stable h hl hbase
  simp [getExisting, this]

example :
    let calls : List Call := [⟨"work/a/dist".toList, "d1".toList, false⟩, ⟨"work/a/dist".toList, "d2".toList, false⟩,
      ⟨"work/a/src".toList, "d3".toList, true⟩, ⟨"work/b/dist".toList, "d1".toList, false⟩]
    Separated calls ∧ NoTwin (calls.map (·.base)) ∧
    (runCalls [] calls).toOption.map (·.2) = some ["work/a/dist/1".toList, "work/a/dist/2".toList,
      "work/a/src/1".toList, "work/a/dist/1".toList] := by
  refine ⟨?_, ?_, by decide⟩
  · intro c hc c' hc'; revert hc' c'; revert hc c; decide
  · intro b hb b' hb' e; revert e; revert hb' b'; revert hb b; decide

/-! ## `bob clean` -/

/-- path `d` is the workspace of a step of package `p` and what is recorded for `d` (if anything)
is that step's variant: checkout workspaces always, build/package workspaces when the stored
digest is absent or equal to the step's Variant-Id. -/
def Belongs (st : States) (p : Pkg) (d : Str) : Prop :=
  (p.checkout.valid = true ∧ p.checkout.path = some d) ∨
  (p.build.valid = true ∧ p.build.path = some d ∧
    (lookup st d = none ∨ lookup st d = some (.build p.build.vid))) ∨
  (p.package.path = some d ∧ (lookup st d = none ∨ lookup st d = some (.pkg p.package.vid)))

theorem belongs_iff (st : States) (p : Pkg) (d : Str) : Belongs st p d ↔ d ∈ pathsOf st p := by
  obtain ⟨id, ⟨cv, cp, cvid⟩, ⟨bv, bp, bvid⟩, ⟨pv, pp, pvid⟩, deps⟩ := p
  unfold Belongs pathsOf
  simp only [List.mem_append]
  have e1 : (cv = true ∧ cp = some d) ↔ d ∈ (if cv = true then cp.toList else []) := by
    cases cv <;> cases cp <;> simp [eq_comm]
  have e2 : (bv = true ∧ bp = some d ∧ (lookup st d = none ∨ lookup st d = some (.build bvid))) ↔
      d ∈ (if bv = true then
        match bp with
        | some q => if buildUsed st ⟨bv, bp, bvid⟩ q = true then [q] else []
        | none => []
      else []) := by
    cases bv
    · simp
    · cases bp with
      | none => simp
      | some q =>
        simp only [if_true, true_and, Option.some.injEq]
        by_cases hu : buildUsed st ⟨true, some q, bvid⟩ q = true
        · simp only [hu, if_true, List.mem_singleton]
          constructor
          · rintro ⟨h, _⟩; exact h.symm
          · intro h; subst h; exact ⟨rfl, (buildUsed_iff _ _ _).mp hu⟩
        · simp only [hu, Bool.false_eq_true, if_false, List.not_mem_nil, iff_false, not_and]
          intro h h'; subst h; exact hu ((buildUsed_iff st ⟨true, some q, bvid⟩ q).mpr h')
  have e3 : (pp = some d ∧ (lookup st d = none ∨ lookup st d = some (.pkg pvid))) ↔
      d ∈ (match pp with
        | some q => if pkgUsed st ⟨pv, pp, pvid⟩ q = true then [q] else []
        | none => []) := by
    cases pp with
    | none => simp
    | some q =>
      simp only [Option.some.injEq]
      by_cases hu : pkgUsed st ⟨pv, some q, pvid⟩ q = true
      · simp only [hu, if_true, List.mem_singleton]
        constructor
        · rintro ⟨h, _⟩; exact h.symm
        · intro h; subst h; exact ⟨rfl, (pkgUsed_iff _ _ _).mp hu⟩
      · simp only [hu, Bool.false_eq_true, if_false, List.not_mem_nil, iff_false, not_and]
        intro h h'; subst h; exact hu ((pkgUsed_iff st ⟨pv, some q, pvid⟩ q).mpr h')
  rw [e1, e2, e3]
  exact or_assoc.symm

/-- `collectPaths` returns exactly the workspaces that belong to a package reachable from the
root package over `getDirectDepSteps()` (tools-only and sandbox dependencies included) -/
theorem collect_exact (g : Graph) (st : States) (fuel root : Nat) (used : List Str)
    (h : collectPaths g st fuel root = some used) (d : Str) :
    d ∈ used ↔ ∃ q p, Reach g root q ∧ g.get q = some p ∧ Belongs st p d := by
  constructor
  · intro hd
    obtain ⟨q, p, h1, h2, h3⟩ := collect_sound h hd
    exact ⟨q, p, h1, h2, (belongs_iff st p d).mpr h3⟩
  · rintro ⟨q, p, h1, h2, h3⟩
    exact collect_complete h h1 h2 ((belongs_iff st p d).mp h3)

/-- the recursion of `collectPaths` is never deeper than the number of packages: with more fuel
than packages the model's `walk` cannot run out of fuel and `doClean` always yields a result -/
theorem clean_total (o : Opts) (w : World) (g : Graph) (fuel root : Nat) (h : g.length < fuel) :
    ∃ r, doClean o w g fuel root = some r := by
  unfold doClean
  by_cases hm : o.mode = .attic
  · simp [hm]
  · obtain ⟨used, hu⟩ := collectPaths_total g w.states fuel root h
    simp [hm, hu]

/-- **clean_only_garbage** (`bob clean`, `bob clean --release`): every deleted path is a known
directory of the selected mode that exists, that does not belong to any package of the current
graph with a matching (or no) stored digest, and — if it is a source workspace — only with `-s`
and (`-f` or an expendable SCM status). -/
theorem clean_only_garbage (o : Opts) (w : World) (g : Graph) (fuel root : Nat) (r : Result)
    (hmode : o.mode ≠ .attic) (h : doClean o w g fuel root = some r) (d : Str) (hd : d ∈ r.del) :
    (∃ isSrc, (d, isSrc) ∈ allPaths o w ∧
       (isSrc = true → o.src = true ∧ (o.force = true ∨ d ∈ w.expendable))) ∧
    d ∈ w.existing ∧
    ∀ q p, Reach g root q → g.get q = some p → ¬ Belongs w.states p d := by
  unfold doClean at h
  simp only [hmode, if_false] at h
  split at h
  · cases h
  · rename_i used hused
    cases h
    simp only at hd
    rw [mem_delPaths] at hd
    unfold delCandidates at hd
    have hd' : d ∈ ((allPaths o w).filter fun d =>
        !used.contains d.1 && w.existing.contains d.1 && (!d.2 || mayClean o w d.1)).map (·.1) := by
      cases hm : o.mode with
      | attic => exact absurd hm hmode
      | develop => simpa [hm] using hd
      | release => simpa [hm] using hd
    obtain ⟨⟨d0, isSrc⟩, hf, rfl⟩ := List.mem_map.mp hd'
    simp only [List.mem_filter, Bool.and_eq_true, Bool.not_eq_eq_eq_not, Bool.not_true, Bool.or_eq_true,
      List.contains_eq_mem, decide_eq_false_iff_not, decide_eq_true_eq] at hf
    obtain ⟨hall, ⟨hnot, hex⟩, hsrc⟩ := hf
    refine ⟨⟨isSrc, hall, ?_⟩, hex, ?_⟩
    · intro hs
      rcases hsrc with hsrc | hsrc
      · rw [hs] at hsrc; cases hsrc
      · unfold mayClean at hsrc
        split at hsrc
        · rename_i hsrcflag
          refine ⟨hsrcflag, ?_⟩
          split at hsrc
          · rename_i hf; exact Or.inl hf
          · exact Or.inr (by simpa using hsrc)
        · cases hsrc
    · intro q p hr hg hb
      exact hnot ((collect_exact g w.states fuel root used hused d0).mpr ⟨q, p, hr, hg, hb⟩)

/-- **clean_keeps_uptodate**: a workspace that belongs to a package of the current graph (stored
digest absent or matching — in particular every up-to-date result) is not deleted, no `rm`
is issued for it, and if it exists its recorded state survives `bob clean` unchanged. -/
theorem clean_keeps_uptodate (o : Opts) (w : World) (g : Graph) (fuel root : Nat) (r : Result)
    (hmode : o.mode ≠ .attic) (h : doClean o w g fuel root = some r)
    (q : Nat) (p : Pkg) (hr : Reach g root q) (hg : g.get q = some p) (d : Str)
    (hb : Belongs w.states p d) :
    d ∉ r.del ∧ Op.rm d ∉ r.ops ∧
    (d ∈ w.existing → d ∈ r.world.existing ∧ lookup r.world.states d = lookup w.states d) := by
  have hnd : d ∉ r.del := fun hd => (clean_only_garbage o w g fuel root r hmode h d hd).2.2 q p hr hg hb
  unfold doClean at h
  simp only [hmode, if_false] at h
  split at h
  · cases h
  · rename_i used hused
    cases h
    simp only at hnd ⊢
    have hrm : Op.rm d ∉ cleanOps o w (delPaths o w used) := by
      intro hop
      rcases mem_cleanOps hop with ⟨d', _, e⟩ | ⟨_, ⟨d', hd', e⟩ | ⟨d', _, e⟩⟩
      · cases e
      · rcases e with e | e | e <;> cases e
        exact hnd hd'
      · rcases e with e | e <;> cases e
    refine ⟨hnd, hrm, ?_⟩
    intro hex
    refine ⟨(apply_existing _ _ _).mpr ⟨hex, hrm⟩, ?_⟩
    rw [apply_states]
    have : Op.delState d ∉ cleanOps o w (delPaths o w used) := by
      intro hop
      rcases mem_cleanOps hop with ⟨d', _, e⟩ | ⟨_, ⟨d', hd', e⟩ | ⟨d', hd', e⟩⟩
      · cases e
      · rcases e with e | e | e <;> cases e
        exact hnd hd'
      · rcases e with e | e <;> cases e
        rcases hd' with hd' | hd'
        · exact hd' hex
        · exact hnd hd'
    simp [this]

/-- **dry_run_noop**: with `--dry-run` the op list consists of `print`s only — no removal, no
state change — and the world after `bob clean` is the world before (all modes). -/
theorem dry_run_noop (o : Opts) (w : World) (g : Graph) (fuel root : Nat) (r : Result)
    (hdry : o.dryRun = true) (h : doClean o w g fuel root = some r) :
    (∀ op ∈ r.ops, ∃ d, op = Op.print d) ∧ r.world = w := by
  unfold doClean at h
  generalize (if o.mode = .attic then some [] else collectPaths g w.states fuel root) = u at h
  cases u with
  | none => simp at h
  | some used =>
    simp only [Option.some.injEq] at h
    subst h
    simp only
    have hp : ∀ op ∈ cleanOps o w (delPaths o w used), ∃ d, op = Op.print d := by
      intro op hop
      rcases mem_cleanOps hop with ⟨d, _, e⟩ | ⟨hno, _⟩
      · exact ⟨d, e⟩
      · rw [hdry] at hno; cases hno
    exact ⟨hp, apply_print_fold w _ hp⟩

/-- `bob clean --attic`: only existing attic directories, and without `-f` only expendable ones -/
theorem attic_only_expendable (o : Opts) (w : World) (g : Graph) (fuel root : Nat) (r : Result)
    (hmode : o.mode = .attic) (h : doClean o w g fuel root = some r) (d : Str) (hd : d ∈ r.del) :
    d ∈ w.attic ∧ d ∈ w.existing ∧ (o.force = true ∨ d ∈ w.atticExpendable) := by
  unfold doClean at h
  simp only [hmode, if_true] at h
  cases h
  simp only at hd
  rw [mem_delPaths] at hd
  unfold delCandidates at hd
  simp only [hmode, List.mem_filter, Bool.and_eq_true, Bool.or_eq_true, List.contains_eq_mem,
    decide_eq_true_eq] at hd
  exact ⟨hd.1, hd.2.1, hd.2.2⟩

/-- non-trivial instance: a graph with a shared tools-only dependency, a stale build workspace
(stored digest of another variant), an orphaned package workspace and a source workspace -/
example :
    let stp := fun (v : Bool) (p : String) (vid : String) => (⟨v, some p.toList, vid.toList⟩ : Step)
    let g : Graph := [
      ⟨0, stp false "/invalid" "", stp true "dev/build/root/1/workspace" "b0", stp true "dev/dist/root/1/workspace" "p0", [1, 2]⟩,
      ⟨1, stp true "dev/src/lib/1/workspace" "s1", stp true "dev/build/lib/1/workspace" "b1", stp true "dev/dist/lib/1/workspace" "p1", [2]⟩,
      ⟨2, stp false "/invalid" "", stp true "dev/build/tool/1/workspace" "b2", stp true "dev/dist/tool/1/workspace" "p2", []⟩]
    let w : World := {
      states := [("dev/src/lib/1/workspace".toList, .src), ("dev/build/lib/1/workspace".toList, .build "OLD".toList),
        ("dev/dist/lib/1/workspace".toList, .pkg "p1".toList), ("dev/dist/gone/1/workspace".toList, .pkg "x".toList),
        ("dev/src/gone/1/workspace".toList, .src), ("dev/dist/tool/1/workspace".toList, .pkg "p2".toList)],
      byName := [], attic := [],
      existing := ["dev/src/lib/1/workspace".toList, "dev/build/lib/1/workspace".toList, "dev/dist/lib/1/workspace".toList,
        "dev/dist/gone/1/workspace".toList, "dev/src/gone/1/workspace".toList, "dev/dist/tool/1/workspace".toList],
      expendable := [], atticExpendable := [] }
    (doClean ⟨.develop, true, false, false, false⟩ w g 4 0).map (·.del) =
      some ["dev/build/lib/1/workspace".toList, "dev/dist/gone/1/workspace".toList] ∧
    (doClean ⟨.develop, true, true, false, false⟩ w g 4 0).map (·.del) =
      some ["dev/build/lib/1/workspace".toList, "dev/dist/gone/1/workspace".toList, "dev/src/gone/1/workspace".toList] := by
  decide

/-! ## a directory handed to a different variant is emptied before it is used
(minimal local model of `_cookBuildStep` / `_preparePackageStep`; the full builder model is C01's) -/

/-- **handover_pruned** (build step): if the directory exists and its stored digest differs from the
digest of the step now mapped to it, the stored state is dropped, the workspace is emptied and its
state reset to the new digest, all before the script runs, and the script does run. -/
theorem handover_pruned_build {σ ι : Type} [DecidableEq σ] [DecidableEq ι] (force : Bool) (old : Option σ) (new : σ)
    (storedInputs : Option ι) (inputs : ι) (hdiff : old ≠ some new) :
    cookBuild false true force old new storedInputs inputs =
      [PrepOp.invalidate, PrepOp.emptyDir, PrepOp.resetState new, PrepOp.run] := by
  simp [cookBuild, hdiff]

/-- **handover_pruned** (package step): something is there and the stored digest differs ⇒ the
workspace is emptied (or the stale file/symlink of a shared package removed) and the state reset. -/
theorem handover_pruned_package {σ : Type} [DecidableEq σ] (fileOrLink : Bool) (old : Option σ) (new : σ)
    (hdiff : old ≠ some new) :
    preparePackage true fileOrLink old new =
      [PrepOp.invalidate, if fileOrLink then PrepOp.unlink else PrepOp.emptyDir, PrepOp.resetState new] := by
  simp [preparePackage, hdiff]

/-- conversely a directory whose stored digest matches is left alone -/
theorem matching_not_pruned {σ ι : Type} [DecidableEq σ] [DecidableEq ι] (force : Bool) (d : σ)
    (storedInputs : Option ι) (inputs : ι) :
    PrepOp.emptyDir ∉ cookBuild false true force (some d) d storedInputs inputs ∧
    preparePackage true false (some d) d = [] := by
  constructor
  · simp only [cookBuild, Bool.false_or, ne_eq, not_true_eq_false, decide_false, Bool.false_eq_true, if_false,
      List.nil_append, List.mem_singleton]
    split <;> simp
  · simp [preparePackage]

end C16
