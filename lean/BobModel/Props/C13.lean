import BobModel.Proofs.C13Env
/-
C13 — steps run in exactly the declared environment.  Property theorems about Model/ShellEnv.lean.
Helper lemmas are in Proofs/C13Quote.lean (word level), Proofs/C13Eval.lean (text level), Proofs/C13Env.lean
(export block), Proofs/C13Sandbox.lean (helper options, mounts).
-/
namespace C13
open ShellEnv

/-- the characters `shlex.quote` leaves unquoted (extracted from the running `shlex`) are all literal,
non-breaking characters for bash.  Re-checked on every run against the regenerated constants. -/
theorem safe_chars_literal :
    ∀ c ∈ Consts.C13.safeChars, plainChar c = true ∧ wordStop c = false ∧ subStop c = false ∧
      c ≠ '\'' ∧ c ≠ '"' ∧ c ≠ '\\' ∧ c ≠ '$' ∧ c ≠ nulChar := by
  decide

/-- **quote_roundtrip**: whatever quotes, dollar signs, backslashes, newlines, control or non-ASCII
characters a string contains, bash reads its quoted form back as exactly that string (one word, nothing
left over, no expansion — in every variable environment `E`). -/
theorem quote_roundtrip (E : Env) (s : Str) (h : NoNul s) : bashWord E (shlexQuote s) = .ok s := by
  have := lexWord_quote E wordStop safeStop_word s [] [] h
  simp only [List.append_nil, List.nil_append] at this
  simp [bashWord, this, lexWord]

/-- the same in context: in front of ANY following text the quoted form contributes exactly the original
characters to the word being read and leaves the lexer in the unquoted state (so array subscripts, array
values, `:`-joined path lists and the end of the line are read as intended). -/
theorem quote_in_context (E : Env) (s acc rest : Str) (h : NoNul s) :
    lexWord E wordStop .unq acc (shlexQuote s ++ rest) = lexWord E wordStop .unq (acc ++ s) rest ∧
    lexWord E subStop .unq acc (shlexQuote s ++ rest) = lexWord E subStop .unq (acc ++ s) rest :=
  ⟨lexWord_quote E wordStop safeStop_word s acc rest h, lexWord_quote E subStop safeStop_sub s acc rest h⟩

/-- the hypothesis is satisfiable by a non-trivial string: `it's "$x\` + newline + `ä` -/
example : (∀ c ∈ ['i', 't', '\'', 's', ' ', '"', '$', 'x', '\\', '\n', 'ä'], c ≠ nulChar) ∧
    (match bashWord [] (shlexQuote ['i', 't', '\'', 's', ' ', '"', '$', 'x', '\\', '\n', 'ä']) with
      | .ok v => v == ['i', 't', '\'', 's', ' ', '"', '$', 'x', '\\', '\n', 'ä']
      | .error _ => false) = true := by
  decide

/-- bash evaluating the TEXT of a well-formed command list computes the fold of the commands' meaning
(text level: comments, `declare -A … =( [k]=v … )`, `export K=V`, `set -o x`, values with embedded newlines). -/
theorem script_text_semantics (cs : List Cmd) (sh : Sh) (hwf : ∀ c ∈ cs, c.WF) :
    evalScript sh (renderCmds cs) = .ok (cs.foldl Cmd.eval sh) :=
  evalScript_render cs sh hwf

/-- **prolog_env_exact**: bash evaluating the generated prolog in the initial environment `E₀` ends with
exactly `E₀ ∪ spec.env ∪ {PATH, LD_LIBRARY_PATH, BOB_CWD}`: the three Bob variables have the composed values,
every other declared variable has precisely its declared value, everything else is as in `E₀`. -/
theorem prolog_env_exact (abs : Str → Str) (s : Spec) (hwf : Spec.WF abs s) (E₀ : Env)
    (A₀ : List (Str × List (Str × Str))) :
    ∃ sh, evalScript ⟨E₀, A₀⟩ (formatProlog abs s false) = .ok sh ∧
      lookup sh.env Consts.C13.varPath =
        some (joinWith [':'] (s.paths.map abs ++ [(lookup E₀ Consts.C13.varPath).getD []])) ∧
      lookup sh.env Consts.C13.varLdLibraryPath = some (joinWith [':'] (s.libraryPaths.map abs)) ∧
      lookup sh.env Consts.C13.varBobCwd = some (abs s.cwd) ∧
      ∀ k, isBobVar k = false → lookup sh.env k = (lookup s.env k).or (lookup E₀ k) := by
  refine ⟨_, evalScript_render _ _ (prologCmds_wf abs s hwf), ?_⟩
  rw [prolog_fold_env]
  have hnd := sortExports_nodup abs s hwf.envNodup
  have hwp := exportEntries_withPath abs s
  have mem : ∀ e, e ∈ exportEntries abs s → e ∈ sortExports (exportEntries abs s) := fun e h => mem_sortExports.mpr h
  refine ⟨?_, ?_, ?_, ?_⟩
  · have := exportsEnv_mem _ E₀ ⟨Consts.C13.varPath, s.paths.map abs, true⟩ hnd
      (mem _ (by simp [exportEntries, bobExports])) hwp
    simpa [Export.value] using this
  · have := exportsEnv_mem _ E₀ ⟨Consts.C13.varLdLibraryPath, s.libraryPaths.map abs, false⟩ hnd
      (mem _ (by simp [exportEntries, bobExports])) hwp
    simpa [Export.value] using this
  · have := exportsEnv_mem _ E₀ ⟨Consts.C13.varBobCwd, [abs s.cwd], false⟩ hnd
      (mem _ (by simp [exportEntries, bobExports])) hwp
    simpa [Export.value, joinWith] using this
  · intro k hk
    cases hl : lookup s.env k with
    | some v =>
      have hm : (⟨k, [v], false⟩ : Export) ∈ exportEntries abs s := by
        simp only [exportEntries, List.mem_append, List.mem_map, List.mem_filter]
        exact Or.inr ⟨(k, v), ⟨mem_of_lookup _ _ _ hl, by simp [hk]⟩, rfl⟩
      have := exportsEnv_mem _ E₀ _ hnd (mem _ hm) hwp
      simpa [Export.value, joinWith] using this
    | none =>
      rw [exportsEnv_notin]
      · simp
      · intro x hx hxk
        rw [mem_sortExports] at hx
        simp only [exportEntries, bobExports, List.mem_append, List.mem_cons, List.mem_nil_iff, or_false,
          List.mem_map, List.mem_filter] at hx
        simp only [isBobVar, Bool.or_eq_false_iff, decide_eq_false_iff_not] at hk
        rcases hx with (rfl | rfl | rfl) | ⟨kv, ⟨hkv, _⟩, rfl⟩
        · exact hk.1.1 hxk.symm
        · exact hk.1.2 hxk.symm
        · exact hk.2 hxk.symm
        · have : k ∈ keys s.env := by
            simp only [keys, List.mem_map]
            exact ⟨kv, hkv, hxk⟩
          exact ((lookup_none_iff _ _).mp hl) this

end C13
