import BobModel.Proofs.C13Sandbox
/-
C13 — steps run in exactly the declared environment.  Property theorems about Model/ShellEnv.lean.
Helper lemmas are in Proofs/C13Quote.lean (word level), Proofs/C13Eval.lean (text level), Proofs/C13Env.lean
(export block), Proofs/C13Sandbox.lean (helper options, mounts).
-/
namespace C13
open ShellEnv

/-- the characters `shlex.quote` leaves unquoted (extracted from the running `shlex`) are all literal,
non-breaking characters for bash.  Re-checked on every run against the regenerated constants. -/
theorem safe_chars_literal :
    ∀ c ∈ Consts.C13.safeChars, plainChar c = true ∧ wordStop c = false ∧ subStop c = false ∧
      c ≠ '\'' ∧ c ≠ '"' ∧ c ≠ '\\' ∧ c ≠ '$' ∧ c ≠ nulChar := by
  decide

/-- **quote_roundtrip**: whatever quotes, dollar signs, backslashes, newlines, control or non-ASCII
characters a string contains, bash reads its quoted form back as exactly that string (one word, nothing
left over, no expansion — in every variable environment `E`). -/
theorem quote_roundtrip (E : Env) (s : Str) (h : NoNul s) : bashWord E (shlexQuote s) = .ok s := by
  have := lexWord_quote E wordStop safeStop_word s [] [] h
  simp only [List.append_nil, List.nil_append] at this
  simp [bashWord, this, lexWord]

/-- the same in context: in front of ANY following text the quoted form contributes exactly the original
characters to the word being read and leaves the lexer in the unquoted state (so array subscripts, array
values, `:`-joined path lists and the end of the line are read as intended). -/
theorem quote_in_context (E : Env) (s acc rest : Str) (h : NoNul s) :
    lexWord E wordStop .unq acc (shlexQuote s ++ rest) = lexWord E wordStop .unq (acc ++ s) rest ∧
    lexWord E subStop .unq acc (shlexQuote s ++ rest) = lexWord E subStop .unq (acc ++ s) rest :=
  ⟨lexWord_quote E wordStop safeStop_word s acc rest h, lexWord_quote E subStop safeStop_sub s acc rest h⟩

/-- the hypothesis is satisfiable by a non-trivial string: `it's "$x\` + newline + `ä` -/
example : (∀ c ∈ ['i', 't', '\'', 's', ' ', '"', '$', 'x', '\\', '\n', 'ä'], c ≠ nulChar) ∧
    (match bashWord [] (shlexQuote ['i', 't', '\'', 's', ' ', '"', '$', 'x', '\\', '\n', 'ä']) with
      | .ok v => v == ['i', 't', '\'', 's', ' ', '"', '$', 'x', '\\', '\n', 'ä']
      | .error _ => false) = true := by
  decide

/-- bash evaluating the TEXT of a well-formed command list computes the fold of the commands' meaning
(text level: comments, `declare -A … =( [k]=v … )`, `export K=V`, `set -o x`, values with embedded newlines). -/
theorem script_text_semantics (cs : List Cmd) (sh : Sh) (hwf : ∀ c ∈ cs, c.WF) :
    evalScript sh (renderCmds cs) = .ok (cs.foldl Cmd.eval sh) :=
  evalScript_render cs sh hwf

/-- **prolog_env_exact**: bash evaluating the generated prolog in the initial environment `E₀` ends with
exactly `E₀ ∪ spec.env ∪ {PATH, LD_LIBRARY_PATH, BOB_CWD}`: the three Bob variables have the composed values,
every other declared variable has precisely its declared value, everything else is as in `E₀`. -/
theorem prolog_env_exact (abs : Str → Str) (s : Spec) (hwf : Spec.WF abs s) (E₀ : Env)
    (A₀ : List (Str × List (Str × Str))) :
    ∃ sh, evalScript ⟨E₀, A₀⟩ (formatProlog abs s false) = .ok sh ∧
      lookup sh.env Consts.C13.varPath =
        some (joinWith [':'] (s.paths.map abs ++ [(lookup E₀ Consts.C13.varPath).getD []])) ∧
      lookup sh.env Consts.C13.varLdLibraryPath = some (joinWith [':'] (s.libraryPaths.map abs)) ∧
      lookup sh.env Consts.C13.varBobCwd = some (abs s.cwd) ∧
      ∀ k, isBobVar k = false → lookup sh.env k = (lookup s.env k).or (lookup E₀ k) := by
  refine ⟨_, evalScript_render _ _ (prologCmds_wf abs s hwf), ?_⟩
  rw [prolog_fold_env]
  have hnd := sortExports_nodup abs s hwf.envNodup
  have hwp := exportEntries_withPath abs s
  have mem : ∀ e, e ∈ exportEntries abs s → e ∈ sortExports (exportEntries abs s) := fun e h => mem_sortExports.mpr h
  refine ⟨?_, ?_, ?_, ?_⟩
  · have := exportsEnv_mem _ E₀ ⟨Consts.C13.varPath, s.paths.map abs, true⟩ hnd
      (mem _ (by simp [exportEntries, bobExports])) hwp
    simpa [Export.value] using this
  · have := exportsEnv_mem _ E₀ ⟨Consts.C13.varLdLibraryPath, s.libraryPaths.map abs, false⟩ hnd
      (mem _ (by simp [exportEntries, bobExports])) hwp
    simpa [Export.value] using this
  · have := exportsEnv_mem _ E₀ ⟨Consts.C13.varBobCwd, [abs s.cwd], false⟩ hnd
      (mem _ (by simp [exportEntries, bobExports])) hwp
    simpa [Export.value, joinWith] using this
  · intro k hk
    cases hl : lookup s.env k with
    | some v =>
      have hm : (⟨k, [v], false⟩ : Export) ∈ exportEntries abs s := by
        simp only [exportEntries, List.mem_append, List.mem_map, List.mem_filter]
        exact Or.inr ⟨(k, v), ⟨mem_of_lookup _ _ _ hl, by simp [hk]⟩, rfl⟩
      have := exportsEnv_mem _ E₀ _ hnd (mem _ hm) hwp
      simpa [Export.value, joinWith] using this
    | none =>
      rw [exportsEnv_notin]
      · simp
      · intro x hx hxk
        rw [mem_sortExports] at hx
        simp only [exportEntries, bobExports, List.mem_append, List.mem_cons, List.mem_nil_iff, or_false,
          List.mem_map, List.mem_filter] at hx
        simp only [isBobVar, Bool.or_eq_false_iff, decide_eq_false_iff_not] at hk
        rcases hx with (rfl | rfl | rfl) | ⟨kv, ⟨hkv, _⟩, rfl⟩
        · exact hk.1.1 hxk.symm
        · exact hk.1.2 hxk.symm
        · exact hk.2 hxk.symm
        · have : k ∈ keys s.env := by
            simp only [keys, List.mem_map]
            exact ⟨kv, hkv, hxk⟩
          exact ((lookup_none_iff _ _).mp hl) this

/-- the hypotheses are satisfiable by a non-trivial instance (values with quote, dollar, blank, newline,
a tool path with a blank, a package name with a quote), and the theorem applies to it -/
example : Spec.WF id exSpec := exSpec_wf
example := prolog_env_exact id exSpec exSpec_wf [(['H'], ['h'])] []

/-! ### which variables a script sees -/

/-- **env_declared_only**: a step script (checkout, build or package) sees, besides the three Bob variables,
exactly: the variables declared for the step (strong or weak) that are defined, with the value the recipes
computed; otherwise what the Invoker added explicitly (`extra`: the sandbox image's PATH); otherwise the host
variable — and that only if the user preserved the environment or the name is whitelisted. -/
theorem env_declared_only (abs : Str → Str) (full : Env) (strong weak : List Str) (s : Spec)
    (hs : s.env = stepEnvOf full strong weak) (hwf : Spec.WF abs s)
    (preserve : Bool) (wl : List Str) (host extra : Env) :
    ∃ sh, scriptEnv abs s preserve wl host extra = .ok sh ∧
      ∀ k, isBobVar k = false →
        lookup sh.env k =
          if (k ∈ strong ∨ k ∈ weak) ∧ (lookup full k).isSome then lookup full k
          else if (lookup extra k).isSome then lookup extra k
          else if preserve = true ∨ k ∈ wl then lookup host k
          else none := by
  obtain ⟨sh, h1, _, _, _, h5⟩ := prolog_env_exact abs s hwf (processEnv preserve wl host none extra) []
  refine ⟨sh, h1, fun k hk => ?_⟩
  rw [h5 k hk, hs, lookup_stepEnvOf]
  unfold processEnv
  simp only [Option.getD_none, List.nil_append, lookup_append, lookup_hostFilter]
  by_cases hd : k ∈ strong ∨ k ∈ weak
  · cases hf : lookup full k <;> cases he : lookup extra k <;> simp [hd]
  · cases he : lookup extra k <;> simp [hd]

example := env_declared_only id exFull [['A']] [['B']] exSpec rfl exSpec_wf false [['H']] [(['H'], ['h']), (['D'], ['x'])] []

/-- no other variable of the invoking environment is visible unless the user asked to preserve it:
a host variable that is neither whitelisted nor declared nor one of Bob's is NOT in the script's environment,
whatever its name and value -/
theorem host_variable_hidden (abs : Str → Str) (full : Env) (strong weak : List Str) (s : Spec)
    (hs : s.env = stepEnvOf full strong weak) (hwf : Spec.WF abs s) (wl : List Str) (host : Env) (k : Str)
    (hbob : isBobVar k = false) (hwl : k ∉ wl) (hdecl : k ∉ strong ∧ k ∉ weak) :
    ∃ sh, scriptEnv abs s false wl host [] = .ok sh ∧ lookup sh.env k = none := by
  obtain ⟨sh, h1, h2⟩ := env_declared_only abs full strong weak s hs hwf false wl host []
  refine ⟨sh, h1, ?_⟩
  rw [h2 k hbob]
  simp [hdecl.1, hdecl.2, hwl, lookup]

/-- a declared variable that is defined arrives with exactly the computed value, even if the host has a
variable of the same name (whitelisted or not) -/
theorem declared_variable_exact (abs : Str → Str) (full : Env) (strong weak : List Str) (s : Spec)
    (hs : s.env = stepEnvOf full strong weak) (hwf : Spec.WF abs s) (preserve : Bool) (wl : List Str)
    (host extra : Env) (k v : Str) (hbob : isBobVar k = false) (hdecl : k ∈ strong ∨ k ∈ weak)
    (hv : lookup full k = some v) :
    ∃ sh, scriptEnv abs s preserve wl host extra = .ok sh ∧ lookup sh.env k = some v := by
  obtain ⟨sh, h1, h2⟩ := env_declared_only abs full strong weak s hs hwf preserve wl host extra
  refine ⟨sh, h1, ?_⟩
  rw [h2 k hbob]
  simp [hdecl, hv]

/-! ### arguments and tools -/

/-- **args_in_order**: `"$1" … "$n"` of the step script are the execution paths of the declared dependencies,
in declared order; an invalid dependency (a package without the step) appears as its placeholder -/
theorem args_in_order (abs : Str → Str) (d : StepDesc) (cwd bash script : Str) (trace : Bool)
    (hb : bash ≠ ['-', '-']) :
    positionalOf (setupCallArgs abs (specOfStep d cwd) bash script trace) = d.args.map (fun a => abs a.execPath) ∧
    ∀ a ∈ d.args, a.valid = false → a.execPath = Consts.C13.invalidExecPrefix ++ a.name := by
  constructor
  · cases trace <;>
      simp [setupCallArgs, specOfStep, positionalOf, hb, List.map_map, Function.comp_def]
  · intro a _ hv
    simp [DepStep.execPath, hv]

example := args_in_order id exDesc ['/', 'w'] ['b', 'a', 's', 'h'] ['/', 's'] false (by decide)

/-- **tools_on_path**: after the prolog every tool the step uses is a component of `PATH` and every library
directory of such a tool a component of `LD_LIBRARY_PATH` (by its execution path) -/
theorem tools_on_path (abs : Str → Str) (d : StepDesc) (cwd : Str) (hwf : Spec.WF abs (specOfStep d cwd))
    (E₀ : Env) (A₀ : List (Str × List (Str × Str))) :
    ∃ sh, evalScript ⟨E₀, A₀⟩ (formatProlog abs (specOfStep d cwd) false) = .ok sh ∧
      (∀ t ∈ d.tools, ∃ v, lookup sh.env Consts.C13.varPath = some v ∧ IsComponent (abs t.execPath) v) ∧
      (∀ t ∈ d.tools, ∀ l ∈ t.libs, ∃ v, lookup sh.env Consts.C13.varLdLibraryPath = some v ∧
        IsComponent (abs (pathJoin t.step.execPath l)) v) := by
  obtain ⟨sh, h1, h2, h3, _, _⟩ := prolog_env_exact abs (specOfStep d cwd) hwf E₀ A₀
  refine ⟨sh, h1, ?_, ?_⟩
  · intro t ht
    refine ⟨_, h2, isComponent_join _ _ ?_⟩
    simp only [specOfStep, sortStrs, List.mem_append, List.mem_map]
    left
    exact ⟨t.execPath, (List.mergeSort_perm _ _).mem_iff.mpr (List.mem_map.mpr ⟨t, ht, rfl⟩), rfl⟩
  · intro t ht l hl
    refine ⟨_, h3, isComponent_join _ _ ?_⟩
    simp only [specOfStep, sortTools, List.mem_map, List.mem_flatMap]
    exact ⟨pathJoin t.step.execPath l, ⟨t, (List.mergeSort_perm _ _).mem_iff.mpr ht, ⟨l, hl, rfl⟩⟩, rfl⟩

/-! ### fingerprint scripts -/

/-- **fingerprint scripts see only `fingerprintVars` (of the step's environment) on top of the filtered host
environment**: bash evaluating the generated preamble in `E₀` (= whitelisted host variables + BOB_CWD) ends
with exactly `E₀` plus the step variables named in `fingerprintVars`, byte for byte -/
theorem fingerprint_env_only (stepEnv : Env) (fpVars : List Str) (hn : (keys stepEnv).Nodup)
    (hid : ∀ kv ∈ stepEnv, isIdent kv.1 = true ∧ NoNul kv.2) (E₀ : Env) :
    ∃ sh, evalScript ⟨E₀, []⟩ (fingerprintPreamble (fingerprintEnvOf stepEnv fpVars)) = .ok sh ∧
      ∀ k, lookup sh.env k = if k ∈ fpVars then (lookup stepEnv k).or (lookup E₀ k) else lookup E₀ k := by
  let fe := fingerprintEnvOf stepEnv fpVars
  let xs : List Export := sortExports (fe.map fun kv => (⟨kv.1, [kv.2], false⟩ : Export))
  have hmem : ∀ kv ∈ fe, kv ∈ stepEnv ∧ fpVars.contains kv.1 = true := fun kv h => by
    simpa [fe, fingerprintEnvOf, List.mem_filter] using h
  have hwf : ∀ c ∈ fingerprintCmds fe, c.WF := by
    intro c hc
    simp only [fingerprintCmds, List.mem_reverse, List.mem_append, List.mem_map] at hc
    rcases hc with ⟨t, ht, rfl⟩ | ⟨e, he, rfl⟩
    · obtain ⟨h1, h2⟩ := setO_ok t ht
      obtain ⟨r, hr⟩ := Option.isSome_iff_exists.mp h1
      have := stripPrefix_some _ _ _ hr
      refine ⟨r, this, ?_⟩
      intro hmem'
      have : t.contains '\n' = true := by
        rw [this]; simp [hmem']
      rw [h2] at this; cases this
    · rw [mem_sortExports] at he
      obtain ⟨kv, hkv, rfl⟩ := List.mem_map.mp he
      have := hid kv (hmem kv hkv).1
      exact ⟨this.1, fun p hp => by
        have : p = kv.2 := by simpa using hp
        rw [this]; exact (hid kv (hmem kv hkv).1).2⟩
  refine ⟨_, evalScript_render _ _ hwf, ?_⟩
  have hfold : ((fingerprintCmds fe).foldl Cmd.eval ⟨E₀, []⟩).env = exportsEnv E₀ xs.reverse := by
    simp only [fingerprintCmds, List.reverse_append, List.foldl_append]
    rw [← List.map_reverse, foldl_export_cmds]
    rw [foldl_eval_env]
    intro c hc e
    simp only [List.mem_reverse, List.mem_map] at hc
    obtain ⟨t, _, rfl⟩ := hc
    simp
  rw [hfold]
  have hnames : (xs.reverse.map Export.name).Nodup := by
    have hp : (xs.reverse.map Export.name).Perm (keys fe) := by
      have h1 := ((List.reverse_perm xs).map Export.name)
      have h2 : (xs.map Export.name).Perm ((fe.map fun kv => (⟨kv.1, [kv.2], false⟩ : Export)).map Export.name) :=
        (sortExports_perm (fe.map fun kv => (⟨kv.1, [kv.2], false⟩ : Export))).map Export.name
      have h3 : (fe.map fun kv => (⟨kv.1, [kv.2], false⟩ : Export)).map Export.name = keys fe := by
        simp [keys, List.map_map, Function.comp_def]
      rw [h3] at h2
      exact h1.trans h2
    exact hp.nodup_iff.mpr (filter_keys_nodup _ _ hn)
  have hnp : ∀ y ∈ xs.reverse, y.withPath = true → y.name = Consts.C13.varPath := by
    intro y hy hw
    rw [List.mem_reverse, mem_sortExports] at hy
    obtain ⟨kv, _, rfl⟩ := List.mem_map.mp hy
    simp at hw
  intro k
  have hlk : lookup fe k = if k ∈ fpVars then lookup stepEnv k else none := by
    simp only [fe, fingerprintEnvOf]
    rw [lookup_filter stepEnv (fun k => fpVars.contains k) k]
    simp
  cases hv : lookup fe k with
  | some v =>
    have hm : (⟨k, [v], false⟩ : Export) ∈ xs.reverse := by
      rw [List.mem_reverse, mem_sortExports]
      exact List.mem_map.mpr ⟨(k, v), mem_of_lookup _ _ _ hv, rfl⟩
    have := exportsEnv_mem _ E₀ _ hnames hm hnp
    simp only [Export.value, Bool.false_eq_true, if_false, List.append_nil, joinWith] at this
    rw [this]
    rw [hv] at hlk
    by_cases hk : k ∈ fpVars
    · simp only [hk, if_true] at hlk ⊢
      rw [← hlk]; simp
    · simp [hk] at hlk
  | none =>
    rw [exportsEnv_notin]
    · rw [hv] at hlk
      by_cases hk : k ∈ fpVars
      · simp only [hk, if_true] at hlk ⊢
        rw [← hlk]; simp
      · simp [hk]
    · intro x hx hxk
      rw [List.mem_reverse, mem_sortExports] at hx
      obtain ⟨kv, hkv, rfl⟩ := List.mem_map.mp hx
      simp only at hxk
      have : k ∈ keys fe := by
        simp only [keys, List.mem_map]
        exact ⟨kv, hkv, hxk⟩
      exact ((lookup_none_iff _ _).mp hv) this

/-- the command line of a fingerprint script never makes bash read `~/.bashrc`, whatever Bob's standard input is
(F-C13-1: without `--norc` a socket stdin made `bash -c` source the user's rc file); step scripts are run as script
files, which never read it -/
theorem fingerprint_no_rc (bash script : Str) (trace stdinIsSocket : Bool) :
    bashReadsRc (setupFingerprintArgs bash trace script) stdinIsSocket = false ∧
    ∀ (abs : Str → Str) (s : Spec) (exec : Str), bash ≠ ['-', 'c'] → exec ≠ ['-', 'c'] → (∀ a ∈ s.args, abs a ≠ ['-', 'c']) →
      bashReadsRc (setupCallArgs abs s bash exec trace) stdinIsSocket = false := by
  have hn : ['-', '-', 'n', 'o', 'r', 'c'] ∈ Consts.C13.fingerprintBashOpts := by decide
  constructor
  · have hmem : ['-', '-', 'n', 'o', 'r', 'c'] ∈ setupFingerprintArgs bash trace script := by
      unfold setupFingerprintArgs
      simp only [List.mem_append]
      exact Or.inl (Or.inl (Or.inr hn))
    simp only [bashReadsRc, Bool.and_eq_false_iff, Bool.not_eq_false', List.contains_eq_mem, decide_eq_true_eq,
      decide_eq_false_iff_not]
    exact Or.inr hmem
  · intro abs s exec h1 h2 h3
    have hnot : ['-', 'c'] ∉ setupCallArgs abs s bash exec trace := by
      unfold setupCallArgs
      simp only [List.mem_append, List.mem_cons, List.mem_nil_iff, or_false, List.mem_map, not_or]
      refine ⟨⟨⟨fun e => h1 e.symm, ?_⟩, ⟨by decide, fun e => h2 e.symm⟩⟩, ?_⟩
      · cases trace <;> simp
      · rintro ⟨a, ha, e⟩
        exact h3 a ha e
    simp only [bashReadsRc, Bool.and_eq_false_iff, Bool.not_eq_false', List.contains_eq_mem, decide_eq_true_eq,
      decide_eq_false_iff_not]
    exact Or.inl (Or.inr hnot)

/-! ### sandbox -/

/-- every dependency mount of a step comes from a VALID declared dependency: an argument, a used tool, the
sandbox image, or an earlier step of the step's own package (`chain`) -/
theorem depMounts_declared (d : StepDesc) :
    ∀ sm ∈ d.depMounts, ∃ a : DepStep,
      (a ∈ d.args ∨ (∃ t ∈ d.tools, a = t.step) ∨ d.sandbox = some a ∨ a ∈ d.chain) ∧ a.valid = true ∧
      sm = (a.storage, a.execPath) := by
  have chain : ∀ (l : List DepStep) (v c : Bool), ∀ sm ∈ extraMounts v c l,
      ∃ a ∈ l, a.valid = true ∧ sm = (a.storage, a.execPath) := by
    intro l
    induction l with
    | nil => intro v c sm h; simp [extraMounts] at h
    | cons n rest ih =>
      intro v c sm h
      simp only [extraMounts] at h
      split at h
      · simp only [List.mem_append] at h
        rcases h with h | h
        · split at h
          · rename_i hv
            simp only [List.mem_cons, List.mem_nil_iff, or_false] at h
            exact ⟨n, by simp, hv, h⟩
          · simp at h
        · obtain ⟨a, ha, hr⟩ := ih _ _ sm h
          exact ⟨a, by simp [ha], hr⟩
      · simp at h
  intro sm h
  simp only [StepDesc.depMounts, List.mem_append, List.mem_map, List.mem_filter] at h
  rcases h with ⟨a, ⟨ha, hv⟩, rfl⟩ | h
  · refine ⟨a, ?_, hv, rfl⟩
    simp only [StepDesc.allDeps, List.mem_append, List.mem_map, Option.mem_toList] at ha
    rcases ha with (ha | ⟨t, ht, rfl⟩) | ha
    · exact Or.inl ha
    · exact Or.inr (Or.inl ⟨t, (List.mergeSort_perm _ _).mem_iff.mp ht, rfl⟩)
    · exact Or.inr (Or.inr (Or.inl ha))
  · obtain ⟨a, ha, hv, e⟩ := chain _ _ _ sm h
    exact ⟨a, Or.inr (Or.inr (Or.inr ha)), hv, e⟩

/-- **sandbox_view** (slim sandbox: `--slim-sandbox`, and steps without image under `--dev-sandbox`, `--strict-sandbox`).
Hypotheses: the helper accepted the command line Bob built (`hparse`), and — the helper's mount contract,
ASSUMED — what a path inside the sandbox leads to is given by `resolve` on the parsed mount table (`hview`).
Then (1) the only writable places are the private whiteout directory, the step's own workspace and its env
file; (2) below the project directory (`cwd`) a path leads to the private (initially empty) whiteout, the
script, the env file, the own workspace or a dependency mount — never to any other part of the project — and
the dependency mounts are read-only. -/
theorem sandbox_view (abs : Str → Str) (tmpDir cwd : Str) (entries : List Str) (rs es : Str) (net : Bool)
    (envFile : Option Str) (wsS wsE : Str) (deps : List (Str × Str)) (cmd : List Str) (o : HelperOpts)
    (hparse : parseHelper {} (renderHArgs (slimGroups tmpDir cwd entries ++
        stepGroups abs rs es net envFile wsS wsE deps) ++ ['-', '-'] :: cmd) = .ok o)
    (view : Str → Option (Mount × List Str)) (hview : ∀ p, view p = resolve o.mounts p) :
    (∀ p m rest, view p = some (m, rest) → m.rw = true →
        m = whiteoutMount tmpDir cwd ∨ m = ⟨abs wsS, abs wsE, true⟩ ∨
        ∃ f, envFile = some f ∧ m = ⟨abs f, strOf "/bob/env", true⟩) ∧
    (∀ p m rest, (comps cwd).isPrefixOf (comps p) = true → view p = some (m, rest) →
        m = whiteoutMount tmpDir cwd ∨ m ∈ stepMounts abs rs es envFile wsS wsE deps) ∧
    (∀ m ∈ stepMounts abs rs es envFile wsS wsE deps,
        m = ⟨abs rs, es, false⟩ ∨ (∃ f, envFile = some f ∧ m = ⟨abs f, strOf "/bob/env", true⟩) ∨
        m = ⟨abs wsS, abs wsE, true⟩ ∨ ∃ d ∈ deps, m = ⟨abs d.1, abs d.2, false⟩) := by
  have hok : ∀ g ∈ slimGroups tmpDir cwd entries ++ stepGroups abs rs es net envFile wsS wsE deps, g.Ok := by
    intro g hg
    rcases List.mem_append.mp hg with h | h
    · exact slimGroups_ok _ _ _ g h
    · exact stepGroups_ok _ _ _ _ _ _ _ _ g h
  have hm := parseHelper_render _ {} o cmd hok hparse
  simp only [HelperOpts.eff, HelperOpts.flush, List.nil_append, List.flatMap_append, slimGroups_mounts,
    stepGroups_mounts] at hm
  have hstep : ∀ m ∈ stepMounts abs rs es envFile wsS wsE deps,
      m = ⟨abs rs, es, false⟩ ∨ (∃ f, envFile = some f ∧ m = ⟨abs f, strOf "/bob/env", true⟩) ∨
      m = ⟨abs wsS, abs wsE, true⟩ ∨ ∃ d ∈ deps, m = ⟨abs d.1, abs d.2, false⟩ := by
    intro m h
    unfold stepMounts at h
    cases envFile with
    | none =>
      simp only [List.append_nil, List.mem_append, List.mem_cons, List.mem_nil_iff, or_false, List.mem_map] at h
      rcases h with (h | h) | ⟨d, hd, rfl⟩
      · exact Or.inl h
      · exact Or.inr (Or.inr (Or.inl h))
      · exact Or.inr (Or.inr (Or.inr ⟨d, hd, rfl⟩))
    | some f =>
      simp only [List.mem_append, List.mem_cons, List.mem_nil_iff, or_false, List.mem_map] at h
      rcases h with ((h | h) | h) | ⟨d, hd, rfl⟩
      · exact Or.inl h
      · exact Or.inr (Or.inl ⟨f, rfl, h⟩)
      · exact Or.inr (Or.inr (Or.inl h))
      · exact Or.inr (Or.inr (Or.inr ⟨d, hd, rfl⟩))
  refine ⟨?_, ?_, hstep⟩
  · intro p m rest hv hrw
    rw [hview, hm] at hv
    have hmem := resolve_mem _ _ _ _ hv
    simp only [List.mem_append, List.mem_map, List.mem_cons, List.mem_nil_iff, or_false] at hmem
    rcases hmem with (⟨f, _, rfl⟩ | h) | h
    · simp at hrw
    · exact Or.inl h
    · rcases hstep m h with rfl | ⟨f, hf, rfl⟩ | rfl | ⟨d, _, rfl⟩
      · simp at hrw
      · exact Or.inr (Or.inr ⟨f, hf, rfl⟩)
      · exact Or.inr (Or.inl rfl)
      · simp at hrw
  · intro p m rest hpre hv
    rw [hview, hm] at hv
    have := resolve_after _ (stepMounts abs rs es envFile wsS wsE deps) (whiteoutMount tmpDir cwd) p m rest
      (by simpa [whiteoutMount] using hpre) (by simpa using hv)
    exact this

/-- the parse hypothesis is satisfiable: the helper's option parser accepts a concrete slim command line -/
example : ∃ o, parseHelper {} exSlimArgv = .ok o := ⟨_, rfl⟩

/-- **sandbox_view for an image sandbox** (`--sandbox`, and steps with image under `--dev-sandbox`, `--strict-sandbox`):
under the same contract every path leads to an entry of the sandbox image (read-only), a host mount the
sandbox recipe declared (writable only if declared `rw`), the script, the env file, the own workspace or a
dependency mount (read-only); nothing else of the host or of the project exists inside. -/
theorem sandbox_view_image (abs : Str → Str) (tmpDir rootFs : Str) (entries : List Str) (isJenkins : Bool)
    (ex : Str → Bool) (hms : List HostMount) (user : Str) (rs es : Str) (net : Bool)
    (envFile : Option Str) (wsS wsE : Str) (deps : List (Str × Str)) (cmd : List Str) (o : HelperOpts)
    (hparse : parseHelper {} (renderHArgs (fatGroups tmpDir rootFs entries isJenkins ex hms user ++
        stepGroups abs rs es net envFile wsS wsE deps) ++ ['-', '-'] :: cmd) = .ok o)
    (view : Str → Option (Mount × List Str)) (hview : ∀ p, view p = resolve o.mounts p) :
    ∀ p m rest, view p = some (m, rest) →
      (∃ f ∈ entries, m = ⟨pathJoin rootFs f, '/' :: f, false⟩) ∨
      (∃ hm ∈ hms, m.src = hm.host ∧ (m.rw = true → hm.options.contains (strOf "rw") = true)) ∨
      m ∈ stepMounts abs rs es envFile wsS wsE deps := by
  have hok : ∀ g ∈ fatGroups tmpDir rootFs entries isJenkins ex hms user ++
      stepGroups abs rs es net envFile wsS wsE deps, g.Ok := by
    intro g hg
    rcases List.mem_append.mp hg with h | h
    · exact fatGroups_ok _ _ _ _ _ _ _ g h
    · exact stepGroups_ok _ _ _ _ _ _ _ _ g h
  have hm := parseHelper_render _ {} o cmd hok hparse
  simp only [HelperOpts.eff, HelperOpts.flush, List.nil_append, List.flatMap_append, stepGroups_mounts] at hm
  intro p m rest hv
  rw [hview, hm] at hv
  have hmem := resolve_mem _ _ _ _ hv
  rcases List.mem_append.mp hmem with h | h
  · rcases fatGroups_mounts _ _ _ _ _ _ _ m h with h | h
    · exact Or.inl h
    · exact Or.inr (Or.inl h)
  · exact Or.inr (Or.inr h)

end C13
