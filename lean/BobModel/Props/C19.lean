import BobModel.Proofs.C19Cmd
import BobModel.Generated.ConstsC19
/-
C19 — archive retention keeps exactly what is selected or referenced.

Property theorems about the model of pym/bob/cmds/archive.py (`Model/Retention.lean`,
`Model/ArchiveIndex.lean`).  The declarative notions (`notWorse`, `selects`, `keyOf`, `runExpr`, `Reach`,
`Sound`, `FilesOk`, `Normal`, `IndexEq`, `runHistory`) are in `Proofs/C19Spec.lean`.
-/
namespace C19
open Retention ArchiveIndex

/-! ### LIMIT / ORDER BY -/

/-- **limit_keeps_top.**  After an expression with `LIMIT lim` has seen any sequence of artifacts
(distinct build ids, no evaluation error) it retains `min lim (#selected)` artifacts, all of them selected,
and every retained one ranks at least as high in the chosen order as every selected one that was dropped;
artifacts that lack the sort field rank last (`notWorse`). -/
theorem limit_keeps_top (e : Expr) (lim : Nat) (hl : e.limit = some lim) (rows : List (Bid × Val))
    (hd : (rows.map (·.1)).Nodup) (st : EState) (h : runExpr e EState.empty rows = .ok st) :
    st.retained.Nodup ∧
    st.retained.length = min lim (rows.filter fun r => selects e r.2).length ∧
    (∀ b ∈ st.retained, ∃ r ∈ rows, r.1 = b ∧ selects e r.2 = true) ∧
    (∀ r ∈ rows, ∀ r' ∈ rows, selects e r.2 = true → selects e r'.2 = true →
      r.1 ∈ st.retained → r'.1 ∉ st.retained → notWorse e.asc (keyOf e r.2) (keyOf e r'.2) = true) := by
  have hinv := runExpr_inv hl rows [] EState.empty st (inv_empty e.asc lim) (by simp) hd h
  simp only [List.nil_append] at hinv
  have hbid : ∀ {x y : Bid × Option Str}, x ∈ items e rows → y ∈ items e rows → x.1 = y.1 → x = y := by
    intro x y hx hy hxy
    simp only [items, List.mem_map, List.mem_filter] at hx hy
    obtain ⟨r, ⟨hr, _⟩, rfl⟩ := hx
    obtain ⟨r', ⟨hr', _⟩, rfl⟩ := hy
    simp only at hxy
    have : r = r' := by
      clear hinv h
      induction rows with
      | nil => simp at hr
      | cons z rest ih =>
        simp only [List.map_cons, List.nodup_cons, List.mem_map] at hd
        rcases List.mem_cons.mp hr with h1 | h1
        · rcases List.mem_cons.mp hr' with h2 | h2
          · rw [h1, h2]
          · exact absurd ⟨r', h2, by rw [← hxy, h1]⟩ hd.1
        · rcases List.mem_cons.mp hr' with h2 | h2
          · exact absurd ⟨r, h1, by rw [hxy, h2]⟩ hd.1
          · exact ih hd.2 h1 h2
    rw [this]
  have hmemI : ∀ r ∈ rows, selects e r.2 = true → (r.1, keyOf e r.2) ∈ items e rows := by
    intro r hr hs
    simp only [items, List.mem_map, List.mem_filter]
    exact ⟨r, ⟨hr, hs⟩, rfl⟩
  refine ⟨hinv.retNodup, ?_, ?_, ?_⟩
  · have hlen : st.retained.length = st.queue.length := by
      have hp : st.retained.Perm (st.queue.map (·.1)) := by
        apply (List.perm_ext_iff_of_nodup hinv.retNodup hinv.qNodup).mpr
        intro b
        rw [hinv.ret b]
        simp only [List.mem_map]
        constructor
        · rintro ⟨k, hk⟩; exact ⟨(b, k), hk, rfl⟩
        · rintro ⟨x, hx, rfl⟩; exact ⟨x.2, hx⟩
      simpa using hp.length_eq
    rw [hlen, hinv.len]
    simp [items]
  · intro b hb
    obtain ⟨k, hk⟩ := (hinv.ret b).mp hb
    have := hinv.sub _ hk
    simp only [items, List.mem_map, List.mem_filter] at this
    obtain ⟨r, ⟨hr, hs⟩, hrb⟩ := this
    exact ⟨r, hr, by simpa using congrArg Prod.fst hrb, hs⟩
  · intro r hr r' hr' hs hs' hin hout
    obtain ⟨k, hk⟩ := (hinv.ret r.1).mp hin
    have hq : (r.1, keyOf e r.2) ∈ st.queue := by
      have := hbid (hinv.sub _ hk) (hmemI r hr hs) rfl
      rw [← this]; exact hk
    have hnq : (r'.1, keyOf e r'.2) ∉ st.queue := fun hm => hout ((hinv.ret r'.1).mpr ⟨_, hm⟩)
    exact (hinv.dropped _ (hmemI r' hr' hs') hnq).2 _ hq

/-- without `LIMIT` an expression retains exactly the selected artifacts -/
theorem nolimit_keeps_selected (e : Expr) (hl : e.limit = none) (rows : List (Bid × Val)) (st : EState)
    (h : runExpr e EState.empty rows = .ok st) :
    ∀ b, b ∈ st.retained ↔ ∃ r ∈ rows, r.1 = b ∧ selects e r.2 = true := by
  intro b
  have := runExpr_nolimit hl rows EState.empty st h b
  simpa [EState.empty] using this

/-- `query` returns the union of what the single expressions retain (LIMIT is per expression) -/
theorem query_is_union (es : List Expr) (rows : List (Bid × Val)) (l : List Bid) (h : query es rows = .ok l) :
    ∀ b, b ∈ l ↔ ∃ e ∈ es, ∃ st, runExpr e EState.empty rows = .ok st ∧ b ∈ st.retained :=
  query_mem h

/-! ### reference closure, delete list, dry run, find -/

/-- **closure_exact.**  The closure loop (with the fuel the model gives it) returns exactly the build ids
reachable from the directly retained ones through the `refs` table. -/
theorem closure_exact (refs : List (Bid × Bid)) (D : List Bid) (x : Bid) : x ∈ closure refs D ↔ Reach refs D x :=
  mem_closure

/-- ... which is the least set that contains the directly retained ones and is closed under references -/
theorem closure_least (refs : List (Bid × Bid)) (D : List Bid) :
    (∀ b ∈ D, b ∈ closure refs D) ∧
    (∀ a ∈ closure refs D, ∀ b, (a, b) ∈ refs → b ∈ closure refs D) ∧
    (∀ K : Bid → Prop, (∀ b ∈ D, K b) → (∀ a b, K a → (a, b) ∈ refs → K b) → ∀ x ∈ closure refs D, K x) := by
  refine ⟨fun b hb => mem_closure.mpr (Reach.base hb), ?_, ?_⟩
  · intro a ha b hab
    exact mem_closure.mpr (Reach.step (mem_closure.mp ha) hab)
  · intro K hD hK x hx
    have hr := mem_closure.mp hx
    clear hx
    induction hr with
    | base hb => exact hD _ hb
    | step _ hab ih => exact hK _ _ ih hab

/-- **deleted_eq_complement.**  What `clean --dry-run` lists (= what `clean` deletes, see `clean_exact`) is
exactly the index minus the closure of the directly retained artifacts, in index order. -/
theorem deleted_eq_complement (rep noscan : Bool) (es : List Expr) (w w' : World) (vs : List Bid)
    (h : cleanCmd rep noscan true es w = (w', .ok vs)) :
    w' = (if noscan then w else scanCmd rep w) ∧
    ∃ retained, query es w'.idx.table = .ok retained ∧
      vs = w'.idx.bids.filter (fun b => !(closure w'.idx.refs retained).contains b) ∧
      ∀ b, b ∈ vs ↔ b ∈ w'.idx.bids ∧ ¬ Reach w'.idx.refs retained b := by
  have key : ∀ w0 : World, cleanCmd rep true true es w0 = (w', .ok vs) → w' = w0 ∧
      ∃ retained, query es w'.idx.table = .ok retained ∧
        vs = w'.idx.bids.filter (fun b => !(closure w'.idx.refs retained).contains b) ∧
        ∀ b, b ∈ vs ↔ b ∈ w'.idx.bids ∧ ¬ Reach w'.idx.refs retained b := by
    intro w0 h0
    rw [cleanCmd_noscan] at h0
    cases hq : query es w0.idx.table with
    | error x => simp [hq] at h0
    | ok retained =>
      simp only [hq, if_true] at h0
      injection h0 with h1 h2
      injection h2 with h2
      subst h1
      refine ⟨rfl, retained, hq, ?_, ?_⟩
      · rw [← h2]; rfl
      · intro b
        rw [← h2]
        simp only [victimsOf, victims, List.mem_filter, Bool.not_eq_true', ← mem_closure]
        constructor
        · rintro ⟨h3, h4⟩
          exact ⟨h3, fun hm => by rw [List.contains_iff_mem.mpr hm] at h4; cases h4⟩
        · rintro ⟨h3, h4⟩
          refine ⟨h3, ?_⟩
          cases hc : (closure w0.idx.refs retained).contains b with
          | false => rfl
          | true => exact absurd (List.contains_iff_mem.mp hc) h4
  cases noscan with
  | true => simpa using key w h
  | false =>
    rw [cleanCmd_scan] at h
    simpa using key _ h

/-- **dry_run_noop.**  `--dry-run` leaves the archive alone; the only effect is the scan of the index
(none at all with `-n`). -/
theorem dry_run_noop (rep noscan : Bool) (es : List Expr) (w : World) :
    (cleanCmd rep noscan true es w).1 = (if noscan then w else scanCmd rep w) ∧
    (cleanCmd rep noscan true es w).1.files = w.files := by
  have key : ∀ w0 : World, (cleanCmd rep true true es w0).1 = w0 := by
    intro w0
    rw [cleanCmd_noscan]
    cases query es w0.idx.table <;> simp
  cases noscan with
  | true => simp [key]
  | false => rw [cleanCmd_scan, key]; simp [scanCmd]

/-- **clean_exact.**  When every file can be deleted, `clean` succeeds and keeps exactly the files that are not
in the index or whose build id is reachable from a directly retained one; every other indexed file is gone. -/
theorem clean_exact (rep noscan : Bool) (es : List Expr) (w : World) (hdel : ∀ f ∈ w.files, f.deletable = true)
    (retained : List Bid) (w1 : World) (hw1 : w1 = (if noscan then w else scanCmd rep w))
    (hq : query es w1.idx.table = .ok retained) :
    (cleanCmd rep noscan false es w).2 = .ok [] ∧
    ∀ f, f ∈ (cleanCmd rep noscan false es w).1.files ↔
      f ∈ w.files ∧ (f.bid ∈ w1.idx.bids → Reach w1.idx.refs retained f.bid) := by
  have key : ∀ w0 : World, (∀ f ∈ w0.files, f.deletable = true) → query es w0.idx.table = .ok retained →
      (cleanCmd rep true false es w0).2 = .ok [] ∧
      ∀ f, f ∈ (cleanCmd rep true false es w0).1.files ↔
        f ∈ w0.files ∧ (f.bid ∈ w0.idx.bids → Reach w0.idx.refs retained f.bid) := by
    intro w0 hd0 hq0
    rw [cleanCmd_noscan]
    simp only [hq0, Bool.false_eq_true, if_false, finish_files]
    obtain ⟨d1, d2⟩ := deleteLoop_all (victimsOf w0.idx retained) w0 false hd0
    rw [d1, d2]
    refine ⟨rfl, ?_⟩
    intro f
    simp only [List.mem_filter, victimsOf, victims, Bool.not_eq_true', ← mem_closure]
    constructor
    · rintro ⟨h1, h2⟩
      refine ⟨h1, fun hb => ?_⟩
      cases hc : (closure w0.idx.refs retained).contains f.bid with
      | true => exact List.contains_iff_mem.mp hc
      | false =>
        exfalso
        have : (List.filter (fun b => !(closure w0.idx.refs retained).contains b) w0.idx.bids).contains f.bid = true := by
          apply List.contains_iff_mem.mpr
          rw [List.mem_filter]
          exact ⟨hb, by rw [hc]; rfl⟩
        rw [this] at h2
        cases h2
    · rintro ⟨h1, h2⟩
      refine ⟨h1, ?_⟩
      cases hc : (List.filter (fun b => !(closure w0.idx.refs retained).contains b) w0.idx.bids).contains f.bid with
      | false => rfl
      | true =>
        exfalso
        have hm := List.contains_iff_mem.mp hc
        simp only [List.mem_filter, Bool.not_eq_true'] at hm
        have := List.contains_iff_mem.mpr (h2 hm.1)
        rw [this] at hm
        cases hm.2
  cases noscan with
  | true =>
    have e : w = w1 := by simpa using hw1.symm
    subst e
    exact key w hdel hq
  | false =>
    have e : scanCmd rep w = w1 := by simpa using hw1.symm
    subst e
    rw [cleanCmd_scan]
    have := key (scanCmd rep w) (by simpa [scanCmd] using hdel) hq
    simpa [scanCmd] using this

/-- **find_is_direct.**  `find` changes no file and lists, sorted and without duplicates, exactly the
artifacts that the expressions retain directly (no reference closure). -/
theorem find_is_direct (rep noscan : Bool) (es : List Expr) (w w' : World) (out : List Bid)
    (h : findCmd rep noscan es w = (w', .ok out)) :
    w' = (if noscan then w else scanCmd rep w) ∧ w'.files = w.files ∧
    ∃ retained, query es w'.idx.table = .ok retained ∧ (∀ b, b ∈ out ↔ b ∈ retained) ∧ StrictSorted out := by
  have key : ∀ w0 : World, findCmd rep true es w0 = (w', .ok out) → w' = w0 ∧
      ∃ retained, query es w'.idx.table = .ok retained ∧ (∀ b, b ∈ out ↔ b ∈ retained) ∧ StrictSorted out := by
    intro w0 h0
    simp only [findCmd, if_true] at h0
    cases hq : query es w0.idx.table with
    | error x => simp [hq] at h0
    | ok retained =>
      simp only [hq] at h0
      injection h0 with h1 h2
      injection h2 with h2
      subst h1
      subst h2
      exact ⟨rfl, retained, hq, fun b => mem_findOut, strictSorted_findOut retained⟩
  cases noscan with
  | true =>
    obtain ⟨h1, h2⟩ := key w h
    exact ⟨by simpa using h1, by rw [h1], h2⟩
  | false =>
    rw [findCmd_scan] at h
    obtain ⟨h1, h2⟩ := key _ h
    exact ⟨by simpa using h1, by rw [h1]; rfl, h2⟩

/-- **References of artifacts that stay in the index are never dropped by `clean`.**  Whatever `clean` deletes and
however the index is tidied up afterwards: a reference that the index held before the third pass and whose owner still
has a row afterwards is still there — also when its target is not (yet) in the archive.  (The references of an artifact
are only read again when its stat changes, so a dropped edge would never come back; the closure of a later `clean`
would miss it.) -/
theorem clean_keeps_refs_of_remaining_rows (rep noscan dry : Bool) (es : List Expr) (w : World) (p : Bid × Bid)
    (hp : p ∈ (if noscan then w else scanCmd rep w).idx.refs)
    (hrow : ∃ r ∈ (cleanCmd rep noscan dry es w).1.idx.rows, r.bid = p.1) :
    p ∈ (cleanCmd rep noscan dry es w).1.idx.refs := by
  cases noscan with
  | true => exact refs_kept_cleanCmd rep dry es w p (by simpa using hp) hrow
  | false =>
    rw [cleanCmd_scan] at hrow ⊢
    exact refs_kept_cleanCmd rep dry es _ p (by simpa using hp) hrow

/-- ... and a sound index stays sound under `clean`: every remaining row still has exactly the references of its
artifact (with `scan_normalises`: the same holds after every scan, whatever is absent from the archive). -/
theorem clean_preserves_sound (C : Bid → Stat → Option AuditInfo) (w : World) (hs : Sound C w.idx) (rep dry : Bool)
    (es : List Expr) : Sound C (cleanCmd rep true dry es w).1.idx :=
  sound_cleanCmd hs rep dry es

/-! ### the scan index -/

/-- **scan_normalises** (repaired scanner).  Whatever the previous index was — empty, warm, or stale in any way
that `StatChanges` allows (`Sound C idx`) — after `scan` the index holds exactly the rows and references that a
fresh look at the present files yields, and it is indistinguishable from a freshly built index. -/
theorem scan_normalises (C : Bid → Stat → Option AuditInfo) (idx : Index) (files : List FileEnt)
    (hs : Sound C idx) (hf : FilesOk C files) :
    Normal files (scanRepaired idx files) ∧
    IndexEq (scanRepaired idx files) (scanRepaired Index.empty files) ∧
    Sound C (scanRepaired idx files) := by
  obtain ⟨s1, n1⟩ := scanRepaired_spec hs hf
  obtain ⟨_, n2⟩ := scanRepaired_spec (sound_empty C) hf
  exact ⟨n1, normal_indexEq n1 n2, s1⟩

/-- **clean_index_independent** (repaired scanner).  On the same files, `clean` (and `find`) report the same and leave
the same files whatever index they start from. -/
theorem clean_index_independent (C : Bid → Stat → Option AuditInfo) (i j : Index) (files : List FileEnt)
    (hi : Sound C i) (hj : Sound C j) (hf : FilesOk C files) (dry : Bool) (es : List Expr) :
    (cleanCmd true false dry es ⟨files, i⟩).2 = (cleanCmd true false dry es ⟨files, j⟩).2 ∧
    (cleanCmd true false dry es ⟨files, i⟩).1.files = (cleanCmd true false dry es ⟨files, j⟩).1.files ∧
    (findCmd true false es ⟨files, i⟩).2 = (findCmd true false es ⟨files, j⟩).2 := by
  have heq : IndexEq (scanRepaired i files) (scanRepaired j files) :=
    normal_indexEq (scanRepaired_spec hi hf).2 (scanRepaired_spec hj hf).2
  rw [cleanCmd_scan, cleanCmd_scan, findCmd_scan, findCmd_scan]
  simp only [scanCmd, scanWith, if_true]
  exact ⟨(cleanCmd_congr heq true dry es files).1, (cleanCmd_congr heq true dry es files).2,
    (findCmd_congr heq true es files).1⟩

/-- **history_index_independent** (repaired scanner).  For every history — arbitrary archive contents between the
commands, any sequence of `scan` / `find` / `clean [--dry-run]` — every command reports and leaves exactly what it would
with a freshly built index at that moment, whatever sound index the history started from. -/
theorem history_index_independent (C : Bid → Stat → Option AuditInfo) (steps : List (List FileEnt × Cmd))
    (hok : ∀ s ∈ steps, FilesOk C s.1) (idx : Index) (hs : Sound C idx) :
    runHistory true idx steps =
      steps.map fun s => ((runCmd true s.2 ⟨s.1, Index.empty⟩).1.files, (runCmd true s.2 ⟨s.1, Index.empty⟩).2) := by
  induction steps generalizing idx with
  | nil => rfl
  | cons s rest ih =>
    obtain ⟨files, c⟩ := s
    have hf : FilesOk C files := hok (files, c) (by simp)
    simp only [runHistory, List.map_cons]
    have hstep : ((runCmd true c ⟨files, idx⟩).1.files = (runCmd true c ⟨files, Index.empty⟩).1.files ∧
        (runCmd true c ⟨files, idx⟩).2 = (runCmd true c ⟨files, Index.empty⟩).2) ∧
        Sound C (runCmd true c ⟨files, idx⟩).1.idx := by
      have hsc := scanRepaired_spec hs hf
      cases c with
      | scan => exact ⟨⟨rfl, rfl⟩, by simpa [runCmd, scanCmd, scanWith] using hsc.1⟩
      | find es =>
        have h1 := (clean_index_independent C idx Index.empty files hs (sound_empty C) hf true es).2.2
        refine ⟨⟨?_, h1⟩, ?_⟩
        · simp only [runCmd, findCmd_scan, findCmd_idx]
          rfl
        · simp only [runCmd, findCmd_scan, findCmd_idx]
          simpa [scanCmd, scanWith] using hsc.1
      | clean dry es =>
        have h1 := clean_index_independent C idx Index.empty files hs (sound_empty C) hf dry es
        refine ⟨⟨h1.2.1, h1.1⟩, ?_⟩
        simp only [runCmd, cleanCmd_scan]
        apply sound_cleanCmd
        simpa [scanCmd, scanWith] using hsc.1
    rw [hstep.1.1, hstep.1.2, ih (fun s hs' => hok s (by simp [hs'])) _ hstep.2]

/-- **The source has the repaired scanner.**  `Generated/ConstsC19.lean` is regenerated from the current source of
`ArchiveScanner.scan/__scan` on every run: `scan` forgets unseen rows and ownerless references, `__scan` drops the
references of a row it re-reads.  With these facts the scan function that the model of the commands uses is `scanRepaired`,
the one `scan_normalises` … `history_index_independent` are about.  Reverting the fix breaks this theorem. -/
theorem modelled_scan_is_repaired :
    scanWith (Consts.C19.scanDropsUnseenRows && Consts.C19.scanDropsOwnerlessRefs && Consts.C19.rereadDropsRefs) = scanRepaired := by
  funext idx files
  have h : (Consts.C19.scanDropsUnseenRows && Consts.C19.scanDropsOwnerlessRefs && Consts.C19.rereadDropsRefs) = true := by decide
  rw [h]
  rfl

/-! ### the scanner before the fix: the result depends on the index (findings F-C19-1, F-C19-2) -/

/-- The defect in general: the scanner as it is never touches a row whose artifact is no longer in the archive —
the row stays in the index (and keeps taking part in `query`). -/
theorem scanCurrent_keeps_vanished_rows (idx : Index) (files : List FileEnt) (r : Row)
    (hvanished : ∀ f ∈ files, r.bid ≠ f.bid) : r ∈ (scanCurrent idx files).rows ↔ r ∈ idx.rows :=
  scanCurrent_rows_other files idx hvanished

section Witness
open C19Witness

/-- After `B` vanished from the archive, `clean 'meta.package == "x" LIMIT 1'` with the warm index deletes `A`
(the stale row of `B` holds the LIMIT slot) whereas with a fresh index it keeps `A`. -/
theorem scanCurrent_index_dependent :
    ((cleanCmd false false false [exprX1] ⟨[fileA], warmIndex⟩).1.files.map fun f => f.bid) = [] ∧
    ((cleanCmd false false false [exprX1] ⟨[fileA], Index.empty⟩).1.files.map fun f => f.bid) = [str "aa"] := by
  decide

/-- the same history with the repaired scanner keeps `A` in both cases -/
example :
    ((cleanCmd true false false [exprX1] ⟨[fileA], scanRepaired Index.empty [fileA, fileB]⟩).1.files.map fun f => f.bid) = [str "aa"] ∧
    ((cleanCmd true false false [exprX1] ⟨[fileA], Index.empty⟩).1.files.map fun f => f.bid) = [str "aa"] := by
  decide

/-- the hypotheses of `scan_normalises` / `clean_index_independent` are satisfiable by a non-trivial instance: the
warm index of the witness is sound, and the files after `B` vanished are legitimate -/
example : Sound witnessC (scanRepaired Index.empty [fileA, fileB]) ∧ FilesOk witnessC [fileA] := by
  have hf : FilesOk witnessC [fileA, fileB] := by
    refine ⟨by decide, ?_⟩
    intro f hf
    simp only [List.mem_cons, List.not_mem_nil, or_false] at hf
    rcases hf with rfl | rfl <;> rfl
  refine ⟨(scan_normalises witnessC Index.empty _ (sound_empty _) hf).2.2, by decide, ?_⟩
  intro f hf
  simp only [List.mem_cons, List.not_mem_nil, or_false] at hf
  subst hf
  rfl

/-- `limit_keeps_top` on a concrete instance: three selected artifacts, one without `build.date`, `LIMIT 2` -/
example :
    (runExpr { exprX1 with limit := some 2 } EState.empty
      [(str "01", varsOf "x" "2020"), (str "02", .map [(str "meta", .map [(str "package", .str (str "x"))])]),
       (str "03", varsOf "x" "2021"), (str "04", varsOf "y" "2022")]).toOption.map (fun st => st.retained)
      = some [str "03", str "01"] := by
  decide

end Witness

end C19
