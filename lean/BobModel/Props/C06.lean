import BobModel.Proofs.C06Order13
/-
C06 — parallel builds are schedule independent and bounded.

Theorems about the scheduler model (Model/Sched.lean, Model/JobSem.lean) for ALL projects (any list of
steps with any dependency lists: DAGs with shared nodes, shared workspaces, ...), ALL job counts, ALL
schedules (`Reach`: any interleaving of task operations, script ends with success or failure, reader
callbacks and child-make token traffic), with and without keep-going.

`n` is the number of tokens that circulate.  `GoodRunners n r0`: the build starts with the internal job
server (`-jN`: n = N tokens), with an external one (`make -j(N+1)`: n = N tokens in the pipe plus the
implicit slot) or with `BoundedSemaphore(n)` (-j1).
-/
namespace C06
open Sched JobSem

variable {P : Project} {cfg : Cfg} {n : Nat} {r0 : Runners} {st : Sched.St}

/-! ### 1. tokens -/

/-- what **tokens_conserved** says about a configuration.
Job server semaphore: `pipe + held + (held by child makes) = n`; the tokens held are exactly the owners
counted by `__acquired` (minus the implicit slot in recursive mode); `__acquired` = tasks inside an
acquire/release bracket + slots handed over to waiters that have not continued yet; the waiter list has one
entry per task suspended in `acquire` and `__waitersCnt` counts those that have not been served; the inner
`asyncio.Semaphore` never has a free value.
BoundedSemaphore: `value + owners + hand-overs in flight = bound`. -/
def TokensConserved (n : Nat) (st : Sched.St) : Prop :=
  match st.runners with
  | .job s =>
    s.pipe + s.tokens + s.envHeld = n ∧
    s.tokens + JobSem.imp s = s.acquired ∧
    s.acquired = holders st + inflight s.sem.waiters ∧
    s.sem.waiters.length = waiting st ∧
    s.waitersCnt + inflight s.sem.waiters = waiting st ∧
    s.sem.value = 0
  | .bounded s b =>
    b = n ∧ s.value + holders st + inflight s.waiters = b ∧ s.waiters.length = waiting st

/-- **tokens_conserved**: the accounting above is an invariant of every schedule. -/
theorem tokens_conserved (hr : GoodRunners n r0) (h : Reach P cfg r0 st) : TokensConserved n st := by
  have hi := TokInv.reach hr h
  have hrun := hi.run
  unfold TokensConserved
  cases hs : st.runners with
  | job s =>
    rw [hs] at hrun
    obtain ⟨⟨h1, h2, h3, h4, _⟩, a2, a3⟩ := hrun
    have := inflight_add_notDone s.sem.waiters
    exact ⟨h1, h2, a2, a3, by omega, h4⟩
  | bounded s b =>
    rw [hs] at hrun
    obtain ⟨h1, h2, h3⟩ := hrun
    exact ⟨h1, h2, h3⟩

/-- **tokens given back**: in every terminal configuration (all tasks finished, whether the build
succeeded or failed) nobody owns a slot, `__tokens` is empty and the pipe holds exactly the initial tokens
once the child makes have returned theirs: none lost, none duplicated. -/
theorem tokens_returned (hr : GoodRunners n r0) (h : Reach P cfg r0 st) (hd : allDone st = true) :
    match st.runners with
    | .job s => s.acquired = 0 ∧ s.tokens = 0 ∧ s.sem.waiters = [] ∧ s.pipe + s.envHeld = n
    | .bounded s b => s.value = b ∧ s.waiters = [] := by
  have hc := tokens_conserved hr h
  obtain ⟨h0, w0⟩ := allDone_holders hd
  unfold TokensConserved at hc
  cases hs : st.runners with
  | job s =>
    rw [hs] at hc
    obtain ⟨c1, c2, c3, c4, c5, c6⟩ := hc
    have hw : s.sem.waiters = [] := List.eq_nil_of_length_eq_zero (by omega)
    have hz : s.acquired = 0 := by rw [c3, h0, hw]; rfl
    have ht : s.tokens = 0 := by omega
    exact ⟨hz, ht, hw, by omega⟩
  | bounded s b =>
    rw [hs] at hc
    obtain ⟨c1, c2, c3⟩ := hc
    have hw : s.waiters = [] := List.eq_nil_of_length_eq_zero (by omega)
    rw [hw, h0] at c2
    exact ⟨by simpa using c2, hw⟩

/-- a task that is about to give its slot back (`release` in `finally` / `__aexit__` / `__yieldJobWhile`)
owns one: `release` never raises in a build. -/
theorem release_never_raises (hr : GoodRunners n r0) (h : Reach P cfg r0 st) {t : Nat} {o : Op} {rest : List Op}
    (hops : (st.task t).ops = o :: rest) (ho : o = .release ∨ ∃ ks rs, o = .yieldRel ks rs) :
    ∃ r', st.runners.release = .ok r' :=
  (TokInv.reach hr h).release_ok hops ho

/-- **release without a token raises** (`ValueError`), in every mode. -/
theorem release_without_token_raises (s : JobSem.St) (h : s.acquired = 0) : s.release = .error .valueError :=
  JobSem.release_zero s h

/-- **no_lost_wakeup** (safety form): whenever a task waits for a slot and has not been served, the reader
callback of the job server pipe is registered; and when the event loop then runs it while a token is in
the pipe, at least one more waiter is served. -/
theorem no_lost_wakeup (recursive : Bool) (h : Reach P cfg (.job (JobSem.St.init recursive n)) st) :
    match st.runners with
    | .job s =>
      (0 < s.waitersCnt → s.reader = true) ∧
      (0 < s.waitersCnt → 0 < s.pipe → s.callback.waitersCnt < s.waitersCnt)
    | .bounded _ _ => True := by
  have hi := (TokInv.reach (GoodRunners.job recursive) h).run
  cases hs : st.runners with
  | job s =>
    rw [hs] at hi
    obtain ⟨hsem, _, _⟩ := hi
    refine ⟨fun hw => ?_, fun hw hp => hsem.callback_serves hw hp⟩
    obtain ⟨_, _, h3, _, h5, _⟩ := hsem
    exact h5.2 hw
  | bounded s b => trivial

/-! ### 2. bounded parallelism -/

/-- **running_le_jobs**: in every reachable configuration the number of tasks between "script started" and
"the task noticed the end of its script" is at most the number of job slots (`n`, or `n + 1` under an
external job server whose implicit slot Bob may use). -/
theorem running_le_jobs (hr : GoodRunners n r0) (h : Reach P cfg r0 st) : scriptsRunning st ≤ capacity n st :=
  (TokInv.reach hr h).running_le

/-- every task whose script runs owns a job slot, and the owners are at most the slots -/
theorem owners_le_jobs (hr : GoodRunners n r0) (h : Reach P cfg r0 st) : holders st ≤ capacity n st :=
  (TokInv.reach hr h).holders_le

/-! ### 3. workspaces are exclusive -/

/-- per workspace at most one task is inside `async with self.__workspaceLock(step)` -/
theorem lock_holders_le_one (hr : GoodRunners n r0) (h : Reach P cfg r0 st) (p : Nat) : lockHolders p st ≤ 1 :=
  (LockInv.reach hr h).holders_le_one p

/-- a script is started, runs and is recorded in `wasRun` only inside the lock of its workspace: every
`run` / `runWait` / `underLock` / `setRun` operation of a continuation is followed by the `unlock` of its workspace -/
theorem scripts_only_under_lock (hr : GoodRunners n r0) (h : Reach P cfg r0 st) :
    ∀ x ∈ st.tasks, underLockOK P x.ops = true :=
  (LockInv.reach hr h).sect

/-- **exclusive** (second half of once_and_exclusive): in no reachable configuration two scripts run in the
same workspace - whatever step objects (sandbox variants, checkoutOnly variants) share it. -/
theorem exclusive (hr : GoodRunners n r0) (h : Reach P cfg r0 st) (p : Nat) :
    tsum (Task.runningIn P p) st ≤ 1 :=
  (LockInv.reach hr h).exclusive p

/-- leaving `async with lock` never raises (`Lock.release()` finds the lock locked) -/
theorem unlock_never_raises (hr : GoodRunners n r0) (h : Reach P cfg r0 st) {t p : Nat} {rest : List Op}
    (hops : (st.task t).ops = .unlock p :: rest) : ∃ l, (st.lockOf p).release = .ok l :=
  (LockInv.reach hr h).unlock_ok hops

/-- the waiter list of a workspace lock has one entry per task suspended in `lock.acquire()`; at most one of
them has been woken, and only while the lock is free -/
theorem lock_accounting (hr : GoodRunners n r0) (h : Reach P cfg r0 st) (p : Nat) :
    ((st.lockOf p).locked = true → lockHolders p st = 1 ∧ inflight (st.lockOf p).waiters = 0) ∧
    ((st.lockOf p).locked = false → lockHolders p st = 0 ∧ inflight (st.lockOf p).waiters ≤ 1) ∧
    (st.lockOf p).waiters.length = tsum (Task.waitingLock P p) st :=
  let a := (LockInv.reach hr h).at_ p
  ⟨a.locked, a.free, a.waiters⟩

/-! ### 4. failures -/

/-- the scheduler's own bookkeeping never raises: no task ever carries an internal exception (`ValueError` /
`IndexError` of the semaphore, `RuntimeError` of a lock); only script failures (`BuildError`) and their
propagation (`CancelBuildException`) occur. -/
theorem no_internal_error (hr : GoodRunners n r0) (h : Reach P cfg r0 st) : ∀ x ∈ st.tasks, x.err ≠ some .internal :=
  (ErrInv.reach hr h).noInternal

/-- **failure_confined**, without keep-going: once a build error has been recorded `running` is cleared and
stays cleared; from then on every `if not self.__running: raise CancelBuildException` check fails, i.e. no
task passes the `running` check after the first failure. -/
theorem failure_stops_build (hr : GoodRunners n r0) (h : Reach P cfg r0 st) (hk : cfg.keepGoing = false)
    (he : 0 < st.errors) : st.running = false :=
  (ErrInv.reach hr h).stop hk he

/-- a task that reaches a `running` check while `running` is cleared raises `CancelBuildException` -/
theorem check_fails_when_stopped {t : Nat} {rest : List Op} (hrun : st.running = false)
    (hops : (st.task t).ops = .checkRunning :: rest) :
    stepTask P cfg st t = some (st.setTask t (raise (st.task t) .cancel rest)) := by
  simp [stepTask, hops, hrun]

/-- **failure_confined**, with keep-going: a failure never clears `running`; tasks that do not wait for a
failed task are not stopped. -/
theorem keep_going_never_stops (hr : GoodRunners n r0) (h : Reach P cfg r0 st) (hk : cfg.keepGoing = true) :
    st.running = true :=
  (ErrInv.reach hr h).keep hk

/-! ### 5. events -/

/-- a `start` event enters the history only through the `run` operation at the head of the stepping task
(it is then the only new event), an `end` event only through a `runWait` whose script has ended, a `setRun`
event only through `setRun`; every other step appends events that concern neither. -/
theorem events_of_a_step {st' : Sched.St} {t : Nat} (h : stepTask P cfg st t = some st') :
    ∃ evs, st'.trace = st.trace ++ evs ∧ NewEvents P st t evs :=
  stepTask_trace h

/-! ### ordering and dataflow: deps_first, once (proved), schedule_independent (refuted as stated, proved with `ReadsDeps`) -/

/-- under `PathVid` (a workspace belongs to one variant, C16; `Sched.PathVid`) `_wasAlreadyRun` never prunes an
entry of the table and answers exactly "this step was run in this invocation"; the filter at the top of `_cook`
leaves exactly the valid steps that have not been run. -/
theorem wasrun_lookup_exact {wr : WasRun} (hpv : PathVid P) (hv : WrValid P wr) (s : Nat) (co : Bool) :
    (wasAlreadyRun P wr s co).2 = wr ∧ ((wasAlreadyRun P wr s co).1 = true ↔ WasOk P wr s co) :=
  wasAlreadyRun_spec hpv hv s co

theorem cook_filter_exact {wr : WasRun} (hpv : PathVid P) (hv : WrValid P wr) (co : Bool) (steps : List Nat) :
    (filterTodo P co steps wr).2 = wr ∧
    (∀ d ∈ steps, (P.info d).valid = true → WasOk P wr d co ∨ d ∈ (filterTodo P co steps wr).1) ∧
    (∀ d ∈ (filterTodo P co steps wr).1, d ∈ steps ∧ (P.info d).valid = true) :=
  filterTodo_spec hpv hv co steps

/-- **deps_first**: a script starts only after the scripts of all valid dependencies of its step ended successfully -/
def deps_first_goal : Prop :=
  ∀ (P : Project) (cfg : Cfg) (n : Nat) (r0 : Runners) (st : Sched.St), PathVid P → GoodRunners n r0 →
    Reach P cfg r0 st → depsFirst P st = true

/-- **deps_first**, partial: proved for parallel builds (`hpar : cfg.par = true`, jobs > 1), for every project, job
server mode and schedule.  Invariant `Sched.DepsInv` over `Reach`: along every continuation each operation that leads
to the script of `s` (`lock s _ false`, `lockWait`, `underLock`, `run`, `runWait`) is either reached with all valid
dependencies of `s` finished successfully, or is preceded by an operation that guarantees this when it completes (the
`_cook` of the dependencies, the spawn of their cook tasks, `yieldRel` / `gather` on these tasks: `Sched.chk`); a cook
task that ended without an exception has left a successful end of a script of its workspace in the history; `wasRun`
says "run" only for workspaces with a successful end; `cookTasks` maps a key to a cook task of that workspace.
(Superseded by `deps_first` below, which also covers the sequential scheduler of `-j1`; kept because its invariant is
the simpler one.) -/
theorem deps_first_partial (P : Project) (cfg : Cfg) (n : Nat) (r0 : Runners) (st : Sched.St) (hpv : PathVid P)
    (hpar : cfg.par = true) (hr : GoodRunners n r0) (h : Reach P cfg r0 st) : depsFirst P st = true :=
  deps_first_par hpv hpar hr h

/-- **deps_first** at full strength: every project, configuration (parallel and sequential `-j1` scheduler), job
server mode and schedule.  Invariant `Sched.Full.DepsInv` over `Reach` = the invariant of `deps_first_partial` with the
generalised check `Sched.gchk`, instantiated twice: "the dependencies of `s` are finished" (now also covered by the
sequential spawn loop: `spawnSeq .cook todo false made` covers what is still in `todo` or cooked by a task in `made`,
`results made` covers what the done tasks in `made` cooked) and "task `k` is done" (needed by `spawnSeq` for the
tasks in `made`, covered by `yieldRel [k] false` / `waitOnly [k]`). -/
theorem deps_first : deps_first_goal := by
  intro P cfg n r0 st hpv hr h
  exact Full.deps_first_all hpv hr h

/-- **once** (first half of once_and_exclusive): per workspace, starts and ends alternate and a workspace is
started again only after a failed execution (possible when step objects with different sandboxes share it) -/
def once_goal : Prop :=
  ∀ (P : Project) (cfg : Cfg) (n : Nat) (r0 : Runners) (st : Sched.St), PathVid P → GoodRunners n r0 →
    Reach P cfg r0 st → onceLegal P st = true

/-- **once** holds for every project, configuration, job count and schedule.  Invariant (`Sched.OnceInv`, by
induction over `Reach`): the history says "running" for a workspace iff a task is suspended in `runWait` there
(inside the workspace lock); "ok" implies that `wasRun` records a real run or that the task that ran the script
is about to record it, still inside the lock; a task that will start a script has checked under the lock that
`wasRun` has no real run, and lock exclusivity (`LockInv`) keeps that true until it starts. -/
theorem once : once_goal := by
  intro P cfg n r0 st hpv hr h
  exact once_all hpv hr h

/-- **schedule_independent**: whenever a script ended successfully its workspace holds `value` = the result
of the sequential dataflow, for every schedule (`hval`: the dataflow equation, stated locally; equal
workspaces have equal inputs and scripts) -/
def schedule_independent_goal : Prop :=
  ∀ (P : Project) (cfg : Cfg) (n : Nat) (r0 : Runners) (st : Sched.St) (value : Nat → Nat), PathVid P →
    (∀ s, value s = P.run s ((P.info s).bidDeps.map value)) →
    (∀ s s', (P.info s).path = (P.info s').path → value s = value s') →
    GoodRunners n r0 → Reach P cfg r0 st →
    ∀ t s, Ev.fin t s true ∈ st.trace → st.diskAt (P.info s).path = value s

/-- **schedule_independent**, partial: with the two hypotheses that the full statement lacks or that are not proved yet.
`hrd` (`Sched.ReadsDeps`): what a script reads (`bidDeps`) is among the valid dependencies of its step (true of Bob's
`getAllDepSteps`; without it the statement is false, see `schedule_independent_refuted` below).
`hdf` (`Sched.DepsAtEnd` in every reachable configuration): the state form of deps_first - a task whose script is
running has the scripts of all valid dependencies of its step finished successfully; this is `deps_first_goal`, which
is now proved (`deps_first`; `schedule_independent_fixed` below needs neither `hdf` nor a mode).  The proof uses **once** (after a successful end a workspace is never started again, a failing
script never overwrites a good result) and the per-workspace lock. -/
theorem schedule_independent_partial (P : Project) (cfg : Cfg) (n : Nat) (r0 : Runners) (st : Sched.St)
    (value : Nat → Nat) (hpv : PathVid P) (hval : ∀ s, value s = P.run s ((P.info s).bidDeps.map value))
    (hpath : ∀ s s', (P.info s).path = (P.info s').path → value s = value s')
    (hrd : ReadsDeps P) (hdf : ∀ st', Reach P cfg r0 st' → DepsAtEnd P st')
    (hr : GoodRunners n r0) (h : Reach P cfg r0 st) :
    ∀ t s, Ev.fin t s true ∈ st.trace → st.diskAt (P.info s).path = value s :=
  ValInv.reach hpv hval hpath hrd hr hdf h

/-- **schedule_independent**, partial, for parallel builds: only the hypothesis `hrd` that the statement lacks
(`Sched.ReadsDeps`) and `hpar : cfg.par = true`; superseded by `schedule_independent_fixed`. -/
theorem schedule_independent_partial_par (P : Project) (cfg : Cfg) (n : Nat) (r0 : Runners) (st : Sched.St)
    (value : Nat → Nat) (hpv : PathVid P) (hval : ∀ s, value s = P.run s ((P.info s).bidDeps.map value))
    (hpath : ∀ s s', (P.info s).path = (P.info s').path → value s = value s')
    (hrd : ReadsDeps P) (hpar : cfg.par = true) (hr : GoodRunners n r0) (h : Reach P cfg r0 st) :
    ∀ t s, Ev.fin t s true ∈ st.trace → st.diskAt (P.info s).path = value s :=
  ValInv.reach hpv hval hpath hrd hr (fun _ h' => depsAtEnd_par hpv hpar hr h') h

/-- **schedule_independent** with the hypothesis that the original statement lacks (`Sched.ReadsDeps`: what a script
reads, `bidDeps` = valid arguments and tools, is among the valid dependencies of its step, as in Bob's
`getAllDepSteps`).  The original `schedule_independent_goal` stays above, with its refutation
`schedule_independent_refuted` below. -/
def schedule_independent_fixed_goal : Prop :=
  ∀ (P : Project) (cfg : Cfg) (n : Nat) (r0 : Runners) (st : Sched.St) (value : Nat → Nat), PathVid P → ReadsDeps P →
    (∀ s, value s = P.run s ((P.info s).bidDeps.map value)) →
    (∀ s s', (P.info s).path = (P.info s').path → value s = value s') →
    GoodRunners n r0 → Reach P cfg r0 st →
    ∀ t s, Ev.fin t s true ∈ st.trace → st.diskAt (P.info s).path = value s

/-- **schedule_independent** (fixed statement) at full strength, all modes: by `deps_first` in its state form
(`Sched.Full.depsAtEnd_all`), **once** and the workspace locks (`Sched.ValInv`). -/
theorem schedule_independent_fixed : schedule_independent_fixed_goal := by
  intro P cfg n r0 st value hpv hrd hval hpath hr h
  exact ValInv.reach hpv hval hpath hrd hr (fun _ h' => Full.depsAtEnd_all hpv hr h') h

/-- `d` is `s` or a valid step below it (dependencies of invalid steps are never cooked) -/
inductive Below (P : Project) : Nat → Nat → Prop
  | refl (s : Nat) : Below P s s
  | dep {s d e : Nat} : (P.info s).valid = true → d ∈ (P.info s).deps → Below P d e → Below P s e

/-- DESIGN theorem 5c: with keep-going every step below a target none of whose (transitive) dependencies
failed has been executed when the build ends.  REFUTED for model and implementation: a package step asks for
its build-id before it cooks its dependencies, the build-id pre-pass checks out all sources below it, and a
failing checkout there ends the whole root although sub-dependencies that are independent of the failure could
be built (observed on implementation traces, histogram `keep-going-leaves-independent-step-unbuilt`). -/
def keepgoing_complete_goal : Prop :=
  ∀ (P : Project) (cfg : Cfg) (n : Nat) (r0 : Runners) (st : Sched.St), GoodRunners n r0 → cfg.keepGoing = true →
    cfg.co0 = false → Reach P cfg r0 st → allDone st = true →
    ∀ tg ∈ cfg.targets, ∀ s, Below P tg s → (P.info s).valid = true →
      (∀ d t', Below P s d → Ev.fin t' d false ∉ st.trace) → finishedOk P st.trace (P.info s).path = true

/-! non-vacuity: a diamond with a shared leaf, two jobs, a schedule that runs two scripts at once -/

def exProject : Project :=
  { steps := [⟨.package, 0, 10, none, true, [], []⟩,           -- 0: shared leaf
              ⟨.package, 1, 11, none, true, [0], [0]⟩,          -- 1: left
              ⟨.package, 2, 12, none, true, [0], [0]⟩,          -- 2: right
              ⟨.package, 3, 13, none, true, [1, 2], [1, 2]⟩],   -- 3: root
    run := fun s ins => s + ins.sum, junk := fun _ => 0 }

def exCfg : Cfg := { par := true, keepGoing := false, co0 := true, targets := [3] }

example : GoodRunners 2 (.job (JobSem.St.init false 2)) := GoodRunners.job false
example : Reach exProject exCfg (.job (JobSem.St.init false 2)) (init exCfg (.job (JobSem.St.init false 2))) := Reach.init

/-! non-vacuity of **once**: a two-step chain of checkout steps built to the end of the second script -/

def exGood : Project :=
  { steps := [⟨.checkout, 0, 0, none, true, [], []⟩, ⟨.checkout, 1, 11, none, true, [0], [0]⟩],
    run := fun s ins => ins.sum + (if s = 1 then 5 else 7), junk := fun _ => 0 }

def exCfg1 : Cfg := { par := true, keepGoing := false, co0 := false, targets := [1] }

def exR2 : Runners := .bounded { value := 2, waiters := [] } 2

/-- dispatcher; top task of 1; cook task of 1 asks for 0; cook task of 0 runs its script to the end and records it;
cook task of 1 runs its script to the end -/
def exGoodSchedule : List Choice :=
  [.task 0, .task 1, .task 1, .task 1, .task 1, .task 1, .task 2, .task 2, .task 2, .task 2, .task 2,
   .task 3, .task 3, .task 3, .task 3, .task 3, .task 3, .finish 3 true, .task 3, .task 3, .task 3, .task 3, .task 3,
   .task 2, .task 2, .task 2, .task 2, .task 2, .task 2, .finish 2 true, .task 2]

def exGoodSt : Sched.St := exec exGood exCfg1 exGoodSchedule (init exCfg1 exR2)

theorem exGood_pathVid : PathVid exGood := by
  intro s s' hv hp
  rcases s with _ | _ | s <;> rcases s' with _ | _ | s' <;> simp_all [exGood, Project.info, List.getD, default]

/-- a reachable configuration whose history has two script starts and two successful ends in two workspaces, for
which `once` gives `onceLegal` -/
example : Reach exGood exCfg1 exR2 exGoodSt ∧ Ev.start 3 0 ∈ exGoodSt.trace ∧ Ev.fin 3 0 true ∈ exGoodSt.trace ∧
    Ev.start 2 1 ∈ exGoodSt.trace ∧ Ev.fin 2 1 true ∈ exGoodSt.trace ∧ onceLegal exGood exGoodSt = true :=
  ⟨reach_exec Reach.init _, by decide +kernel, by decide +kernel, by decide +kernel, by decide +kernel,
   once exGood exCfg1 2 exR2 exGoodSt exGood_pathVid GoodRunners.bounded (reach_exec Reach.init _)⟩

/-! **schedule_independent** as stated is FALSE of the model: nothing in the statement ties what a script reads
(`bidDeps`: valid arguments and tools) to what is cooked before it (`deps`).  Witness: step 1 reads the workspace
of step 0 but does not depend on it; building 1 alone runs its script on the empty workspace 0.  (In Bob
`getAllDepSteps()` contains the arguments and tools, so the witness is not a Bob project: the missing hypothesis
is `∀ s d, d ∈ (P.info s).bidDeps → d ∈ (P.info s).deps ∧ (P.info d).valid`.) -/

def exBad : Project :=
  { steps := [⟨.checkout, 0, 0, none, true, [], []⟩, ⟨.checkout, 1, 11, none, true, [], [0]⟩],
    run := fun s ins => ins.sum + (if s = 1 then 5 else 7), junk := fun _ => 0 }

def exBadValue (s : Nat) : Nat := if s = 1 then 12 else 7

/-- dispatcher; top task of 1; cook task of 1 runs the script of 1 to the end -/
def exBadSchedule : List Choice :=
  [.task 0, .task 1, .task 1, .task 1, .task 1, .task 1, .task 2, .task 2, .task 2, .task 2, .task 2, .task 2,
   .finish 2 true, .task 2]

def exBadSt : Sched.St := exec exBad exCfg1 exBadSchedule (init exCfg1 exR2)

theorem exBad_pathVid : PathVid exBad := by
  intro s s' hv hp
  rcases s with _ | _ | s <;> rcases s' with _ | _ | s' <;> simp_all [exBad, Project.info, List.getD, default]

theorem exBad_value (s : Nat) : exBadValue s = exBad.run s ((exBad.info s).bidDeps.map exBadValue) := by
  rcases s with _ | _ | s <;> simp [exBadValue, exBad, Project.info, List.getD, default]

theorem exBad_consistent (s s' : Nat) (h : (exBad.info s).path = (exBad.info s').path) : exBadValue s = exBadValue s' := by
  rcases s with _ | _ | s <;> rcases s' with _ | _ | s' <;> simp_all [exBadValue, exBad, Project.info, List.getD, default]

/-- non-vacuity of `deps_first_partial` and `schedule_independent_partial_par` on the chain `exGood` (step 1 reads
and depends on step 0): the history has the start of 1 after the successful end of 0, and workspace 1 holds the
sequential value 12 = 5 + 7 -/
example : depsFirst exGood exGoodSt = true ∧ exGoodSt.diskAt (exGood.info 1).path = 12 := by
  have hr : Reach exGood exCfg1 exR2 exGoodSt := reach_exec Reach.init _
  refine ⟨deps_first_partial exGood exCfg1 2 exR2 exGoodSt exGood_pathVid rfl GoodRunners.bounded hr, ?_⟩
  refine schedule_independent_partial_par exGood exCfg1 2 exR2 exGoodSt exBadValue exGood_pathVid ?_ ?_ ?_ rfl
    GoodRunners.bounded hr 2 1 (by decide +kernel)
  · intro s
    rcases s with _ | _ | s <;> simp [exBadValue, exGood, Project.info, List.getD, default]
  · intro s s' h
    rcases s with _ | _ | s <;> rcases s' with _ | _ | s' <;> simp_all [exBadValue, exGood, Project.info, List.getD, default]
  · intro s d hd
    rcases s with _ | _ | s <;> simp_all [exGood, Project.info, List.getD, default]

/-- non-vacuity of `deps_first` and `schedule_independent_fixed` in the sequential mode (`par := false`: the
dispatcher and every `_cook` spawn one task at a time and wait for it): the same chain built to the end -/
def exCfgSeq : Cfg := { par := false, keepGoing := false, co0 := false, targets := [1] }

def exSeqSchedule : List Choice :=
  [.task 0, .task 0, .task 1, .task 1, .task 1, .task 1, .task 1, .task 1,
   .task 2, .task 2, .task 2, .task 2, .task 2, .task 2,
   .task 3, .task 3, .task 3, .task 3, .task 3, .task 3, .finish 3 true, .task 3, .task 3, .task 3, .task 3, .task 3,
   .task 2, .task 2, .task 2, .task 2, .task 2, .task 2, .task 2, .task 2, .finish 2 true, .task 2]

def exSeqSt : Sched.St := exec exGood exCfgSeq exSeqSchedule (init exCfgSeq exR2)

example : Ev.start 2 1 ∈ exSeqSt.trace ∧ depsFirst exGood exSeqSt = true ∧ exSeqSt.diskAt (exGood.info 1).path = 12 := by
  have hr : Reach exGood exCfgSeq exR2 exSeqSt := reach_exec Reach.init _
  refine ⟨by decide +kernel, deps_first exGood exCfgSeq 2 exR2 exSeqSt exGood_pathVid GoodRunners.bounded hr, ?_⟩
  refine schedule_independent_fixed exGood exCfgSeq 2 exR2 exSeqSt exBadValue exGood_pathVid ?_ ?_ ?_
    GoodRunners.bounded hr 2 1 (by decide +kernel)
  · intro s d hd
    rcases s with _ | _ | s <;> simp_all [exGood, Project.info, List.getD, default]
  · intro s
    rcases s with _ | _ | s <;> simp [exBadValue, exGood, Project.info, List.getD, default]
  · intro s s' h
    rcases s with _ | _ | s <;> rcases s' with _ | _ | s' <;> simp_all [exBadValue, exGood, Project.info, List.getD, default]

theorem schedule_independent_refuted : ¬ schedule_independent_goal := by
  intro h
  have h1 := h exBad exCfg1 2 exR2 exBadSt exBadValue exBad_pathVid exBad_value exBad_consistent GoodRunners.bounded
    (reach_exec Reach.init _) 2 1 (by decide)
  exact absurd h1 (by decide)

end C06
