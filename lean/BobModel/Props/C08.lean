import BobModel.Proofs.C08Check
/-
C08 — artifact packing is lossless, corruption is rejected, extraction is confined.
Property theorems about the model `Model/TarExtract.lean` of `TarHelper` (pym/bob/archive.py),
`_tarExtractFilter` (pym/bob/utils.py), CPython's per-member extraction (assumed semantics) and
the acceptance logic of `LocalBuilder._downloadPackage` (pym/bob/builder.py).

`Cfg.current` is the dispatch of the *current source*: which confinement checks exist is
extracted from the source on every run (`Generated/ConstsC08.lean`).  `Cfg.asIs` is the
dispatch before commit 8ba1640, `Cfg.lexical` a repair that only normalises hard link names;
both are kept because the witnesses below refute the confinement statement for them (they
replay on the implementation when the checks are removed again).
-/
namespace C08
open TarExtract

/-! ## 1. name space of `_pack` / `__extractPackage` -/

/-- the constants of `_pack` and of the dispatch fit together -/
theorem namespace_constants :
    Consts.C08.packContent ++ [slash] = Consts.C08.contentPrefix ∧
    Consts.C08.contentPrefix.length = Consts.C08.stripLen ∧
    Consts.C08.packVsn = Consts.C08.vsnAccepted ∧
    Consts.C08.vsnDefault ≠ Consts.C08.vsnAccepted ∧
    contentSlash.isPrefixOf auditMember = false ∧
    Consts.C08.skipNames.contains Consts.C08.packContent = true ∧
    Consts.C08.skipNames.contains auditMember = false ∧
    (∀ n ∈ Consts.C08.skipNames, contentSlash.isPrefixOf n = false) ∧
    Consts.C08.unknownRejected = true := by
  decide

/-- a member that `_pack` emits for the tree entry `m` (any name, any link name) is dispatched as
content member and renamed back to exactly `m`: `rel ↦ content/rel ↦ rel` is the identity -/
theorem dispatch_packed_content (cfg : Cfg) (hl : cfg.lnkCheck ≠ 1) (m : Member) :
    dispatch cfg { m with name := Consts.C08.packContent ++ [slash] ++ m.name,
                          linkname := if m.type = .lnk then Consts.C08.packContent ++ [slash] ++ m.linkname else m.linkname }
      = .ok (.content m) := by
  have hpre : Consts.C08.packContent ++ [slash] = contentSlash := namespace_constants.1
  have hlen : contentSlash.length = Consts.C08.stripLen := namespace_constants.2.1
  have hp : ∀ x : Str, contentSlash.isPrefixOf (contentSlash ++ x) = true :=
    fun x => List.isPrefixOf_iff_prefix.mpr (List.prefix_append _ _)
  have hd : ∀ x : Str, (contentSlash ++ x).drop Consts.C08.stripLen = x := by
    intro x; rw [← hlen]; exact List.drop_left
  unfold dispatch
  simp only [hpre, hp, if_true]
  by_cases ht : m.type = .lnk
  · simp only [ht, if_true, hp, Bool.true_eq_false, if_false, hd]
    have : ¬ (cfg.lnkCheck = 1 ∧ (isAbs m.linkname = true ∨ (normpath m.linkname).2.head? = some dotdot)) :=
      fun h => hl h.1
    simp only [this, if_false]
    cases m; simp_all
  · simp only [ht, if_false, hd]

theorem dispatch_packed_audit (cfg : Cfg) (data : Str) :
    dispatch cfg ⟨auditMember, .reg, [], 0o644, data⟩ = .ok .audit := by
  have h1 : contentSlash.isPrefixOf auditMember = false := namespace_constants.2.2.2.2.1
  unfold dispatch
  simp only [h1, Bool.false_eq_true, if_false, if_true]

theorem dispatch_packed_contentdir (cfg : Cfg) :
    dispatch cfg ⟨Consts.C08.packContent, .dir, [], 0o755, []⟩ = .ok .skip := by
  have h1 : contentSlash.isPrefixOf Consts.C08.packContent = false := by decide
  have h2 : Consts.C08.packContent ≠ auditMember := by decide
  have h3 : Consts.C08.skipNames.contains Consts.C08.packContent = true := namespace_constants.2.2.2.2.2.1
  unfold dispatch
  simp only [h1, Bool.false_eq_true, if_false]
  rw [if_neg h2, if_pos h3]

/-- **pack_extract_namespace**: the member list that `_pack` produces for an audit trail named
`audit.json.gz` and any tree listing `rels` is accepted member by member by the dispatch of
`__extractPackage` as: the audit file, the (skipped) `content` directory, and every tree entry
under its own relative name. -/
theorem pack_extract_namespace (cfg : Cfg) (hl : cfg.lnkCheck ≠ 1) (auditBase auditData : Str) (rels : List Member)
    (hbase : Consts.C08.packMetaDir ++ auditBase = auditMember) :
    (packMembers auditBase auditData rels).map (dispatch cfg) =
      .ok .audit :: .ok .skip :: rels.map (fun m => .ok (.content m)) := by
  unfold packMembers
  simp only [List.map_cons, List.map_map, hbase, dispatch_packed_audit, dispatch_packed_contentdir]
  congr 2
  apply List.map_congr_left
  intro m _
  exact dispatch_packed_content cfg hl m

/-- nothing else is accepted: what the dispatch lets through has exactly these forms -/
theorem dispatch_accepts_only (cfg : Cfg) (m : Member) :
    (∀ m', dispatch cfg m = .ok (.content m') →
        m.name = contentSlash ++ m'.name ∧ m'.type = m.type ∧ m'.mode = m.mode ∧ m'.data = m.data ∧
        (m.type = .lnk → m.linkname = contentSlash ++ m'.linkname) ∧ (m.type ≠ .lnk → m'.linkname = m.linkname)) ∧
    (dispatch cfg m = .ok .audit → m.name = auditMember) ∧
    (dispatch cfg m = .ok .skip → Consts.C08.skipNames.contains m.name = true) := by
  have hlen : contentSlash.length = Consts.C08.stripLen := namespace_constants.2.1
  have hsplit : ∀ x : Str, contentSlash.isPrefixOf x = true → x = contentSlash ++ x.drop Consts.C08.stripLen := by
    intro x hx
    obtain ⟨t, ht⟩ := List.isPrefixOf_iff_prefix.mp hx
    rw [← ht, ← hlen, List.drop_left]
  have hur : Consts.C08.unknownRejected = true := namespace_constants.2.2.2.2.2.2.2.2
  unfold dispatch
  by_cases hc : contentSlash.isPrefixOf m.name = true
  · rw [if_pos hc]
    by_cases ht : m.type = .lnk
    · rw [if_pos ht]
      by_cases hlc : contentSlash.isPrefixOf m.linkname = true
      · rw [if_neg (by simp [hlc])]
        dsimp only
        split
        · simp
        · refine ⟨?_, by simp, by simp⟩
          intro m' hm'
          have e := Action.content.inj (Except.ok.inj hm')
          subst e
          exact ⟨hsplit _ hc, rfl, rfl, rfl, fun _ => hsplit _ hlc, fun h => absurd ht h⟩
      · have : contentSlash.isPrefixOf m.linkname = false := (Bool.not_eq_true _).mp hlc
        rw [if_pos this]
        simp
    · rw [if_neg ht]
      refine ⟨?_, by simp, by simp⟩
      intro m' hm'
      have e := Action.content.inj (Except.ok.inj hm')
      subst e
      exact ⟨hsplit _ hc, rfl, rfl, rfl, fun h => absurd h ht, fun _ => rfl⟩
  · rw [if_neg hc]
    by_cases ha : m.name = auditMember
    · rw [if_pos ha]
      exact ⟨(fun m' h => by cases h), fun _ => ha, (fun h => by cases h)⟩
    · rw [if_neg ha]
      by_cases hs : Consts.C08.skipNames.contains m.name = true
      · rw [if_pos hs]
        exact ⟨(fun m' h => by cases h), (fun h => by cases h), fun _ => hs⟩
      · rw [if_neg hs, if_pos hur]
        exact ⟨(fun m' h => by cases h), (fun h => by cases h), (fun h => by cases h)⟩

/-! ## 2. a download is accepted only if it is verified -/

/-- **accepted_is_verified**: a download is recorded as the result of the package step only if
the artifact was extracted, the audit trail exists and the hash of the extracted workspace equals
the result hash of the audit trail; the recorded hash is that of the extracted workspace. -/
theorem accepted_is_verified {Digest : Type} [DecidableEq Digest] (o : DlObs Digest) (h : Digest)
    (hacc : acceptDownload o = .ok (some h)) :
    o.wasDownloaded = true ∧ o.auditExists = true ∧ o.auditResultHash = o.workspaceHash ∧ h = o.workspaceHash := by
  have h1 : Consts.C08.auditPresenceChecked = true := by decide
  have h2 : Consts.C08.resultHashChecked = true := by decide
  unfold acceptDownload at hacc
  simp only [h1, h2, true_and] at hacc
  by_cases hw : o.wasDownloaded = true
  · simp only [hw, if_true] at hacc
    by_cases ha : o.auditExists = true
    · simp only [ha, Bool.true_eq_false, if_false] at hacc
      by_cases hh : o.auditResultHash = o.workspaceHash
      · simp only [hh, ne_eq, not_true_eq_false, if_false] at hacc
        exact ⟨hw, ha, hh, ((Option.some.inj (Except.ok.inj hacc))).symm⟩
      · simp [hh] at hacc
    · have : o.auditExists = false := (Bool.not_eq_true _).mp ha
      simp [this] at hacc
  · have : o.wasDownloaded = false := (Bool.not_eq_true _).mp hw
    simp [this] at hacc

/-- with a collision free directory hash the accepted workspace *is* the packed tree: the audit
trail carries the hash of the tree that was packed (`packed`), the workspace after extraction is
`extracted` -/
theorem accepted_is_packed {Tree Digest : Type} [DecidableEq Digest] (hashDir : Tree → Digest)
    (hinj : Function.Injective hashDir) (packed extracted : Tree) (auditExists wasDownloaded : Bool) (h : Digest)
    (hacc : acceptDownload ⟨wasDownloaded, auditExists, hashDir packed, hashDir extracted⟩ = .ok (some h)) :
    extracted = packed :=
  (hinj (accepted_is_verified _ h hacc).2.2.1).symm

/-- nothing is recorded for a truncated / corrupted / foreign artifact whose extraction did not
reproduce the audited tree: the verdict is an error or "not downloaded", never a result hash -/
theorem mismatch_never_accepted {Digest : Type} [DecidableEq Digest] (o : DlObs Digest)
    (hbad : o.auditExists = false ∨ o.auditResultHash ≠ o.workspaceHash) :
    ∀ h, acceptDownload o ≠ .ok (some h) := by
  intro h hacc
  have := accepted_is_verified o h hacc
  rcases hbad with hb | hb
  · rw [this.2.1] at hb; cases hb
  · exact hb this.2.2.1

/-! ## 3. extraction is confined -/

/-- what is assumed about the tree before `__extractPackage` runs (`removePath(audit)`,
`removePath(content)`, `makedirs(content)` have established it): absolute canonical destination
and audit path, well-formed tree, no inode shared between the workspace and the rest -/
structure Ready (cfg : Cfg) (dest audit : Path) (fs0 : FS) : Prop where
  destNe : dest ≠ []
  destPlain : ∀ c ∈ dest, c ≠ dot ∧ c ≠ dotdot
  destFuel : dest.length ≤ cfg.fuel
  inv : Inv dest fs0
  sep : Sep dest fs0
  audit : AuditOk dest audit cfg fs0

/-- everything that is neither inside the workspace nor the audit file is untouched: the name
table, the inodes behind those names (content, type, link target, mode), and the set of names
that refer to such an inode (link count) -/
def Confined (dest audit : Path) (fs0 fs : FS) : Prop :=
  (∀ q, ¬ Inside dest q → q ≠ audit → fs.look q = fs0.look q) ∧
  (∀ q i, ¬ Inside dest q → q ≠ audit → fs0.look q = some (.ref i) →
    fs.inode i = fs0.inode i ∧ ∀ p, fs.look p = some (.ref i) ↔ fs0.look p = some (.ref i))

/-- the full statement for a dispatch `cfg`: for every member list (any names, types, link names,
order, repetitions, pax version) and every ready initial tree -/
def extract_confined_goal (cfg : Cfg) : Prop :=
  ∀ (dest audit : Path) (fs0 : FS) (vsn : Option Str) (ms : List Member),
    Ready cfg dest audit fs0 → Confined dest audit fs0 (extractPackage cfg dest audit vsn fs0 ms).fs

/-- after `removePath(content); makedirs(content)` the workspace holds no file at all, so no inode
is shared with the rest of the tree: the separation hypothesis of `Ready` holds for free -/
theorem sep_of_fresh_workspace {dest : Path} {fs : FS}
    (h : ∀ p, Inside dest p → fs.look p = none ∨ IsDir fs p) : Sep dest fs := by
  intro p q i hp _ hl _
  rcases h p hp with hn | ⟨m, hm⟩
  · rw [hn] at hl; cases hl
  · rw [hm] at hl; cases hl

theorem confined_of_runInv {dest audit : Path} {cfg : Cfg} {fs0 fs : FS} (hr : Ready cfg dest audit fs0)
    (h : RunInv dest audit fs0 fs) : Confined dest audit fs0 fs := by
  refine ⟨h.names, ?_⟩
  intro q i hq hqa hl0
  refine ⟨h.inodes q i hq hqa hl0, ?_⟩
  have hlq : fs.look q = some (.ref i) := by rw [h.names q hq hqa]; exact hl0
  have hi := hr.inv.fresh q i hl0
  intro p
  by_cases hp : Inside dest p
  · constructor
    · intro hl; exact absurd hlq (h.sep p q i hp hq hl)
    · intro hl; exact absurd hl0 (hr.sep p q i hp hq hl)
  · by_cases hpa : p = audit
    · subst hpa
      constructor
      · intro hl
        rcases h.audit with hn | ⟨j, hlj, hj, _⟩
        · rw [hn] at hl; cases hl
        · rw [hlj] at hl; cases hl; omega
      · intro hl; rw [hr.audit.missing] at hl; cases hl
    · rw [h.names p hp hpa]

/-- the current source performs all four checks (regenerated constants; this is the statement that
breaks when one of them disappears from the source) -/
theorem current_flags {fuel : Nat} :
    (Cfg.current fuel).filter = true ∧ (Cfg.current fuel).canonNames = true ∧
    (Cfg.current fuel).parentCheck = true ∧ (Cfg.current fuel).lnkCheck = 2 := by
  have : Consts.C08.filterInstalled = true ∧ Consts.C08.canonNames = true ∧ Consts.C08.parentCheck = true ∧
      Consts.C08.lnkCheck = 2 := by decide
  exact this

/-- **extract_confined** (full strength, for the dispatch of the current source): no archive
member, however named, typed or linked, makes `__extractPackage` create or modify anything outside
the workspace and the audit file. -/
theorem extract_confined (fuel : Nat) : extract_confined_goal (Cfg.current fuel) := by
  intro dest audit fs0 vsn ms hr
  exact confined_of_runInv hr
    (RunInv.run (cfg := Cfg.current fuel) current_flags.1 current_flags.2.1 current_flags.2.2.1 current_flags.2.2.2
      hr.destNe hr.destPlain hr.destFuel hr.audit hr.inv hr.sep vsn ms)

/-- the same for the explicit repaired configuration -/
theorem extract_confined_repaired (fuel : Nat) : extract_confined_goal (Cfg.repaired fuel) := by
  intro dest audit fs0 vsn ms hr
  exact confined_of_runInv hr
    (RunInv.run (cfg := Cfg.repaired fuel) rfl rfl rfl rfl
      hr.destNe hr.destPlain hr.destFuel hr.audit hr.inv hr.sep vsn ms)

/-- the inode separation is kept too, so the statement composes over several extractions -/
theorem extract_keeps_separation (fuel : Nat) (dest audit : Path) (fs0 : FS) (vsn : Option Str) (ms : List Member)
    (hr : Ready (Cfg.current fuel) dest audit fs0) :
    Sep dest (extractPackage (Cfg.current fuel) dest audit vsn fs0 ms).fs ∧
    Inv dest (extractPackage (Cfg.current fuel) dest audit vsn fs0 ms).fs := by
  have := RunInv.run (cfg := Cfg.current fuel) current_flags.1 current_flags.2.1 current_flags.2.2.1 current_flags.2.2.2
      hr.destNe hr.destPlain hr.destFuel hr.audit hr.inv hr.sep vsn ms
  exact ⟨this.sep, this.inv⟩

/-! ### a concrete jail: non-vacuity and the refutation witnesses

```
/            j/            j/v  (file "P", inode 1, mode 0600)     j/o/  j/o/b -> ../d/w/x (inode 2)
j/d/         j/d/w/  = destination                                  audit = j/d/a
```
-/

def nJ : Name := ['j']
def nD : Name := ['d']
def nW : Name := ['w']
def nV : Name := ['v']
def nO : Name := ['o']
def nB : Name := ['b']
def nA : Name := ['a']

def jailDest : Path := [nJ, nD, nW]
def jailAudit : Path := [nJ, nD, nA]

def jail : FS :=
  { names := [([], .dir 0o755), ([nJ], .dir 0o755), ([nJ, nD], .dir 0o755), ([nJ, nD, nW], .dir 0o755),
              ([nJ, nV], .ref 1), ([nJ, nO], .dir 0o755), ([nJ, nO, nB], .ref 2)],
    inodes := [(1, ⟨.file ['P'], 0o600⟩), (2, ⟨.symlink ['.', '.', '/', 'd', '/', 'w', '/', 'x'], 0o777⟩)],
    next := 3 }

theorem jail_ready (cfg : Cfg) (hf : cfg.fuel = 50) : Ready cfg jailDest jailAudit jail where
  destNe := by decide
  destPlain := by decide
  destFuel := by rw [hf]; decide
  inv := inv_of_check (by decide)
  sep := sep_of_check (by decide)
  audit := auditOk_of_check (by unfold auditCheck; rw [hf]; decide)

def cpre : Str := Consts.C08.contentPrefix
def vsn1 : Option Str := some ['1']

/-- a well-formed archive: audit, directory, file, hard link to it, symbolic link -/
def goodArchive : List Member :=
  [⟨auditMember, .reg, [], 0o644, ['A']⟩, ⟨Consts.C08.packContent, .dir, [], 0o755, []⟩,
   ⟨cpre ++ ['e'], .dir, [], 0o750, []⟩, ⟨cpre ++ ['e', '/', 'f'], .reg, [], 0o640, ['1']⟩,
   ⟨cpre ++ ['g'], .lnk, cpre ++ ['e', '/', 'f'], 0o640, []⟩, ⟨cpre ++ ['l'], .sym, ['e', '/', 'f'], 0o777, []⟩]

/-- the hypotheses of `extract_confined` are satisfiable and the run it talks about is not the
trivial one: the archive is extracted completely (no error) into the jail -/
example :
    Ready (Cfg.current 50) jailDest jailAudit jail ∧
    (extractPackage (Cfg.current 50) jailDest jailAudit vsn1 jail goodArchive).err = none ∧
    (extractPackage (Cfg.current 50) jailDest jailAudit vsn1 jail goodArchive).fs.look (jailDest ++ [['g']]) = some (.ref 4) ∧
    (extractPackage (Cfg.current 50) jailDest jailAudit vsn1 jail goodArchive).fs.look (jailDest ++ [['e'], ['f']]) = some (.ref 4) ∧
    (extractPackage (Cfg.current 50) jailDest jailAudit vsn1 jail goodArchive).fs.look jailAudit = some (.ref 3) :=
  ⟨jail_ready _ rfl, by decide +kernel, by decide +kernel, by decide +kernel, by decide +kernel⟩

/-- F-C08-1 (a): hard link whose link name leaves `content/` lexically, then a regular member of the
same name: the victim outside is chmod-ed and overwritten -/
def witnessHardlink : List Member :=
  [⟨cpre ++ ['h'], .lnk, cpre ++ ['.', '.', '/', '.', '.', '/', 'v'], 0o777, []⟩,
   ⟨cpre ++ ['h'], .reg, [], 0o644, ['X']⟩]

/-- F-C08-1 (c): the link name stays inside `content/`: symbolic link to the victim, hard link to
that symbolic link; the attributes of the hard link member are applied through it -/
def witnessHardlinkToSymlink : List Member :=
  [⟨cpre ++ ['s'], .sym, ['.', '.', '/', '.', '.', '/', 'v'], 0o777, []⟩,
   ⟨cpre ++ ['h'], .lnk, cpre ++ ['s'], 0o777, []⟩]

/-- `..` across a directory that does not exist: `makedirs` creates `j/d/E` outside -/
def witnessDotDot : List Member :=
  [⟨cpre ++ ['.', '.', '/', 'E', '/', '.', '.', '/', 'w', '/', 's', '/', 'x'], .reg, [], 0o644, ['X']⟩]

/-- an outside symbolic link that points into the workspace is replaced -/
def witnessInbound : List Member :=
  [⟨cpre ++ ['s'], .sym, ['.', '.', '/', '.', '.', '/', 'o'], 0o777, []⟩,
   ⟨cpre ++ ['s', '/', 'b'], .sym, ['/', 'z'], 0o777, []⟩]

/-- the re-extraction fallback of `TarFile.makelink`: `d/s` names an earlier symbolic link member
(extracted into `e/` while `d -> e`), but after `d` was re-pointed to `e2` nothing of that name is on
disk, so `os.link` is not tried; tarfile re-creates the member `d/s` (a symbolic link to the victim)
at the place of the hard link and applies the hard link's mode through it -/
def witnessFallback : List Member :=
  [⟨cpre ++ ['e'], .dir, [], 0o755, []⟩, ⟨cpre ++ ['f'], .dir, [], 0o755, []⟩,
   ⟨cpre ++ ['d'], .sym, ['e'], 0o777, []⟩, ⟨cpre ++ ['d', '/', 's'], .sym, ['/', 'j', '/', 'v'], 0o777, []⟩,
   ⟨cpre ++ ['d'], .sym, ['f'], 0o777, []⟩, ⟨cpre ++ ['h'], .lnk, cpre ++ ['d', '/', 's'], 0o777, []⟩]

/-- the only way into that fallback which the current dispatch leaves open: all checks pass, but the
link's own path lies below a regular file (`ENOTDIR` for `os.link`) -/
def fallbackBelowFile : List Member :=
  [⟨cpre ++ ['h'], .reg, [], 0o644, ['H']⟩, ⟨cpre ++ ['g'], .sym, ['/', 'j', '/', 'v'], 0o777, []⟩,
   ⟨cpre ++ ['k'], .reg, [], 0o644, ['K']⟩, ⟨cpre ++ ['h', '/', 'x'], .lnk, cpre ++ ['k'], 0o777, []⟩]

/-- the statement is false for the dispatch before commit 8ba1640 (four independent ways) -/
theorem asIs_refuted_hardlink : ¬ extract_confined_goal (Cfg.asIs 50) := by
  intro h
  have := (h jailDest jailAudit jail vsn1 witnessHardlink (jail_ready _ rfl)).2 [nJ, nV] 1 (by unfold Inside; decide) (by decide) (by decide)
  exact absurd this.1 (by decide +kernel)

theorem asIs_refuted_dotdot : ¬ extract_confined_goal (Cfg.asIs 50) := by
  intro h
  have := (h jailDest jailAudit jail vsn1 witnessDotDot (jail_ready _ rfl)).1 [nJ, nD, ['E']] (by unfold Inside; decide) (by decide)
  exact absurd this (by decide +kernel)

theorem asIs_refuted_inbound_symlink : ¬ extract_confined_goal (Cfg.asIs 50) := by
  intro h
  have := (h jailDest jailAudit jail vsn1 witnessInbound (jail_ready _ rfl)).1 [nJ, nO, nB] (by unfold Inside; decide) (by decide)
  exact absurd this (by decide +kernel)

theorem asIs_refuted_fallback : ¬ extract_confined_goal (Cfg.asIs 50) := by
  intro h
  have := (h jailDest jailAudit jail vsn1 witnessFallback (jail_ready _ rfl)).2 [nJ, nV] 1 (by unfold Inside; decide) (by decide) (by decide)
  exact absurd this.1 (by decide +kernel)

/-- normalising the hard link name is not a repair: the link name of this witness stays inside -/
theorem lexical_refuted : ¬ extract_confined_goal (Cfg.lexical 50) := by
  intro h
  have := (h jailDest jailAudit jail vsn1 witnessHardlinkToSymlink (jail_ready _ rfl)).2 [nJ, nV] 1 (by unfold Inside; decide) (by decide) (by decide)
  exact absurd this.1 (by decide +kernel)

/-- and the current dispatch rejects all five witnesses; where it does enter the fallback (`os.link`
below a regular file) the re-extraction changes nothing and the exhausted stream ends the run -/
example :
    (extractPackage (Cfg.current 50) jailDest jailAudit vsn1 jail witnessFallback).err = some .filterLink ∧
    (extractPackage (Cfg.asIs 50) jailDest jailAudit vsn1 jail witnessFallback).err = some .streamerror ∧
    (extractPackage (Cfg.current 50) jailDest jailAudit vsn1 jail fallbackBelowFile).err = some .streamerror ∧
    (extractPackage (Cfg.current 50) jailDest jailAudit vsn1 jail fallbackBelowFile).fs.look (jailDest ++ [['h'], ['x']]) = none := by
  refine ⟨by decide +kernel, by decide +kernel, by decide +kernel, by decide +kernel⟩

example :
    (extractPackage (Cfg.current 50) jailDest jailAudit vsn1 jail witnessHardlink).err = some .filterLink ∧
    (extractPackage (Cfg.current 50) jailDest jailAudit vsn1 jail witnessHardlinkToSymlink).err = some .filterLink ∧
    (extractPackage (Cfg.current 50) jailDest jailAudit vsn1 jail witnessDotDot).err = some .filterName ∧
    (extractPackage (Cfg.current 50) jailDest jailAudit vsn1 jail witnessInbound).err = some .filterParent := by
  refine ⟨by decide +kernel, by decide +kernel, by decide +kernel, by decide +kernel⟩

end C08
