import BobModel.Proofs.C02Inj
import BobModel.Generated.ConstsC03
/-
C03 — package ids are pure, location independent and long-term stable.

Shares `Model/Digest.lean` with C02.  The model functions `variantId` / `buildId` have no path, time,
directory order, hash seed or configuration parameter: whatever they compute is a function of the step
description (`ids_unique` lifts this to whole graphs: the recipe content determines every id).  That the
*implementation* has no such dependency either is the job of the correspondence run (harness/props/c03.py).
-/
namespace C03
open Digest

/-- `StepIR.getDigestCoro` (intermediate.py) and `CoreStep.getDigest` (input.py) use the same formats, pad
and empty-script marker, and both agree with what the shared model was generated from -/
theorem coro_consts_agree :
    Consts.C03.fmts = Consts.C02.fmts ∧ Consts.C03.pad = Consts.C02.pad ∧
    Consts.C03.emptyScript = Consts.C02.emptyScript ∧
    Consts.C03.stepFmts = Consts.C02.fmts ∧ Consts.C03.stepPad = Consts.C02.pad ∧
    Consts.C03.stepEmptyScript = Consts.C02.emptyScript ∧
    Consts.C03.sliceLen = Consts.C02.sliceLen ∧ Consts.C03.hostFrom = Consts.C02.hostFrom ∧
    Consts.C03.defaultPlatform = [] ∧ Consts.C03.defaultRelax = false := by
  decide

/-! ## 1. independence from dict / set iteration order -/

theorem sort_tools_perm {l l' : List Tool} (hp : l'.Perm l) (nd : (l.map (·.name)).Nodup) :
    sortBy toolLe l' = sortBy toolLe l := by
  apply sortBy_eq_of_perm toolLe toolLe_total toolLe_trans hp
  intro a b ha hb hab hba
  have ha' := hp.mem_iff.mp ha
  have hb' := hp.mem_iff.mp hb
  exact eq_of_key_eq (·.name) nd ha' hb' (strLe_antisymm (a := a.name) (b := b.name) hab hba)

theorem sort_env_perm {l l' : List (Str × Str)} (hp : l'.Perm l) (nd : (l.map (·.1)).Nodup) :
    sortBy kvLe l' = sortBy kvLe l := by
  apply sortBy_eq_of_perm kvLe kvLe_total kvLe_trans hp
  intro a b ha hb hab hba
  exact eq_of_key_eq (·.1) nd (hp.mem_iff.mp ha) (hp.mem_iff.mp hb) (strLe_antisymm (a := a.1) (b := b.1) hab hba)

/-- **permuting the tool map and the environment (any dict iteration order, hash seed, parse order) leaves
both encodings unchanged**, for the Variant-Id and the Build-Id encoder alike.  Keys are distinct as they
are dictionary keys. -/
theorem enc_perm_invariant (platform : Bytes) (relax : Bool) (d : StepDesc) (tools' : List Tool) (env' : List (Str × Str))
    (ht : tools'.Perm d.tools) (he : env'.Perm d.env)
    (ndt : (d.tools.map (·.name)).Nodup) (nde : (d.env.map (·.1)).Nodup) :
    encRecipeG platform relax { d with tools := tools', env := env' } = encRecipeG platform relax d ∧
    encHost { d with tools := tools', env := env' } = encHost d := by
  constructor
  · simp only [encRecipeG]
    rw [sort_tools_perm ht ndt, sort_env_perm he nde, ht.length_eq, he.length_eq]
  · rfl

theorem vid_perm_invariant (H : Bytes → Bytes) (d : StepDesc) (tools' : List Tool) (env' : List (Str × Str))
    (ht : tools'.Perm d.tools) (he : env'.Perm d.env)
    (ndt : (d.tools.map (·.name)).Nodup) (nde : (d.env.map (·.1)).Nodup) :
    variantId H { d with tools := tools', env := env' } = variantId H d := by
  have ⟨a, b⟩ := enc_perm_invariant [] false d tools' env' ht he ndt nde
  unfold variantId encRecipe
  rw [a, b]

theorem bid_perm_invariant (H : Bytes → Bytes) (platform : Bytes) (d : StepDesc) (tools' : List Tool) (env' : List (Str × Str))
    (ht : tools'.Perm d.tools) (he : env'.Perm d.env)
    (ndt : (d.tools.map (·.name)).Nodup) (nde : (d.env.map (·.1)).Nodup) :
    buildId H platform { d with tools := tools', env := env' } = buildId H platform d := by
  have ⟨a, b⟩ := enc_perm_invariant platform true d tools' env' ht he ndt nde
  unfold buildId
  rw [a, b]

example : variantId id { script := none, tools := [⟨['b'], [], [], [], false⟩, ⟨['a'], [1], ['p'], [], false⟩],
                         env := [(['Y'], ['2']), (['X'], ['1'])], args := [], hostPrefix := [] }
        = variantId id { script := none, tools := [⟨['a'], [1], ['p'], [], false⟩, ⟨['b'], [], [], [], false⟩],
                         env := [(['X'], ['1']), (['Y'], ['2'])], args := [], hostPrefix := [] } := by
  decide

/-! ## 2. sandbox invariance -/

/-- the recipe part never sees the sandbox: the 20 zero bytes stand where the sandbox digest used to be -/
theorem encRecipe_sandbox_free (platform : Bytes) (relax : Bool) (d : StepDesc) (x : Bytes) :
    encRecipeG platform relax { d with hostPrefix := x } = encRecipeG platform relax d := rfl

/-- **the recipe half of a Variant-Id does not depend on the sandbox at all**, and the whole id depends on it
only for steps that are fingerprinted inside an enabled sandbox -/
theorem vid_sandbox_invariant (H : Bytes → Bytes) (hl : HashLen H) (d : StepDesc) (f e f' e' : Bool) (sb sb' : Bytes) :
    sliceRecipes (variantId H (withSandbox f e sb d)) = sliceRecipes (variantId H (withSandbox f' e' sb' d)) ∧
    ((f && e) = false → variantId H (withSandbox f e sb d) = variantId H (withSandbox f e sb' d)) := by
  constructor
  · unfold variantId
    rw [sliceRecipes_digest hl, sliceRecipes_digest hl]
    rfl
  · intro h
    simp [withSandbox, h]

/-- … and it does depend on it there (fingerprinted, enabled, different sandbox ids, no collision) -/
theorem vid_sandbox_dependent (H : Bytes → Bytes) (hl : HashLen H) (d : StepDesc) (sb sb' : Bytes) (hne : sb ≠ sb')
    (c : NoColl H (encHost (withSandbox true true sb d)) (encHost (withSandbox true true sb' d))) :
    variantId H (withSandbox true true sb d) ≠ variantId H (withSandbox true true sb' d) := by
  intro h
  unfold variantId at h
  rw [digest_eq_iff hl] at h
  have e2 : encHost (withSandbox true true sb d) = encHost (withSandbox true true sb' d) := by
    rcases h.2 with ⟨x, y⟩ | ⟨_, _, z⟩
    · rw [x, y]
    · exact c z
  simp only [encHost, withSandbox, Bool.and_self, if_true] at e2
  exact hne (List.append_cancel_right e2)

/-! ## 3. weak tools in the Build-Id -/

/-- **with `relaxTools` the Build-Id ignores provider, path and libraries of weakly used tools**: any change
`f` of the tool list that keeps names and weakness and leaves strong tools alone keeps the id -/
theorem bid_weak_tool_invariant (H : Bytes → Bytes) (platform : Bytes) (d : StepDesc) (f : Tool → Tool)
    (hf : ∀ t, (f t).name = t.name ∧ (f t).weak = t.weak ∧ (t.weak = false → f t = t)) :
    buildId H platform { d with tools := d.tools.map f } = buildId H platform d := by
  have e1 : encRecipeG platform true { d with tools := d.tools.map f } = encRecipeG platform true d := by
    simp only [encRecipeG, List.length_map]
    rw [sortBy_map toolLe toolLe f (fun a b => by simp [toolLe, (hf a).1, (hf b).1])]
    rw [List.flatMap_map]
    have : ∀ t, encTool true (f t) = encTool true t := by
      intro t
      cases hw : t.weak with
      | false => rw [(hf t).2.2 hw]
      | true => simp [encTool, (hf t).1, (hf t).2.1, hw]
    simp only [this]
  unfold buildId
  rw [e1]
  rfl

/-- the Variant-Id does *not* ignore them (same example, different results), the Build-Id does -/
example :
    let d : StepDesc := { script := none, tools := [⟨['t'], List.replicate 20 1, ['p'], [], true⟩], env := [], args := [], hostPrefix := [] }
    let d' : StepDesc := { script := none, tools := [⟨['t'], List.replicate 20 2, ['q'], [['l']], true⟩], env := [], args := [], hostPrefix := [] }
    variantId id d ≠ variantId id d' ∧ buildId id [119] d = buildId id [119] d' := by
  decide

/-! ## 4. the recipe content determines every id -/

theorem desc_congr (n : Node) (ids ids' : Nat → Bytes) (h : ∀ r ∈ n.refs, ids r = ids' r) :
    n.desc ids = n.desc ids' := by
  have ha : n.args.map ids = n.args.map ids' :=
    List.map_congr_left (fun r hr => h r (by simp [Node.refs, hr]))
  have ht : (n.tools.map fun t => (⟨t.name, ids t.ref, t.path, t.libs, false⟩ : Tool))
          = (n.tools.map fun t => (⟨t.name, ids' t.ref, t.path, t.libs, false⟩ : Tool)) :=
    List.map_congr_left (fun t ht => by
      have := h t.ref (by simp only [Node.refs, List.mem_append, List.mem_map]; exact Or.inl (Or.inr ⟨t, ht, rfl⟩))
      rw [this])
  simp only [Node.desc, ha, ht]
  cases hsb : n.sandbox with
  | none => rfl
  | some r => simp only [h r (by simp [Node.refs, hsb])]

/-- **ids are functions of the recipe content only**: in a step graph whose references point to earlier
steps (a DAG), the stored ids are uniquely determined by the nodes — no matter in which order, how often
or from where the steps were reached and computed. -/
theorem ids_unique (H : Bytes → Bytes) (g : Nat → Node) (ids ids' : Nat → Bytes)
    (dag : ∀ i, ∀ r ∈ (g i).refs, r < i)
    (hc : Consistent H g ids) (hc' : Consistent H g ids') : ∀ i, ids i = ids' i := by
  intro i
  induction i using Nat.strongRecOn with
  | _ i ih =>
    rw [hc i, hc' i, desc_congr (g i) ids ids' (fun r hr => ih r (dag i r hr))]

end C03
