import BobModel.Proofs.C09Steps
/-
C09 — archive uploads are atomic and never overwrite.  Property theorems about the model
`Model/ArchiveFS.lean` of the file archive back end of pym/bob/archive.py.

Every theorem quantifies over an arbitrary program assignment `prog : Pid → Params` (every natural
number is a process: any number of uploaders, cache mirrors, metadata uploaders and readers with
arbitrary payloads) and an arbitrary schedule `Sched = List (Pid × Choice)` where each entry lets one
process execute one file system operation, lets that operation fail with an I/O error, or kills the
process.  Helper lemmas (the inductive invariant) are in Proofs/C09Inv.lean and Proofs/C09Steps.lean.
-/
namespace C09
open ArchiveFS

/-- the state after `sched`, starting from an empty archive -/
def reach (prog : Pid → Params) (sched : Sched) : State := run prog (init prog) sched

/-! ## 1. the artifact name is absent or complete -/

/-- whenever the artifact name is bound, the inode behind it has been closed by its writer, the writer
is a package uploader or a cache mirror that got through `link()`, and the content is exactly what
that one process handed to `write` — all of it, nothing of anybody else. -/
theorem artifact_complete_written (prog : Pid → Params) (sched : Sched) (i : Ino)
    (h : (reach prog sched).names .art = some i) :
    let s := reach prog sched
    let o := (s.inodes i).owner
    (s.inodes i).closed = true ∧
    ((prog o).kind = .package ∨ (prog o).kind = .mirror) ∧
    (s.inodes i).chunks = written (prog o) ∧
    (s.procs o).linked = true := by
  intro s o
  have inv : Inv prog s := reachable_inv prog sched
  have hlt := inv.names_lt _ _ h
  have hown := inv.own i hlt
  have hl : (s.procs o).linked = true ∧ Name.art = dest (prog o).kind := by
    rcases inv.names_own _ _ h with h1 | h1
    · cases h1
    · exact ⟨h1.2, h1.1⟩
  have hlk := inv.linked o hl.1
  have hino : (s.procs o).ino = i := hown.2
  rw [hino] at hlk
  refine ⟨hlk.2.2.2, ?_, hlk.2.2.1, hl.1⟩
  have hr := inv.readers o
  cases hk : (prog o).kind with
  | package => exact Or.inl rfl
  | mirror => exact Or.inr rfl
  | md x => rw [hk] at hl; simp [dest] at hl
  | reader => have := (hr hk).1; rw [hlk.1] at this; cases this

/-- with the drain loop that `_downloadPackage` has in the current source (`mirrorDrains`, regenerated
from the source on every run) a cache mirror hands the complete upstream file to `write` -/
theorem written_is_payload (pr : Params) : written pr = pr.payload := by
  unfold written
  split <;> simp [Consts.C09.mirrorDrains]

/-- **artifact_complete** (full statement): under every schedule, kill point and fault choice and for any
number of processes, if the artifact name is bound then its inode is closed and its content is the
complete payload of one package uploader or cache mirror (for a mirror: the complete upstream file) -/
theorem artifact_complete (prog : Pid → Params) (sched : Sched) (i : Ino)
    (h : (reach prog sched).names .art = some i) :
    ((reach prog sched).inodes i).closed = true ∧
    ∃ p, ((prog p).kind = .package ∨ (prog p).kind = .mirror) ∧
      ((reach prog sched).inodes i).chunks = (prog p).payload ∧
      ((reach prog sched).procs p).linked = true := by
  have h1 := artifact_complete_written prog sched i h
  exact ⟨h1.1, _, h1.2.1, by rw [h1.2.2.1, written_is_payload], h1.2.2.2⟩

/-- "exactly one": with pairwise different payloads the writer is unique -/
theorem artifact_complete_unique (prog : Pid → Params) (sched : Sched) (i : Ino)
    (hinj : ∀ p q, (prog p).payload = (prog q).payload → p = q)
    (h : (reach prog sched).names .art = some i) :
    ∃ p, ((reach prog sched).inodes i).chunks = (prog p).payload ∧
      ∀ q, ((reach prog sched).inodes i).chunks = (prog q).payload → q = p := by
  obtain ⟨_, p, _, hp, _⟩ := artifact_complete prog sched i h
  exact ⟨p, hp, fun q hq => hinj _ _ (hq.symm.trans hp)⟩

/-! ## 2. a bound artifact is immutable -/

/-- once the artifact name is bound it stays bound to the same inode, and that inode (content, closed
flag, mode, owner) never changes, whatever anybody does afterwards -/
theorem artifact_immutable (prog : Pid → Params) (s1 s2 : Sched) (i : Ino)
    (h : (reach prog s1).names .art = some i) :
    (reach prog (s1 ++ s2)).names .art = some i ∧
    (reach prog (s1 ++ s2)).inodes i = (reach prog s1).inodes i := by
  unfold reach at *
  rw [run_append]
  exact run_art_stable (reachable_inv prog s1) s2 i h

/-- a reader holds a descriptor of the inode that is (still) bound to the artifact name and has read
a prefix of its content; a reader that reached end of file has read exactly the complete data of one
writer -/
theorem reader_reads_artifact (prog : Pid → Params) (sched : Sched) (p : Pid) :
    let s := reach prog sched
    (∀ pos, (s.procs p).pc = .rRead pos →
      s.names .art = some (s.procs p).rino ∧
      (s.procs p).acc = ((s.inodes (s.procs p).rino).chunks).take pos) ∧
    ((s.procs p).pc = .done .read →
      s.names .art = some (s.procs p).rino ∧
      (s.procs p).acc = (prog (s.inodes (s.procs p).rino).owner).payload) := by
  intro s
  have inv : Inv prog s := reachable_inv prog sched
  have hr := inv.reader p
  unfold readerOk at hr
  constructor
  · intro pos hpc
    rw [hpc] at hr
    exact hr
  · intro hpc
    rw [hpc] at hr
    refine ⟨hr.1, ?_⟩
    rw [hr.2, (artifact_complete_written prog sched _ hr.1).2.2.1, written_is_payload]

/-! ## 3. a failed or killed upload leaves nothing under the artifact name -/

/-- everywhere before `link()` and on the whole failure edge the process has not published -/
theorem unpublished_before_link (prog : Pid → Params) (sched : Sched) (p : Pid)
    (hpc : ∀ r, ((reach prog sched).procs p).pc ≠ .done r)
    (hpc' : ((reach prog sched).procs p).pc ≠ .unlink .linked) :
    ((reach prog sched).procs p).linked = false := by
  have inv : Inv prog (reach prog sched) := reachable_inv prog sched
  cases hl : ((reach prog sched).procs p).linked with
  | false => rfl
  | true =>
    have h1 := (inv.linked p hl).2.1
    generalize ((reach prog sched).procs p).pc = pc at *
    cases pc <;> simp_all

/-- a process that is on the failure edge of `__exit__`, has lost the race, has returned without
publishing or has been killed before its `link()` took effect (`linked = false`) never binds the
artifact name (or any destination name), now or later: of all names bound to an inode it created,
only its temporary name may remain -/
theorem failed_leaves_nothing (prog : Pid → Params) (s1 s2 : Sched) (p : Pid)
    (hg : gaveUp ((reach prog s1).procs p) = true)
    (hl : ((reach prog s1).procs p).linked = false) :
    let s := reach prog (s1 ++ s2)
    (s.procs p).linked = false ∧
    ∀ n i, s.names n = some i → (s.inodes i).owner = p → n = .tmp (s.procs p).tmp := by
  intro s
  have hs : s = run prog (reach prog s1) s2 := by
    show reach prog (s1 ++ s2) = _
    unfold reach; rw [run_append]
  have h1 := run_gaveUp (prog := prog) s2 p hg hl
  rw [← hs] at h1
  refine ⟨h1.2, ?_⟩
  intro n i hn ho
  have inv : Inv prog s := reachable_inv prog (s1 ++ s2)
  rcases inv.names_own n i hn with h2 | h2
  · rw [ho] at h2; exact h2
  · rw [ho, h1.2] at h2; cases h2.2

/-- kill at any point before the process' own `link()` has taken effect: whatever the others and the
(dead) process are scheduled to do afterwards, it has published nothing; only its temporary name may remain -/
theorem killed_before_link_leaves_nothing (prog : Pid → Params) (s1 s2 : Sched) (p : Pid)
    (hpc : ∀ r, ((reach prog s1).procs p).pc ≠ .done r)
    (hpc' : ((reach prog s1).procs p).pc ≠ .unlink .linked) :
    let s := reach prog ((s1 ++ [(p, .kill)]) ++ s2)
    (s.procs p).linked = false ∧
    ∀ n i, s.names n = some i → (s.inodes i).owner = p → n = .tmp (s.procs p).tmp := by
  have h0 := unpublished_before_link prog s1 p hpc hpc'
  have hk : reach prog (s1 ++ [(p, .kill)]) = step prog (reach prog s1) p .kill := by
    unfold reach; rw [run_append]; rfl
  refine failed_leaves_nothing prog (s1 ++ [(p, .kill)]) s2 p ?_ ?_
  · rw [hk]; unfold step
    split
    · next h => simp [gaveUp, h]
    · simp [gaveUp, upd_apply]
  · rw [hk]; unfold step
    split
    · exact h0
    · simpa [upd_apply] using h0

/-- in particular the artifact name is never bound to data of such a process -/
theorem failed_never_under_artifact_name (prog : Pid → Params) (s1 s2 : Sched) (p : Pid)
    (hg : gaveUp ((reach prog s1).procs p) = true)
    (hl : ((reach prog s1).procs p).linked = false) (i : Ino)
    (h : (reach prog (s1 ++ s2)).names .art = some i) :
    ((reach prog (s1 ++ s2)).inodes i).owner ≠ p := by
  intro ho
  have := (failed_leaves_nothing prog s1 s2 p hg hl).2 _ _ h ho
  cases this

/-- the ghost flag `linked` used above is raised by nothing but the process' own successful
`link()`/`replace()` -/
theorem linked_only_by_own_publish (prog : Pid → Params) (sched : Sched) (p p' : Pid) (c : Choice)
    (h0 : ((reach prog sched).procs p').linked = false)
    (h1 : ((reach prog (sched ++ [(p, c)])).procs p').linked = true) :
    p' = p ∧ c = .run ∧ ((reach prog sched).procs p).pc = .publish ∧
    ((reach prog sched).procs p).killed = false := by
  unfold reach at h1
  rw [run_append] at h1
  have := step_sets_linked (prog := prog) p p' c h0 h1
  exact ⟨this.1, this.2.1, this.2.2.1, this.2.2.2.1⟩

/-! ## 4. only metadata files are overwritable -/

/-- `replace()` is used at exactly the call sites whose destination is a metadata suffix (the
`overwrite` arguments come from the current source) -/
theorem replace_only_for_meta (k : Kind) (h : overwrite k = true) : ∃ x, k = .md x ∧ dest k = .md x := by
  obtain ⟨x, hx⟩ := overwrite_kind k h
  exact ⟨x, hx, by rw [hx]; rfl⟩

/-- in every reachable state and for every step: a name that is bound is re-bound to another inode
only if it is a metadata name and the step is the `replace()` of a metadata uploader; a binding
disappears only from a temporary name.  (Hence the artifact name is neither replaced nor removed.) -/
theorem meta_overwritable_only (prog : Pid → Params) (sched : Sched) (p : Pid) (c : Choice)
    (n : Name) (i : Ino) (hn : (reach prog sched).names n = some i) :
    (∀ j, (reach prog (sched ++ [(p, c)])).names n = some j → j ≠ i →
      ∃ x, n = .md x ∧ (prog p).kind = .md x ∧ ((reach prog sched).procs p).pc = .publish) ∧
    ((reach prog (sched ++ [(p, c)])).names n = none → ∃ k, n = .tmp k) := by
  have inv : Inv prog (reach prog sched) := reachable_inv prog sched
  have : reach prog (sched ++ [(p, c)]) = step prog (reach prog sched) p c := by
    unfold reach; rw [run_append]; rfl
  rw [this]
  exact step_rebind inv p c n i hn

/-- the structure of the current source that the model transliterates (regenerated on every run):
packages and cache mirrors publish under the artifact suffix, the metadata uploads under the two
other suffixes, none of which is the artifact suffix; `__exit__` closes the temporary file before any
other call and links before it unlinks; the temporary file is created in the destination directory,
is not deleted on close, and the exists check is `os.path.isfile` -/
theorem source_structure_as_modelled :
    Consts.C09.packageSuffixIsArtifact = true ∧ Consts.C09.cacheSuffixIsArtifact = true ∧
    Consts.C09.metaSuffixes = [Consts.C09.buildidSuffix, Consts.C09.fprntSuffix] ∧
    Consts.C09.metaSuffixes.contains Consts.C09.artifactSuffix = false ∧
    Consts.C09.exitOps = ["tmp.close", "os.chmod", "os.replace", "os.link", "os.unlink", "os.rename",
      "os.remove", "os.unlink"] ∧
    Consts.C09.openChecks = ["os.path.isfile"] ∧
    Consts.C09.tmpInDestDir = true ∧ Consts.C09.tmpKept = true := by
  decide

/-! ## the hypotheses are satisfiable: concrete runs -/

/-- two package uploaders with different data and a reader; uploader 0 is overtaken by uploader 1
between its exists-check and its link() (lost race) -/
def raceProg : Pid → Params := fun p =>
  if p = 2 then { kind := .reader, payload := [], nPack := 0, consumed := 0, fileMode := false }
  else { kind := .package, payload := [10 * p + 1, 10 * p + 2], nPack := 1, consumed := 0, fileMode := p = 0 }

/-- `n` operations of process `p` (operations of a finished process are no-ops) -/
def ops (p : Pid) (n : Nat) : Sched := List.replicate n (p, .run)

def raceSched : Sched :=
  ops 0 9 ++     -- 0: exists check .. chmod done, next is link()
  ops 1 12 ++    -- 1 publishes
  ops 2 2 ++     -- the reader opens the artifact and reads the first chunk
  ops 0 2 ++     -- 0: link() -> EEXIST, unlink(tmp)
  ops 2 3        -- the reader reads the rest up to end of file

example : (reach raceProg raceSched).names .art = some 1 ∧
    ((reach raceProg raceSched).inodes 1).chunks = [11, 12] ∧
    ((reach raceProg raceSched).procs 0).pc = .done .lost ∧
    ((reach raceProg raceSched).procs 1).pc = .done .ok ∧
    ((reach raceProg raceSched).procs 2).pc = .done .read ∧
    ((reach raceProg raceSched).procs 2).acc = [11, 12] ∧
    (reach raceProg raceSched).names (.tmp 0) = none ∧ (reach raceProg raceSched).names (.tmp 1) = none := by
  decide

/-- hypotheses of `failed_leaves_nothing`: uploader 0 gets an I/O error on its first write -/
example : gaveUp ((reach raceProg [(0, .run), (0, .run), (0, .run), (0, .run), (0, .fail)]).procs 0) = true ∧
    ((reach raceProg [(0, .run), (0, .run), (0, .run), (0, .run), (0, .fail)]).procs 0).linked = false ∧
    ((reach raceProg [(0, .run), (0, .run), (0, .run), (0, .run), (0, .fail)]).procs 0).pc = .fClose := by
  decide

/-- ... and a kill between close and link leaves the temporary name only -/
example : gaveUp ((reach raceProg [(0, .run), (0, .run), (0, .run), (0, .run), (0, .run), (0, .run), (0, .kill)]).procs 0) = true ∧
    (reach raceProg [(0, .run), (0, .run), (0, .run), (0, .run), (0, .run), (0, .run), (0, .kill), (0, .run)]).names .art = none ∧
    (reach raceProg [(0, .run), (0, .run), (0, .run), (0, .run), (0, .run), (0, .run), (0, .kill), (0, .run)]).names (.tmp 0) = some 0 := by
  decide

/-- metadata files are replaced: the second `.buildid` upload rebinds the name -/
def metaProg : Pid → Params := fun p =>
  { kind := .md .buildid, payload := [p], nPack := 0, consumed := 0, fileMode := false }

def metaSched : Sched := ops 0 8 ++ ops 1 8

example : (reach metaProg (metaSched.take 8)).names (.md .buildid) = some 0 ∧
    (reach metaProg metaSched).names (.md .buildid) = some 1 ∧
    ((reach metaProg metaSched).inodes 1).chunks = [1] ∧
    (reach metaProg metaSched).names (.tmp 0) = none ∧ (reach metaProg metaSched).names (.tmp 1) = none := by
  decide

/-- a cache mirror copies the complete upstream file although its extractor stops after one chunk -/
def mirrorProg : Pid → Params := fun _ =>
  { kind := .mirror, payload := [7, 8], nPack := 1, consumed := 1, fileMode := false }

example : (reach mirrorProg (ops 0 14)).names .art = some 0 ∧
    ((reach mirrorProg (ops 0 14)).inodes 0).chunks = [7, 8] ∧
    ((reach mirrorProg (ops 0 14)).procs 0).pc = .done .ok := by
  decide

end C09
