import BobModel.Proofs.C14Enc
import BobModel.Proofs.C14Order
import BobModel.Proofs.C14Closure
import BobModel.Proofs.C14Validate
import BobModel.Proofs.C14Term
import BobModel.Proofs.C14TermRecipes
/-
C14 — audit trails are complete and truthful: property theorems about the model of pym/bob/audit.py
(`Model/Audit.lean`).  Helper lemmas and the specification predicates (`ClosedAll`, `Closed`, `Reach`,
`Sub`, `Path`, `Hit`, `Broken`, `canon`) live in `Proofs/C14*.lean` and the model file.

The hash is a parameter `H`; collision freedom appears only as the hypothesis `Function.Injective H`.
"Truthful" (variant-id, result-hash, ... equal the real ids of the step) is not a statement about
audit.py and is decided by the real-build oracle of harness/props/c14.py (clause C of the design).
-/
namespace C14
open Audit Audit.Audit Consts.C14

/-! ### 1. artifact ids are a function of the record content only -/

/-- the seven tag bytes of the encoding are pairwise distinct (on the constants regenerated from the source) -/
theorem digest_tags_distinct :
    [tagMap, tagStr, tagList, tagInt, tagBool, tagBytes, tagNone].Nodup ∧
    ∀ t ∈ [tagMap, tagStr, tagList, tagInt, tagBool, tagBytes, tagNone], t < 256 :=
  Audit.tags_distinct

/-- **the digest encoding is injective** on the values `struct.pack` accepts, up to what `canon` forgets:
the insertion order of dict entries and — because the source tests `int` before `bool` — the difference
between `True/False` and `1/0`. -/
theorem digestData_injective (a b : Data) (ha : fits a = true) (hb : fits b = true)
    (h : digest a = digest b) : canon a = canon b := by
  rw [digest_eq_enc_canon, digest_eq_enc_canon] at h
  exact enc_inj (fits_canon ha) (fits_canon hb) h

/-- the same with the error branch of `digestData` (`struct.error`) explicit -/
theorem digestData_injective_opt (a b : Data) (x : Bytes) (ha : digest? a = some x) (hb : digest? b = some x) :
    canon a = canon b := by
  unfold digest? at ha hb
  split at ha <;> split at hb <;> simp at ha hb
  rename_i fa fb
  exact digestData_injective a b fa fb (ha.trans hb.symm)

/-- conversely the digest depends on nothing but the canonical content -/
theorem digestData_content_only (a b : Data) (h : canon a = canon b) : digest a = digest b := by
  rw [digest_eq_enc_canon, digest_eq_enc_canon, h]

/-- what `canon` forgets about a dict is exactly the insertion order: dicts with the same entries (distinct
keys, as in every Python dict) have the same digest -/
theorem digest_dict_order_independent (kvs kvs' : List (Str × Data)) (hn : (kvs.map Prod.fst).Nodup)
    (hn' : (kvs'.map Prod.fst).Nodup) (h : ∀ p, p ∈ kvs ↔ p ∈ kvs') : digest (.map kvs) = digest (.map kvs') :=
  digestData_content_only _ _ (canon_map_order_independent kvs kvs' hn hn' h)

/-- the conflation that the source has, stated: `True` and `1` get the same digest exactly when the source
tests `int` first -/
theorem bool_int_conflation (b : Bool) :
    digest (.bool b) = digest (.int (if b then 1 else 0)) ↔ intBeforeBool = true := by
  simp only [digest]
  cases hib : intBeforeBool with
  | true => simp
  | false =>
    simp only [Bool.false_eq_true, if_false, iff_false]
    cases b <;> simp [encInt, tagInt, tagBool]

/-- the id that `getId` computes for a record whose id is not cached depends only on the record content -/
theorem artifactId_content_only (H : Bytes → Id) (a b : Artifact) (ha : a.cachedId = none) (hb : b.cachedId = none)
    (h : canon a.record = canon b.record) : a.getId H = b.getId H := by
  simp only [Artifact.getId, ha, hb]
  rw [digestData_content_only _ _ h]

/-- with a collision free hash, records with different content get different ids -/
theorem artifactId_injective (H : Bytes → Id) (hH : Function.Injective H) (a b : Artifact)
    (ha : a.cachedId = none) (hb : b.cachedId = none)
    (fa : fits a.record = true) (fb : fits b.record = true)
    (h : a.getId H = b.getId H) : canon a.record = canon b.record := by
  simp only [Artifact.getId, ha, hb] at h
  exact digestData_injective _ _ fa fb (hH h)

/-- every mutation of a record drops the cached id, so the next `getId` digests the new content -/
theorem mutation_invalidates_id (a : Artifact) (i : Id) (n k v : Str) :
    (a.addArg i).cachedId = none ∧ (a.addTool n i).cachedId = none ∧ (a.setSandbox i).cachedId = none ∧
    (a.addDefine k v).cachedId = none ∧ (a.addMetaEnv k v).cachedId = none ∧ (a.addAuditFile k v).cachedId = none ∧
    (a.setEnv v).cachedId = none :=
  ⟨rfl, rfl, rfl, rfl, rfl, rfl, rfl⟩

example : fits (.map [("b".toList, .bool true), ("a".toList, .list [.int (-1), .null])]) = true := by decide

example : canon (.map [(['b'], .bool true), (['a'], .int 2)])
    = canon (.map [(['a'], .int 2), (['b'], .int 1)]) := by
  simp [canon, canonKVs, sortKV, insertKV, strLe, intBeforeBool]

/-! ### 2. closure and completeness -/

/-- `create` establishes closure -/
theorem closure_created (fields : List (Str × Data)) : ClosedAll (create fields) :=
  closedAll_create fields

/-- **closure is preserved** by `addArg`, `addTool`, `setSandbox` of closed trails -/
theorem closure_preserved (H : Bytes → Id) (self other : Audit.Audit) (n : Str)
    (hs : ClosedAll self) (ho : ClosedAll other) :
    ClosedAll (addArg H self other) ∧ ClosedAll (addTool H self n other) ∧ ClosedAll (setSandbox H self other) :=
  ⟨closedAll_addArg hs ho, closedAll_addTool hs ho, closedAll_setSandbox hs ho⟩

/-- saving and re-loading a trail keeps it closed when its keys are the ids of its records -/
theorem closure_saveLoad (H : Bytes → Id) (a : Audit.Audit) (hk : KeysOk H a) (hc : ClosedAll a) :
    ClosedAll (saveLoad H a) :=
  closedAll_saveLoad hk hc

/-- **completeness over any build DAG**: the reference set of the trail of a step is exactly the set of ids
of its transitive dependencies -/
theorem references_eq_transitive_deps (H : Bytes → Id) (b : Build) (i : Id) :
    i ∈ refKeys (trail H b).references ↔ ∃ s, Sub s b ∧ i = bid H s := by
  have h := trailInv H b
  constructor
  · intro hi
    exact h.keys_sound i hi
  · rintro ⟨s, hs, rfl⟩
    exact h.keys_complete s hs

/-- ... and every stored record is the (dumped) record of a transitive dependency, stored under its id;
keys are unique -/
theorem references_are_dependency_records (H : Bytes → Id) (b : Build) :
    (∀ p ∈ (trail H b).references, ∃ s, Sub s b ∧ p = (bid H s, (trail H s).artifact.dump H)) ∧
    (refKeys (trail H b).references).Nodup :=
  ⟨(trailInv H b).values, (trailInv H b).nodup⟩

/-- for every transitive dependency the trail contains a record with that dependency's id whose content
digests to the same id; with a collision free hash it is the dependency's record up to `canon` -/
theorem transitive_dependency_recorded (H : Bytes → Id) (b s : Build) (hs : Sub s b) :
    ∃ r, lookupRef (trail H b).references (bid H s) = some r ∧ r.getId H = bid H s := by
  have h := trailInv H b
  have hk := h.keys_complete s hs
  cases hl : lookupRef (trail H b).references (bid H s) with
  | none => exact absurd hk (lookupRef_eq_none_iff.1 hl)
  | some r =>
    refine ⟨r, rfl, ?_⟩
    exact h.keysOk _ (lookupRef_mem hl)

/-- the trail of every step of every build DAG is closed and passes the validator -/
theorem trail_closed (H : Bytes → Id) (b : Build) : ClosedAll (trail H b) ∧ validate (trail H b) = .ok :=
  ⟨(trailInv H b).closed, closed_validate_ok (closedAll_closed (trailInv H b).closed)⟩

/-- the artifact of a trail refers to direct dependencies only -/
theorem trail_direct_references (H : Bytes → Id) (f : List (Str × Data)) (deps : List (DepKind × Build)) (i : Id)
    (hi : i ∈ (trail H (.node f deps)).artifact.getReferences) : ∃ k d, (k, d) ∈ deps ∧ i = bid H d :=
  direct_refs_sub.1 (.node f deps) i hi

example : Sub (.node [] []) (.node [] [(.tool "cc".toList, .node [] [(.arg, .node [] [])])]) :=
  Sub.trans (List.mem_singleton.2 rfl) (Sub.direct (List.mem_singleton.2 rfl))

/-! ### 3. the validator -/

/-- **the debug validator accepts exactly the closed trails** (the fuel of the model's loop suffices) -/
theorem validate_iff_closed (a : Audit.Audit) : validate a = .ok ↔ Closed a :=
  ⟨validate_ok_closed, closed_validate_ok⟩

/-- the id named in "Incomplete audit: missing ..." is reachable and has no record -/
theorem validate_missing_spec (a : Audit.Audit) (i : Id) (h : validate a = .missing i) :
    Reach a i ∧ lookupRef a.references i = none := by
  unfold validate at h
  exact validateLoop_missing _ _ _ i (fun x hx => Reach.base hx) h

/-- the loop of `__validate` terminates (each id is popped at most twice) -/
theorem validate_terminates (a : Audit.Audit) : validate a ≠ .outOfFuel :=
  validate_ne_outOfFuel a

/-- what the add operations maintain implies what the validator checks -/
theorem closedAll_implies_closed (a : Audit.Audit) (h : ClosedAll a) : Closed a :=
  closedAll_closed h

/-! ### 4. getReferencedBuildIds -/

/-- **partial correctness of the traversal**: when it returns, it returns exactly the build-ids of the
first stop-label (`dist`) records on the reference paths from the artifact -/
theorem referencedBuildIds_spec (fuel : Nat) (a : Audit.Audit) (ids : List Id)
    (h : getReferencedBuildIds fuel a = .ok ids) :
    ∀ b, b ∈ ids ↔ Hit a.references a.artifact.getReferences b := by
  unfold getReferencedBuildIds at h
  cases hr : rbiLoop a.references fuel a.artifact.getReferences [] with
  | ok res =>
    simp only [hr, RResult.ok.injEq] at h
    subst h
    intro b
    rw [mem_sortIds, rbiLoop_ok _ _ _ _ hr b]
    simp
  | keyError => simp [hr] at h
  | outOfFuel => simp [hr] at h

/-- a KeyError is raised only at a frontier record that is missing, has no step label, or is a stop record
without a decodable build-id -/
theorem referencedBuildIds_keyError (fuel : Nat) (a : Audit.Audit)
    (h : getReferencedBuildIds fuel a = .keyError) : Broken a.references a.artifact.getReferences := by
  unfold getReferencedBuildIds at h
  cases hr : rbiLoop a.references fuel a.artifact.getReferences [] with
  | ok res => simp [hr] at h
  | keyError => exact rbiLoop_keyError _ _ _ hr
  | outOfFuel => simp [hr] at h

/-- **termination of the traversal on acyclic reference graphs** (full statement, proved right below).  The
source keeps no `done` set: an id is popped once per reference path leading to it, and on a cyclic graph —
only constructible by editing a file, ids being content hashes — the loop does not terminate. -/
def referencedBuildIds_terminates_goal : Prop :=
  ∀ a : Audit.Audit, (∃ rank : Id → Nat, ∀ j c i, lookupRef a.references j = some c → i ∈ c.getReferences → rank i < rank j) →
    ∃ fuel, getReferencedBuildIds fuel a ≠ .outOfFuel

/-- the goal holds: the weight of the worklist (`cost i` = number of nodes of the unfolding of the graph below
`i`) drops by at least one per iteration -/
theorem referencedBuildIds_terminates : referencedBuildIds_terminates_goal := by
  rintro a ⟨rank, hr⟩
  exact ⟨rbiFuel a rank, getReferencedBuildIds_fuel hr (Nat.le_refl _)⟩

/-- the same with the fuel explicit: `rbiFuel` (the size of the unfolding below the artifact's references) and
every larger fuel suffice -/
theorem referencedBuildIds_terminates_fuel (a : Audit.Audit) (rank : Id → Nat)
    (hr : ∀ j c i, lookupRef a.references j = some c → i ∈ c.getReferences → rank i < rank j)
    (fuel : Nat) (hf : rbiFuel a rank ≤ fuel) : getReferencedBuildIds fuel a ≠ .outOfFuel :=
  getReferencedBuildIds_fuel hr hf

/-- no KeyError on a closed trail (what `validate` accepts) whose records carry a step label and whose stop
records carry a build-id -/
theorem referencedBuildIds_no_keyError (fuel : Nat) (a : Audit.Audit) (hc : Closed a) (hl : Labelled a) :
    getReferencedBuildIds fuel a ≠ .keyError :=
  fun h => not_broken_of_closed_labelled hc hl (referencedBuildIds_keyError fuel a h)

/-- **total correctness of the traversal**: on an acyclic, closed, labelled trail `getReferencedBuildIds`
returns — for `rbiFuel` and every larger fuel — exactly the build-ids of the first stop-label records on the
reference paths from the artifact -/
theorem referencedBuildIds_total (a : Audit.Audit)
    (hacyc : ∃ rank : Id → Nat, ∀ j c i, lookupRef a.references j = some c → i ∈ c.getReferences → rank i < rank j)
    (hc : Closed a) (hl : Labelled a) :
    ∃ F, ∀ fuel, F ≤ fuel → ∃ ids, getReferencedBuildIds fuel a = .ok ids ∧
      ∀ b, b ∈ ids ↔ Hit a.references a.artifact.getReferences b := by
  obtain ⟨rank, hr⟩ := hacyc
  refine ⟨rbiFuel a rank, fun fuel hf => ?_⟩
  cases hres : getReferencedBuildIds fuel a with
  | ok ids => exact ⟨ids, rfl, referencedBuildIds_spec fuel a ids hres⟩
  | keyError => exact absurd hres (referencedBuildIds_no_keyError fuel a hc hl)
  | outOfFuel => exact absurd hres (getReferencedBuildIds_fuel hr hf)

/-- the same from what the implementation itself checks: an acyclic trail that the debug validator accepts
(`validate a = .ok`) and whose records are labelled yields the transitive build-id set -/
theorem referencedBuildIds_total_of_validate (a : Audit.Audit)
    (hacyc : ∃ rank : Id → Nat, ∀ j c i, lookupRef a.references j = some c → i ∈ c.getReferences → rank i < rank j)
    (hv : validate a = .ok) (hl : Labelled a) :
    ∃ fuel ids, getReferencedBuildIds fuel a = .ok ids ∧ ∀ b, b ∈ ids ↔ Hit a.references a.artifact.getReferences b := by
  obtain ⟨F, h⟩ := referencedBuildIds_total a hacyc ((validate_iff_closed a).1 hv) hl
  obtain ⟨ids, h1, h2⟩ := h F (Nat.le_refl _)
  exact ⟨F, ids, h1, h2⟩

/-- non-vacuity: a three-record DAG trail (`pkg → [3, 1]`, `1 → [2]`, `2 → [3]`, `3` the `dist` record) is
acyclic, closed and labelled; id `3` is popped twice, so four iterations are needed for three records, and
`rbiFuel` is exactly that -/
example : (∃ rank : Id → Nat, ∀ j c i, lookupRef exAudit.references j = some c → i ∈ c.getReferences → rank i < rank j) ∧
    Closed exAudit ∧ Labelled exAudit ∧ rbiFuel exAudit exRank = 4 ∧
    getReferencedBuildIds 4 exAudit = .ok [[0xab]] ∧ getReferencedBuildIds 3 exAudit = .outOfFuel :=
  ⟨⟨exRank, exAudit_acyclic⟩, (validate_iff_closed _).1 (by decide), exAudit_labelled, by decide, by decide, by decide⟩

/-! ### 5. setRecipesAudit; the debug validation on load -/

/-- **`setRecipesAudit` records exactly what it is given**: afterwards the `recipes` entry is the audit stored
under the empty name (absent when that is missing or `None`), the `layers` entry is the dict of all other
entries in their order (`None` kept; absent when there is none), every other entry of the record is
untouched, and the cached id is dropped so that the next `getId` digests the new content -/
theorem setRecipesAudit_spec (a : Audit.Audit) (ra : List (Str × Option Data)) :
    dictGet (setRecipesAudit a ra).artifact.other "recipes".toList = (dictGet ra []).bind id ∧
    dictGet (setRecipesAudit a ra).artifact.other "layers".toList =
      (if (layersOf ra).isEmpty then none else some (.map (layersOf ra))) ∧
    (∀ k, k ≠ "recipes".toList → k ≠ "layers".toList →
      dictGet (setRecipesAudit a ra).artifact.other k = dictGet a.artifact.other k) ∧
    (setRecipesAudit a ra).artifact.cachedId = none :=
  ⟨setRecipesAudit_recipes a ra, setRecipesAudit_layers a ra, fun _ h1 h2 => setRecipesAudit_other a ra h1 h2, rfl⟩

/-- it touches neither the dependencies nor the reference map: closure is preserved -/
theorem setRecipesAudit_closure (a : Audit.Audit) (ra : List (Str × Option Data)) :
    (setRecipesAudit a ra).references = a.references ∧
    (setRecipesAudit a ra).artifact.getReferences = a.artifact.getReferences ∧
    (ClosedAll a → ClosedAll (setRecipesAudit a ra)) :=
  ⟨rfl, rfl, closedAll_setRecipesAudit ra⟩

example : dictGet (setRecipesAudit (create []) [("l1".toList, some (.str ['x'])), ([], some (.int 1)), ("l2".toList, none)]).artifact.other
    "layers".toList = some (.map [("l1".toList, .str ['x']), ("l2".toList, .null)]) := by
  rw [(setRecipesAudit_spec _ _).2.1]; rfl

/-- **the `--debug audit` validation on load is vacuous** (the code as it is: `Audit.load` calls
`__validate()` before it assigns `__artifact`/`__references`, and `fromFile`/`fromByteStream` call `load` on a
fresh object): no tree whatsoever is rejected as incomplete -/
theorem loadDebug_fresh_accepts_all (H : Bytes → Id) (fields : List (Str × Data)) (tree : Audit.Audit) :
    loadDebug H (create fields) tree = .ok (load H tree) :=
  loadDebug_create H fields tree

/-- ... in particular a trail with a dangling reference, which `validate` itself rejects -/
example : ∃ tree : Audit.Audit, validate (load (fun b => b) tree) = .missing [1] ∧
    loadDebug (fun b => b) (create []) tree = .ok (load (fun b => b) tree) :=
  ⟨{ artifact := exRec "package" [[1]], references := [] }, by decide, loadDebug_create _ _ _⟩

end C14
