import BobModel.Proofs.C15Init
/-
C15 — Shared package store is safe under concurrent projects.

Property theorems about `Model/Share.lean` (model of pym/bob/share.py and the share part of builder.py).
"All interleavings" = all schedules `sched : List Pid` of `run`, for every number of processes and programs
(`progs : List Prog`) and every consistent initial store.  `ff = false` is the code as it is (the lock is
released before the buffered JSON is flushed), `ff = true` is the patched `OpenLocked.__exit__`.
Where the current code violates the property the full statement is kept as `…_goal` (not asserted), the model
contains the witness schedule (replayed on the real code by harness/props/c15.py), and `…_partial` is what is proved.
-/
namespace C15
open Share

/-! ### 1. visible ⇒ complete and hash matching -/

/-- **visible_complete**: in every state of every interleaving (current and patched code) a package directory at
its final path has its audit trail, its workspace and a `pkg.json`, and a readable `pkg.json` records exactly the
hash of the workspace content.  (Prepared in a private temporary directory, verified, published by one rename;
`use` rewrites keep the hash.) -/
theorem visible_complete (H : Nat → Nat) (ff : Bool) (g : Store) (progs : List Prog) (hg : GoodStore H g)
    (sched : List Pid) (b : Bid) (d : PkgDir)
    (h : (run H ff (initSt g progs) sched).g.final b = some d) : Complete H d :=
  (invVC_run H ff _ (init_invVC H g progs hg) sched).store b d h

/-- the repository lock is a reader/writer lock in every reachable state: a gc inside its exclusive section
excludes every other gc and every `use` inside its shared section -/
theorem lock_exclusion (H : Nat → Nat) (ff : Bool) (g : Store) (progs : List Prog) (sched : List Pid) :
    Mutex (run H ff (initSt g progs) sched) :=
  run_inv H ff (fun s p => mutex_step H ff s p) _ (init_mutex g progs) sched

example : ∃ d, (run id false (initSt emptyStore [⟨.install 100 1 7 7 5 true false, none, true⟩])
    [0, 0, 0]).g.final 1 = some d ∧ Complete id d := ⟨_, rfl, rfl, 7, rfl, Or.inr ⟨_, rfl, rfl⟩⟩

/-! ### 2. at most one install per Build-Id -/

/-- **install_once**: for every Build-Id, in every state of every interleaving, the number of processes whose
own rename published the package equals the number of collections of that Build-Id since the start plus
(1 if it is visible now) minus (1 if it was visible at the start).  A rename publishes only onto an absent path. -/
theorem install_once (H : Nat → Nat) (ff : Bool) (g : Store) (progs : List Prog) (hg : GoodStore H g)
    (sched : List Pid) (b : Bid) :
    let s := run H ff (initSt g progs) sched
    pubCount s.procs b + g.nGc b + present (g.final b) = s.g.nGc b + present (s.g.final b) := by
  intro s
  have h1 : CountInv s.g :=
    run_inv (P := fun s => CountInv s.g) H ff (fun s p => countInv_step H ff s p) _ hg.counts sched
  have h2 : PubInv s ∧ PubCount g.nInst s :=
    run_inv (P := fun s => PubInv s ∧ PubCount g.nInst s) H ff
      (fun s p hh => ⟨pubInv_step H ff s p hh.1, pubCount_step H ff g.nInst s p hh.1 hh.2⟩) _
      ⟨init_pubInv g progs, fun b => by simp [initSt, pubCount_mkProcs]⟩ sched
  have := h1 b
  have := h2.2 b
  have := hg.counts b
  omega

/-- while no gc collects the Build-Id, at most one process ever installs it -/
theorem install_once_no_gc (H : Nat → Nat) (ff : Bool) (g : Store) (progs : List Prog) (hg : GoodStore H g)
    (sched : List Pid) (b : Bid) (hgc : (run H ff (initSt g progs) sched).g.nGc b = g.nGc b) :
    pubCount (run H ff (initSt g progs) sched).procs b ≤ 1 := by
  have := install_once H ff g progs hg sched b
  simp only at this
  have h1 : present ((run H ff (initSt g progs) sched).g.final b) ≤ 1 := by unfold present; split <;> omega
  omega

/-- `installSharedPackage` reports `(path, True)` exactly when its own rename published the package; every other
install returns `(path, False)` and has published nothing -/
theorem install_result (H : Nat → Nat) (ff : Bool) (g : Store) (progs : List Prog) (sched : List Pid)
    (i : Nat) (pi : Proc) (installed : Bool)
    (hi : (run H ff (initSt g progs) sched).procs[i]? = some pi) (hd : pi.pc = .done (.inst installed)) :
    pi.pub = installed := by
  have := reach_pubInv H ff g progs sched i pi hi
  rw [hd] at this; exact this

/-- the two racing installs of the same Build-Id: exactly one publishes, the other returns `(path, False)` -/
example :
    let s := run id false (initSt emptyStore [⟨.install 100 1 7 7 5 true false, none, true⟩,
                                              ⟨.install 101 1 7 7 5 true false, none, true⟩])
      [0, 1, 0, 1, 0, 1, 1, 0, 0, 0, 0, 0]
    pubCount s.procs 1 = 1 ∧ (s.procs[0]?).map (·.pc) = some (.done (.inst true)) ∧
      (s.procs[1]?).map (·.pc) = some (.done (.inst false)) := by decide

/-! ### 4. garbage collection policy -/

/-- **gc_policy (subset / oldest first / until the quota is met)** for `sorted(candidates)` and the quota loop:
the removed packages are a prefix of the candidates in tuple order, the reported size is the recorded size
minus what was removed; automatic cleaning (`pruneUnused = false`, quota `q`) removes the SHORTEST such prefix that
brings the size within the quota (all candidates if that is impossible); it never raises. -/
theorem gc_policy_auto (q : Nat) (cands : List Cand) (total : Nat) :
    let r := gcSelect (some q) false cands total
    (∃ rest, sortCands cands = r.1 ++ rest) ∧
    (∀ p, p <+: r.1 → p ≠ r.1 → total - sumCand p > q) ∧
    (total - sumCand r.1 ≤ q ∨ r.1 = sortCands cands) ∧
    r.2.1 = total - sumCand r.1 ∧ r.2.2 = false := by
  unfold gcSelect
  exact ⟨gcLoop_prefix _ _ _ _, (gcLoop_quota q _ total).1, (gcLoop_quota q _ total).2, gcLoop_size _ _ _ _,
    gcLoop_noTypeError_quota q false _ total⟩

/-- the order in which candidates are considered is a permutation of the candidates sorted by the tuple order;
among unused candidates this is ascending modification time of `pkg.json` (oldest first) -/
theorem gc_policy_oldest_first (cands : List Cand) (hu : ∀ c ∈ cands, c.unused = true) :
    (sortCands cands).Perm cands ∧ (sortCands cands).Pairwise (fun a b => a.time ≤ b.time) :=
  ⟨sortCands_perm cands,
   sorted_unused_time (sortCands_sorted cands) (fun c hc => hu c ((sortCands_perm cands).mem_iff.mp hc))⟩

/-- `--all-unused` (without `--used`) removes every unused package, whatever the quota -/
theorem gc_policy_all_unused (quota : Option Nat) (cands : List Cand) (total : Nat)
    (hu : ∀ c ∈ cands, c.unused = true) :
    (gcSelect quota true cands total).1 = sortCands cands ∧ (gcSelect quota true cands total).2.2 = false := by
  unfold gcSelect
  exact gcLoop_allUnused quota _ total (fun c hc => hu c ((sortCands_perm cands).mem_iff.mp hc))

/-- whatever is removed was a scanned candidate -/
theorem gc_policy_subset (quota : Option Nat) (pun : Bool) (cands : List Cand) (total : Nat) :
    ∀ c ∈ (gcSelect quota pun cands total).1, c ∈ cands := gcSelect_sub quota pun cands total

/-- in every interleaving a gc without `--used` (and the automatic gc of an install) only ever holds candidates
it flagged unused: used packages are collected only with `--used` -/
theorem gc_policy_nonforced (H : Nat → Nat) (ff : Bool) (g : Store) (progs : List Prog) (sched : List Pid)
    (i : Nat) (pi : Proc) (hi : (run H ff (initSt g progs) sched).procs[i]? = some pi) :
    CandOk pi.prog pi.pc := by
  have : ∀ s, (∀ (i : Nat) (pi : Proc), s.procs[i]? = some pi → CandOk pi.prog pi.pc) →
      ∀ p, (∀ (i : Nat) (pi : Proc), (step H ff s p).procs[i]? = some pi → CandOk pi.prog pi.pc) := by
    intro s hs p
    rcases step_cases H ff s p with ⟨_, e⟩ | ⟨pr, hpr, e⟩
    · rw [e]; exact hs
    · rw [e]
      intro i pi hi
      simp only at hi
      rcases getElem?_set_cases hi with ⟨rfl, rfl, _⟩ | ⟨_, hi'⟩
      · exact stepPc_candOk H ff pr.prog _ _ s.g pr.pc (hs i pr hpr)
      · exact hs i pi hi'
  exact run_inv (P := fun s => ∀ (i : Nat) (pi : Proc), s.procs[i]? = some pi → CandOk pi.prog pi.pc) H ff
    (fun s p hs => this s hs p) _
    (fun i pi hi => by rw [(getElem?_mkProcs hi).1]; intro _ c hc; cases hc) sched i pi hi

/-- only a gc move removes a package from its final path, and it removes the head of the remaining plan -/
theorem only_gc_removes (H : Nat → Nat) (ff : Bool) (prog : Prog) (exO shO : Bool) (g : Store) (pc : Pc) (b : Bid)
    (h1 : g.final b ≠ none) (h2 : (stepPc H ff prog exO shO g pc).1.final b = none) :
    ∃ rm c rest t d te, pc = .gMove rm (c :: rest) t d te ∧ c.bid = b := by
  rcases stepPc_final H ff prog exO shO g pc b with hs | ⟨_, _, _, hn, _⟩ | ⟨rm, c, rest, t, d, te, hp, hb, _, _⟩ |
      ⟨_, _, _, _, _, hn, _⟩
  · rw [hs] at h2; exact absurd h2 h1
  · exact absurd hn h1
  · exact ⟨rm, c, rest, t, d, te, hp, hb⟩
  · rw [hn] at h2; cases h2

/-- `--dry-run` never reaches the moving phase: it removes nothing -/
theorem gc_policy_dry_run (prog : Prog) (g : Store) (rm : List (Bid × Nat)) (cands : List Cand) (total : Nat)
    (hd : (gcCtx prog).dryRun = true) : ∃ r, (gcPlan prog g rm cands total) = (g, .gClose none r) := by
  unfold gcPlan
  simp [hd]

example : (gcSelect (some 20) false [⟨true, 5, 10, 1⟩, ⟨true, 3, 10, 2⟩, ⟨true, 9, 10, 3⟩] 35).1.map (·.bid) = [2, 1] := by
  decide

/-! ### 5. no spurious failure — violated by the current code -/

/-- failures that are caused by another project working on the store or by a store that is still empty -/
def Err.spurious : Err → Bool
  | .fileNotFound | .jsonDecode | .corruptMeta | .renameENOENT => true
  | _ => false

/-- full statement (NOT asserted): no operation ends in a spurious failure -/
def no_spurious_failure_goal (H : Nat → Nat) (ff : Bool) : Prop :=
  ∀ (g : Store) (progs : List Prog), GoodStore H g → ∀ (sched : List Pid) (i : Nat) (pi : Proc) (e : Err),
    (run H ff (initSt g progs) sched).procs[i]? = some pi → pi.pc = .done (.err e) → Err.spurious e = false

def pcOf (s : St) (p : Nat) : Option Pc := (s.procs[p]?).map (·.pc)

def inst (ws bid : Nat) (link : Bool := false) : Prog := ⟨.install ws bid bid bid 5 true link, none, true⟩
def useP (ws bid : Nat) (link : Bool := false) : Prog := ⟨.use ws bid link, none, true⟩
def gcAll : Prog := ⟨.gc false true false, none, true⟩

/-- F-C15-1: the first install is between `makedirs` and `__addPackage`; another project's
`bob clean --shared --all-unused` raises FileNotFoundError -/
theorem witness_gc_on_empty_store :
    pcOf (run id false (initSt emptyStore [inst 100 1, gcAll]) [0, 1, 1]) 1 = some (.done (.err .fileNotFound)) := by
  decide

/-- unlock before flush (repo.json): process 1 has released the repository lock, its rewrite of repo.json is still
in its buffer; the gc takes the lock, reads an empty file and dies with JSONDecodeError -/
theorem witness_flush_window_repo :
    pcOf (run id false (initSt emptyStore [inst 100 1, inst 101 2, gcAll])
      [0, 0, 0, 0, 0, 0, 0, 0, 1, 1, 1, 1, 1, 2, 2, 2, 2]) 2 = some (.done (.err .jsonDecode)) := by
  decide

/-- unlock before flush (pkg.json): two projects use the same package, the second reports "Corrupt meta info" -/
theorem witness_flush_window_pkg :
    pcOf (run id false (initSt emptyStore [inst 100 1, useP 0 1, useP 1 1])
      [0, 0, 0, 0, 0, 0, 0, 0, 1, 1, 1, 1, 1, 2, 2, 2, 2, 2, 2]) 2 = some (.done (.err .corruptMeta)) := by
  decide

/-- creation window of repo.json: process 0 created it with mode "x" and has not locked it yet -/
theorem witness_creation_window :
    pcOf (run id false (initSt emptyStore [inst 100 1, inst 101 2])
      [0, 0, 0, 0, 0, 1, 1, 1, 1, 1, 1]) 1 = some (.done (.err .jsonDecode)) := by
  decide

/-- hence the full statement is false of the current code -/
theorem no_spurious_failure_refuted : ¬ no_spurious_failure_goal id false := by
  intro h
  have := h emptyStore [inst 100 1, gcAll] (goodStore_empty id) [0, 1, 1] 1
  have hw := witness_gc_on_empty_store
  unfold pcOf at hw
  cases hp : (run id false (initSt emptyStore [inst 100 1, gcAll]) [0, 1, 1]).procs[1]? with
  | none => rw [hp] at hw; cases hw
  | some pi =>
    rw [hp] at hw
    simp only [Option.map_some, Option.some.injEq] at hw
    have := this pi .fileNotFound hp hw
    cases this


/-! ### 3. accounting, and 5. no spurious failure for the patched code -/

/-- **no_spurious_failure_partial** (hypotheses added: `OpenLocked.__exit__` flushes before it unlocks — the
proposed patch, `ff = true` — and repo.json exists at the start): in every interleaving of any number of install /
use / gc / builder processes no operation ends with FileNotFoundError(repo.json), JSONDecodeError or
"Corrupt meta info". -/
theorem no_spurious_failure_partial (H : Nat → Nat) (g : Store) (L : List (Bid × Nat)) (progs : List Prog)
    (hg : GoodStoreFF g L) (sched : List Pid) (i : Nat) (pi : Proc) (e : Err)
    (hi : (run H true (initSt g progs) sched).procs[i]? = some pi) (hd : pi.pc = .done (.err e)) :
    bad3 e = false := by
  obtain ⟨L', inv⟩ := reach_invFF H g L progs hg sched
  have := (inv.pcs i pi hi).1
  rw [hd] at this
  exact this e rfl

/-- repo.json records exactly the installed packages with their sizes -/
def Accounted (g : Store) : Prop :=
  ∃ L, g.repo = .valid L ∧ (keys L).Nodup ∧
    ∀ b sz, (b, sz) ∈ L ↔ ∃ d m, g.final b = some d ∧ d.info = some (.valid m) ∧ m.size = sz

/-- full statement (NOT asserted for the current code): every quiescent state is accounted -/
def accounting_goal (H : Nat → Nat) (ff : Bool) : Prop :=
  ∀ (g : Store) (L : List (Bid × Nat)) (progs : List Prog), GoodStoreFF g L → ∀ (sched : List Pid),
    (∀ (i : Nat) (pi : Proc), (run H ff (initSt g progs) sched).procs[i]? = some pi → pi.pc.isDone = true) →
    Accounted (run H ff (initSt g progs) sched).g

/-- **accounting_partial** (hypothesis added: flush before unlock, `ff = true`): in every quiescent state of every
interleaving repo.json is valid and lists exactly the packages at their final paths with the sizes recorded in
their pkg.json — so the recorded repository size `sumSizes L` is the sum of the installed packages. -/
theorem accounting_partial (H : Nat → Nat) : accounting_goal H true := by
  intro g L progs hg sched hdone
  obtain ⟨L', inv⟩ := reach_invFF H g L progs hg sched
  have hnot : ∀ (i : Nat) (pi : Proc), (run H true (initSt g progs) sched).procs[i]? = some pi →
      pi.pc.rmeta = none ∧ pi.pc.inWindow = false := by
    intro i pi hi
    have := hdone i pi hi
    cases hq : pi.pc <;> rw [hq] at this <;> first | exact ⟨rfl, rfl⟩ | cases this
  refine ⟨L', ?_, inv.nodup, ?_⟩
  · rcases inv.repoOk with ⟨hv, _⟩ | ⟨_, i, pi, hi, hr, _⟩
    · exact hv
    · rw [(hnot i pi hi).1] at hr; cases hr
  · intro b sz
    constructor
    · exact inv.recorded b sz
    · rintro ⟨d, m, hd, hm, hs⟩
      obtain ⟨m', hm', hor⟩ := inv.pkgs b d hd
      rw [hm] at hm'; cases hm'
      rcases hor with h | ⟨i, pi, hi, hw, _⟩
      · rw [← hs]; exact h
      · rw [(hnot i pi hi).2] at hw; cases hw


/-- from a store with one installed package two more installs, a use and an automatic gc (quota 8) run to a
quiescent, accounted state in the patched model (`goodStoreFF_g1`: the hypotheses are satisfiable) -/
example :
    let s := run id true (initSt g1 [inst 101 2, ⟨.install 102 3 3 3 5 true false, some 8, true⟩, useP 0 1])
      [0, 1, 2, 0, 1, 2, 0, 1, 2, 0, 1, 2, 0, 1, 2, 0, 1, 2, 1, 1, 1, 1, 1, 1, 1, 1, 1, 1, 1, 1, 0, 0, 0]
    (s.procs.map (·.pc.isDone)) = [true, true, true] ∧ s.g.repo = .valid [(3, 5), (2, 5)] ∧
      (s.g.final 1).isNone = true ∧ (s.g.final 2).isSome = true ∧ (s.g.final 3).isSome = true := by
  decide

/-- gc subtracts exactly what it moved, `__addPackage` adds exactly the size of the new package -/
theorem accounting_delta (l : List (Bid × Nat)) (b : Bid) (sz : Nat) (h : (keys l).Nodup) :
    ((b, sz) ∈ l → sumSizes (erasePkg l b) + sz = sumSizes l) ∧
    (b ∉ keys l → sumSizes (setPkg l b sz) = sumSizes l + sz) :=
  ⟨sumSizes_erasePkg l b sz h, sumSizes_setPkg_new l b sz⟩

/-- the current code breaks the accounting: the install of package 3 reads repo.json in the flush window of the
install of package 2, dies after it has published, and package 3 stays unrecorded for ever -/
theorem witness_accounting_broken :
    let s := run id false (initSt emptyStore [inst 100 1, inst 101 2, inst 102 3])
      [0, 0, 0, 0, 0, 0, 0, 0, 2, 2, 2, 2, 1, 1, 1, 1, 1, 2, 2, 1]
    s.g.repo = .valid [(1, 5), (2, 5)] ∧ (s.g.final 3).isSome = true ∧
      (s.procs.map (·.pc)) = [.done (.inst true), .done (.inst true), .done (.err .jsonDecode)] := by
  decide


/-- hence the full accounting statement is false of the current code, even when repo.json exists at the start -/
theorem accounting_refuted : ¬ accounting_goal id false := by
  intro h
  have hd : ∀ (i : Nat) (pi : Proc), (run id false (initSt g1 [inst 101 2, inst 102 3])
      [1, 1, 1, 1, 0, 0, 0, 0, 0, 1, 1, 0]).procs[i]? = some pi → pi.pc.isDone = true := by
    intro i pi hi
    have hl : (run id false (initSt g1 [inst 101 2, inst 102 3]) [1, 1, 1, 1, 0, 0, 0, 0, 0, 1, 1, 0]).procs.map
        (·.pc.isDone) = [true, true] := by decide
    have : pi.pc.isDone ∈ [true, true] := by
      rw [← hl]; exact List.mem_map.mpr ⟨pi, List.mem_of_getElem? hi, rfl⟩
    simpa using this
  obtain ⟨L, hr, _, hiff⟩ := h g1 [(1, 5)] [inst 101 2, inst 102 3] goodStoreFF_g1 [1, 1, 1, 1, 0, 0, 0, 0, 0, 1, 1, 0] hd
  have hrepo : (run id false (initSt g1 [inst 101 2, inst 102 3]) [1, 1, 1, 1, 0, 0, 0, 0, 0, 1, 1, 0]).g.repo =
      .valid [(1, 5), (2, 5)] := by decide
  rw [hrepo] at hr
  cases hr
  have : (3, 5) ∈ [(1, 5), (2, 5)] := (hiff 3 5).mpr ⟨⟨true, some 3, some (.valid ⟨3, 5, [102]⟩), 1⟩, ⟨3, 5, [102]⟩, by decide, rfl, rfl⟩
  simp at this

/-! ### 6. not collected while used — violated by the current code -/

/-- full statement (NOT asserted): whenever a non-forced gc moves a package away, no workspace links to it, and a
workspace is never linked to a package that is not there -/
def not_collected_while_used_goal (H : Nat → Nat) (ff : Bool) : Prop :=
  ∀ (g : Store) (progs : List Prog), GoodStore H g → (∀ w, g.links w = none) →
    ∀ (sched : List Pid) (w : Ws) (b : Bid),
      (run H ff (initSt g progs) sched).g.links w = some b → (run H ff (initSt g progs) sched).g.final b ≠ none
      ∨ ∃ (i : Nat) (pi : Proc), (run H ff (initSt g progs) sched).procs[i]? = some pi ∧ (gcCtx pi.prog).pruneUsed = true

/-- the lost race at install leaves the losing workspace unrecorded: project 1 links package 1 without being in
`users`; after project 0 is removed a plain `--all-unused` gc collects the package that workspace 1 links to -/
theorem witness_lost_race_unrecorded_user :
    let s := run id false (initSt emptyStore [inst 0 1 true, inst 1 1 true, ⟨.dropws 0, none, true⟩, gcAll])
      [0, 1, 0, 0, 0, 0, 0, 0, 0, 0, 1, 1, 1, 2, 3, 3, 3, 3, 3]
    (pcOf s 3 = some (.gMove [(1, 5)] [⟨true, 0, 5, 1⟩] 0 false false) ∧ s.g.links 1 = some 1 ∧
      (s.g.final 1).isSome = true ∧ ((s.g.final 1).bind (·.info)) = some (.valid ⟨1, 5, [0]⟩)) ∧
    (step id false s 3).g.final 1 = none ∧ (step id false s 3).g.links 1 = some 1 := by
  decide

/-- F-C15-2: `useSharedPackage` returned the package, the builder has not created the link yet, another project's
gc judges the package unused and collects it; the use operation then reports success with a dangling workspace -/
theorem witness_gc_between_use_and_link :
    let s := run id false (initSt emptyStore [inst 100 1, useP 0 1 true, gcAll])
      [0, 0, 0, 0, 0, 0, 0, 0, 1, 1, 1, 1, 1, 1, 2, 2, 2, 2, 2, 2, 2, 2, 1]
    pcOf s 1 = some (.done (.shared true)) ∧ pcOf s 2 = some (.done (.gcSize 0)) ∧
      s.g.links 0 = some 1 ∧ s.g.final 1 = none := by
  decide

theorem not_collected_while_used_refuted : ¬ not_collected_while_used_goal id false := by
  intro h
  have hw := witness_gc_between_use_and_link
  simp only at hw
  rcases h emptyStore [inst 100 1, useP 0 1 true, gcAll] (goodStore_empty id) (fun _ => rfl)
    [0, 0, 0, 0, 0, 0, 0, 0, 1, 1, 1, 1, 1, 1, 2, 2, 2, 2, 2, 2, 2, 2, 1] 0 1 hw.2.2.1 with h1 | ⟨i, pi, hi, hp⟩
  · exact h1 hw.2.2.2
  · have hprog : pi.prog ∈ [inst 100 1, useP 0 1 true, gcAll] := by
      have : ∀ (s : St) (p : Nat), (step id false s p).procs.map (·.prog) = s.procs.map (·.prog) := by
        intro s p
        rcases step_cases id false s p with ⟨_, e⟩ | ⟨pr, hpr, e⟩
        · rw [e]
        · rw [e]
          simp only
          rw [List.map_set]
          apply List.ext_getElem?
          intro k
          rw [List.getElem?_set]
          by_cases ek : p = k
          · subst ek
            simp only [if_true, List.length_map]
            split
            · rw [List.getElem?_map, hpr]; rfl
            · rename_i hl
              rw [List.getElem?_eq_none (by simpa using hl)]
          · simp [ek]
      have hall : ∀ (sched : List Pid) (s : St), (run id false s sched).procs.map (·.prog) = s.procs.map (·.prog) := by
        intro sched
        induction sched with
        | nil => intro s; rfl
        | cons p rest ih => intro s; simp only [run]; rw [ih, this]
      have hm : pi.prog ∈ (run id false (initSt emptyStore [inst 100 1, useP 0 1 true, gcAll])
          [0, 0, 0, 0, 0, 0, 0, 0, 1, 1, 1, 1, 1, 1, 2, 2, 2, 2, 2, 2, 2, 2, 1]).procs.map (·.prog) :=
        List.mem_map.mpr ⟨pi, List.mem_of_getElem? hi, rfl⟩
      rw [hall] at hm
      simpa [initSt, mkProcs] using hm
    simp only [List.mem_cons, List.mem_nil_iff, or_false] at hprog
    rcases hprog with e | e | e <;> rw [e] at hp <;> simp [gcCtx, inst, useP, gcAll] at hp

/-- **not_collected_while_used_partial** (what holds of the current code, hypothesis added: "at scan time, for
recorded users"): every candidate in the hands of any gc, in any interleaving, was either flagged *used*, or at the
moment it was scanned (under the exclusive repository lock) no workspace recorded in its `pkg.json` linked to it and it
was not the package being installed; and a gc without `--used` holds only candidates flagged unused. -/
theorem not_collected_while_used_partial (H : Nat → Nat) (ff : Bool) (prog : Prog) (exO shO : Bool) (g : Store)
    (rm : List (Bid × Nat)) (k : Bid) (sz : Nat) (rest : List (Bid × Nat)) (cands : List Cand) (total : Nat) :
    ∀ c ∈ (stepPc H ff prog exO shO g (.gScanLock rm k sz rest cands total)).2.cands,
      c ∈ cands ∨ (c.bid = k ∧ Judged prog g c ∧ ((gcCtx prog).pruneUsed = false → c.unused = true)) :=
  scan_step H ff prog exO shO g rm k sz rest cands total

end C15
