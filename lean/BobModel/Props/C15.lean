import BobModel.Proofs.C15Init
import BobModel.Generated.ConstsC15
/-
C15 — Shared package store is safe under concurrent projects.

Property theorems about `Model/Share.lean` (model of pym/bob/share.py and the share part of builder.py).
"All interleavings" = all schedules `sched : List Pid` of `run`, for every number of processes and programs
(`progs : List Prog`) and every consistent initial store.  `cfg : Cfg` is the variant of the code: `Cfg.fixed` is the
source with the four fixes (gc on a store without repo.json, flush before unlock, repo.json creation window, user
recorded after a lost install race), `Cfg.old` the source before them.  `consts_are_fixed` ties `Cfg.fixed` to the
flags that tools/consts/c15.py extracts from the CURRENT source: reverting a fix breaks that obligation, the
`*_old_*` witnesses below say which interleaving then fails, and the harness replays it on the real code.
Still violated by the current code: `not_collected_while_used` (known finding F-C15-2): goal + witness + `_partial`.
-/
namespace C15
open Share

/-! ### 1. visible ⇒ complete and hash matching -/

/-- **visible_complete**: in every state of every interleaving (current and patched code) a package directory at
its final path has its audit trail, its workspace and a `pkg.json`, and a readable `pkg.json` records exactly the
hash of the workspace content.  (Prepared in a private temporary directory, verified, published by one rename;
`use` rewrites keep the hash.) -/
theorem visible_complete (H : Nat → Nat) (cfg : Cfg) (g : Store) (progs : List Prog) (hg : GoodStore H g)
    (sched : List Pid) (b : Bid) (d : PkgDir)
    (h : (run H cfg (initSt g progs) sched).g.final b = some d) : Complete H d :=
  (invVC_run H cfg _ (init_invVC H g progs hg) sched).store b d h

/-- the repository lock is a reader/writer lock in every reachable state: a gc inside its exclusive section
excludes every other gc and every `use` inside its shared section -/
theorem lock_exclusion (H : Nat → Nat) (cfg : Cfg) (g : Store) (progs : List Prog) (sched : List Pid) :
    Mutex (run H cfg (initSt g progs) sched) :=
  run_inv H cfg (fun s p => mutex_step H cfg s p) _ (init_mutex g progs) sched

example : ∃ d, (run id Cfg.old (initSt emptyStore [⟨.install 100 1 7 7 5 true false, none, true⟩])
    [0, 0, 0]).g.final 1 = some d ∧ Complete id d := ⟨_, rfl, rfl, 7, rfl, Or.inr ⟨_, rfl, rfl⟩⟩

/-! ### 2. at most one install per Build-Id -/

/-- **install_once**: for every Build-Id, in every state of every interleaving, the number of processes whose
own rename published the package equals the number of collections of that Build-Id since the start plus
(1 if it is visible now) minus (1 if it was visible at the start).  A rename publishes only onto an absent path. -/
theorem install_once (H : Nat → Nat) (cfg : Cfg) (g : Store) (progs : List Prog) (hg : GoodStore H g)
    (sched : List Pid) (b : Bid) :
    let s := run H cfg (initSt g progs) sched
    pubCount s.procs b + g.nGc b + present (g.final b) = s.g.nGc b + present (s.g.final b) := by
  intro s
  have h1 : CountInv s.g :=
    run_inv (P := fun s => CountInv s.g) H cfg (fun s p => countInv_step H cfg s p) _ hg.counts sched
  have h2 : PubInv s ∧ PubCount g.nInst s :=
    run_inv (P := fun s => PubInv s ∧ PubCount g.nInst s) H cfg
      (fun s p hh => ⟨pubInv_step H cfg s p hh.1, pubCount_step H cfg g.nInst s p hh.1 hh.2⟩) _
      ⟨init_pubInv g progs, fun b => by simp [initSt, pubCount_mkProcs]⟩ sched
  have := h1 b
  have := h2.2 b
  have := hg.counts b
  omega

/-- while no gc collects the Build-Id, at most one process ever installs it -/
theorem install_once_no_gc (H : Nat → Nat) (cfg : Cfg) (g : Store) (progs : List Prog) (hg : GoodStore H g)
    (sched : List Pid) (b : Bid) (hgc : (run H cfg (initSt g progs) sched).g.nGc b = g.nGc b) :
    pubCount (run H cfg (initSt g progs) sched).procs b ≤ 1 := by
  have := install_once H cfg g progs hg sched b
  simp only at this
  have h1 : present ((run H cfg (initSt g progs) sched).g.final b) ≤ 1 := by unfold present; split <;> omega
  omega

/-- `installSharedPackage` reports `(path, True)` exactly when its own rename published the package; every other
install returns `(path, False)` and has published nothing -/
theorem install_result (H : Nat → Nat) (cfg : Cfg) (g : Store) (progs : List Prog) (sched : List Pid)
    (i : Nat) (pi : Proc) (installed : Bool)
    (hi : (run H cfg (initSt g progs) sched).procs[i]? = some pi) (hd : pi.pc = .done (.inst installed)) :
    pi.pub = installed := by
  have := reach_pubInv H cfg g progs sched i pi hi
  rw [hd] at this; exact this

/-- the two racing installs of the same Build-Id: exactly one publishes, the other returns `(path, False)` -/
example :
    let s := run id Cfg.old (initSt emptyStore [⟨.install 100 1 7 7 5 true false, none, true⟩,
                                              ⟨.install 101 1 7 7 5 true false, none, true⟩])
      [0, 1, 0, 1, 0, 1, 1, 0, 0, 0, 0, 0]
    pubCount s.procs 1 = 1 ∧ (s.procs[0]?).map (·.pc) = some (.done (.inst true)) ∧
      (s.procs[1]?).map (·.pc) = some (.done (.inst false)) := by decide

/-! ### 4. garbage collection policy -/

/-- **gc_policy (subset / oldest first / until the quota is met)** for `sorted(candidates)` and the quota loop:
the removed packages are a prefix of the candidates in tuple order, the reported size is the recorded size
minus what was removed; automatic cleaning (`pruneUnused = false`, quota `q`) removes the SHORTEST such prefix that
brings the size within the quota (all candidates if that is impossible); it never raises. -/
theorem gc_policy_auto (q : Nat) (cands : List Cand) (total : Nat) :
    let r := gcSelect (some q) false cands total
    (∃ rest, sortCands cands = r.1 ++ rest) ∧
    (∀ p, p <+: r.1 → p ≠ r.1 → total - sumCand p > q) ∧
    (total - sumCand r.1 ≤ q ∨ r.1 = sortCands cands) ∧
    r.2.1 = total - sumCand r.1 ∧ r.2.2 = false := by
  unfold gcSelect
  exact ⟨gcLoop_prefix _ _ _ _, (gcLoop_quota q _ total).1, (gcLoop_quota q _ total).2, gcLoop_size _ _ _ _,
    gcLoop_noTypeError_quota q false _ total⟩

/-- the order in which candidates are considered is a permutation of the candidates sorted by the tuple order;
among unused candidates this is ascending modification time of `pkg.json` (oldest first) -/
theorem gc_policy_oldest_first (cands : List Cand) (hu : ∀ c ∈ cands, c.unused = true) :
    (sortCands cands).Perm cands ∧ (sortCands cands).Pairwise (fun a b => a.time ≤ b.time) :=
  ⟨sortCands_perm cands,
   sorted_unused_time (sortCands_sorted cands) (fun c hc => hu c ((sortCands_perm cands).mem_iff.mp hc))⟩

/-- `--all-unused` (without `--used`) removes every unused package, whatever the quota -/
theorem gc_policy_all_unused (quota : Option Nat) (cands : List Cand) (total : Nat)
    (hu : ∀ c ∈ cands, c.unused = true) :
    (gcSelect quota true cands total).1 = sortCands cands ∧ (gcSelect quota true cands total).2.2 = false := by
  unfold gcSelect
  exact gcLoop_allUnused quota _ total (fun c hc => hu c ((sortCands_perm cands).mem_iff.mp hc))

/-- whatever is removed was a scanned candidate -/
theorem gc_policy_subset (quota : Option Nat) (pun : Bool) (cands : List Cand) (total : Nat) :
    ∀ c ∈ (gcSelect quota pun cands total).1, c ∈ cands := gcSelect_sub quota pun cands total

/-- in every interleaving a gc without `--used` (and the automatic gc of an install) only ever holds candidates
it flagged unused: used packages are collected only with `--used` -/
theorem gc_policy_nonforced (H : Nat → Nat) (cfg : Cfg) (g : Store) (progs : List Prog) (sched : List Pid)
    (i : Nat) (pi : Proc) (hi : (run H cfg (initSt g progs) sched).procs[i]? = some pi) :
    CandOk pi.prog pi.pc := by
  have : ∀ s, (∀ (i : Nat) (pi : Proc), s.procs[i]? = some pi → CandOk pi.prog pi.pc) →
      ∀ p, (∀ (i : Nat) (pi : Proc), (step H cfg s p).procs[i]? = some pi → CandOk pi.prog pi.pc) := by
    intro s hs p
    rcases step_cases H cfg s p with ⟨_, e⟩ | ⟨pr, hpr, e⟩
    · rw [e]; exact hs
    · rw [e]
      intro i pi hi
      simp only at hi
      rcases getElem?_set_cases hi with ⟨rfl, rfl, _⟩ | ⟨_, hi'⟩
      · exact stepPc_candOk H cfg pr.prog _ _ s.g pr.pc (hs i pr hpr)
      · exact hs i pi hi'
  exact run_inv (P := fun s => ∀ (i : Nat) (pi : Proc), s.procs[i]? = some pi → CandOk pi.prog pi.pc) H cfg
    (fun s p hs => this s hs p) _
    (fun i pi hi => by rw [(getElem?_mkProcs hi).1]; intro _ c hc; cases hc) sched i pi hi

/-- only a gc move removes a package from its final path, and it removes the head of the remaining plan -/
theorem only_gc_removes (H : Nat → Nat) (cfg : Cfg) (prog : Prog) (exO shO : Bool) (g : Store) (pc : Pc) (b : Bid)
    (h1 : g.final b ≠ none) (h2 : (stepPc H cfg prog exO shO g pc).1.final b = none) :
    ∃ rm c rest t d te, pc = .gMove rm (c :: rest) t d te ∧ c.bid = b := by
  rcases stepPc_final H cfg prog exO shO g pc b with hs | ⟨_, _, _, hn, _⟩ | ⟨rm, c, rest, t, d, te, hp, hb, _, _⟩ |
      ⟨_, _, _, _, _, hn, _⟩
  · rw [hs] at h2; exact absurd h2 h1
  · exact absurd hn h1
  · exact ⟨rm, c, rest, t, d, te, hp, hb⟩
  · rw [hn] at h2; cases h2

/-- `--dry-run` never reaches the moving phase: it removes nothing -/
theorem gc_policy_dry_run (prog : Prog) (g : Store) (rm : List (Bid × Nat)) (cands : List Cand) (total : Nat)
    (hd : (gcCtx prog).dryRun = true) : ∃ r, (gcPlan prog g rm cands total) = (g, .gClose none r) := by
  unfold gcPlan
  simp [hd]

example : (gcSelect (some 20) false [⟨true, 5, 10, 1⟩, ⟨true, 3, 10, 2⟩, ⟨true, 9, 10, 3⟩] 35).1.map (·.bid) = [2, 1] := by
  decide

/-! ### 0. the model follows the current source -/

/-- the variant of the code found in the current source (Generated/ConstsC15.lean) is the fixed one -/
theorem consts_are_fixed :
    (⟨Consts.C15.flushBeforeUnlock, Consts.C15.gcMissingOk, Consts.C15.emptyOk, Consts.C15.lostRaceRecords⟩ : Cfg)
      = Cfg.fixed := by decide

/-! ### 5. no spurious failure -/

/-- full statement: from a consistent store (including the empty one: no directory, no repo.json) no operation of
any interleaving ends with FileNotFoundError(repo.json), JSONDecodeError, "Corrupt meta info" or ENOENT at the
collecting rename -/
def no_spurious_failure_goal (H : Nat → Nat) (cfg : Cfg) : Prop :=
  ∀ (g : Store) (L : List (Bid × Nat)) (progs : List Prog), GoodStoreFF g L →
    ∀ (sched : List Pid) (i : Nat) (pi : Proc) (e : Err),
      (run H cfg (initSt g progs) sched).procs[i]? = some pi → pi.pc = .done (.err e) → e.spurious = false

/-- **no_spurious_failure** (full strength, fixed code): no install, use or clean operation fails or reports
corruption because another project works on the store at the same time or because the store is still empty. -/
theorem no_spurious_failure (H : Nat → Nat) : no_spurious_failure_goal H Cfg.fixed := by
  intro g L progs hg sched i pi e hi hd
  obtain ⟨L', inv⟩ := reach_invFF H g L progs hg sched
  have := (inv.pcs i pi hi).1
  rw [hd] at this
  exact this e rfl

def pcOf (s : St) (p : Nat) : Option Pc := (s.procs[p]?).map (·.pc)

def inst (ws bid : Nat) (link : Bool := false) : Prog := ⟨.install ws bid bid bid 5 true link, none, true⟩
def useP (ws bid : Nat) (link : Bool := false) : Prog := ⟨.use ws bid link, none, true⟩
def gcAll : Prog := ⟨.gc false true false, none, true⟩

/-- F-C15-1: the first install is between `makedirs` and `__addPackage`; another project's
`bob clean --shared --all-unused` raises FileNotFoundError -/
theorem witness_gc_on_empty_store :
    pcOf (run id Cfg.old (initSt emptyStore [inst 100 1, gcAll]) [0, 1, 1]) 1 = some (.done (.err .fileNotFound)) := by
  decide

/-- unlock before flush (repo.json): process 1 has released the repository lock, its rewrite of repo.json is still
in its buffer; the gc takes the lock, reads an empty file and dies with JSONDecodeError -/
theorem witness_flush_window_repo :
    pcOf (run id Cfg.old (initSt emptyStore [inst 100 1, inst 101 2, gcAll])
      [0, 0, 0, 0, 0, 0, 0, 0, 1, 1, 1, 1, 1, 2, 2, 2, 2]) 2 = some (.done (.err .jsonDecode)) := by
  decide

/-- unlock before flush (pkg.json): two projects use the same package, the second reports "Corrupt meta info" -/
theorem witness_flush_window_pkg :
    pcOf (run id Cfg.old (initSt emptyStore [inst 100 1, useP 0 1, useP 1 1])
      [0, 0, 0, 0, 0, 0, 0, 0, 1, 1, 1, 1, 1, 2, 2, 2, 2, 2, 2]) 2 = some (.done (.err .corruptMeta)) := by
  decide

/-- creation window of repo.json: process 0 created it with mode "x" and has not locked it yet -/
theorem witness_creation_window :
    pcOf (run id Cfg.old (initSt emptyStore [inst 100 1, inst 101 2])
      [0, 0, 0, 0, 0, 1, 1, 1, 1, 1, 1]) 1 = some (.done (.err .jsonDecode)) := by
  decide

/-- hence the full statement was false of the code before the fixes -/
theorem no_spurious_failure_old_refuted : ¬ no_spurious_failure_goal id Cfg.old := by
  intro h
  have := h emptyStore [] [inst 100 1, gcAll] goodStoreFF_empty [0, 1, 1] 1
  have hw := witness_gc_on_empty_store
  unfold pcOf at hw
  cases hp : (run id Cfg.old (initSt emptyStore [inst 100 1, gcAll]) [0, 1, 1]).procs[1]? with
  | none => rw [hp] at hw; cases hw
  | some pi =>
    rw [hp] at hw
    simp only [Option.map_some, Option.some.injEq] at hw
    have := this pi .fileNotFound hp hw
    cases this

/-- the same interleavings in the fixed code: the gc on the half created store returns 0, the reader in the flush /
creation window gets the complete file resp. an empty repository -/
theorem witnesses_fixed :
    pcOf (run id Cfg.fixed (initSt emptyStore [inst 100 1, gcAll]) [0, 1, 1]) 1 = some (.done (.gcSize 0)) ∧
    pcOf (run id Cfg.fixed (initSt emptyStore [inst 100 1, inst 101 2, gcAll])
      [0, 0, 0, 0, 0, 0, 0, 0, 1, 1, 1, 1, 1, 2, 2, 2, 2, 2, 2, 2, 2, 2, 2]) 2 = some (.done (.gcSize 0)) ∧
    pcOf (run id Cfg.fixed (initSt emptyStore [inst 100 1, useP 0 1, useP 1 1])
      [0, 0, 0, 0, 0, 0, 0, 0, 1, 1, 1, 1, 1, 2, 2, 2, 2, 2, 2]) 2 = some (.done (.useOk 1)) ∧
    pcOf (run id Cfg.fixed (initSt emptyStore [inst 100 1, inst 101 2])
      [0, 0, 0, 0, 0, 1, 1, 1, 1, 1, 1]) 1 = some (.done (.inst true)) := by
  decide

/-! ### 3. accounting -/

/-- repo.json (read as the code reads it: missing / empty = no package) has unique keys and records exactly the
packages at their final paths with the sizes of their pkg.json; `sumSizes` of it is the recorded repository size -/
def Accounted (g : Store) : Prop :=
  (keys (logicalOf g.repo)).Nodup ∧
    ∀ b sz, (b, sz) ∈ logicalOf g.repo ↔ ∃ d m, g.final b = some d ∧ d.info = some (.valid m) ∧ m.size = sz

/-- full statement: every quiescent state of every interleaving from a consistent store is accounted -/
def accounting_goal (H : Nat → Nat) (cfg : Cfg) : Prop :=
  ∀ (g : Store) (L : List (Bid × Nat)) (progs : List Prog), GoodStoreFF g L → ∀ (sched : List Pid),
    (∀ (i : Nat) (pi : Proc), (run H cfg (initSt g progs) sched).procs[i]? = some pi → pi.pc.isDone = true) →
    Accounted (run H cfg (initSt g progs) sched).g

/-- **accounting** (full strength, fixed code): after any operations, in any interleaving, the recorded repository
size equals the sum of the installed packages. -/
theorem accounting (H : Nat → Nat) : accounting_goal H Cfg.fixed := by
  intro g L progs hg sched hdone
  obtain ⟨L', inv⟩ := reach_invFF H g L progs hg sched
  have hnot : ∀ (i : Nat) (pi : Proc), (run H Cfg.fixed (initSt g progs) sched).procs[i]? = some pi →
      pi.pc.rmeta = none ∧ pi.pc.inWindow = false := by
    intro i pi hi
    have := hdone i pi hi
    cases hq : pi.pc <;> rw [hq] at this <;> first | exact ⟨rfl, rfl⟩ | cases this
  have hL : logicalOf (run H Cfg.fixed (initSt g progs) sched).g.repo = L' := by
    rcases inv.repoOk with ⟨hv, _⟩ | ⟨_, i, pi, hi, hr, _⟩
    · exact hv
    · rw [(hnot i pi hi).1] at hr; cases hr
  rw [Accounted, hL]
  refine ⟨inv.nodup, ?_⟩
  intro b sz
  constructor
  · exact inv.recorded b sz
  · rintro ⟨d, m, hd, hm, hs⟩
    obtain ⟨m', hm', hor⟩ := inv.pkgs b d hd
    rw [hm] at hm'; cases hm'
    rcases hor with h | ⟨i, pi, hi, hw, _⟩
    · rw [← hs]; exact h
    · rw [(hnot i pi hi).2] at hw; cases hw

/-- from a store with one installed package two more installs, a use and an automatic gc (quota 8) run to a
quiescent, accounted state (`goodStoreFF_g1`: the hypotheses are satisfiable) -/
example :
    let s := run id Cfg.fixed (initSt g1 [inst 101 2, ⟨.install 102 3 3 3 5 true false, some 8, true⟩, useP 0 1])
      [0, 1, 2, 0, 1, 2, 0, 1, 2, 0, 1, 2, 0, 1, 2, 0, 1, 2, 1, 1, 1, 1, 1, 1, 1, 1, 1, 1, 1, 1, 0, 0, 0]
    (s.procs.map (·.pc.isDone)) = [true, true, true] ∧ s.g.repo = .valid [(3, 5), (2, 5)] ∧
      (s.g.final 1).isNone = true ∧ (s.g.final 2).isSome = true ∧ (s.g.final 3).isSome = true := by
  decide

/-- the "create repo.json if it is missing" step of `__addPackage` runs outside the lock: it is a separate segment
that may be scheduled after another project has created AND filled the file, so `accounting` depends on it never
changing an existing file (`open(fn, "a")`, not `"w"`) -/
theorem create_keeps_content (H : Nat → Nat) (cfg : Cfg) (prog : Prog) (exO shO : Bool) (g : Store)
    (h : g.repo ≠ .absent) : (stepPc H cfg prog exO shO g .iAddTouch).1.repo = g.repo := by
  unfold stepPc
  cases hr : g.repo with
  | absent => exact absurd hr h
  | torn => simp [hr]
  | valid l => simp [hr]

/-- two first installs into an empty store; process 0 is stopped between its failed locked open and its create step,
process 1 creates and fills repo.json in between: both packages end up recorded -/
example :
    let s := run id Cfg.fixed (initSt emptyStore [inst 100 1, inst 101 2])
      [0, 0, 0, 0, 1, 1, 1, 1, 1, 1, 1, 1, 0, 0, 0, 0]
    (s.procs.map (·.pc)) = [.done (.inst true), .done (.inst true)] ∧ s.g.repo = .valid [(2, 5), (1, 5)] := by
  decide

/-- gc subtracts exactly what it moved, `__addPackage` adds exactly the size of the new package -/
theorem accounting_delta (l : List (Bid × Nat)) (b : Bid) (sz : Nat) (h : (keys l).Nodup) :
    ((b, sz) ∈ l → sumSizes (erasePkg l b) + sz = sumSizes l) ∧
    (b ∉ keys l → sumSizes (setPkg l b sz) = sumSizes l + sz) :=
  ⟨sumSizes_erasePkg l b sz h, sumSizes_setPkg_new l b sz⟩

/-- the code before the fixes broke the accounting: the install of package 3 reads repo.json in the flush window of the
install of package 2, dies after it has published, and package 3 stays unrecorded for ever -/
theorem witness_accounting_broken :
    let s := run id Cfg.old (initSt emptyStore [inst 100 1, inst 101 2, inst 102 3])
      [0, 0, 0, 0, 0, 0, 0, 0, 2, 2, 2, 2, 1, 1, 1, 1, 1, 2, 2, 1]
    s.g.repo = .valid [(1, 5), (2, 5)] ∧ (s.g.final 3).isSome = true ∧
      (s.procs.map (·.pc)) = [.done (.inst true), .done (.inst true), .done (.err .jsonDecode)] := by
  decide


/-- hence the full accounting statement was false of the code before the fixes -/
theorem accounting_old_refuted : ¬ accounting_goal id Cfg.old := by
  intro h
  have hd : ∀ (i : Nat) (pi : Proc), (run id Cfg.old (initSt g1 [inst 101 2, inst 102 3])
      [1, 1, 1, 1, 0, 0, 0, 0, 0, 1, 1, 0]).procs[i]? = some pi → pi.pc.isDone = true := by
    intro i pi hi
    have hl : (run id Cfg.old (initSt g1 [inst 101 2, inst 102 3]) [1, 1, 1, 1, 0, 0, 0, 0, 0, 1, 1, 0]).procs.map
        (·.pc.isDone) = [true, true] := by decide
    have : pi.pc.isDone ∈ [true, true] := by
      rw [← hl]; exact List.mem_map.mpr ⟨pi, List.mem_of_getElem? hi, rfl⟩
    simpa using this
  obtain ⟨_, hiff⟩ := h g1 [(1, 5)] [inst 101 2, inst 102 3] goodStoreFF_g1 [1, 1, 1, 1, 0, 0, 0, 0, 0, 1, 1, 0] hd
  have hrepo : (run id Cfg.old (initSt g1 [inst 101 2, inst 102 3]) [1, 1, 1, 1, 0, 0, 0, 0, 0, 1, 1, 0]).g.repo =
      .valid [(1, 5), (2, 5)] := by decide
  rw [hrepo] at hiff
  have : (3, 5) ∈ [(1, 5), (2, 5)] := (hiff 3 5).mpr ⟨⟨true, some 3, some (.valid ⟨3, 5, [102]⟩), 1⟩, ⟨3, 5, [102]⟩, by decide, rfl, rfl⟩
  simp at this

/-! ### 6. not collected while used — violated by the current code (known finding F-C15-2) -/

/-- full statement (NOT asserted): whenever a non-forced gc moves a package away, no workspace links to it, and a
workspace is never linked to a package that is not there -/
def not_collected_while_used_goal (H : Nat → Nat) (cfg : Cfg) : Prop :=
  ∀ (g : Store) (progs : List Prog), GoodStore H g → (∀ w, g.links w = none) →
    ∀ (sched : List Pid) (w : Ws) (b : Bid),
      (run H cfg (initSt g progs) sched).g.links w = some b → (run H cfg (initSt g progs) sched).g.final b ≠ none
      ∨ ∃ (i : Nat) (pi : Proc), (run H cfg (initSt g progs) sched).procs[i]? = some pi ∧ (gcCtx pi.prog).pruneUsed = true

/-- before fix 4 the lost race at install left the losing workspace unrecorded: project 1 links package 1 without being in
`users`; after project 0 is removed a plain `--all-unused` gc collects the package that workspace 1 links to -/
theorem witness_lost_race_unrecorded_user :
    let s := run id Cfg.old (initSt emptyStore [inst 0 1 true, inst 1 1 true, ⟨.dropws 0, none, true⟩, gcAll])
      [0, 1, 0, 0, 0, 0, 0, 0, 0, 0, 1, 1, 1, 2, 3, 3, 3, 3, 3]
    (pcOf s 3 = some (.gMove [(1, 5)] [⟨true, 0, 5, 1⟩] 0 false false) ∧ s.g.links 1 = some 1 ∧
      (s.g.final 1).isSome = true ∧ ((s.g.final 1).bind (·.info)) = some (.valid ⟨1, 5, [0]⟩)) ∧
    (step id Cfg.old s 3).g.final 1 = none ∧ (step id Cfg.old s 3).g.links 1 = some 1 := by
  decide

/-- with fix 4 the loser of the install race registers itself: both workspaces are recorded, the plain gc keeps the
package -/
theorem lost_race_user_recorded :
    let s := run id Cfg.fixed (initSt emptyStore [inst 0 1 true, inst 1 1 true, ⟨.dropws 0, none, true⟩, gcAll])
      [0, 1, 0, 0, 0, 0, 0, 0, 0, 0, 1, 1, 1, 1, 1, 1, 1, 1, 1, 2, 3, 3, 3, 3, 3, 3, 3, 3]
    (s.procs.map (·.pc.isDone)) = [true, true, true, true] ∧ s.g.links 1 = some 1 ∧
      ((s.g.final 1).bind (·.info)) = some (.valid ⟨1, 5, [0, 1]⟩) := by
  decide

/-- F-C15-2 (known finding, current code): `useSharedPackage` returned the package, the builder has not created the
link yet, another project's gc judges the package unused and collects it; the use operation then reports success
with a dangling workspace -/
theorem witness_gc_between_use_and_link :
    let s := run id Cfg.fixed (initSt emptyStore [inst 100 1, useP 0 1 true, gcAll])
      [0, 0, 0, 0, 0, 0, 0, 0, 1, 1, 1, 1, 1, 1, 2, 2, 2, 2, 2, 2, 2, 2, 1]
    pcOf s 1 = some (.done (.shared true)) ∧ pcOf s 2 = some (.done (.gcSize 0)) ∧
      s.g.links 0 = some 1 ∧ s.g.final 1 = none := by
  decide

theorem not_collected_while_used_refuted : ¬ not_collected_while_used_goal id Cfg.fixed := by
  intro h
  have hw := witness_gc_between_use_and_link
  simp only at hw
  rcases h emptyStore [inst 100 1, useP 0 1 true, gcAll] (goodStore_empty id) (fun _ => rfl)
    [0, 0, 0, 0, 0, 0, 0, 0, 1, 1, 1, 1, 1, 1, 2, 2, 2, 2, 2, 2, 2, 2, 1] 0 1 hw.2.2.1 with h1 | ⟨i, pi, hi, hp⟩
  · exact h1 hw.2.2.2
  · have hprog : pi.prog ∈ [inst 100 1, useP 0 1 true, gcAll] := by
      have : ∀ (s : St) (p : Nat), (step id Cfg.fixed s p).procs.map (·.prog) = s.procs.map (·.prog) := by
        intro s p
        rcases step_cases id Cfg.fixed s p with ⟨_, e⟩ | ⟨pr, hpr, e⟩
        · rw [e]
        · rw [e]
          simp only
          rw [List.map_set]
          apply List.ext_getElem?
          intro k
          rw [List.getElem?_set]
          by_cases ek : p = k
          · subst ek
            simp only [if_true, List.length_map]
            split
            · rw [List.getElem?_map, hpr]; rfl
            · rename_i hl
              rw [List.getElem?_eq_none (by simpa using hl)]
          · simp [ek]
      have hall : ∀ (sched : List Pid) (s : St), (run id Cfg.fixed s sched).procs.map (·.prog) = s.procs.map (·.prog) := by
        intro sched
        induction sched with
        | nil => intro s; rfl
        | cons p rest ih => intro s; simp only [run]; rw [ih, this]
      have hm : pi.prog ∈ (run id Cfg.fixed (initSt emptyStore [inst 100 1, useP 0 1 true, gcAll])
          [0, 0, 0, 0, 0, 0, 0, 0, 1, 1, 1, 1, 1, 1, 2, 2, 2, 2, 2, 2, 2, 2, 1]).procs.map (·.prog) :=
        List.mem_map.mpr ⟨pi, List.mem_of_getElem? hi, rfl⟩
      rw [hall] at hm
      simpa [initSt, mkProcs] using hm
    simp only [List.mem_cons, List.mem_nil_iff, or_false] at hprog
    rcases hprog with e | e | e <;> rw [e] at hp <;> simp [gcCtx, inst, useP, gcAll] at hp

/-- **not_collected_while_used_partial** (what holds of every variant of the code, hypothesis added: "at scan time, for
recorded users"): every candidate in the hands of any gc, in any interleaving, was either flagged *used*, or at the
moment it was scanned (under the exclusive repository lock) no workspace recorded in its `pkg.json` linked to it and it
was not the package being installed; and a gc without `--used` holds only candidates flagged unused. -/
theorem not_collected_while_used_partial (H : Nat → Nat) (cfg : Cfg) (prog : Prog) (exO shO : Bool) (g : Store)
    (rm : List (Bid × Nat)) (k : Bid) (sz : Nat) (rest : List (Bid × Nat)) (cands : List Cand) (total : Nat) :
    ∀ c ∈ (stepPc H cfg prog exO shO g (.gScanLock rm k sz rest cands total)).2.cands,
      c ∈ cands ∨ (c.bid = k ∧ Judged prog g c ∧ ((gcCtx prog).pruneUsed = false → c.unused = true)) :=
  scan_step H cfg prog exO shO g rm k sz rest cands total

end C15
