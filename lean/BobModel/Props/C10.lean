import BobModel.Proofs.C10
import BobModel.Proofs.C10Fault
/-
C10 — Workspace state commits atomically and is single-writer.

Property theorems about the model of `pym/bob/state.py` (`Model/StateFS.lean`).  Only statements that
mention the property live here; the invariant and its preservation are in `Proofs/C10.lean`.

Reading guide.  `runHist c FS.empty hist` is the event trace (file-system operations plus ghost
markers) of a history of Bob invocations, each `__init__ ; API calls ; finalize`, started on an empty
directory.  `Ghost.run` folds the markers of a trace prefix into
`base` (state at the end of the last completed invocation), `since` (snapshots saved after that);
`Adm G x` says `x` is `base` or one of `since`.  `recover fs g` is a machine crash with garbling `g` of
every unsynced content followed by the documented removal of the stale lock file;
`(initRun c fs).res` is what the next start of Bob loads.
-/
namespace C10
open StateFS

/-! ### the constants the model hard-wires are the ones of the current source -/

/-- trailer layout (`struct.pack("=L")`, `data[:-4]`, `data[-4:]`): 4 bytes, little endian (host order on
the supported hosts) — what `StateFS.trailer` / `StateFS.verify` implement. -/
theorem consts_match_model :
    Consts.C10.trailerLen = 4 ∧ Consts.C10.verifySlice = 4 ∧ Consts.C10.trailerBigEndian = false ∧
    Consts.C10.lockFlags = ["O_CREAT", "O_EXCL", "O_WRONLY"] := by
  decide

/-- the four files of the protocol are four different names (so `StateFS.Name` is a faithful abstraction) -/
theorem names_distinct : (Name.all.map Name.path).Nodup := by
  decide

/-- a state stamped with `CUR_VERSION` passes the version window and triggers no upgrade -/
theorem current_version_loads {σ μ : Type} (c : Cfg σ μ) (hc : c.Lawful) (s : σ) :
    Consts.C10.minVersion ≤ Consts.C10.curVersion ∧ upgrade c Consts.C10.curVersion s = s ∧
    loadBytes c (encS c s) = .ok s :=
  ⟨by decide, upgrade_cur c s, loadBytes_enc c hc s⟩

/-! ### checksum -/

/-- what `__save` writes always verifies -/
theorem adler_roundtrip (p : Bytes) : verify (enc p) = true := verify_enc p

/-- a file shorter than the trailer (in particular the empty file left by delayed allocation) is rejected -/
theorem verify_rejects_short (d : Bytes) (h : d.length < 4) : verify d = false := verify_short d h

/-- a file of zero bytes of any length is rejected -/
theorem verify_rejects_zeros (n : Nat) : verify (List.replicate n (0 : UInt8)) = false := verify_zeros n

/-- changing exactly one byte (payload or trailer) of a saved file is detected -/
theorem adler_single_byte (p pre suf : Bytes) (x y : UInt8) (hxy : x ≠ y) (h : enc p = pre ++ x :: suf) :
    verify (pre ++ y :: suf) = false := single_byte p pre suf x y hxy h

/-- hence truncation below 4 bytes, zero fill and any single-byte change are `Detectable` garblings -/
theorem detectable_examples :
    Detectable (fun _ d => d) ∧ Detectable (fun _ d => d.take 3) ∧ Detectable (fun _ _ => []) ∧
    Detectable (fun _ d => List.replicate d.length 0) := by
  refine ⟨fun d => Or.inl rfl, fun d => Or.inr ?_, fun d => Or.inr ?_, fun d => Or.inr ?_⟩
  · exact verify_short _ (by simp; omega)
  · exact verify_short _ (by simp)
  · exact verify_zeros _

/-! ### atomic commit -/

/-- **recover_is_snapshot.**  For every history of invocations (any mutator semantics, any sequence of
API calls including unbalanced asynchronous sections), every prefix of its event trace (hence every prefix
of its file-system operation trace) and every detectable garbling: the next start loads, without error,
the state at the end of the last completed invocation or one snapshot saved since — one `decode (enc s)`,
never a mixture. -/
theorem recover_is_snapshot {σ μ : Type} (c : Cfg σ μ) (hc : c.Lawful) (hist : List (List (Call μ)))
    (n : Nat) (g : Garble) (hg : Detectable g) :
    let evs := (runHist c FS.empty hist).take n
    ∃ x, (initRun c (recover (applyOps FS.empty (evOps evs)) g)).res = .ok x ∧ Adm (Ghost.init.run evs) x := by
  intro evs
  have h := AllPre_take (runHist_pre c hc FS.empty Ghost.init hist (Inv_init c)) n
  rw [← applyEvs_ops]
  exact fresh_start c hc _ _ (Inv_recover c _ _ g hg h) (recover_lock _ g)

/-- in particular, once the last invocation of a history has completed (nothing saved since), every crash
afterwards recovers exactly its final state -/
theorem completed_invocation_is_durable {σ μ : Type} (c : Cfg σ μ) (hc : c.Lawful) (hist : List (List (Call μ)))
    (g : Garble) (hg : Detectable g)
    (hdone : (Ghost.init.run (runHist c FS.empty hist)).since = []) :
    (initRun c (recover (applyOps FS.empty (evOps (runHist c FS.empty hist))) g)).res =
      .ok (Ghost.init.run (runHist c FS.empty hist)).base := by
  have h := recover_is_snapshot c hc hist (runHist c FS.empty hist).length g hg
  simp only [List.take_length] at h
  obtain ⟨x, hx, ha⟩ := h
  rcases ha with ha | ⟨s, hs, _⟩
  · rw [hx, ha]
  · rw [hdone] at hs; cases hs

/-- **a mere process kill loses nothing**: without garbling, at every prefix of every history the next
start loads exactly the newest snapshot whose rename to the uncommitted name is part of the prefix
(`Dur.durable`), however far its commit got.  This is where `adler_roundtrip` is needed. -/
theorem kill_loses_nothing {σ μ : Type} (c : Cfg σ μ) (hc : c.Lawful) (hist : List (List (Call μ))) (n : Nat) :
    let evs := (runHist c FS.empty hist).take n
    (initRun c (recover (applyOps FS.empty (evOps evs)) (fun _ d => d))).res =
      .ok (Dur.run ⟨none, none⟩ evs).durable := by
  intro evs
  have h0 : K c FS.empty (⟨none, none⟩ : Dur σ) := ⟨none, Or.inl ⟨rfl, rfl⟩, Or.inl ⟨rfl, rfl⟩⟩
  have h := AllPreD_take (runHistK c hc FS.empty ⟨none, none⟩ hist h0) n
  rw [← applyEvs_ops]
  exact (initK c hc _ _ (K_kill c _ _ h)).2 (recover_lock _ _)

/-- the same after any number of earlier crashes: sessions are complete invocations or invocations cut at
an arbitrary event and crashed with a detectable garbling (then recovered).  After a history that ends
in a crash, the next start loads an admissible state. -/
theorem recover_is_snapshot_multi {σ μ : Type} (c : Cfg σ μ) (hc : c.Lawful) (ss : List (Session μ))
    (calls : List (Call μ)) (cut : Nat) (g : Garble) (hd : ∀ s ∈ ss, s.Det) (hg : Detectable g) :
    let r := runSessions c FS.empty Ghost.init (ss ++ [.crashed calls cut g])
    ∃ x, (initRun c r.1).res = .ok x ∧ Adm r.2 x := by
  intro r
  have hall : ∀ s ∈ ss ++ [Session.crashed calls cut g], s.Det := by
    intro s hs
    rcases List.mem_append.mp hs with h | h
    · exact hd s h
    · simp at h; subst h; exact hg
  have hinv := runSessions_inv c hc (ss ++ [.crashed calls cut g]) FS.empty Ghost.init hall (Inv_init c)
  refine fresh_start c hc _ _ hinv ?_
  -- the last session ended in `recover`, which removed the lock
  have : ∀ (l : List (Session μ)) (fs : FS) (G : Ghost σ),
      (runSessions c fs G (l ++ [.crashed calls cut g])).1 .lock = none := by
    intro l
    induction l with
    | nil => intro fs G; simp [runSessions, runSession, recover_lock]
    | cons s l ih => intro fs G; simpa [runSessions] using ih _ _
  exact this ss _ _

/-- the committed file is durable at every instant: no prefix of any run leaves `.bob-state.pickle`
present but unsynced or with a content that is not exactly one saved snapshot -/
theorem committed_always_synced {σ μ : Type} (c : Cfg σ μ) (hc : c.Lawful) (hist : List (List (Call μ))) (n : Nat) :
    let fs := applyOps FS.empty (evOps ((runHist c FS.empty hist).take n))
    fs .pickle = none ∨ ∃ s, fs .pickle = some ⟨encS c s, true⟩ := by
  intro fs
  have h := AllPre_take (runHist_pre c hc FS.empty Ghost.init hist (Inv_init c)) n
  rw [applyEvs_ops] at h
  obtain ⟨x, hp, _, _⟩ := h
  rcases hp with ⟨h1, _⟩ | ⟨s, h1, _⟩
  · exact Or.inl h1
  · exact Or.inr ⟨s, h1⟩

/-! ### single writer -/

/-- in any interleaving of the steps of two instances on one directory at most one is live, and a live
instance implies the lock file exists -/
theorem single_writer {σ μ : Type} (c : Cfg σ μ) (acts : List (Act μ)) :
    let w := run2 c ⟨FS.empty, none, none⟩ acts
    ¬ (w.ma.isSome = true ∧ w.mb.isSome = true) ∧
      ((w.ma.isSome = true ∨ w.mb.isSome = true) → (w.fs .lock).isSome = true) :=
  run2_inv c _ acts ⟨by simp, by simp⟩

/-- while the lock exists a start fails with "locked" having attempted only the exclusive create: the
file system is unchanged (no write, no commit, no unlock) -/
theorem second_instance_refused {σ μ : Type} (c : Cfg σ μ) (fs : FS) (h : (fs .lock).isSome = true) :
    (initRun c fs).res = .error .locked ∧ (initRun c fs).evs = [.op (.createExcl .lock)] ∧
      applyEvs fs (initRun c fs).evs = fs := initRun_locked c fs h

/-! ### asynchronous mode -/

/-- between `setAsynchronous` and the matching `setSynchronous` (nesting allowed) nothing is emitted, and
the matching `setSynchronous` emits exactly one save, of the final state, iff some mutator asked for one -/
theorem async_defers {σ μ : Type} (c : Cfg σ μ) (mem : Mem σ) (cs : List (Call μ))
    (h0 : mem.async = 0) (hd : mem.dirty = false) (h : Inside 1 cs) (hb : depthAfter 1 cs = 1) :
    (runCalls c mem (.setAsync :: cs)).2 = [] ∧
    (runCalls c mem (.setAsync :: cs ++ [.setSync])).2 =
      (if (foldMuts c mem.cur false cs).2 then saveEvs c (foldMuts c mem.cur false cs).1 else []) :=
  async_section c mem cs h0 hd h hb

/-! ### I/O errors of the file-system calls

`runInvF` is `runInv` with a fault choice at every file-system call of `__init__` (lock creation, the
start-up `__commit(verify=True)`, opening the state file, the `finalize()` of the error path), of every
`__save` (open / write after k bytes / rename) and of `finalize` (`__commit(verify=False)`: exists, open,
fsync, rename, the discarding unlink; the unlink of the lock).  `SessionF` adds kills and machine crashes at
an arbitrary event.  The ghost marker `saved s` is emitted only when the rename of `__save` is performed and
`endInv` only when the commit of `finalize` met no error, so the admissible set is exactly
{state committed by the last `finalize` that met no I/O error} ∪ {snapshots whose `__save` completed since}:
a snapshot whose save raised `ParseError` is *not* recoverable and a `finalize` whose commit failed (warning
only, the uncommitted file is deleted by the code) does *not* make its state durable. -/

/-- the exception handling that `saveF` / `commitF` / `discardOps` / `finalizeF` transliterate is the one of the
current source: `__save` turns OSError into ParseError and renames only after the writes (no nested try, no
finally); the `try` of `__commit` catches OSError with a warning and falls through to the unlink, whose
FileNotFoundError is ignored and whose OSError is a warning; `finalize` commits with `verify = not self.__uncommittedTrusted`. -/
theorem fault_handling_matches_model :
    Consts.C10.saveHandlers = [("OSError", "raise ParseError")] ∧ Consts.C10.saveRenameLastInTry = true ∧
    Consts.C10.saveNestedTries = 0 ∧ Consts.C10.commitHandlers = [("OSError", "warn")] ∧
    Consts.C10.commitNestedTries = 0 ∧
    Consts.C10.discardHandlers = [("FileNotFoundError", "pass"), ("OSError", "warn")] ∧
    Consts.C10.finalizeCommitArg = "not self.__uncommittedTrusted" := by
  decide

/-- **the modelled `finalize` is the repaired one** (99181a7): the current source passes
`not self.__uncommittedTrusted` to `__commit`, the flag is False from `__init__` and set True only right after the
rename of `__save`.  Reverting the fix flips the regenerated constant and breaks this proof and, through
`verifyUntrusted`, `recover_is_snapshot_faulty`. -/
theorem modelled_finalize_is_fixed : verifyUntrusted = true := by
  decide

/-- **recover_is_snapshot_faulty** (full strength, for the code of the current source: `verifyUntrusted`).  For every
sequence of sessions with arbitrary I/O errors in `__save`, `__commit`, `finalize`, `__init__` (no restriction on the
fault choice), each session either complete or cut at an arbitrary event and crashed with a detectable garbling:
the next start loads, without error, the state committed by the last error-free `finalize` of an instance that
committed its own save (or had nothing to commit), or a snapshot completely saved since. -/
theorem recover_is_snapshot_faulty {σ μ : Type} (c : Cfg σ μ) (hc : c.Lawful) (ss : List (SessionF μ))
    (iv : InvF μ) (cut : Nat) (g : Garble)
    (hd : ∀ s ∈ ss ++ [SessionF.crashed iv cut g], s.Det) :
    let r := runSessionsF c verifyUntrusted FS.empty Ghost.init (ss ++ [.crashed iv cut g])
    ∃ x, (initRun c r.1).res = .ok x ∧ Adm r.2 x := by
  intro r
  have hinv := runSessionsF_inv c hc (ss ++ [.crashed iv cut g]) FS.empty Ghost.init hd (Inv_init c)
  have hr : r = runSessionsF c true FS.empty Ghost.init (ss ++ [.crashed iv cut g]) := by
    simp only [r, modelled_finalize_is_fixed]
  rw [hr]
  exact fresh_start c hc _ _ hinv (runSessionsF_lock c true ss iv cut g _ _)

/-- the same at every prefix of one faulty invocation started from any directory satisfying the invariant:
the crash-stable invariant holds at every event (so the statement above also covers a crash during the
fault handling itself, e.g. between the failed fsync and the unlink) -/
theorem faulty_invocation_every_prefix {σ μ : Type} (c : Cfg σ μ) (hc : c.Lawful) (fs : FS) (G : Ghost σ)
    (iv : InvF μ) (h : Inv c fs G) (n : Nat) (g : Garble) (hg : Detectable g) :
    let evs := (runInvF c true fs iv).take n
    ∃ x, (initRun c (recover (applyEvs fs evs) g)).res = .ok x ∧ Adm (G.run evs) x := by
  intro evs
  have h1 := AllPre_take (runInvF_pre c hc fs G iv h) n
  exact fresh_start c hc _ _ (Inv_recover c _ _ g hg h1) (recover_lock _ g)

/-- the same statement for the code before 99181a7 (`finalize` commits with `verify=False` whatever is there):
NOT a theorem, see `recover_is_snapshot_faulty_old_refuted` -/
def recover_is_snapshot_faulty_old_goal : Prop :=
  ∀ {σ μ : Type} (c : Cfg σ μ), c.Lawful → ∀ (ss : List (SessionF μ)) (iv : InvF μ) (cut : Nat) (g : Garble),
    (∀ s ∈ ss ++ [SessionF.crashed iv cut g], s.Det) →
    ∃ x, (initRun c (runSessionsF c false FS.empty Ghost.init (ss ++ [.crashed iv cut g])).1).res = .ok x ∧
      Adm (runSessionsF c false FS.empty Ghost.init (ss ++ [.crashed iv cut g])).2 x

/-- a failed `__save` (any of the three fault points) raises and leaves the committed file, the uncommitted
file and the lock exactly as they were; only `.dirty` (never read by anybody) changes -/
theorem failed_save_changes_nothing {σ μ : Type} (c : Cfg σ μ) (fs : FS) (s : σ) (sf : SaveFault) :
    (saveF c s (some sf)).2 = true ∧
    (applyEvs fs (saveF c s (some sf)).1) .pickle = fs .pickle ∧
    (applyEvs fs (saveF c s (some sf)).1) .new = fs .new ∧
    (applyEvs fs (saveF c s (some sf)).1) .lock = fs .lock := by
  cases sf <;> simp [saveF, applyEvs, applyEv, applyOp, FS.set]

/-- **fault_then_success_durable.**  Whatever happened before (any directory content `fs`, any in-memory state:
in particular after any history of failed saves, failed commits and crashes): an API call whose `__save`
meets no error followed by a `finalize` that meets no error leaves exactly the then-current in-memory state
committed and synced (the save makes the instance trusted, so also the fixed `finalize` commits it unverified), no
uncommitted file, the lock released; every later crash — with *any* garbling —
recovers exactly that state. -/
theorem fault_then_success_durable {σ μ : Type} (c : Cfg σ μ) (hc : c.Lawful) (fs : FS) (mem : Mem σ) (m : μ)
    (locked vu : Bool) (g : Garble) (ha : mem.async = 0) (hsv : (c.step mem.cur m).2 = true) :
    let r := callStepF c mem none (.mut m)
    let fs1 := applyEvs fs r.2.1
    let fs2 := applyEvs fs1 (finalizeF vu fs1 r.1 locked true FinFault.none)
    savedBy c mem none (.mut m) = true ∧
    r.2.2 = 0 ∧ r.1.cur = (c.step mem.cur m).1 ∧
    fs2 .pickle = some ⟨encS c r.1.cur, true⟩ ∧ fs2 .new = none ∧ (locked = true → fs2 .lock = none) ∧
    (initRun c (recover fs2 g)).res = .ok (some r.1.cur) := by
  intro r fs1 fs2
  have hr : r = (⟨(c.step mem.cur m).1, mem.async, false⟩, saveEvs c (c.step mem.cur m).1, 0) := by
    simp [r, callStepF, hsv, ha, saveF]
  have hfin : finalizeF vu fs1 r.1 locked true FinFault.none =
      (finOpsF fs1 locked false FinFault.none).map .op ++ [.endInv] := by
    simp [finalizeF, finalizeCore, finVerify, finalizeOk, hr, ha, FinFault.none, CF.none]
  have hfs2 : fs2 = applyOps fs1 (finOpsF fs1 locked false FinFault.none) := by
    simp only [fs2, hfin, applyEvs_append, applyEvs_mapop]
    rfl
  have hd := save_fin_durable c hc fs (c.step mem.cur m).1 locked g
  simp only at hd
  have hfs1 : fs1 = applyEvs fs (saveEvs c (c.step mem.cur m).1) := by simp [fs1, hr]
  rw [hfs2, hfs1]
  refine ⟨by simp [savedBy, hsv, ha], by simp [hr], by simp [hr], ?_⟩
  simpa [hr] using hd

/-- **single writer with faults.**  While the lock file exists, a start whose lock creation is answered with
EEXIST is refused having changed nothing, whatever other faults are pending -/
theorem second_instance_refused_faulty {σ μ : Type} (c : Cfg σ μ) (vu : Bool) (fs : FS) (ift : InitFault)
    (h : (fs .lock).isSome = true) (hl : ift.lock = false) :
    (initF c vu fs ift).res = .error .locked ∧ (initF c vu fs ift).evs = [.op (.createExcl .lock)] ∧
      (initF c vu fs ift).locked = false ∧ applyEvs fs (initF c vu fs ift).evs = fs := by
  cases hlk : fs .lock with
  | none => simp [hlk] at h
  | some f => simp [initF, hl, hlk, applyEvs, applyEv, applyOp]

/-- the interleaving statement with faults (goal only, NOT proved: the induction over `step2F` is missing; the
three facts it rests on are the theorems `second_instance_refused_faulty`, `lock_holder_created_lock`,
`unlocked_instance_never_unlocks` around it).  Note what it does *not* say: an instance whose lock creation
failed with an errno other than EEXIST runs without the lock (warning only), so two instances can be live. -/
def single_writer_faulty_goal : Prop :=
  ∀ {σ μ : Type} (c : Cfg σ μ) (acts : List (ActF μ)),
    let w := run2F c ⟨FS.empty, none, none⟩ acts
    ¬ (holdsLock w.ma = true ∧ holdsLock w.mb = true) ∧
      ((holdsLock w.ma = true ∨ holdsLock w.mb = true) → (w.fs .lock).isSome = true)

/-- an instance that holds the lock created it itself: its start found no lock file -/
theorem lock_holder_created_lock {σ μ : Type} (c : Cfg σ μ) (vu : Bool) (fs : FS) (ift : InitFault)
    (h : (initF c vu fs ift).locked = true) : fs .lock = none ∧ ift.lock = false := by
  unfold initF at h
  split at h
  · cases h
  · rename_i hc
    cases hl : ift.lock with
    | true =>
      exfalso
      simp only [hl] at h
      repeat' split at h
      all_goals simp at h
    | false =>
      cases hk : fs .lock with
      | none => exact ⟨rfl, rfl⟩
      | some f => simp [hl, hk] at hc

/-- an instance that runs unlocked (non-EEXIST error at the lock creation: warning only — this is the code)
never removes the lock file of another instance: neither its `finalize` nor any of its calls -/
theorem unlocked_instance_never_unlocks {σ μ : Type} (c : Cfg σ μ) (vu t : Bool) (fs : FS) (mem : Mem σ) (ff : FinFault)
    (sf : Option SaveFault) (cl : Call μ) :
    (applyEvs fs (finalizeF vu fs mem false t ff)) .lock = fs .lock ∧
    (applyEvs fs (callStepF c mem sf cl).2.1) .lock = fs .lock := by
  constructor
  · unfold finalizeF finalizeCore
    split
    · rw [applyEvs_append, applyEvs_mapop]
      have : finOpsF fs false (finVerify vu t) ff = commitF fs (finVerify vu t) ff.commit := by simp [finOpsF]
      rw [this]
      split <;> simp [applyEvs, applyEv, commitF_lock]
    · rfl
  · have hsv : ∀ s, (applyEvs fs (saveF c s sf).1) .lock = fs .lock := by
      intro s
      cases sf with
      | none => exact saveEvs_lock c fs s
      | some f => exact (failed_save_changes_nothing c fs s f).2.2.2
    cases cl with
    | «mut» m =>
      simp only [callStepF]
      split
      · split
        · exact hsv _
        · rfl
      · rfl
    | setAsync => rfl
    | setSync =>
      simp only [callStepF]
      split
      · rfl
      · split
        · exact hsv _
        · rfl

/-! ### the hypotheses are satisfiable: a small concrete instance -/

/-- toy codec: states are bytes, the pickle is `[version, state]` -/
def toy : Cfg UInt8 UInt8 where
  pickle v s := [UInt8.ofNat v, s]
  unpickle d := match d with
    | v :: s :: _ => some (v.toNat, s)
    | _ => none
  up _ s := s
  default := 0
  step _ m := (m, true)

example : toy.Lawful := by
  intro s t
  simp [toy, Consts.C10.curVersion]

/-- two invocations, the second cut after its save's rename, the uncommitted file garbled to nothing:
the recovery is the state of the first invocation -/
example :
    let evs := (runHist toy FS.empty [[.mut 7], [.mut 9]]).take 22
    (initRun toy (recover (applyOps FS.empty (evOps evs)) (fun _ _ => []))).res = .ok (some 7) := by
  rfl

/-- ... and intact it is the newer snapshot -/
example :
    let evs := (runHist toy FS.empty [[.mut 7], [.mut 9]]).take 22
    (initRun toy (recover (applyOps FS.empty (evOps evs)) (fun _ d => d))).res = .ok (some 9) := by
  rfl

example : Inside (μ := UInt8) 1 [.mut 1, .setAsync, .mut 2, .setSync, .mut 3] ∧
    depthAfter (μ := UInt8) 1 [.mut 1, .setAsync, .mut 2, .setSync, .mut 3] = 1 := by
  simp [Inside, depthAfter]

/-! ### the full-strength fault statement fails for the code before 99181a7, and holds for the fixed code -/

/-- the failing history: (1) an invocation saves 7 and finalizes; (2) the next saves 9 and the machine crashes
right after the rename of `__save`, the unsynced uncommitted file comes back empty; (3) the next start rejects
it, but the `os.unlink` of the rejected file fails (warning only) — the invocation saves nothing and its
`finalize` commits the rejected file *without verification* over the good state; (4) the next start cannot
decode the state file. -/
def cexSessions : List (SessionF UInt8) :=
  [ .complete ⟨InitFault.none, [(.mut 7, none)], FinFault.none⟩,
    .crashed ⟨InitFault.none, [(.mut 9, none)], FinFault.none⟩ 9 (fun _ _ => []),
    .complete ⟨⟨false, ⟨none, true⟩, false, FinFault.none⟩, [], FinFault.none⟩ ]

theorem cex_unreadable :
    (initRun toy (runSessionsF toy false FS.empty Ghost.init
      (cexSessions ++ [.crashed ⟨InitFault.none, [], FinFault.none⟩ 0 (fun _ d => d)])).1).res =
      .error (.load .decode) := by
  rfl

/-- the same history on the fixed code: the untrusted `finalize` verifies and discards the left-over, the good
state stays -/
example :
    (initRun toy (runSessionsF toy true FS.empty Ghost.init
      (cexSessions ++ [.crashed ⟨InitFault.none, [], FinFault.none⟩ 0 (fun _ d => d)])).1).res =
      .ok (some 7) := by
  rfl

theorem recover_is_snapshot_faulty_old_refuted : ¬ recover_is_snapshot_faulty_old_goal := by
  intro h
  have hl : toy.Lawful := by
    intro s t
    simp [toy, Consts.C10.curVersion]
  have hdet : ∀ s ∈ cexSessions ++ [SessionF.crashed ⟨InitFault.none, [], FinFault.none⟩ 0 (fun _ d => d)], s.Det := by
    intro s hs
    simp [cexSessions] at hs
    rcases hs with hs | hs | hs | hs <;> subst hs
    · trivial
    · exact detectable_examples.2.2.1
    · trivial
    · exact detectable_examples.1
  obtain ⟨x, hx, _⟩ := h toy hl cexSessions ⟨InitFault.none, [], FinFault.none⟩ 0 (fun _ d => d) hdet
  rw [cex_unreadable] at hx
  cases hx

/-- a faulty history: ENOSPC in the write of
the second save, a failed fsync in `finalize` (the code deletes the uncommitted file): the first snapshot -/
example :
    (initRun toy (runSessionsF toy true FS.empty Ghost.init
      [.complete ⟨InitFault.none, [(.mut 7, none), (.mut 9, some (.write 1))], ⟨⟨some .fsync, false⟩, false⟩⟩,
       .crashed ⟨InitFault.none, [], FinFault.none⟩ 0 (fun _ _ => [])]).1).res = .ok none := by
  rfl

end C10
